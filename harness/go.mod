module verif/harness

go 1.23.0

require (
	github.com/filecoin-project/go-jsonrpc v0.0.0
	github.com/google/uuid v1.1.1
	github.com/gorilla/mux v1.7.4
	github.com/gorilla/websocket v1.4.2
	github.com/ipfs/go-log/v2 v2.0.8
	golang.org/x/xerrors v0.0.0-20191204190536-9bdfabe68543
)

require (
	github.com/golang/groupcache v0.0.0-20190702054246-869f871628b6 // indirect
	go.opencensus.io v0.22.3 // indirect
	go.uber.org/atomic v1.6.0 // indirect
	go.uber.org/multierr v1.5.0 // indirect
	go.uber.org/zap v1.14.1 // indirect
)

replace github.com/filecoin-project/go-jsonrpc => /repo

// extract — regenerates Jrpc/Generated/Facts.lean from the repository's working tree.
//
// It is a fact finder built on go/parser + go/ast (no type checking, so it never needs the
// dependencies): each fact is a small piece of AST matching, written out as a Lean definition, and
// JrpcProofs/Facts.lean holds the hand-written expectation for it.  A fact that cannot be found is
// written as a value that makes its obligation fail (never silently defaulted to the expected one).
package main

import (
	"bytes"
	"encoding/json"
	"flag"
	"fmt"
	"go/ast"
	"go/parser"
	"go/printer"
	"go/token"
	"os"
	"path/filepath"
	"reflect"
	"sort"
	"strconv"
	"strings"
)

type pkgInfo struct {
	fset  *token.FileSet
	files map[string]*ast.File // by base name
}

func load(dir string) *pkgInfo {
	fset := token.NewFileSet()
	p := &pkgInfo{fset: fset, files: map[string]*ast.File{}}
	ents, err := os.ReadDir(dir)
	if err != nil {
		fatal(err)
	}
	for _, e := range ents {
		n := e.Name()
		if !strings.HasSuffix(n, ".go") || strings.HasSuffix(n, "_test.go") || strings.HasPrefix(n, "verif_") {
			continue
		}
		f, err := parser.ParseFile(fset, filepath.Join(dir, n), nil, parser.ParseComments)
		if err != nil {
			fatal(err)
		}
		p.files[n] = f
	}
	return p
}

func fatal(err error) {
	fmt.Fprintln(os.Stderr, "extract:", err)
	os.Exit(1)
}

func (p *pkgInfo) src(n ast.Node) string {
	var b bytes.Buffer
	printer.Fprint(&b, p.fset, n)
	return b.String()
}

// funcDecl finds a function or method by name (recv "" = plain function, else receiver type name).
func (p *pkgInfo) funcDecl(recv, name string) *ast.FuncDecl {
	for _, f := range p.files {
		for _, d := range f.Decls {
			fd, ok := d.(*ast.FuncDecl)
			if !ok || fd.Name.Name != name {
				continue
			}
			r := ""
			if fd.Recv != nil && len(fd.Recv.List) == 1 {
				t := fd.Recv.List[0].Type
				if s, ok := t.(*ast.StarExpr); ok {
					t = s.X
				}
				if id, ok := t.(*ast.Ident); ok {
					r = id.Name
				}
			}
			if r == recv {
				return fd
			}
		}
	}
	return nil
}

func (p *pkgInfo) allFuncs() []*ast.FuncDecl {
	var out []*ast.FuncDecl
	names := []string{}
	for n := range p.files {
		names = append(names, n)
	}
	sort.Strings(names)
	for _, n := range names {
		for _, d := range p.files[n].Decls {
			if fd, ok := d.(*ast.FuncDecl); ok {
				out = append(out, fd)
			}
		}
	}
	return out
}

func funcKey(fd *ast.FuncDecl) string {
	if fd.Recv != nil && len(fd.Recv.List) == 1 {
		t := fd.Recv.List[0].Type
		if s, ok := t.(*ast.StarExpr); ok {
			t = s.X
		}
		if id, ok := t.(*ast.Ident); ok {
			return id.Name + "." + fd.Name.Name
		}
	}
	return fd.Name.Name
}

// ---- constant evaluation (integers and time.Duration products only) ----

var timeUnits = map[string]int64{"Nanosecond": 1, "Microsecond": 1e3, "Millisecond": 1e6, "Second": 1e9, "Minute": 60e9, "Hour": 3600e9}

func (p *pkgInfo) evalInt(e ast.Expr, consts map[string]ast.Expr, depth int) (int64, bool) {
	if depth > 10 {
		return 0, false
	}
	switch x := e.(type) {
	case *ast.BasicLit:
		if x.Kind == token.INT {
			v, err := strconv.ParseInt(x.Value, 0, 64)
			return v, err == nil
		}
	case *ast.ParenExpr:
		return p.evalInt(x.X, consts, depth+1)
	case *ast.UnaryExpr:
		v, ok := p.evalInt(x.X, consts, depth+1)
		if ok && x.Op == token.SUB {
			return -v, true
		}
		if ok && x.Op == token.ADD {
			return v, true
		}
	case *ast.BinaryExpr:
		a, ok1 := p.evalInt(x.X, consts, depth+1)
		b, ok2 := p.evalInt(x.Y, consts, depth+1)
		if ok1 && ok2 {
			switch x.Op {
			case token.MUL:
				return a * b, true
			case token.ADD:
				return a + b, true
			case token.SUB:
				return a - b, true
			case token.SHL:
				return a << uint(b), true
			case token.QUO:
				if b != 0 {
					return a / b, true
				}
			}
		}
	case *ast.SelectorExpr:
		if id, ok := x.X.(*ast.Ident); ok && id.Name == "time" {
			if u, ok := timeUnits[x.Sel.Name]; ok {
				return u, true
			}
		}
	case *ast.Ident:
		if c, ok := consts[x.Name]; ok {
			return p.evalInt(c, consts, depth+1)
		}
	case *ast.CallExpr: // conversions such as ErrorCode(1)
		if len(x.Args) == 1 {
			return p.evalInt(x.Args[0], consts, depth+1)
		}
	}
	return 0, false
}

// packageValues collects top-level const and var initialisers by name.
func (p *pkgInfo) packageValues() map[string]ast.Expr {
	out := map[string]ast.Expr{}
	for _, f := range p.files {
		for _, d := range f.Decls {
			gd, ok := d.(*ast.GenDecl)
			if !ok || (gd.Tok != token.CONST && gd.Tok != token.VAR) {
				continue
			}
			for _, s := range gd.Specs {
				vs := s.(*ast.ValueSpec)
				for i, n := range vs.Names {
					if i < len(vs.Values) {
						out[n.Name] = vs.Values[i]
					}
				}
			}
		}
	}
	return out
}

// ---- Lean emission ----

type facts struct {
	lean bytes.Buffer
	js   map[string]interface{}
}

// leanStr renders s as a Lean string literal (Lean knows \n \t \r \\ \" \xHH \uHHHH; not Go's \a \b \f \v \U).
func leanStr(s string) string {
	var b strings.Builder
	b.WriteByte('"')
	for _, r := range s {
		switch {
		case r == '"':
			b.WriteString("\\\"")
		case r == '\\':
			b.WriteString("\\\\")
		case r == '\n':
			b.WriteString("\\n")
		case r == '\t':
			b.WriteString("\\t")
		case r == '\r':
			b.WriteString("\\r")
		case r < 0x20 || r == 0x7f:
			fmt.Fprintf(&b, "\\x%02x", r)
		case r == 0xFFFD:
			b.WriteString("\\uFFFD")
		default:
			b.WriteRune(r)
		}
	}
	b.WriteByte('"')
	return b.String()
}

func (f *facts) defInt(name string, v int64, ok bool) {
	f.js[name] = v
	if !ok {
		f.js[name] = "NOT-FOUND"
		fmt.Fprintf(&f.lean, "def %s : Option Int := none\n", name)
		return
	}
	fmt.Fprintf(&f.lean, "def %s : Option Int := some (%d)\n", name, v)
}

func (f *facts) defStr(name, v string, ok bool) {
	f.js[name] = v
	if !ok {
		fmt.Fprintf(&f.lean, "def %s : Option String := none\n", name)
		return
	}
	fmt.Fprintf(&f.lean, "def %s : Option String := some %s\n", name, leanStr(v))
}

func (f *facts) defBool(name string, v bool) {
	f.js[name] = v
	fmt.Fprintf(&f.lean, "def %s : Bool := %v\n", name, v)
}

func (f *facts) defStrList(name string, vs []string) {
	if vs == nil {
		vs = []string{}
	}
	f.js[name] = vs
	q := make([]string, len(vs))
	for i, v := range vs {
		q[i] = leanStr(v)
	}
	fmt.Fprintf(&f.lean, "def %s : List String := [%s]\n", name, strings.Join(q, ", "))
}

func (f *facts) defPairs(name string, vs [][2]string) {
	f.js[name] = vs
	q := make([]string, len(vs))
	for i, v := range vs {
		q[i] = "(" + leanStr(v[0]) + ", " + leanStr(v[1]) + ")"
	}
	fmt.Fprintf(&f.lean, "def %s : List (String × String) := [%s]\n", name, strings.Join(q, ", "))
}

func (f *facts) comment(s string) { fmt.Fprintf(&f.lean, "\n-- %s\n", s) }

// ---- helpers over statements ----

func callName(c *ast.CallExpr) string {
	switch fn := c.Fun.(type) {
	case *ast.Ident:
		return fn.Name
	case *ast.SelectorExpr:
		return selString(fn)
	}
	return ""
}

func selString(e ast.Expr) string {
	switch x := e.(type) {
	case *ast.Ident:
		return x.Name
	case *ast.SelectorExpr:
		return selString(x.X) + "." + x.Sel.Name
	case *ast.CallExpr:
		return selString(x.Fun) + "()"
	case *ast.StarExpr:
		return selString(x.X)
	case *ast.ParenExpr:
		return selString(x.X)
	case *ast.IndexExpr:
		return selString(x.X) + "[]"
	}
	return "?"
}

func conjuncts(e ast.Expr, p *pkgInfo) []string {
	if b, ok := e.(*ast.BinaryExpr); ok && b.Op == token.LAND {
		return append(conjuncts(b.X, p), conjuncts(b.Y, p)...)
	}
	if pe, ok := e.(*ast.ParenExpr); ok {
		return conjuncts(pe.X, p)
	}
	return []string{p.src(e)}
}

func structTags(p *pkgInfo, typeName string) [][2]string {
	var out [][2]string
	for _, f := range p.files {
		ast.Inspect(f, func(n ast.Node) bool {
			ts, ok := n.(*ast.TypeSpec)
			if !ok || ts.Name.Name != typeName {
				return true
			}
			st, ok := ts.Type.(*ast.StructType)
			if !ok {
				return true
			}
			for _, fl := range st.Fields.List {
				tag := ""
				if fl.Tag != nil {
					s, _ := strconv.Unquote(fl.Tag.Value)
					tag = reflect.StructTag(s).Get("json")
				}
				for _, n := range fl.Names {
					out = append(out, [2]string{n.Name, tag})
				}
			}
			return false
		})
	}
	return out
}

// ---- statement skeletons: a normalised, line-per-statement rendering of a function body ----
// log.* statements and comments are dropped, whitespace is collapsed, function literals are
// rendered as nested blocks.  Any change to control flow, conditions, channel operations or calls
// changes the skeleton; formatting, comments and log lines do not.

var wsRe = strings.NewReplacer("\n", " ", "\t", " ")

func oneLine(s string) string {
	s = wsRe.Replace(s)
	for strings.Contains(s, "  ") {
		s = strings.ReplaceAll(s, "  ", " ")
	}
	return strings.TrimSpace(s)
}

func isLogCall(e ast.Expr) bool {
	c, ok := e.(*ast.CallExpr)
	if !ok {
		return false
	}
	n := callName(c)
	return strings.HasPrefix(n, "log.") || strings.HasPrefix(n, "stats.Record") || n == "vhook"
}

var builtinFuncs = map[string]bool{"len": true, "cap": true, "string": true, "int": true, "int64": true, "uint64": true, "float64": true,
	"append": true, "make": true, "new": true, "error": true, "byte": true, "rune": true, "bool": true, "uint": true, "int32": true, "uint32": true}

// logArgCalls: package-level functions called inside the arguments of a log statement. The statement itself leaves no
// trace in a skeleton, but code it runs does (a helper that formats a stack, say, runs inside the function).
func logArgCalls(e ast.Expr) []string {
	c, ok := e.(*ast.CallExpr)
	if !ok {
		return nil
	}
	var out []string
	for _, a := range c.Args {
		ast.Inspect(a, func(n ast.Node) bool {
			if cc, ok := n.(*ast.CallExpr); ok {
				if id, ok := cc.Fun.(*ast.Ident); ok && !builtinFuncs[id.Name] {
					out = append(out, id.Name)
				}
			}
			return true
		})
	}
	return out
}

// exprLine renders an expression with function literals replaced by "func{…}" and returns them.
func (p *pkgInfo) exprLine(n ast.Node) (string, []*ast.FuncLit) {
	var lits []*ast.FuncLit
	ast.Inspect(n, func(m ast.Node) bool {
		if fl, ok := m.(*ast.FuncLit); ok {
			lits = append(lits, fl)
			return false
		}
		return true
	})
	src := p.src(n)
	for _, fl := range lits {
		src = strings.Replace(src, p.src(fl), "func{…}", 1)
	}
	return oneLine(src), lits
}

func (p *pkgInfo) skel(stmts []ast.Stmt, depth int, out *[]string) {
	ind := strings.Repeat("  ", depth)
	emit := func(s string) { *out = append(*out, ind+s) }
	simple := func(n ast.Node, prefix string) {
		line, lits := p.exprLine(n)
		emit(prefix + line)
		for _, fl := range lits {
			p.skel(fl.Body.List, depth+1, out)
		}
	}
	for _, st := range stmts {
		switch x := st.(type) {
		case *ast.ExprStmt:
			if isLogCall(x.X) {
				if cs := logArgCalls(x.X); len(cs) > 0 {
					emit("log-args call " + strings.Join(cs, ", "))
				}
				continue
			}
			simple(x, "")
		case *ast.IfStmt:
			hdr := "if "
			if x.Init != nil {
				l, _ := p.exprLine(x.Init)
				hdr += l + "; "
			}
			c, _ := p.exprLine(x.Cond)
			emit(hdr + c)
			p.skel(x.Body.List, depth+1, out)
			for el := x.Else; el != nil; {
				switch e := el.(type) {
				case *ast.BlockStmt:
					emit("else")
					p.skel(e.List, depth+1, out)
					el = nil
				case *ast.IfStmt:
					c, _ := p.exprLine(e.Cond)
					emit("else if " + c)
					p.skel(e.Body.List, depth+1, out)
					el = e.Else
				default:
					el = nil
				}
			}
		case *ast.ForStmt:
			hdr := "for"
			if x.Cond != nil {
				c, _ := p.exprLine(x.Cond)
				hdr += " " + c
			}
			emit(hdr)
			p.skel(x.Body.List, depth+1, out)
		case *ast.RangeStmt:
			c, _ := p.exprLine(x.X)
			emit("range " + c)
			p.skel(x.Body.List, depth+1, out)
		case *ast.SelectStmt:
			emit("select")
			for _, cc := range x.Body.List {
				cl := cc.(*ast.CommClause)
				if cl.Comm == nil {
					emit("  default")
				} else {
					c, _ := p.exprLine(cl.Comm)
					emit("  case " + c)
				}
				p.skel(cl.Body, depth+2, out)
			}
		case *ast.SwitchStmt:
			hdr := "switch"
			if x.Tag != nil {
				c, _ := p.exprLine(x.Tag)
				hdr += " " + c
			}
			emit(hdr)
			for _, cc := range x.Body.List {
				cl := cc.(*ast.CaseClause)
				if cl.List == nil {
					emit("  default")
				} else {
					var es []string
					for _, e := range cl.List {
						c, _ := p.exprLine(e)
						es = append(es, c)
					}
					emit("  case " + strings.Join(es, ", "))
				}
				p.skel(cl.Body, depth+2, out)
			}
		case *ast.TypeSwitchStmt:
			c, _ := p.exprLine(x.Assign)
			emit("typeswitch " + c)
			for _, cc := range x.Body.List {
				cl := cc.(*ast.CaseClause)
				if cl.List == nil {
					emit("  default")
				} else {
					var es []string
					for _, e := range cl.List {
						c, _ := p.exprLine(e)
						es = append(es, c)
					}
					emit("  case " + strings.Join(es, ", "))
				}
				p.skel(cl.Body, depth+2, out)
			}
		case *ast.BlockStmt:
			p.skel(x.List, depth, out)
		case *ast.LabeledStmt:
			emit(x.Label.Name + ":")
			p.skel([]ast.Stmt{x.Stmt}, depth, out)
		case *ast.DeclStmt:
			simple(x, "")
		case *ast.DeferStmt:
			if isLogCall(x.Call) {
				continue // instrumentation
			}
			simple(st, "")
		default: // assign, incdec, send, return, go, defer, branch
			simple(st, "")
		}
	}
}

func (f *facts) defSkeleton(p *pkgInfo, name, recv, fn string) {
	var lines []string
	if fd := p.funcDecl(recv, fn); fd != nil && fd.Body != nil {
		p.skel(fd.Body.List, 0, &lines)
	}
	f.js[name] = lines
	q := make([]string, len(lines))
	for i, v := range lines {
		q[i] = "  " + leanStr(v)
	}
	fmt.Fprintf(&f.lean, "def %s : List String := [\n%s]\n", name, strings.Join(q, ",\n"))
}

func main() {
	repo := flag.String("repo", "/repo", "repository root")
	leanOut := flag.String("lean", "", "Facts.lean to write")
	jsonOut := flag.String("json", "", "facts.json to write")
	progsOut := flag.String("progs", "", "Progs.lean to write (MiniGo translation of every function)")
	flag.Parse()

	p := load(*repo)
	f := &facts{js: map[string]interface{}{}}
	f.lean.WriteString("/-\n  GENERATED by /verif/harness/cmd/extract from the repository's working tree — do not edit.\n  Each definition is a fact read off the Go source; JrpcProofs/Facts.lean states what the model expects.\n-/\nnamespace Jrpc.Generated\n")
	vals := p.packageValues()

	// 1. constants
	f.comment("constants")
	for _, name := range []string{"eTempWSError", "rpcParseError", "rpcInvalidRequest", "rpcMethodNotFound", "rpcInvalidParams",
		"DEFAULT_MAX_REQUEST_SIZE", "methodMinRetryDelay", "methodMaxRetryDelay", "maxQueuedFrames", "FirstUserCode", "onReadDeadlineResetInterval"} {
		e, ok := vals[name]
		var v int64
		if ok {
			v, ok = p.evalInt(e, vals, 0)
		}
		f.defInt(name, v, ok)
	}
	for _, name := range []string{"wsCancel", "chValue", "chClose", "ProxyTagRetry", "ProxyTagNotify", "ProxyTagRPCMethod"} {
		e, ok := vals[name]
		s := ""
		if ok {
			if bl, isLit := e.(*ast.BasicLit); isLit && bl.Kind == token.STRING {
				s, _ = strconv.Unquote(bl.Value)
			} else {
				ok = false
			}
		}
		f.defStr(name, s, ok)
	}
	// defaults of defaultConfig / defaultServerConfig
	f.comment("defaults set by defaultConfig() and defaultServerConfig()")
	for _, spec := range []struct{ fn, field, out string }{
		{"defaultConfig", "minDelay", "defaultReconnectMinDelay"},
		{"defaultConfig", "maxDelay", "defaultReconnectMaxDelay"},
		{"defaultConfig", "pingInterval", "defaultClientPingInterval"},
		{"defaultConfig", "timeout", "defaultClientTimeout"},
		{"defaultServerConfig", "pingInterval", "defaultServerPingInterval"},
		{"defaultServerConfig", "maxRequestSize", "defaultServerMaxRequestSize"},
	} {
		var v int64
		ok := false
		if fd := p.funcDecl("", spec.fn); fd != nil {
			ast.Inspect(fd, func(n ast.Node) bool {
				kv, isKV := n.(*ast.KeyValueExpr)
				if !isKV {
					return true
				}
				if id, isID := kv.Key.(*ast.Ident); isID && id.Name == spec.field {
					v, ok = p.evalInt(kv.Value, vals, 0)
				}
				return true
			})
		}
		f.defInt(spec.out, v, ok)
	}

	// 2. response.MarshalJSON: keys always present, keys of the error branch and of the other branch
	f.comment("response.MarshalJSON: map literal keys; keys assigned when r.Error != nil; keys assigned otherwise")
	{
		var base, thenK, elseK []string
		cond := ""
		if fd := p.funcDecl("response", "MarshalJSON"); fd != nil {
			keysAssigned := func(b *ast.BlockStmt) []string {
				var ks []string
				if b == nil {
					return ks
				}
				for _, s := range b.List {
					if as, ok := s.(*ast.AssignStmt); ok && len(as.Lhs) == 1 {
						if ix, ok := as.Lhs[0].(*ast.IndexExpr); ok {
							if bl, ok := ix.Index.(*ast.BasicLit); ok {
								k, _ := strconv.Unquote(bl.Value)
								ks = append(ks, k)
							}
						}
					}
				}
				return ks
			}
			for _, s := range fd.Body.List {
				switch st := s.(type) {
				case *ast.AssignStmt:
					if cl, ok := st.Rhs[0].(*ast.CompositeLit); ok {
						for _, el := range cl.Elts {
							if kv, ok := el.(*ast.KeyValueExpr); ok {
								if bl, ok := kv.Key.(*ast.BasicLit); ok {
									k, _ := strconv.Unquote(bl.Value)
									base = append(base, k)
								}
							}
						}
					}
				case *ast.IfStmt:
					cond = p.src(st.Cond)
					thenK = keysAssigned(st.Body)
					if eb, ok := st.Else.(*ast.BlockStmt); ok {
						elseK = keysAssigned(eb)
					}
				}
			}
		}
		f.defStrList("responseMarshalBaseKeys", base)
		f.defStr("responseMarshalCond", cond, cond != "")
		f.defStrList("responseMarshalErrorBranchKeys", thenK)
		f.defStrList("responseMarshalOtherBranchKeys", elseK)
	}

	// 3. struct tags
	f.comment("json struct tags (field, tag)")
	for _, tn := range []string{"request", "response", "frame", "clientResponse", "JSONRPCError"} {
		f.defPairs("tags_"+tn, structTags(p, tn))
	}

	// 4. doCall: defer + recover, and where handler functions are called
	f.comment("doCall recovers; handler functions are only invoked through doCall")
	{
		hasDeferRecover := false
		callsInDoCall := []string{}
		if fd := p.funcDecl("", "doCall"); fd != nil {
			for _, s := range fd.Body.List {
				if ds, ok := s.(*ast.DeferStmt); ok {
					ast.Inspect(ds, func(n ast.Node) bool {
						if c, ok := n.(*ast.CallExpr); ok && callName(c) == "recover" {
							hasDeferRecover = true
						}
						return true
					})
				}
			}
			// the deferred recover must come before the call
			seenDefer := false
			for _, s := range fd.Body.List {
				if _, ok := s.(*ast.DeferStmt); ok {
					seenDefer = true
				}
				ast.Inspect(s, func(n ast.Node) bool {
					if c, ok := n.(*ast.CallExpr); ok {
						if se, ok := c.Fun.(*ast.SelectorExpr); ok && (se.Sel.Name == "Call" || se.Sel.Name == "CallSlice") {
							if _, isDefer := s.(*ast.DeferStmt); !isDefer {
								callsInDoCall = append(callsInDoCall, fmt.Sprintf("%s afterDefer=%v", selString(c.Fun), seenDefer))
							}
						}
					}
					return true
				})
			}
		}
		f.defBool("doCallDefersRecover", hasDeferRecover)
		f.defStrList("doCallReflectCalls", callsInDoCall)
		// every use of `.handlerFunc` in package jsonrpc: "<function>: <how>"
		var uses []string
		for _, fd := range p.allFuncs() {
			if fd.Body == nil {
				continue
			}
			var stack []ast.Node
			ast.Inspect(fd.Body, func(n ast.Node) bool {
				if n == nil {
					stack = stack[:len(stack)-1]
					return true
				}
				stack = append(stack, n)
				se, ok := n.(*ast.SelectorExpr)
				if !ok || se.Sel.Name != "handlerFunc" {
					return true
				}
				how := "other"
				if len(stack) >= 2 {
					switch par := stack[len(stack)-2].(type) {
					case *ast.CallExpr:
						how = "arg-of " + callName(par)
					case *ast.SelectorExpr:
						how = "method " + par.Sel.Name
					case *ast.KeyValueExpr:
						how = "field-init"
					}
				}
				uses = append(uses, funcKey(fd)+": "+how)
				return true
			})
		}
		sort.Strings(uses)
		f.defStrList("handlerFuncUses", uses)
		// any reflect .Call( outside doCall in package jsonrpc
		var otherCalls []string
		for _, fd := range p.allFuncs() {
			if fd.Body == nil || funcKey(fd) == "doCall" {
				continue
			}
			ast.Inspect(fd.Body, func(n ast.Node) bool {
				if c, ok := n.(*ast.CallExpr); ok {
					if se, ok := c.Fun.(*ast.SelectorExpr); ok && (se.Sel.Name == "Call" || se.Sel.Name == "CallSlice") {
						otherCalls = append(otherCalls, funcKey(fd)+": "+selString(c.Fun))
					}
				}
				return true
			})
		}
		sort.Strings(otherCalls)
		f.defStrList("reflectCallsOutsideDoCall", otherCalls)
	}

	// 5. normalizeID type switch
	f.comment("normalizeID: (types of a case clause, what it returns)")
	{
		var arms [][2]string
		if fd := p.funcDecl("", "normalizeID"); fd != nil {
			ast.Inspect(fd, func(n ast.Node) bool {
				ts, ok := n.(*ast.TypeSwitchStmt)
				if !ok {
					return true
				}
				for _, c := range ts.Body.List {
					cc := c.(*ast.CaseClause)
					var tys []string
					for _, t := range cc.List {
						tys = append(tys, p.src(t))
					}
					if cc.List == nil {
						tys = []string{"default"}
					}
					ret := ""
					for _, s := range cc.Body {
						if r, ok := s.(*ast.ReturnStmt); ok && len(r.Results) == 2 {
							ret = p.src(r.Results[0]) + " | err=" + strconv.FormatBool(p.src(r.Results[1]) != "nil")
						}
					}
					arms = append(arms, [2]string{strings.Join(tys, ","), ret})
				}
				return false
			})
		}
		f.defPairs("normalizeIDArms", arms)
		// the same switch with the case types as a list (for the interpreter in JrpcProofs/Facts/Interp.lean)
		var rows []string
		for _, a := range arms {
			var tys []string
			for _, t := range strings.Split(a[0], ",") {
				tys = append(tys, leanStr(t))
			}
			rows = append(rows, fmt.Sprintf("([%s], %s)", strings.Join(tys, ", "), leanStr(a[1])))
		}
		fmt.Fprintf(&f.lean, "def normalizeIDArmTypes : List (List String × String) := [%s]\n", strings.Join(rows, ", "))
	}

	// 6. handleFrame switch
	f.comment("handleFrame: frame.Method ↦ function called")
	{
		var arms [][2]string
		if fd := p.funcDecl("wsConn", "handleFrame"); fd != nil {
			ast.Inspect(fd, func(n ast.Node) bool {
				sw, ok := n.(*ast.SwitchStmt)
				if !ok {
					return true
				}
				for _, c := range sw.Body.List {
					cc := c.(*ast.CaseClause)
					key := "default"
					if len(cc.List) == 1 {
						key = p.src(cc.List[0])
						if e, ok := vals[key]; ok {
							if bl, ok := e.(*ast.BasicLit); ok {
								key, _ = strconv.Unquote(bl.Value)
							}
						} else if bl, ok := cc.List[0].(*ast.BasicLit); ok {
							key, _ = strconv.Unquote(bl.Value)
						}
					}
					callee := ""
					for _, s := range cc.Body {
						if es, ok := s.(*ast.ExprStmt); ok {
							if c, ok := es.X.(*ast.CallExpr); ok {
								callee = callName(c)
							}
						}
					}
					arms = append(arms, [2]string{key, callee})
				}
				return false
			})
		}
		f.defPairs("handleFrameTable", arms)
	}

	// 7. retry condition in handleRpcCall
	f.comment("handleRpcCall: conjuncts of the retry condition; where the id counter is bumped")
	{
		var conj []string
		idBumpInLoop := false
		idBumps := 0
		if fd := p.funcDecl("rpcFunc", "handleRpcCall"); fd != nil {
			ast.Inspect(fd, func(n ast.Node) bool {
				if as, ok := n.(*ast.AssignStmt); ok && len(as.Lhs) == 1 {
					if id, ok := as.Lhs[0].(*ast.Ident); ok && id.Name == "retry" {
						conj = conjuncts(as.Rhs[0], p)
					}
				}
				if c, ok := n.(*ast.CallExpr); ok && callName(c) == "atomic.AddInt64" {
					idBumps++
				}
				if fs, ok := n.(*ast.ForStmt); ok {
					ast.Inspect(fs.Body, func(m ast.Node) bool {
						if c, ok := m.(*ast.CallExpr); ok && callName(c) == "atomic.AddInt64" {
							idBumpInLoop = true
						}
						return true
					})
				}
				return true
			})
		}
		sort.Strings(conj)
		f.defStrList("retryConjuncts", conj)
		f.defBool("idCounterBumpedInsideRetryLoop", idBumpInLoop)
		f.defInt("idCounterBumps", int64(idBumps), true)
	}

	// 8. handleWsConn defers (in source order) and tryReconnect's synchronous calls
	f.comment("handleWsConn: deferred calls in source order (they run in reverse); tryReconnect: calls before the redial goroutine")
	{
		var defers []string
		if fd := p.funcDecl("wsConn", "handleWsConn"); fd != nil {
			for _, s := range fd.Body.List {
				collectDefers(p, s, &defers)
			}
		}
		f.defStrList("handleWsConnDefers", defers)
		var calls []string
		if fd := p.funcDecl("wsConn", "tryReconnect"); fd != nil {
			for _, s := range fd.Body.List {
				switch st := s.(type) {
				case *ast.ExprStmt:
					if c, ok := st.X.(*ast.CallExpr); ok {
						calls = append(calls, callName(c))
					}
				case *ast.AssignStmt:
					calls = append(calls, "assign "+selString(st.Lhs[0]))
				case *ast.GoStmt:
					calls = append(calls, "go")
				}
			}
		}
		f.defStrList("tryReconnectSteps", calls)
	}

	// 9. handler.handle: table lookups in source order, and the milestones that precede doCall
	f.comment("handler.handle: map lookups in source order; rpcError codes / decode steps / doCall in source order")
	{
		var lookups, miles []string
		if fd := p.funcDecl("handler", "handle"); fd != nil {
			ast.Inspect(fd.Body, func(n ast.Node) bool {
				switch x := n.(type) {
				case *ast.IndexExpr:
					base := selString(x.X)
					if base == "s.methods" || base == "s.aliasedMethods" {
						lookups = append(lookups, p.src(x))
					}
				case *ast.CallExpr:
					switch callName(x) {
					case "rpcError":
						if len(x.Args) >= 3 {
							miles = append(miles, "rpcError "+p.src(x.Args[2]))
						}
					case "doCall":
						miles = append(miles, "doCall")
					case "json.Unmarshal":
						miles = append(miles, "json.Unmarshal "+p.src(x.Args[0]))
					case "dec":
						miles = append(miles, "paramDecoder")
					case "chOut":
						miles = append(miles, "chOut")
					case "withLazyWriter":
						miles = append(miles, "respond")
					}
					if se, ok := x.Fun.(*ast.SelectorExpr); ok && se.Sel.Name == "Decode" {
						miles = append(miles, "Decode param")
					}
				case *ast.BinaryExpr:
					if x.Op == token.NEQ && strings.Contains(p.src(x), "nParams") {
						miles = append(miles, "arity "+p.src(x))
					}
				}
				return true
			})
		}
		f.defStrList("handleLookups", lookups)
		f.defStrList("handleMilestones", miles)
	}

	// 10. NewMethodNameFormatter: the three ingredients of the formatted name
	f.comment("NewMethodNameFormatter: return expressions and the lower-first expression")
	{
		var rets []string
		lower := ""
		if fd := p.funcDecl("", "NewMethodNameFormatter"); fd != nil {
			ast.Inspect(fd.Body, func(n ast.Node) bool {
				switch x := n.(type) {
				case *ast.ReturnStmt:
					if len(x.Results) == 1 {
						if _, isFn := x.Results[0].(*ast.FuncLit); !isFn {
							rets = append(rets, p.src(x.Results[0]))
						}
					}
				case *ast.AssignStmt:
					if len(x.Lhs) == 1 && selString(x.Lhs[0]) == "formattedMethod" && x.Tok == token.ASSIGN {
						lower = p.src(x.Rhs[0])
					}
				}
				return true
			})
		}
		f.defStrList("formatterReturns", rets)
		f.defStr("formatterLowerExpr", lower, lower != "")
	}

	// 11. skeletons of the functions whose control flow the concurrent models transcribe
	f.comment("statement skeletons (normalised control flow) of modelled functions")
	for _, sk := range []struct{ name, recv, fn string }{
		{"skel_backoff_next", "backoff", "next"},
		{"skel_tryReconnect", "wsConn", "tryReconnect"},
		{"skel_closeInFlight", "wsConn", "closeInFlight"},
		{"skel_closeChans", "wsConn", "closeChans"},
		{"skel_handleResponse", "wsConn", "handleResponse"},
		{"skel_cancelCtx", "wsConn", "cancelCtx"},
		{"skel_handleChanMessage", "wsConn", "handleChanMessage"},
		{"skel_handleChanClose", "wsConn", "handleChanClose"},
		{"skel_handleCall", "wsConn", "handleCall"},
		{"skel_nextMessage", "wsConn", "nextMessage"},
		{"skel_nextWriter", "wsConn", "nextWriter"},
		{"skel_sendRequest", "wsConn", "sendRequest"},
		{"skel_readFrame", "wsConn", "readFrame"},
		{"skel_frameExecutor", "wsConn", "frameExecutor"},
		{"skel_handleWsConn", "wsConn", "handleWsConn"},
		{"skel_handleOutChans", "wsConn", "handleOutChans"},
		{"skel_handleChanOut", "wsConn", "handleChanOut"},
		{"skel_handleCtxAsync", "wsConn", "handleCtxAsync"},
		{"skel_setupPings", "wsConn", "setupPings"},
		{"skel_resetReadDeadline", "wsConn", "resetReadDeadline"},
		{"skel_autoResetReader", "wsConn", "autoResetReader"},
		{"skel_deadlineResetReader_Read", "deadlineResetReader", "Read"},
		{"skel_setupRequestChan", "client", "setupRequestChan"},
		{"skel_makeOutChan", "client", "makeOutChan"},
		{"skel_handleRpcCall", "rpcFunc", "handleRpcCall"},
		{"skel_processResponse", "rpcFunc", "processResponse"},
		{"skel_processError", "rpcFunc", "processError"},
		{"skel_withLazyWriter", "", "withLazyWriter"},
		{"skel_lazyWriter_Write", "lazyWriter", "Write"},
		{"skel_createError", "handler", "createError"},
		{"skel_errorVal", "JSONRPCError", "val"},
		{"skel_processFuncOut", "", "processFuncOut"},
		{"skel_handleReader", "handler", "handleReader"},
		{"skel_rpcError", "", "rpcError"},
		{"skel_handle", "handler", "handle"},
		{"skel_register", "handler", "register"},
		{"skel_makeRpcFunc", "client", "makeRpcFunc"},
		{"skel_paramMarshalJSON", "param", "MarshalJSON"},
		{"skel_paramUnmarshalJSON", "param", "UnmarshalJSON"},
		{"skel_doCall", "", "doCall"},
		{"skel_WithReverseClient", "", "WithReverseClient"},
		{"skel_ExtractReverseClient", "", "ExtractReverseClient"},
		{"skel_handleWS", "RPCServer", "handleWS"},
		{"skel_ServeHTTP", "RPCServer", "ServeHTTP"},
		{"skel_websocketClient", "", "websocketClient"},
		// the rest of the library's non-test code, so that no function is outside the static tie
		{"skel_batchWriter_nextElem", "batchWriter", "nextElem"},
		{"skel_batchWriter_Write", "batchWriter", "Write"},
		{"skel_batchWriter_finish", "batchWriter", "finish"},
		{"skel_handleFrame", "wsConn", "handleFrame"},
		{"skel_normalizeID", "", "normalizeID"},
		{"skel_responseMarshalJSON", "response", "MarshalJSON"},
		{"skel_httpClient", "", "httpClient"},
		{"skel_NewCustomClient", "", "NewCustomClient"},
		{"skel_NewMergeClient", "", "NewMergeClient"},
		{"skel_NewClient", "", "NewClient"},
		{"skel_clientSendRequest", "client", "sendRequest"},
		{"skel_clientProvide", "client", "provide"},
		{"skel_JSONRPCError_Error", "JSONRPCError", "Error"},
		{"skel_Errors_Register", "Errors", "Register"},
		{"skel_NewErrors", "", "NewErrors"},
		{"skel_RPCConnectionError_Error", "RPCConnectionError", "Error"},
		{"skel_RPCConnectionError_Unwrap", "RPCConnectionError", "Unwrap"},
		{"skel_ErrClient_Error", "ErrClient", "Error"},
		{"skel_ErrClient_Unwrap", "ErrClient", "Unwrap"},
		{"skel_NewServer", "", "NewServer"},
		{"skel_makeHandler", "", "makeHandler"},
		{"skel_RPCServer_Register", "RPCServer", "Register"},
		{"skel_RPCServer_AliasMethod", "RPCServer", "AliasMethod"},
		{"skel_RPCServer_HandleRequest", "RPCServer", "HandleRequest"},
		{"skel_GetConnectionType", "", "GetConnectionType"},
		{"skel_DecodeParams", "", "DecodeParams"},
		{"skel_failedWriter_Write", "failedWriter", "Write"},
		{"skel_NewMethodNameFormatter", "", "NewMethodNameFormatter"},
		{"skel_defaultConfig", "", "defaultConfig"},
		{"skel_WithReconnectBackoff", "", "WithReconnectBackoff"},
		{"skel_WithPingInterval", "", "WithPingInterval"},
		{"skel_WithTimeout", "", "WithTimeout"},
		{"skel_WithNoReconnect", "", "WithNoReconnect"},
		{"skel_WithParamEncoder", "", "WithParamEncoder"},
		{"skel_WithErrors", "", "WithErrors"},
		{"skel_WithClientHandler", "", "WithClientHandler"},
		{"skel_WithClientHandlerAlias", "", "WithClientHandlerAlias"},
		{"skel_WithHTTPClient", "", "WithHTTPClient"},
		{"skel_WithMethodNameFormatter", "", "WithMethodNameFormatter"},
		{"skel_defaultServerConfig", "", "defaultServerConfig"},
		{"skel_WithParamDecoder", "", "WithParamDecoder"},
		{"skel_WithMaxRequestSize", "", "WithMaxRequestSize"},
		{"skel_WithServerErrors", "", "WithServerErrors"},
		{"skel_WithServerPingInterval", "", "WithServerPingInterval"},
		{"skel_WithServerMethodNameFormatter", "", "WithServerMethodNameFormatter"},
	} {
		f.defSkeleton(p, sk.name, sk.recv, sk.fn)
	}

	// 13. every use of the connection object, with whether the write lock is held at that point
	f.comment("uses of c.conn in package jsonrpc: \"<function>: <method or assign> locked=<bool>\" (function literals start unlocked)")
	{
		var uses []string
		aliases := map[string]bool{} // local variables holding c.conn (reset per top-level function)
		var scan func(fname string, body *ast.BlockStmt)
		scan = func(fname string, body *ast.BlockStmt) {
			locked := false
			var visit func(n ast.Node) bool
			visit = func(n ast.Node) bool {
				switch x := n.(type) {
				case *ast.FuncLit:
					scan(fname+".func", x.Body)
					return false
				case *ast.DeferStmt:
					if callName(x.Call) == "c.writeLk.Unlock" {
						return false // stays locked until the function returns
					}
				case *ast.CallExpr:
					name := callName(x)
					switch name {
					case "c.writeLk.Lock":
						locked = true
					case "c.writeLk.Unlock":
						locked = false
					}
					if name == "c.resetReadDeadline" || name == "c.setupPings" {
						uses = append(uses, fmt.Sprintf("%s: call %s locked=%v", fname, strings.TrimPrefix(name, "c."), locked))
					}
					if strings.HasPrefix(name, "c.conn.") {
						uses = append(uses, fmt.Sprintf("%s: %s locked=%v", fname, strings.TrimPrefix(name, "c.conn."), locked))
					}
					if i := strings.Index(name, "."); i > 0 && aliases[name[:i]] {
						uses = append(uses, fmt.Sprintf("%s: alias.%s locked=%v", fname, name[i+1:], locked))
					}
				case *ast.AssignStmt:
					for _, l := range x.Lhs {
						if selString(l) == "c.conn" {
							uses = append(uses, fmt.Sprintf("%s: assign locked=%v", fname, locked))
						}
					}
					for i, r := range x.Rhs {
						if selString(r) == "c.conn" && i < len(x.Lhs) {
							if id, ok := x.Lhs[i].(*ast.Ident); ok {
								aliases[id.Name] = true
								uses = append(uses, fmt.Sprintf("%s: alias locked=%v", fname, locked))
							}
						}
					}
				}
				return true
			}
			ast.Inspect(body, visit)
		}
		for _, fd := range p.allFuncs() {
			if fd.Body != nil && fd.Recv != nil && funcKey(fd)[:len("wsConn")] == "wsConn" {
				for k := range aliases {
					delete(aliases, k)
				}
				scan(funcKey(fd), fd.Body)
			}
		}
		f.defStrList("connUses", uses)
	}

	// 12. sub-packages: httpio (reader params) and auth
	f.comment("httpio and auth: statement skeletons")
	{
		hp := load(filepath.Join(*repo, "httpio"))
		for _, sk := range []struct{ name, recv, fn string }{
			{"skel_httpio_wrcRead", "waitReadCloser", "Read"},
			{"skel_httpio_wrcClose", "waitReadCloser", "Close"},
			{"skel_httpio_ReaderParamDecoder", "", "ReaderParamDecoder"},
			{"skel_httpio_ReaderParamEncoder", "", "ReaderParamEncoder"},
		} {
			f.defSkeleton(hp, sk.name, sk.recv, sk.fn)
		}
		ap := load(filepath.Join(*repo, "auth"))
		for _, sk := range []struct{ name, recv, fn string }{
			{"skel_auth_HasPerm", "", "HasPerm"},
			{"skel_auth_WithPerm", "", "WithPerm"},
			{"skel_auth_PermissionedProxy", "", "PermissionedProxy"},
			{"skel_auth_ServeHTTP", "Handler", "ServeHTTP"},
		} {
			f.defSkeleton(ap, sk.name, sk.recv, sk.fn)
		}
	}

	f.lean.WriteString("\nend Jrpc.Generated\n")
	if *progsOut != "" {
		var w strings.Builder
		w.WriteString("import Jrpc.MiniGo\n/-\n  GENERATED by /verif/harness/cmd/extract (minigo.go) from the repository's working tree — do not edit.\n  One MiniGo program per function and function literal of the library; JrpcProofs/Trans/*.lean relates them to the model.\n-/\nnamespace Jrpc.Generated.Progs\nopen Jrpc.MiniGo\n\n/-- bound on the iterations of a `for` loop with a condition (range loops need none) -/\ndef loopFuel : Nat := 64\n\n")
		var index []string
		translatePkg(p, "", vals, &w, &index)
		hp := load(filepath.Join(*repo, "httpio"))
		translatePkg(hp, "httpio.", hp.packageValues(), &w, &index)
		ap := load(filepath.Join(*repo, "auth"))
		translatePkg(ap, "auth.", ap.packageValues(), &w, &index)
		fmt.Fprintf(&w, "\ndef allProgs : List String := %s\n\nend Jrpc.Generated.Progs\n", strList(index))
		if err := os.WriteFile(*progsOut, []byte(w.String()), 0o644); err != nil {
			fatal(err)
		}
	}
	if *leanOut != "" {
		if err := os.WriteFile(*leanOut, f.lean.Bytes(), 0o644); err != nil {
			fatal(err)
		}
	}
	if *jsonOut != "" {
		b, _ := json.MarshalIndent(f.js, "", " ")
		os.MkdirAll(filepath.Dir(*jsonOut), 0o755)
		os.WriteFile(*jsonOut, b, 0o644)
	}
}

func collectDefers(p *pkgInfo, s ast.Stmt, out *[]string) {
	switch st := s.(type) {
	case *ast.DeferStmt:
		*out = append(*out, callName(st.Call))
	case *ast.IfStmt:
		for _, b := range st.Body.List {
			collectDefers(p, b, out)
		}
	}
}

// minigo.go — the Go → MiniGo translator.
//
// Every function and function literal of the library's non-test code is turned into a term of the Lean type
// Jrpc.MiniGo.Stmt (lean/Jrpc/MiniGo.lean) and written to Jrpc/Generated/Progs.lean.  The translation is purely
// syntactic: what is not syntax (library calls, conversions, methods of external types) becomes a call of an
// *extern* by its source name, whose meaning the Lean side supplies; log calls, the verification hooks and mutex
// operations are dropped (the lock discipline is the subject of the `connUses` fact, not of these programs).
// A construct outside the subset becomes a call of the extern "unsupported:<what>", which no semantics knows: a run
// that reaches it is stuck, so a theorem can only be proved over paths that were translated in full.
package main

import (
	"fmt"
	"go/ast"
	"go/token"
	"sort"
	"strconv"
	"strings"
)

type mgScope struct {
	names map[string]string // source name -> MiniGo name
	up    *mgScope
}

type mgFunc struct {
	p       *pkgInfo
	key     string // e.g. wsConn.cancelCtx
	consts  map[string]ast.Expr
	results []string            // named results
	scope   *mgScope
	used    map[string]int      // how many MiniGo variables were made from a source name
	types   map[string]ast.Expr // MiniGo variable -> declared type (when syntactically known)
	recvTy  string
	lits    *[]mgLit
	nlit    *int
	iotas   map[string]int64
	roots   map[string]bool // receiver and parameters: their fields are variables of the program (`c.inflight`)
}

type mgLit struct {
	name   string
	params []string
	body   string
}

func leanName(s string) string {
	r := strings.NewReplacer(".", "_", "*", "", "(", "", ")", "", " ", "", "[", "", "]", "")
	return r.Replace(s)
}

// iotaConsts: constants of blocks of the form `A T = iota; B; C` (plain enumerations).
func (p *pkgInfo) iotaConsts() map[string]int64 {
	out := map[string]int64{}
	for _, f := range p.files {
		for _, d := range f.Decls {
			gd, ok := d.(*ast.GenDecl)
			if !ok || gd.Tok != token.CONST {
				continue
			}
			plain := false
			for i, s := range gd.Specs {
				vs := s.(*ast.ValueSpec)
				if len(vs.Values) == 1 {
					id, isID := vs.Values[0].(*ast.Ident)
					plain = isID && id.Name == "iota"
				} else if len(vs.Values) != 0 {
					plain = false
				}
				if plain && len(vs.Names) == 1 {
					out[vs.Names[0].Name] = int64(i)
				}
			}
		}
	}
	return out
}

func (m *mgFunc) push() { m.scope = &mgScope{names: map[string]string{}, up: m.scope} }
func (m *mgFunc) pop()  { m.scope = m.scope.up }

func (m *mgFunc) lookup(n string) (string, bool) {
	for s := m.scope; s != nil; s = s.up {
		if v, ok := s.names[n]; ok {
			return v, true
		}
	}
	return "", false
}

// declare introduces a source name in the innermost scope; a name that shadows an outer one gets a fresh MiniGo name.
func (m *mgFunc) declare(n string, redeclareOK bool) string {
	if n == "_" {
		return "_"
	}
	if redeclareOK {
		if v, ok := m.scope.names[n]; ok {
			return v
		}
	}
	m.used[n]++
	v := n
	if m.used[n] > 1 {
		v = fmt.Sprintf("%s'%d", n, m.used[n])
	}
	m.scope.names[n] = v
	return v
}

func q(s string) string { return leanStr(s) }

func intLit(n int64) string {
	if n < 0 {
		return fmt.Sprintf("(.lit (.int (%d)))", n)
	}
	return fmt.Sprintf("(.lit (.int %d))", n)
}

func lit(v string) string { return "(.lit " + v + ")" }

func chain(es []string) string {
	out := ".nilE"
	for i := len(es) - 1; i >= 0; i-- {
		out = "(.consE " + es[i] + " " + out + ")"
	}
	return out
}

func seq(ss []string) string {
	if len(ss) == 0 {
		return ".skip"
	}
	out := ss[len(ss)-1]
	for i := len(ss) - 2; i >= 0; i-- {
		out = "(.seq " + ss[i] + " " + out + ")"
	}
	return out
}

func strList(ss []string) string {
	qs := make([]string, len(ss))
	for i, s := range ss {
		qs[i] = q(s)
	}
	return "[" + strings.Join(qs, ", ") + "]"
}

// path renders an identifier / selector chain as a dotted variable name ("" when e is something else).
func (m *mgFunc) path(e ast.Expr) string {
	switch x := e.(type) {
	case *ast.Ident:
		if v, ok := m.lookup(x.Name); ok {
			return v
		}
		return x.Name
	case *ast.SelectorExpr:
		if b := m.path(x.X); b != "" {
			return b + "." + x.Sel.Name
		}
	case *ast.ParenExpr:
		return m.path(x.X)
	case *ast.StarExpr:
		return m.path(x.X)
	}
	return ""
}

// localRoot: is the selector chain rooted in a local variable of the function (as opposed to the receiver, a
// parameter or a package)?
func (m *mgFunc) localRoot(e ast.Expr) bool {
	for {
		switch x := e.(type) {
		case *ast.SelectorExpr:
			e = x.X
		case *ast.ParenExpr:
			e = x.X
		case *ast.StarExpr:
			e = x.X
		case *ast.Ident:
			if _, ok := m.lookup(x.Name); !ok {
				return false
			}
			return !m.roots[x.Name]
		default:
			return false
		}
	}
}

// droppedCall: log calls, hooks, mutex and stats operations leave no trace in the program.
func droppedCall(name string) bool {
	if strings.HasPrefix(name, "log.") || name == "vhook" || strings.HasPrefix(name, "stats.Record") {
		return true
	}
	for _, suf := range []string{".Lock", ".Unlock", ".RLock", ".RUnlock"} {
		if strings.HasSuffix(name, suf) {
			return true
		}
	}
	return false
}

// fieldType finds the declared type of field `fld` of struct type `ty` in the package.
func (p *pkgInfo) fieldType(ty, fld string) ast.Expr {
	for _, f := range p.files {
		for _, d := range f.Decls {
			gd, ok := d.(*ast.GenDecl)
			if !ok || gd.Tok != token.TYPE {
				continue
			}
			for _, sp := range gd.Specs {
				ts := sp.(*ast.TypeSpec)
				st, ok := ts.Type.(*ast.StructType)
				if !ok || ts.Name.Name != ty {
					continue
				}
				for _, fl := range st.Fields.List {
					for _, n := range fl.Names {
						if n.Name == fld {
							return fl.Type
						}
					}
				}
			}
		}
	}
	return nil
}

func baseTypeName(t ast.Expr) string {
	for {
		switch x := t.(type) {
		case *ast.StarExpr:
			t = x.X
		case *ast.ParenExpr:
			t = x.X
		case *ast.Ident:
			return x.Name
		default:
			return ""
		}
	}
}

// typeOf: the declared type of an identifier / selector chain, as far as syntax tells.
func (m *mgFunc) typeOf(e ast.Expr) ast.Expr {
	switch x := e.(type) {
	case *ast.Ident:
		if v, ok := m.lookup(x.Name); ok {
			return m.types[v]
		}
	case *ast.SelectorExpr:
		if bt := m.typeOf(x.X); bt != nil {
			if n := baseTypeName(bt); n != "" {
				return m.p.fieldType(n, x.Sel.Name)
			}
		}
	case *ast.ParenExpr:
		return m.typeOf(x.X)
	}
	return nil
}

func (m *mgFunc) isMap(e ast.Expr) bool {
	t := m.typeOf(e)
	_, ok := t.(*ast.MapType)
	return ok
}

func (m *mgFunc) zero(t ast.Expr) string {
	switch x := t.(type) {
	case *ast.Ident:
		switch x.Name {
		case "int", "int8", "int16", "int32", "int64", "uint", "uint8", "uint16", "uint32", "uint64", "uintptr", "byte", "rune":
			return lit("(.int 0)")
		case "float32", "float64":
			return lit("(.tag \"float\" (.str \"0\"))")
		case "string":
			return lit("(.str \"\")")
		case "bool":
			return lit("(.bool false)")
		case "error":
			return lit(".nil")
		}
		return lit("(.tag \"zero\" (.str " + q(x.Name) + "))")
	case *ast.ArrayType, *ast.MapType, *ast.StarExpr, *ast.InterfaceType, *ast.FuncType, *ast.ChanType:
		return lit(".nil")
	}
	return lit("(.tag \"zero\" (.str " + q(oneLine(m.p.src(t))) + "))")
}

func (m *mgFunc) unsupported(what string) string {
	return "(.call " + q("unsupported:"+what) + " .nilE)"
}

func (m *mgFunc) funcLit(fl *ast.FuncLit) string {
	*m.nlit++
	name := fmt.Sprintf("%s_lit%d", leanName(m.key), *m.nlit)
	sub := &mgFunc{p: m.p, key: m.key, consts: m.consts, iotas: m.iotas, roots: m.roots, scope: m.scope, used: m.used, types: m.types, recvTy: m.recvTy, lits: m.lits, nlit: m.nlit}
	sub.push()
	params := sub.declareFields(fl.Type.Params, false)
	for _, pn := range params {
		m.roots[pn] = true
	}
	if fl.Type.Results != nil {
		sub.results = sub.declareFields(fl.Type.Results, true)
	}
	body := sub.block(fl.Body.List)
	sub.pop()
	*m.lits = append(*m.lits, mgLit{name: name, params: params, body: body})
	return lit("(.tag \"funclit\" (.str " + q(name) + "))")
}

func (m *mgFunc) declareFields(fl *ast.FieldList, namedOnly bool) []string {
	var out []string
	if fl == nil {
		return out
	}
	for i, f := range fl.List {
		if len(f.Names) == 0 {
			if !namedOnly {
				out = append(out, fmt.Sprintf("_arg%d", i))
			}
			continue
		}
		for _, n := range f.Names {
			v := m.declare(n.Name, false)
			m.types[v] = f.Type
			out = append(out, v)
		}
	}
	return out
}

func (m *mgFunc) callName(c *ast.CallExpr) string {
	switch f := c.Fun.(type) {
	case *ast.Ident, *ast.SelectorExpr:
		if pth := m.path(f); pth != "" {
			return pth
		}
	case *ast.ParenExpr:
		return oneLine(m.p.src(f.X))
	}
	return ""
}

func (m *mgFunc) expr(e ast.Expr) string {
	switch x := e.(type) {
	case *ast.BasicLit:
		switch x.Kind {
		case token.INT:
			if n, err := strconv.ParseInt(x.Value, 0, 64); err == nil {
				return intLit(n)
			}
			return lit("(.tag \"bigint\" (.str " + q(x.Value) + "))")
		case token.STRING:
			s, _ := strconv.Unquote(x.Value)
			return lit("(.str " + q(s) + ")")
		case token.CHAR:
			s, _ := strconv.Unquote(x.Value)
			r := []rune(s)
			if len(r) == 1 {
				return intLit(int64(r[0]))
			}
		case token.FLOAT:
			return lit("(.tag \"float\" (.str " + q(x.Value) + "))")
		}
		return m.unsupported("literal " + x.Value)
	case *ast.Ident:
		switch x.Name {
		case "true":
			return lit("(.bool true)")
		case "false":
			return lit("(.bool false)")
		case "nil":
			return lit(".nil")
		}
		if _, ok := m.lookup(x.Name); !ok {
			// a package-level constant with a literal value is inlined
			if v, ok := m.iotas[x.Name]; ok {
				return intLit(v)
			}
			if ce, ok := m.consts[x.Name]; ok {
				if bl, ok := ce.(*ast.BasicLit); ok && (bl.Kind == token.STRING || bl.Kind == token.INT) {
					return m.expr(bl)
				}
				if v, ok := m.p.evalInt(ce, m.consts, 0); ok {
					return intLit(v)
				}
			}
		}
		return "(.var " + q(m.path(x)) + ")"
	case *ast.ParenExpr:
		return m.expr(x.X)
	case *ast.SelectorExpr:
		if pth := m.path(x); pth != "" && !m.localRoot(x) {
			return "(.var " + q(pth) + ")"
		}
		// a field of a local value (a range variable, the result of a look-up): a projection, not a variable
		return "(.field " + m.expr(x.X) + " " + q(x.Sel.Name) + ")"
	case *ast.StarExpr:
		return m.expr(x.X)
	case *ast.UnaryExpr:
		switch x.Op {
		case token.AND:
			if pth := m.path(x.X); pth != "" {
				ty := ""
				if t := m.typeOf(x.X); t != nil {
					ty = oneLine(m.p.src(t))
				}
				return "(.addr " + q(pth) + " " + q(ty) + ")"
			}
			return "(.call \"&\" " + chain([]string{m.expr(x.X)}) + ")"
		case token.ARROW:
			return "(.call \"recv\" " + chain([]string{m.expr(x.X)}) + ")"
		}
		return "(.un " + q(x.Op.String()) + " " + m.expr(x.X) + ")"
	case *ast.BinaryExpr:
		return "(.bin " + q(x.Op.String()) + " " + m.expr(x.X) + " " + m.expr(x.Y) + ")"
	case *ast.CallExpr:
		name := m.callName(x)
		var args []string
		if name == "" {
			switch f := x.Fun.(type) {
			case *ast.FuncLit:
				name = "callfunclit"
				args = append(args, m.funcLit(f))
			case *ast.ArrayType, *ast.MapType, *ast.InterfaceType, *ast.ChanType, *ast.FuncType:
				name = oneLine(m.p.src(f))
			case *ast.SelectorExpr:
				// method of a computed receiver: f(x).M(args)
				name = "." + f.Sel.Name
				args = append(args, m.expr(f.X))
			case *ast.IndexExpr:
				name = "callindexed"
				args = append(args, m.expr(f))
			default:
				name = "callexpr"
				args = append(args, m.expr(x.Fun))
			}
		}
		for i, a := range x.Args {
			if (name == "make" || name == "new") && i == 0 {
				args = append(args, lit("(.str "+q(oneLine(m.p.src(a)))+")"))
				continue
			}
			args = append(args, m.expr(a))
		}
		if x.Ellipsis != token.NoPos {
			name += "..."
		}
		return "(.call " + q(name) + " " + chain(args) + ")"
	case *ast.IndexExpr:
		if m.isMap(x.X) {
			return "(.mapIdx " + m.expr(x.X) + " " + m.expr(x.Index) + ")"
		}
		return "(.index " + m.expr(x.X) + " " + m.expr(x.Index) + ")"
	case *ast.SliceExpr:
		lo, hi := ".nilE", ".nilE"
		if x.Low != nil {
			lo = m.expr(x.Low)
		}
		if x.High != nil {
			hi = m.expr(x.High)
		}
		if x.Max != nil {
			return m.unsupported("3-index slice")
		}
		return "(.sliceE " + m.expr(x.X) + " " + lo + " " + hi + ")"
	case *ast.TypeAssertExpr:
		return "(.assert1 " + m.expr(x.X) + " " + q(oneLine(m.p.src(x.Type))) + ")"
	case *ast.FuncLit:
		return m.funcLit(x)
	case *ast.CompositeLit:
		ty := "?"
		if x.Type != nil {
			ty = oneLine(m.p.src(x.Type))
		}
		var args []string
		for _, el := range x.Elts {
			if kv, ok := el.(*ast.KeyValueExpr); ok {
				k := ""
				if id, ok := kv.Key.(*ast.Ident); ok {
					k = lit("(.str " + q(id.Name) + ")")
				} else {
					k = m.expr(kv.Key)
				}
				args = append(args, "(.tuple "+chain([]string{k, m.expr(kv.Value)})+")")
			} else {
				args = append(args, m.expr(el))
			}
		}
		return "(.call " + q("lit:"+ty) + " " + chain(args) + ")"
	case *ast.KeyValueExpr:
		return "(.tuple " + chain([]string{m.expr(x.Key), m.expr(x.Value)}) + ")"
	case *ast.ArrayType, *ast.MapType, *ast.InterfaceType, *ast.ChanType, *ast.FuncType, *ast.StructType:
		return lit("(.tag \"type\" (.str " + q(oneLine(m.p.src(x))) + "))")
	}
	return m.unsupported(fmt.Sprintf("expr %T", e))
}

func (m *mgFunc) block(stmts []ast.Stmt) string {
	m.push()
	defer m.pop()
	var out []string
	for _, s := range stmts {
		if t := m.stmt(s); t != "" {
			out = append(out, t)
		}
	}
	return seq(out)
}

func (m *mgFunc) lhsName(e ast.Expr, define bool) (string, bool) {
	if id, ok := e.(*ast.Ident); ok {
		if define {
			return m.declare(id.Name, true), true
		}
		return m.path(id), true
	}
	if pth := m.path(e); pth != "" {
		return pth, true
	}
	return "", false
}

func (m *mgFunc) assign(x *ast.AssignStmt) string {
	define := x.Tok == token.DEFINE
	// op-assignments
	if x.Tok != token.ASSIGN && x.Tok != token.DEFINE {
		if len(x.Lhs) == 1 && len(x.Rhs) == 1 {
			if n, ok := m.lhsName(x.Lhs[0], false); ok {
				op := strings.TrimSuffix(x.Tok.String(), "=")
				return "(.assign [" + q(n) + "] (.bin " + q(op) + " (.var " + q(n) + ") " + m.expr(x.Rhs[0]) + "))"
			}
		}
		return "(.exprS " + m.unsupported("assignment "+x.Tok.String()) + ")"
	}
	// right-hand side first (it is evaluated in the scope before the definitions)
	var rhs string
	if len(x.Rhs) == 1 {
		r := x.Rhs[0]
		if len(x.Lhs) == 2 {
			switch y := r.(type) {
			case *ast.IndexExpr:
				rhs = "(.mapIdx2 " + m.expr(y.X) + " " + m.expr(y.Index) + ")"
			case *ast.TypeAssertExpr:
				rhs = "(.assert2 " + m.expr(y.X) + " " + q(oneLine(m.p.src(y.Type))) + ")"
			case *ast.UnaryExpr:
				if y.Op == token.ARROW {
					rhs = "(.call \"recv2\" " + chain([]string{m.expr(y.X)}) + ")"
				}
			}
		}
		if rhs == "" {
			rhs = m.expr(r)
		}
	} else {
		var rs []string
		for _, r := range x.Rhs {
			rs = append(rs, m.expr(r))
		}
		rhs = "(.tuple " + chain(rs) + ")"
	}
	// m[k] = v
	if len(x.Lhs) == 1 {
		if ix, ok := x.Lhs[0].(*ast.IndexExpr); ok {
			if pth := m.path(ix.X); pth != "" && m.isMap(ix.X) {
				return "(.setIdx " + q(pth) + " " + m.expr(ix.Index) + " " + rhs + ")"
			}
			return "(.exprS (.call \"setindex\" " + chain([]string{m.expr(ix.X), m.expr(ix.Index), rhs}) + "))"
		}
	}
	var names []string
	for i, l := range x.Lhs {
		n, ok := m.lhsName(l, define)
		if !ok {
			return "(.exprS " + m.unsupported("assignment target "+oneLine(m.p.src(l))) + ")"
		}
		if define && len(x.Rhs) == len(x.Lhs) {
			// remember syntactically evident types: make(map…), composite literals
			switch y := x.Rhs[i].(type) {
			case *ast.CallExpr:
				if id, ok := y.Fun.(*ast.Ident); ok && id.Name == "make" && len(y.Args) > 0 {
					m.types[n] = y.Args[0]
				}
			case *ast.CompositeLit:
				m.types[n] = y.Type
			}
		}
		names = append(names, n)
	}
	return "(.assign " + strList(names) + " " + rhs + ")"
}

func (m *mgFunc) stmt(s ast.Stmt) string {
	switch x := s.(type) {
	case *ast.EmptyStmt:
		return ""
	case *ast.BlockStmt:
		return m.block(x.List)
	case *ast.ExprStmt:
		if c, ok := x.X.(*ast.CallExpr); ok {
			n := m.callName(c)
			if droppedCall(n) || isLogCall(x.X) {
				if cs := logArgCalls(x.X); len(cs) > 0 && isLogCall(x.X) {
					return "(.exprS (.call \"log-args\" " + chain(m.exprs(c.Args)) + "))"
				}
				return ""
			}
			if n == "delete" && len(c.Args) == 2 {
				if pth := m.path(c.Args[0]); pth != "" {
					return "(.exprS (.call \"delete\" " + chain([]string{"(.addr " + q(pth) + " \"\")", m.expr(c.Args[1])}) + "))"
				}
			}
			if n == "panic" && len(c.Args) == 1 {
				return "(.panicS " + m.expr(c.Args[0]) + ")"
			}
		}
		return "(.exprS " + m.expr(x.X) + ")"
	case *ast.AssignStmt:
		return m.assign(x)
	case *ast.IncDecStmt:
		if n, ok := m.lhsName(x.X, false); ok {
			op := "+"
			if x.Tok == token.DEC {
				op = "-"
			}
			return "(.assign [" + q(n) + "] (.bin " + q(op) + " (.var " + q(n) + ") (.lit (.int 1))))"
		}
		return "(.exprS " + m.unsupported("incdec") + ")"
	case *ast.DeclStmt:
		gd, ok := x.Decl.(*ast.GenDecl)
		if !ok || gd.Tok != token.VAR {
			return ""
		}
		var out []string
		for _, sp := range gd.Specs {
			vs := sp.(*ast.ValueSpec)
			for i, n := range vs.Names {
				var rhs string
				if i < len(vs.Values) {
					rhs = m.expr(vs.Values[i])
				} else if vs.Type != nil {
					rhs = m.zero(vs.Type)
				} else {
					rhs = lit(".nil")
				}
				v := m.declare(n.Name, false)
				if vs.Type != nil {
					m.types[v] = vs.Type
				}
				out = append(out, "(.assign ["+q(v)+"] "+rhs+")")
			}
		}
		return seq(out)
	case *ast.ReturnStmt:
		switch len(x.Results) {
		case 0:
			if len(m.results) == 1 {
				return "(.ret (.var " + q(m.results[0]) + "))"
			}
			if len(m.results) > 1 {
				var rs []string
				for _, r := range m.results {
					rs = append(rs, "(.var "+q(r)+")")
				}
				return "(.ret (.tuple " + chain(rs) + "))"
			}
			return "(.ret .nilE)"
		case 1:
			return "(.ret " + m.expr(x.Results[0]) + ")"
		}
		var rs []string
		for _, r := range x.Results {
			rs = append(rs, m.expr(r))
		}
		return "(.ret (.tuple " + chain(rs) + "))"
	case *ast.IfStmt:
		m.push()
		defer m.pop()
		init := ".skip"
		if x.Init != nil {
			if t := m.stmt(x.Init); t != "" {
				init = t
			}
		}
		cond := m.expr(x.Cond)
		thn := m.block(x.Body.List)
		els := ".skip"
		if x.Else != nil {
			if t := m.stmt(x.Else); t != "" {
				els = t
			}
		}
		return "(.ifs " + init + " " + cond + " " + thn + " " + els + ")"
	case *ast.RangeStmt:
		m.push()
		defer m.pop()
		e := m.expr(x.X)
		k, v := "_", "_"
		if x.Key != nil {
			if id, ok := x.Key.(*ast.Ident); ok {
				k = m.declare(id.Name, false)
			}
		}
		if x.Value != nil {
			if id, ok := x.Value.(*ast.Ident); ok {
				v = m.declare(id.Name, false)
			}
		}
		if m.isMap(x.X) {
			return "(.rangeM " + q(k) + " " + q(v) + " " + e + " " + m.block(x.Body.List) + ")"
		}
		return "(.range " + q(k) + " " + q(v) + " " + e + " " + m.block(x.Body.List) + ")"
	case *ast.ForStmt:
		m.push()
		defer m.pop()
		init, post := ".skip", ".skip"
		if x.Init != nil {
			init = m.stmt(x.Init)
		}
		cond := lit("(.bool true)")
		if x.Cond != nil {
			cond = m.expr(x.Cond)
		}
		if x.Post != nil {
			post = m.stmt(x.Post)
		}
		return "(.forc loopFuel " + init + " " + cond + " " + post + " " + m.block(x.Body.List) + ")"
	case *ast.SwitchStmt:
		m.push()
		defer m.pop()
		init := ".skip"
		if x.Init != nil {
			init = m.stmt(x.Init)
		}
		tag := lit("(.bool true)")
		if x.Tag != nil {
			tag = m.expr(x.Tag)
		}
		type cc struct {
			vals string
			body string
		}
		var cases []cc
		var def *cc
		for _, c := range x.Body.List {
			cl := c.(*ast.CaseClause)
			body := m.block(cl.Body)
			if cl.List == nil {
				def = &cc{".nilE", body}
				continue
			}
			var vs []string
			for _, v := range cl.List {
				vs = append(vs, m.expr(v))
			}
			cases = append(cases, cc{chain(vs), body})
		}
		if def != nil {
			cases = append(cases, *def)
		}
		out := ".skip"
		for i := len(cases) - 1; i >= 0; i-- {
			out = "(.case " + cases[i].vals + " " + cases[i].body + " " + out + ")"
		}
		return "(.switch " + init + " " + tag + " " + out + ")"
	case *ast.TypeSwitchStmt:
		m.push()
		defer m.pop()
		bind := "_"
		var subject ast.Expr
		switch a := x.Assign.(type) {
		case *ast.AssignStmt:
			if id, ok := a.Lhs[0].(*ast.Ident); ok {
				bind = m.declare(id.Name, false)
			}
			subject = a.Rhs[0].(*ast.TypeAssertExpr).X
		case *ast.ExprStmt:
			subject = a.X.(*ast.TypeAssertExpr).X
		}
		subj := m.expr(subject)
		type tc struct {
			types []string
			body  string
		}
		var cases []tc
		var def *tc
		for _, c := range x.Body.List {
			cl := c.(*ast.CaseClause)
			body := m.block(cl.Body)
			if cl.List == nil {
				def = &tc{nil, body}
				continue
			}
			var ts []string
			for _, t := range cl.List {
				ts = append(ts, oneLine(m.p.src(t)))
			}
			cases = append(cases, tc{ts, body})
		}
		if def != nil {
			cases = append(cases, *def)
		}
		out := ".skip"
		for i := len(cases) - 1; i >= 0; i-- {
			out = "(.tcase " + strList(cases[i].types) + " " + cases[i].body + " " + out + ")"
		}
		init := ""
		if x.Init != nil {
			init = m.stmt(x.Init)
		}
		ts := "(.typeSwitch " + q(bind) + " " + subj + " " + out + ")"
		if init != "" {
			return "(.seq " + init + " " + ts + ")"
		}
		return ts
	case *ast.BranchStmt:
		if x.Label != nil {
			return "(.exprS " + m.unsupported("labelled "+x.Tok.String()) + ")"
		}
		switch x.Tok {
		case token.BREAK:
			return ".brk"
		case token.CONTINUE:
			return ".cont"
		}
		return "(.exprS " + m.unsupported(x.Tok.String()) + ")"
	case *ast.DeferStmt:
		n := m.callName(x.Call)
		if droppedCall(n) {
			return ""
		}
		return "(.exprS (.call \"defer\" " + chain([]string{m.expr(x.Call.Fun), chain(m.exprs(x.Call.Args))}) + "))"
	case *ast.GoStmt:
		return "(.exprS (.call \"go\" " + chain([]string{m.expr(x.Call.Fun), chain(m.exprs(x.Call.Args))}) + "))"
	case *ast.SendStmt:
		return "(.exprS (.call \"send\" " + chain([]string{m.expr(x.Chan), m.expr(x.Value)}) + "))"
	case *ast.LabeledStmt:
		return "(.seq (.exprS " + m.unsupported("label "+x.Label.Name) + ") " + m.stmt(x.Stmt) + ")"
	case *ast.SelectStmt:
		// the non-blocking forms `select { case ch <- v: A  default: B }` and `select { case x := <-ch: A  default: B }`
		// are an `if` on an extern that tries the communication; every other select is outside the subset
		if len(x.Body.List) == 2 {
			var comm, def *ast.CommClause
			for _, c := range x.Body.List {
				cc := c.(*ast.CommClause)
				if cc.Comm == nil {
					def = cc
				} else {
					comm = cc
				}
			}
			if comm != nil && def != nil {
				m.push()
				defer m.pop()
				switch cs := comm.Comm.(type) {
				case *ast.SendStmt:
					cond := "(.call \"trysend\" " + chain([]string{m.expr(cs.Chan), m.expr(cs.Value)}) + ")"
					return "(.ifs .skip " + cond + " " + m.block(comm.Body) + " " + m.block(def.Body) + ")"
				case *ast.ExprStmt:
					if u, ok := cs.X.(*ast.UnaryExpr); ok && u.Op == token.ARROW {
						init := "(.assign [\"_\", \"$ok\"] (.call \"tryrecv\" " + chain([]string{m.expr(u.X)}) + "))"
						return "(.ifs " + init + " (.var \"$ok\") " + m.block(comm.Body) + " " + m.block(def.Body) + ")"
					}
				case *ast.AssignStmt:
					if len(cs.Rhs) == 1 && len(cs.Lhs) >= 1 {
						if u, ok := cs.Rhs[0].(*ast.UnaryExpr); ok && u.Op == token.ARROW {
							if n, ok := m.lhsName(cs.Lhs[0], cs.Tok == token.DEFINE); ok {
								init := "(.assign [" + q(n) + ", \"$ok\"] (.call \"tryrecv\" " + chain([]string{m.expr(u.X)}) + "))"
								return "(.ifs " + init + " (.var \"$ok\") " + m.block(comm.Body) + " " + m.block(def.Body) + ")"
							}
						}
					}
				}
			}
		}
		return "(.exprS " + m.unsupported("select") + ")"
	}
	return "(.exprS " + m.unsupported(fmt.Sprintf("stmt %T", s)) + ")"
}

func (m *mgFunc) exprs(es []ast.Expr) []string {
	var out []string
	for _, e := range es {
		out = append(out, m.expr(e))
	}
	return out
}

// translatePkg writes one `prog_…` (body) and `params_…` (parameter names, receiver first) per function.
func translatePkg(p *pkgInfo, prefix string, consts map[string]ast.Expr, w *strings.Builder, index *[]string) {
	fns := p.allFuncs()
	sort.Slice(fns, func(i, j int) bool { return funcKey(fns[i]) < funcKey(fns[j]) })
	seen := map[string]int{}
	iotas := p.iotaConsts()
	for _, fd := range fns {
		if fd.Body == nil {
			continue
		}
		key := funcKey(fd)
		seen[key]++
		if seen[key] > 1 {
			continue
		}
		var lits []mgLit
		nlit := 0
		m := &mgFunc{p: p, key: prefix + key, consts: consts, iotas: iotas, used: map[string]int{}, types: map[string]ast.Expr{}, lits: &lits, nlit: &nlit, roots: map[string]bool{}}
		m.push()
		var params []string
		if fd.Recv != nil {
			params = append(params, m.declareFields(fd.Recv, false)...)
			if len(fd.Recv.List) == 1 {
				m.recvTy = baseTypeName(fd.Recv.List[0].Type)
			}
		}
		params = append(params, m.declareFields(fd.Type.Params, false)...)
		for _, pn := range params {
			m.roots[pn] = true
		}
		if fd.Type.Results != nil {
			m.results = m.declareFields(fd.Type.Results, true)
		}
		body := m.block(fd.Body.List)
		m.pop()
		name := leanName(prefix + key)
		for _, l := range lits {
			fmt.Fprintf(w, "def params_%s : List String := %s\ndef prog_%s : Stmt :=\n  %s\n", l.name, strList(l.params), l.name, l.body)
			*index = append(*index, l.name)
		}
		fmt.Fprintf(w, "def params_%s : List String := %s\ndef prog_%s : Stmt :=\n  %s\n", name, strList(params), name, body)
		*index = append(*index, name)
	}
}

package main

import (
	"context"
	"fmt"
	"time"

	jsonrpc "github.com/filecoin-project/go-jsonrpc"

	"verif/harness/internal/scen"
)

func debugPongCut() {
	e, _ := scen.NewEnv(1, 0, jsonrpc.WithServerPingInterval(time.Millisecond))
	ctx, cancel := context.WithCancel(context.Background())
	cl, closer, err := e.Client(ctx, jsonrpc.WithPingInterval(50*time.Millisecond), jsonrpc.WithTimeout(5*time.Second),
		jsonrpc.WithReconnectBackoff(2*time.Millisecond, 10*time.Millisecond))
	if err != nil {
		panic(err)
	}
	g := e.RT.Gate("main.take", 1)
	go cl.Add(1, 2)
	fmt.Println("reached", g.WaitReached(2*time.Second))
	time.Sleep(5 * time.Millisecond)
	e.PX.Cut(0, "rst")
	time.Sleep(2 * time.Millisecond)
	g.Release()
	for k := 0; k < 100; k++ {
		if v, err := cl.Add(20, 22); err == nil && v == 42 {
			fmt.Println("recovered after", k)
			break
		}
		time.Sleep(2 * time.Millisecond)
	}
	closer()
	cancel()
	for _, ev := range e.RT.Events() {
		fmt.Println(ev.Seq, ev.Conn, ev.Site, ev.KV)
	}
	e.Close()
}

// jrpc-harness — correspondence harness: runs the real go-jsonrpc code (built from /repo's working
// tree with -tags verif) and the Lean model on the same cases and reports differences.
package main

import (
	"encoding/json"
	"flag"
	"fmt"
	"os"
	"path/filepath"

	logging "github.com/ipfs/go-log/v2"

	"verif/harness/internal/c01"
	"verif/harness/internal/c05"
	"verif/harness/internal/c09"
	"verif/harness/internal/c10"
	"verif/harness/internal/c11"
	"verif/harness/internal/c12"
	"verif/harness/internal/c13"
	"verif/harness/internal/c14"
	"verif/harness/internal/c16"
	"verif/harness/internal/c17"
	"verif/harness/internal/c19"
	"verif/harness/internal/c20"
	"verif/harness/internal/cancel"
	"verif/harness/internal/corr"
	"verif/harness/internal/fw"
	"verif/harness/internal/stream"
	"verif/harness/internal/victim"
)

func main() {
	if len(os.Args) < 2 {
		fmt.Fprintln(os.Stderr, "usage: jrpc-harness <property> [flags]")
		os.Exit(2)
	}
	prop := os.Args[1]
	switch prop {
	case "debug-pongcut":
		_ = logging.SetLogLevel("*", "fatal")
		debugPongCut()
		return
	case "victim-server":
		_ = logging.SetLogLevel("*", "fatal")
		victim.ServerMain()
		return
	case "victim-noctx":
		_ = logging.SetLogLevel("*", "fatal")
		victim.NoCtxMain(os.Args[2])
		return
	case "victim-client":
		_ = logging.SetLogLevel("*", "fatal")
		victim.ClientMain(os.Args[2])
		return
	}
	fs := flag.NewFlagSet(prop, flag.ExitOnError)
	seed := fs.Int64("seed", 1, "seed for every random choice")
	tier := fs.String("tier", "quick", "quick|thorough")
	out := fs.String("out", "", "result file")
	corpusDir := fs.String("corpus", "", "corpus directory (cases that run first)")
	replay := fs.String("replay", "", "replay one recorded case")
	fs.Parse(os.Args[2:])

	// the library logs every rejected request; the harness provokes thousands of them
	_ = logging.SetLogLevel("*", "fatal")

	res := fw.NewResult(prop, *seed, *tier)
	var corpus []json.RawMessage
	if *replay != "" {
		b, err := os.ReadFile(*replay)
		if err != nil {
			fatal(err)
		}
		// a replay file is either a bare case or {"case": …}
		var w struct {
			Case json.RawMessage `json:"case"`
		}
		if json.Unmarshal(b, &w) == nil && len(w.Case) > 0 {
			b = w.Case
		}
		corpus = []json.RawMessage{b}
	} else if *corpusDir != "" {
		corpus = fw.LoadCorpus(filepath.Join(*corpusDir, prop))
	}
	thorough := *tier == "thorough"
	n := func(q, t int) int {
		if *replay != "" {
			return 0
		}
		if thorough {
			return t
		}
		return q
	}

	d, err := fw.StartDriver()
	if err != nil {
		fatal(err)
	}
	defer d.Close()

	switch prop {
	case "C06":
		res.Rule = "rounds of 2..5 concurrent calls and subscriptions on one connection plus a call on a second connection; a random subset is cancelled at one of four instants (before send, after send, racing the response, after the subscription is established); a probe call orders the cancel frames; cancelled handlers must see the cancellation, all others must stay live; the server connection's hook trace is replayed through Jrpc.Cancel; plus HTTP abort; plus a reverse call on a reconnected client cancelled after a handler of the previous connection (same request id) returned; distinct = (instant, subset)"
		err = cancel.Cancellation(d, res, *seed, thorough)
		if err == nil {
			// cancellation of a reverse call on a reconnected client while a handler of the previous connection returns
			err = c16.StaleCancel(d, res, *seed, "rst", 95000)
		}
		if err == nil {
			err = cancel.ClientContext(res, *seed)
		}
		if err == nil {
			err = cancel.SubCancelAfterReconnect(res, *seed)
		}
	case "C15":
		res.Rule = "end causes {graceful close, FIN, RST, server-side context cancel} x handler reaction time {0, 15 ms} with five handlers in progress (unary, 300 kB response, stream, notification, reverse-calling), plus the reader-hand-off schedule; every captured context must be cancelled and no goroutine labelled for the dead connection may remain; distinct = (cause, reaction, gate)"
		err = cancel.ConnectionEnd(d, res, *seed, thorough)
		if err == nil {
			// reverse-client callers observe the end of their connection: many concurrent reverse calls, some still
			// queued for the main loop when it exits
			err = c16.CallsGone(res, *seed+5, "rst", 90000)
		}
		if err == nil {
			err = c16.CallsGone(res, *seed+6, "close", 91000)
		}
	case "C07":
		res.Rule = "rounds of 1..4 concurrent subscriptions with lengths {0,1,31,32,33,257,1000}, fast/slow consumers, every third round one consumer that does not read (from the start or after 5 values) while the others and 20 unary calls must complete, seed-driven delays at every hook; per subscription the hook trace is replayed through the model and compared with what the consumer received; wire order checked on proxy frames; distinct = round; every round non-trivial"
		err = stream.RunHealthy(d, res, *seed, thorough)
		if err == nil {
			err = stream.RichElements(res, *seed, n(300, 3000))
		}
		if err == nil {
			err = stream.Independence(res, *seed)
		}
		if err == nil {
			// a subscription opened after a reconnect keeps every value when the context of a subscription of the
			// previous connection ends
			err = stream.StaleContextAfterReconnect(d, res, *seed)
		}
	case "C08":
		res.Rule = "termination causes {handler close, context cancel, connection loss (fin/rst/blackhole; armed on the channel-id response at 5 byte positions, or cut later), client close, cancel racing loss, loss then close, handler close racing cancel} x instants {at start, after the first value, mid-stream, with values buffered behind a stalled consumer} x {reconnecting, no-reconnect} x 1..3 subscriptions; per subscription the hook trace is replayed through the model; every channel must close; distinct = (cause, instant, reconnect, fault, k, n); every case non-trivial"
		err = stream.RunTermination(d, res, *seed, thorough)
		if err == nil {
			err = stream.StaleContextAfterReconnect(d, res, *seed)
		}
		if err == nil {
			err = stream.SilentLossNoPings(res, *seed)
		}
		if err == nil {
			err = stream.NoContext(res, *seed)
		}
		if err == nil {
			// reverse subscriptions across a reconnect: nothing invented on the new connection's channel
			err = c16.ReverseSubAfterLoss(res, *seed, 97000)
		}
		if err == nil {
			err = corr.SubRegVsSweep(d, res, *seed, "loss")
		}
		if err == nil {
			// a subscription nobody reads, thousands of values behind, must not keep the others (or the close) from
			// terminating (shared with C18)
			err = corr.CloseWithBacklog(res, *seed, 12000)
		}
	case "C09":
		res.Rule = "bodies generated from a JSON-RPC grammar and its mutations; plus request frames from the same grammar sent one at a time over a raw WebSocket connection (response frames on the wire and handler invocations compared with the model's execFrame/wsCall); distinct = distinct (kind, canonical reply, invocation list); non-trivial = a handler ran, or the reply has more than one token, or status != 200"
		err = c09.Run(d, res, *seed, n(4000, 80000), corpus)
		if err == nil {
			err = c09.RunWS(d, res, *seed, n(400, 6000), corpus)
		}
	case "C12":
		res.Rule = "exhaustive: 6 formatters x 8 registration sets x 4 alias tables x every candidate method string x param variants, plus client/server agreement per configuration; distinct = distinct (formatter, registrations, aliases, method, variant); non-trivial = resolves to a handler or a handler ran"
		if *replay != "" {
			*seed = -1
		}
		err = c12.Run(d, res, *seed, thorough, corpus)
		if err == nil {
			err = c12.NonASCII(res)
		}
		if err == nil {
			// "a client and a server configured with the same formatter always agree" also holds for the calls a server
			// makes through its reverse client, whatever the order of the server's options (shared with C16)
			err = c16.FormatterOrder(res)
		}
		if err == nil {
			err = c12.Sequences(res)
		}
	case "C01":
		res.Rule = "25 real signatures (0..5 params, with/without context, four result shapes, raw params, custom (Un)Marshaler, custom encoder/decoder pair) x argument and result values from the property's classes (nil pointers, nil vs empty slices/maps, integer extremes, -0, 1e308, HTML/control/multi-byte strings, byte slices, raw JSON, unserialisable values) x {custom, http, ws} x 5 formatters; plus 12 (thorough 24) goroutines calling concurrently through one client per transport with arguments only they use, the handler echoing what it received; distinct = (method, transport, formatter, values, class); non-trivial = the handler was reached"
		err = c01.Run(d, res, *seed, n(4000, 60000))
		if err == nil && *replay == "" {
			err = c01.RunConcurrent(res, *seed, thorough)
		}
		if err == nil && *replay == "" {
			err = c01.PlainNextToEncoded(res)
		}
		if err == nil && *replay == "" {
			err = c01.StringKinds(res)
		}
		if err == nil && *replay == "" {
			// "under every method-name formatter shared by both sides": names outside ASCII too (shared with C12)
			err = c12.NonASCII(res)
		}
	case "C02":
		res.Rule = "N concurrent blocked calls released in a chosen completion order: every permutation for N <= 3 (4 and 5: sampled in quick / all resp. 40 in thorough), random orders for N in 6..25; seed-driven delays at registration, write, lookup, delivery and delete; each call must return exactly its own token and be executed once; the client endpoint's hook trace is replayed through Jrpc.Corr; plus an HTTP server answering with foreign / mistyped / missing ids; distinct = (N, order)"
		err = corr.Concurrent(d, res, *seed, thorough)
		if err == nil {
			err = corr.CancelledThenMore(d, res, *seed)
		}
		if err == nil {
			// a call whose request cannot be written must still return
			err = c14.BadRawParams(res, *seed)
		}
		if err == nil {
			err = corr.Unencodable(res, *seed)
		}
		if err == nil {
			err = corr.ErrorsOwn(res, *seed)
		}
		if err == nil {
			err = corr.CloseDuringBurst(res, *seed)
		}
		if err == nil {
			// no call ever observes another call's result: an answer of a handler that outlived its connection
			// must not reach the call that re-uses its request id on the next connection (F18; shared with C16)
			for _, k := range []string{"rst", "fin"} {
				if err == nil {
					err = c16.StaleAnswer(d, res, *seed, k, 7000)
				}
			}
		}
		if err == nil {
			err = corr.SkewedSubscription(res, *seed)
		}
		if err == nil {
			err = corr.NotifyCancelledCtx(res, *seed)
		}
	case "C03":
		res.Rule = "fault kinds {FIN, RST, blackhole} x positions {before, inside header, mid-payload, before last byte, after} x directions x frame of a workload (calls, a notification, a retry-tagged call) x calls issued right after the strike / in the reconnect window / after recovery (x second fault, thorough); oracle: a call is lost iff it has not returned although a later probe round-tripped or the client was closed; the client endpoint's hook trace is replayed through Jrpc.Corr; distinct = (fault, position, direction, frame, timing)"
		err = corr.FaultGrid(d, res, *seed, thorough, "C03")
		if err == nil {
			err = corr.SweepVsExecutor(d, res, *seed, false)
		}
		if err == nil {
			err = corr.AfterExit(d, res, *seed)
		}
		if err == nil {
			err = corr.SilentStall(d, res, *seed)
		}
		if err == nil {
			// the redial is answered by something that is not the service (HTTP 404 / 502): still "between connections"
			err = c05.OutageHTTP(res, *seed, 404)
		}
		if err == nil {
			err = c05.OutageHTTP(res, *seed, 502)
		}
		if err == nil {
			err = corr.StaleDelete(d, res, *seed)
		}
	case "C04":
		res.Rule = "the C03 fault grid with per-token execution counters in the handlers and per-token request frame counts at the proxy, call kinds {plain, notification, retry-tagged}; plus an untagged subscription whose channel-id response is lost with the connection (no re-send after the redial) and HTTP calls whose connection dies after the server executed them (close, reset, partial response: the caller must get an error and the server must see the request once); distinct = (fault, position, direction, frame, timing)"
		err = corr.FaultGrid(d, res, *seed+1000, thorough, "C04")
		if err == nil {
			err = corr.SubLostResponse(d, res, *seed)
		}
		if err == nil {
			err = corr.OneShotAtMostOnce(res)
		}
		if err == nil {
			err = corr.MergedStructs(res, *seed)
		}
		if err == nil {
			err = corr.OneShotNotifyOnce(res, *seed)
		}
		if err == nil {
			err = corr.CtxCancelPending(res, *seed)
		}
		if err == nil {
			err = c01.RunConcurrent(res, *seed, thorough) // at-most-once per call also means: each execution with its own call's arguments
		}
		if err == nil {
			err = corr.NotifyThenClose(res, *seed)
		}
		if err == nil {
			err = corr.NoErrorResultOnce(res, *seed)
		}
		if err == nil {
			err = corr.NotifyCancelledCtx(res, *seed)
		}
	case "C18":
		res.Rule = "a mixed workload (queued, written and awaiting calls, a 400 kB response being read, a stream, a connection loss with calls in the reconnect window and after) with the closer fired at sampled occurrences (first, last, random) of each of 25 yield-point sites (hook gates), plus the sweep-versus-executor schedule with the closer as observer and closers of one-shot clients; distinct = (site, occurrence)"
		err = corr.CloseEverywhere(d, res, *seed, thorough)
		if err == nil {
			err = corr.CancelThenClose(d, res, *seed)
		}
		if err == nil {
			err = corr.CloseWithBacklog(res, *seed, 12000)
		}
		if err == nil {
			err = corr.CloseLeavesNoWatcher(res, *seed)
		}
		if err == nil {
			err = corr.CloseOnSilentLink(res, *seed)
		}
		if err == nil {
			err = corr.CloseAfterReconnect(res, *seed)
		}
		if err == nil {
			err = corr.NotifyInOutageThenClose(res, *seed)
		}
	case "C05":
		res.Rule = "backoff: grid of (minDelay, maxDelay) x attempts -2..N x repetitions (implementation's own jitter); distinct = (min, max, attempt); non-trivial = delay still growing (or every 50th capped attempt); plus reconnect scenarios through the proxy (outage with k refused redials x error mapping on/off with an untagged and a retry-tagged call in flight and a call issued in the window; a server that drops every connection right after the upgrade; a no-reconnect client; keepalive after a heal): redial events with hook times replayed through Jrpc.Redial, retry attempts compared with Jrpc.Redial.retryLoop"
		err = c05.RunBackoff(d, res, thorough, corpus)
		if err == nil && *replay == "" {
			err = c05.Scenarios(d, res, *seed, thorough)
		}
		if err == nil && *replay == "" {
			err = corr.MidFrameOutage(d, res, *seed)
		}
		if err == nil && *replay == "" {
			err = corr.ZeroBackoff(res, *seed)
		}
		if err == nil && *replay == "" {
			// a link that dies silently while the client is writing: the client must notice, redial and heal
			err = corr.SilentStall(d, res, *seed)
		}
	case "C10":
		res.Rule = "hostile frames from the property's descriptor grid (control methods x params shapes x element values x id types, responses never requested, calls of every error class, undecodable/binary/empty buffers) sent singly and in random sequences to a real server and, from a fake server, to a real client, each in a child process; body sizes L-1..L+2 for 11 limits; distinct = distinct frame sequence; every case is non-trivial (hostile input reaches the executor)"
		err = c10.Run(d, res, *seed, thorough, corpus)
	case "C13":
		res.Rule = "panic payloads {string, error, nil-map write, nil dereference, struct, index out of range} x call kinds {unary, notification, channel-returning} x {ws, http} x {alone, with 3 concurrent callers and a stream}; the server runs in a child process; every case is non-trivial (a handler panics)"
		err = c13.Run(d, res, *seed, thorough)
	case "C11":
		res.Rule = "error family {plain, pointer-only, marshalable, codec} x value/pointer dynamic forms x failing (un)marshal/codec steps x random registration tables per side (none, same, independent, shared codes) x messages (empty, escapes, control, multi-byte) x shapes {error, (value,error)} x transports {custom, http, ws}; distinct = (tables, spec, shape); non-trivial = the handler returned a non-nil error"
		err = c11.Run(d, res, *seed, n(3000, 40000), corpus)
	case "C14":
		res.Rule = "rounds of a mixed workload on one connection (requests and responses of 1 B..300 kB, notifications, cancels, streams, reverse calls, pings every 2-3 ms on both ends, a reconnect in odd rounds) with seed-driven delays inside every hooked section; per round: every connection's write-lock trace replayed through the model, every wire frame checked; distinct = round (seed); every round is non-trivial"
		err = c14.Run(d, res, *seed, thorough)
		if err == nil {
			err = c14.BadRawParams(res, *seed)
		}
	case "C16":
		res.Rule = "populations of 1,2,3,5 simultaneously connected clients x concurrent forward calls each making sequential or parallel reverse calls (plain, method-tagged through a client-side alias, nested forward call inside the reverse handler, failing handler, missing method): every reverse result must carry the identity of the client being served; loss of the calling client's connection (FIN, RST, client close) before the reverse call, during it, inside the reverse request frame and inside the reverse response frame, with the handler's or a background context: the reverse call and a later one must return an error within 2 s, never another client's answer, survivors unaffected; no reverse client over HTTP or without the server option; every endpoint's trace is replayed through Jrpc.Corr; distinct = scenario parameters"
		err = c16.Run(d, res, *seed, thorough)
	case "C17":
		res.Rule = "(ping, timeout) pairs satisfying ping < timeout/2 x the server's own ping interval {library default 5 s, disabled, same as the client's}: a call lasting 3 timeouts, an idle period of 2 timeouts, short calls — exactly one connection may be accepted; and silent-peer runs (blackhole while idle / during a call): the pending call must fail with the typed connection error and a redial must start within 4 timeouts + 100 ms; the timed hook trace (activity, renewals, read failures) is replayed through the model's acceptor; distinct = (pair, server ping | when)"
		err = c17.Run(d, res, *seed, thorough)
	case "C19":
		res.Rule = "exhaustive: 10 default sets x 10 caller sets x {attached, not} x 3 required permissions x 2 method shapes through the real PermissionedProxy, and 14 Authorization header forms x 6 token query forms through the real auth.Handler; every case is distinct and non-trivial (a permission decision is taken); plus end to end: auth.Handler in front of an RPC server with a PermissionedProxy API over {http, ws, ws with a reverse client} x 3 default sets x 3 orders of six callers (token holders and anonymous) whose permission slices share one backing array"
		err = c19.Run(d, res)
		if err == nil {
			res.Exhaustive = false
			err = c19.RunE2E(d, res)
			if err == nil {
				err = c19.RunFormBody(d, res)
			}
			if err == nil {
				err = c19.RunNoCtx(d, res)
				if err == nil {
					err = c19.RunNamedCtx(res)
				}
			}
			if err == nil {
				err = c19.RunMethods(d, res)
			}
			res.Exhaustive = err == nil
		}
	case "C20":
		res.Rule = "lengths {0,1,2,4095,4096,4097,8192,65537,1MiB (+5MiB, 511..513, 33333 thorough)} x 7 handler read patterns (ReadAll, byte-at-a-time, read past EOF, close after EOF, early close, double close + read, odd chunks) x arrival order {natural, decoder first, upload first} x {ws, http} x 1..8 concurrent calls with different contents; every read/close is traced and replayed through the model; every case is non-trivial"
		err = c20.Run(d, res, *seed, thorough)
	default:
		err = fmt.Errorf("unknown property %s", prop)
	}
	if err != nil {
		fatal(err)
	}
	if *out != "" {
		if err := res.Write(*out); err != nil {
			fatal(err)
		}
	} else {
		res.Write("/dev/stdout")
	}
}

func fatal(err error) {
	fmt.Fprintln(os.Stderr, "harness error:", err)
	os.Exit(3)
}

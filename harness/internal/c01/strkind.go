package c01

// StringKinds: string-kinded parameter types that have their own JSON or text form (the shape of peer ids,
// addresses, enums): the handler sees the JSON round trip of the argument, i.e. what the type's own
// unmarshaller makes of what its marshaller wrote — not the raw wire string.

import (
	"bytes"
	"context"
	"encoding/hex"
	"encoding/json"
	"fmt"
	"io"
	"net/http/httptest"
	"strings"

	jsonrpc "github.com/filecoin-project/go-jsonrpc"

	"verif/harness/internal/fw"
)

// PeerID marshals as "id:<hex>" (JSON methods; the unmarshaller has a pointer receiver).
type PeerID string

func (p PeerID) MarshalJSON() ([]byte, error) {
	return json.Marshal("id:" + hex.EncodeToString([]byte(p)))
}
func (p *PeerID) UnmarshalJSON(b []byte) error {
	var s string
	if err := json.Unmarshal(b, &s); err != nil {
		return err
	}
	raw, err := hex.DecodeString(strings.TrimPrefix(s, "id:"))
	if err != nil {
		return err
	}
	*p = PeerID(raw)
	return nil
}

// Colour marshals upper-case and unmarshals lower-case (text methods).
type Colour string

func (c Colour) MarshalText() ([]byte, error) { return []byte(strings.ToUpper(string(c))), nil }
func (c *Colour) UnmarshalText(b []byte) error {
	*c = Colour(strings.ToLower(string(b)))
	return nil
}

type strH struct{ got []string }

func (h *strH) Who(p PeerID, c Colour, plain string) (string, error) {
	h.got = append(h.got, fmt.Sprintf("%q|%q|%q", string(p), string(c), plain))
	return string(p) + "|" + string(c) + "|" + plain, nil
}

type strClient struct {
	Who func(PeerID, Colour, string) (string, error)
}

func StringKinds(res *fw.Result) error {
	for _, transport := range []string{"http", "ws", "custom"} {
		h := &strH{}
		srv := jsonrpc.NewServer()
		srv.Register("K", h)
		var cl strClient
		var closer jsonrpc.ClientCloser
		var err error
		var ts *httptest.Server
		if transport == "custom" {
			closer, err = jsonrpc.NewCustomClient("K", []interface{}{&cl}, func(ctx context.Context, body []byte) (io.ReadCloser, error) {
				var buf bytes.Buffer
				srv.HandleRequest(ctx, bytes.NewReader(body), &buf)
				return io.NopCloser(&buf), nil
			})
		} else {
			ts = httptest.NewServer(srv)
			url := ts.URL
			if transport == "ws" {
				url = "ws" + strings.TrimPrefix(url, "http")
			}
			closer, err = jsonrpc.NewMergeClient(context.Background(), url, "K", []interface{}{&cl}, nil)
		}
		if err != nil {
			return err
		}
		for _, a := range []struct{ p, c, s string }{{"peer-1", "blue", "plain"}, {"", "", ""}, {"a\"b", "Red", "x y"}} {
			h.got = nil
			back, err := cl.Who(PeerID(a.p), Colour(a.c), a.s)
			want := a.p + "|" + strings.ToLower(a.c) + "|" + a.s
			res.Count("string-kinds")
			res.Eval(true, []interface{}{"string-kinds", transport, a.p, a.c, a.s})
			if err != nil || back != want {
				res.Add(fw.Finding{Kind: "monitor", Signature: "string-kinded parameters with their own (un)marshallers transport=" + transport,
					Detail: fmt.Sprintf("Who(%q,%q,%q): the handler saw %v and the caller got (%q, %v); the JSON round trip of the arguments is %q", a.p, a.c, a.s, h.got, back, err, want),
					Case:   map[string]interface{}{"scenario": "string-kinds", "transport": transport}})
			}
		}
		closer()
		if ts != nil {
			ts.Close()
		}
	}
	return nil
}

package c01

// Transparency under concurrency: many goroutines call through one client at the same time, each with
// arguments only it uses; the handler answers with a rendering of exactly what it received, so a call
// that was run with (part of) another call's arguments, or that got another call's result, is seen by its
// own caller.  The theorems of C01 are about one call; what ties them to concurrent use is that a call's
// wire params are a function of that call's arguments alone (no state shared between calls), which is
// what this phase observes on the real client.

import (
	"bytes"
	"context"
	"encoding/json"
	"fmt"
	"io"
	"net/http/httptest"
	"reflect"
	"strings"
	"sync"
	"time"

	jsonrpc "github.com/filecoin-project/go-jsonrpc"

	"verif/harness/internal/fw"
)

type K struct{}

func (K) Tag(ctx context.Context, who string, seq int, pad []int) (string, error) {
	return fmt.Sprintf("%s/%06d/%d", who, seq, len(pad)), nil
}
func (K) Pair(a, b string) (string, error) { return a + "|" + b, nil }

// SlowTok is decoded by a custom param decoder that takes its time: the window between "the first param
// is decoded" and "the handler is invoked" is then wide enough for another call of the same method.
type SlowTok string

func (K) Slow(a int, s SlowTok) (string, error) { return fmt.Sprintf("%d|%s", a, string(s)), nil }

type KClient struct {
	Tag  func(ctx context.Context, who string, seq int, pad []int) (string, error)
	Pair func(a, b string) (string, error)
	Slow func(a int, s SlowTok) (string, error)
}

func RunConcurrent(res *fw.Result, seed int64, thorough bool) error {
	workers, calls := 12, 120
	if thorough {
		workers, calls = 24, 600
	}
	for _, tr := range []string{"custom", "http", "ws"} {
		srv := jsonrpc.NewServer(jsonrpc.WithParamDecoder(new(SlowTok), func(ctx context.Context, b []byte) (reflect.Value, error) {
			var str string
			if err := json.Unmarshal(b, &str); err != nil {
				return reflect.Value{}, err
			}
			time.Sleep(150 * time.Microsecond)
			return reflect.ValueOf(SlowTok(str)), nil
		}))
		srv.Register("K", K{})
		var cl KClient
		var closer jsonrpc.ClientCloser
		var err error
		var ts *httptest.Server
		switch tr {
		case "custom":
			closer, err = jsonrpc.NewCustomClient("K", []interface{}{&cl}, func(ctx context.Context, body []byte) (io.ReadCloser, error) {
				var buf bytes.Buffer
				srv.HandleRequest(ctx, bytes.NewReader(body), &buf)
				return io.NopCloser(&buf), nil
			})
		default:
			ts = httptest.NewServer(srv)
			url := ts.URL
			if tr == "ws" {
				url = "ws" + strings.TrimPrefix(url, "http")
			}
			closer, err = jsonrpc.NewMergeClient(context.Background(), url, "K", []interface{}{&cl}, nil)
		}
		if err != nil {
			return err
		}
		var wg sync.WaitGroup
		var mu sync.Mutex
		var firstBad string
		bad := 0
		for w := 0; w < workers; w++ {
			wg.Add(1)
			go func(w int) {
				defer wg.Done()
				who := fmt.Sprintf("worker-%02d", w)
				for k := 0; k < calls; k++ {
					var got, want string
					var err error
					if k%3 == 2 {
						want = fmt.Sprintf("%d|%s", w*100000+k, who)
						got, err = cl.Slow(w*100000+k, SlowTok(who))
					} else if k%2 == 0 {
						want = fmt.Sprintf("%s/%06d/%d", who, k, w%5)
						got, err = cl.Tag(context.Background(), who, k, make([]int, w%5))
					} else {
						a, b := fmt.Sprintf("%s-a%05d", who, k), fmt.Sprintf("%s-b%05d", who, k)
						want = a + "|" + b
						got, err = cl.Pair(a, b)
					}
					if err != nil || got != want {
						mu.Lock()
						bad++
						if firstBad == "" {
							firstBad = fmt.Sprintf("%s call %d: want %q, got %q, err %v", who, k, want, got, err)
						}
						mu.Unlock()
					}
				}
			}(w)
		}
		if !waitTimeout(&wg, 60*time.Second) {
			res.Add(fw.Finding{Kind: "monitor", Signature: "concurrent calls hang transport=" + tr,
				Detail: "concurrent calls with distinct arguments did not all return within 60s", Case: map[string]interface{}{"transport": tr, "workers": workers, "calls": calls}})
			return nil
		}
		closer()
		if ts != nil {
			ts.Close()
		}
		res.CountN("concurrent."+tr, workers*calls)
		res.Eval(true, []interface{}{"concurrent", tr, workers, calls})
		if bad > 0 {
			res.Add(fw.Finding{Kind: "monitor", Signature: "concurrent calls transport=" + tr,
				Detail: fmt.Sprintf("%d of %d concurrent calls were not transparent (handler ran with other arguments, or the caller got another result); first: %s", bad, workers*calls, firstBad),
				Case:   map[string]interface{}{"transport": tr, "workers": workers, "calls": calls}})
		}
	}
	return nil
}

func waitTimeout(wg *sync.WaitGroup, d time.Duration) bool {
	done := make(chan struct{})
	go func() { wg.Wait(); close(done) }()
	select {
	case <-done:
		return true
	case <-time.After(d):
		return false
	}
}

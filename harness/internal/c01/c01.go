// Package c01 — call transparency: a family of real handler/client signatures, argument and result
// values from the classes the property lists, three transports and five name formatters; what the
// handler received and what the caller got back are compared with the JSON round trip of what was
// sent (the property's oracle) and with the model's plan of the call.
package c01

import (
	"bytes"
	"context"
	"encoding/json"
	"errors"
	"fmt"
	"io"
	"math"
	"math/rand"
	"net/http/httptest"
	"reflect"
	"strings"
	"sync"
	"time"

	jsonrpc "github.com/filecoin-project/go-jsonrpc"

	"verif/harness/internal/c09"
	"verif/harness/internal/fw"
)

type Pt struct {
	X int    `json:"x"`
	Y string `json:"y,omitempty"`
	Z *int   `json:"z"`
}

type Inner struct {
	A []int
	B map[string]bool
}

type Nested struct {
	Pt
	Inner Inner
	P     *Pt
	Tags  []string `json:"tags"`
	skip  int
}

// Money has custom (Un)Marshalers.
type Money struct{ Cents int64 }

func (m Money) MarshalJSON() ([]byte, error) { return json.Marshal(fmt.Sprintf("$%d", m.Cents)) }
func (m *Money) UnmarshalJSON(b []byte) error {
	var s string
	if err := json.Unmarshal(b, &s); err != nil {
		return err
	}
	_, err := fmt.Sscanf(s, "$%d", &m.Cents)
	return err
}

// Stat is a result type that happens to have an Error() method without being `error`: a method returning
// it returns a *value* (its declared result type is not the error interface).
type Stat struct {
	Code int    `json:"code"`
	Msg  string `json:"msg"`
}

func (s *Stat) Error() string { return fmt.Sprintf("stat %d: %s", s.Code, s.Msg) }

// Secret travels through a custom param encoder/decoder pair.
type Secret string

type rec struct {
	mu   sync.Mutex
	name string
	args []interface{}
	n    int
}

type C struct {
	r    *rec
	fail bool
	ret  interface{}
}

var errHandler = errors.New("handler failed")

func (c *C) rec(name string, args ...interface{}) error {
	c.r.mu.Lock()
	c.r.name, c.r.args = name, args
	c.r.n++
	c.r.mu.Unlock()
	if c.fail {
		return errHandler
	}
	return nil
}

func ret[T any](c *C) T {
	if v, ok := c.ret.(T); ok {
		return v
	}
	var z T
	return z
}

func (c *C) V0()                  { c.rec("V0") }
func (c *C) E0() error            { return c.rec("E0") }
func (c *C) R0() (int, error)     { return ret[int](c), c.rec("R0") }
func (c *C) N1(a int)             { c.rec("N1", a) }
func (c *C) OnlyVal(a int) string { c.rec("OnlyVal", a); return ret[string](c) }
func (c *C) Int2(a int, b int64) (uint64, error) {
	return ret[uint64](c), c.rec("Int2", a, b)
}
func (c *C) Mix3(ctx context.Context, s string, f float64, b bool) (string, error) {
	return ret[string](c), c.rec("Mix3", ctx, s, f, b)
}
func (c *C) Mix5(a int, s string, p *Pt, xs []int, m map[string]int) (Pt, error) {
	return ret[Pt](c), c.rec("Mix5", a, s, p, xs, m)
}
func (c *C) CtxOnly(ctx context.Context) error { return c.rec("CtxOnly", ctx) }
func (c *C) CtxVal(ctx context.Context, a int) int {
	c.rec("CtxVal", ctx, a)
	return ret[int](c)
}
func (c *C) Bytes(b []byte) ([]byte, error) { return ret[[]byte](c), c.rec("Bytes", b) }
func (c *C) RawMsg(m json.RawMessage) (json.RawMessage, error) {
	return ret[json.RawMessage](c), c.rec("RawMsg", m)
}
func (c *C) Nest(n Nested) (Nested, error) { return ret[Nested](c), c.rec("Nest", n) }
func (c *C) PtrPt(p *Pt) (*Pt, error)      { return ret[*Pt](c), c.rec("PtrPt", p) }
func (c *C) Iface(x interface{}) (interface{}, error) {
	return c.ret, c.rec("Iface", x)
}
func (c *C) Cust(m Money) (Money, error) { return ret[Money](c), c.rec("Cust", m) }
func (c *C) Sec(ctx context.Context, a int, s Secret, b int) (int, error) {
	return ret[int](c), c.rec("Sec", ctx, a, s, b)
}
func (c *C) Raw(p jsonrpc.RawParams) (string, error) { return ret[string](c), c.rec("Raw", p) }
func (c *C) RawCtx(ctx context.Context, p jsonrpc.RawParams) (string, error) {
	return ret[string](c), c.rec("RawCtx", ctx, p)
}
func (c *C) Strs(a, b string) (string, error) { return ret[string](c), c.rec("Strs", a, b) }
func (c *C) F64(f float64) (float64, error)   { return ret[float64](c), c.rec("F64", f) }
func (c *C) U64(u uint64) (uint64, error)     { return ret[uint64](c), c.rec("U64", u) }
func (c *C) I64(i int64) (int64, error)       { return ret[int64](c), c.rec("I64", i) }
func (c *C) MapS(m map[string][]string) (map[string][]string, error) {
	return ret[map[string][]string](c), c.rec("MapS", m)
}
func (c *C) SliceS(s []string) ([]string, error) { return ret[[]string](c), c.rec("SliceS", s) }
func (c *C) StatOnly(a int) *Stat                { c.rec("StatOnly", a); return ret[*Stat](c) }
func (c *C) StatErr(a int) (*Stat, error)        { return ret[*Stat](c), c.rec("StatErr", a) }

// variadic methods: on the wire the variadic arguments are one array, the last positional parameter
func (c *C) Var(tag string, xs ...int) (int, error) { return ret[int](c), c.rec("Var", tag, xs) }
func (c *C) VarCtx(ctx context.Context, ss ...string) (string, error) {
	return ret[string](c), c.rec("VarCtx", ctx, ss)
}

type Client struct {
	V0       func()
	E0       func() error
	R0       func() (int, error)
	N1       func(int)
	OnlyVal  func(int) string
	Int2     func(int, int64) (uint64, error)
	Mix3     func(context.Context, string, float64, bool) (string, error)
	Mix5     func(int, string, *Pt, []int, map[string]int) (Pt, error)
	CtxOnly  func(context.Context) error
	CtxVal   func(context.Context, int) int
	Bytes    func([]byte) ([]byte, error)
	RawMsg   func(json.RawMessage) (json.RawMessage, error)
	Nest     func(Nested) (Nested, error)
	PtrPt    func(*Pt) (*Pt, error)
	Iface    func(interface{}) (interface{}, error)
	Cust     func(Money) (Money, error)
	Sec      func(context.Context, int, Secret, int) (int, error)
	Raw      func(jsonrpc.RawParams) (string, error)
	RawCtx   func(context.Context, jsonrpc.RawParams) (string, error)
	Strs     func(string, string) (string, error)
	F64      func(float64) (float64, error)
	U64      func(uint64) (uint64, error)
	I64      func(int64) (int64, error)
	MapS     func(map[string][]string) (map[string][]string, error)
	SliceS   func([]string) ([]string, error)
	StatOnly func(int) *Stat
	StatErr  func(int) (*Stat, error)
	Var      func(string, ...int) (int, error)
	VarCtx   func(context.Context, ...string) (string, error)
}

// SigDesc: the model's view of a signature (hand-written).
type SigDesc struct {
	Name   string   `json:"name"`
	Ctx    bool     `json:"ctx,omitempty"`
	PTypes []string `json:"ptypes"`
	Raw    bool     `json:"raw,omitempty"`
	Out    string   `json:"out"`
	VTy    string   `json:"vty,omitempty"`
}

var sigs = []SigDesc{
	{Name: "V0", PTypes: []string{}, Out: "none"},
	{Name: "E0", PTypes: []string{}, Out: "err"},
	{Name: "R0", PTypes: []string{}, Out: "valerr", VTy: "int"},
	{Name: "N1", PTypes: []string{"int"}, Out: "none"},
	{Name: "OnlyVal", PTypes: []string{"int"}, Out: "val", VTy: "string"},
	{Name: "Int2", PTypes: []string{"int", "int64"}, Out: "valerr", VTy: "uint64"},
	{Name: "Mix3", Ctx: true, PTypes: []string{"string", "float64", "bool"}, Out: "valerr", VTy: "string"},
	{Name: "Mix5", PTypes: []string{"int", "string", "*Pt", "[]int", "map[string]int"}, Out: "valerr", VTy: "Pt"},
	{Name: "CtxOnly", Ctx: true, PTypes: []string{}, Out: "err"},
	{Name: "CtxVal", Ctx: true, PTypes: []string{"int"}, Out: "val", VTy: "int"},
	{Name: "Bytes", PTypes: []string{"[]byte"}, Out: "valerr", VTy: "[]byte"},
	{Name: "RawMsg", PTypes: []string{"json.RawMessage"}, Out: "valerr", VTy: "json.RawMessage"},
	{Name: "Nest", PTypes: []string{"Nested"}, Out: "valerr", VTy: "Nested"},
	{Name: "PtrPt", PTypes: []string{"*Pt"}, Out: "valerr", VTy: "*Pt"},
	{Name: "Iface", PTypes: []string{"interface{}"}, Out: "valerr", VTy: "interface{}"},
	{Name: "Cust", PTypes: []string{"Money"}, Out: "valerr", VTy: "Money"},
	{Name: "Sec", Ctx: true, PTypes: []string{"int", "Secret", "int"}, Out: "valerr", VTy: "int"},
	{Name: "Raw", PTypes: []string{"raw"}, Raw: true, Out: "valerr", VTy: "string"},
	{Name: "RawCtx", Ctx: true, PTypes: []string{"raw"}, Raw: true, Out: "valerr", VTy: "string"},
	{Name: "Strs", PTypes: []string{"string", "string"}, Out: "valerr", VTy: "string"},
	{Name: "F64", PTypes: []string{"float64"}, Out: "valerr", VTy: "float64"},
	{Name: "U64", PTypes: []string{"uint64"}, Out: "valerr", VTy: "uint64"},
	{Name: "I64", PTypes: []string{"int64"}, Out: "valerr", VTy: "int64"},
	{Name: "MapS", PTypes: []string{"map[string][]string"}, Out: "valerr", VTy: "map[string][]string"},
	{Name: "SliceS", PTypes: []string{"[]string"}, Out: "valerr", VTy: "[]string"},
	{Name: "StatOnly", PTypes: []string{"int"}, Out: "val", VTy: "*Stat"},
	{Name: "StatErr", PTypes: []string{"int"}, Out: "valerr", VTy: "*Stat"},
	{Name: "Var", PTypes: []string{"string", "[]int"}, Out: "valerr", VTy: "int"},
	{Name: "VarCtx", Ctx: true, PTypes: []string{"[]string"}, Out: "valerr", VTy: "string"},
}

var strPool = []string{"", "a", "<script>alert('x')&amp;</script>", "tab\there", "nl\nline", "\u0000\u0001\u001f", "héllo ✓ 日本語 🎉", `quote " and \ backslash`, "  ", strings.Repeat("x", 300), "null", "[1,2]"}

func ip(i int) *int { return &i }

// gen returns a random value of the named type, biased to the classes the property lists.
func gen(r *rand.Rand, ty string) interface{} {
	switch ty {
	case "int":
		return fw.Pick(r, []int{0, 1, -1, 42, math.MaxInt64, math.MinInt64, 1 << 53, r.Intn(100000)})
	case "int64":
		return fw.Pick(r, []int64{0, -1, math.MaxInt64, math.MinInt64, 1<<53 + 1, int64(r.Intn(1000))})
	case "uint64":
		return fw.Pick(r, []uint64{0, 1, math.MaxUint64, 1 << 63, 1<<53 + 1, uint64(r.Intn(1000))})
	case "float64":
		return fw.Pick(r, []float64{0, math.Copysign(0, -1), 1e308, -1e308, 5e-324, 1.5, 0.1, 1e21, 123456789.125, float64(r.Intn(1000)) / 7})
	case "string":
		return fw.Pick(r, strPool)
	case "bool":
		return r.Intn(2) == 0
	case "[]byte":
		return fw.Pick(r, [][]byte{nil, {}, {0}, {0xff, 0xfe, 0x00}, []byte("hello"), bytes.Repeat([]byte{7}, 1000)})
	case "[]int":
		return fw.Pick(r, [][]int{nil, {}, {1}, {1, 2, 3}, {math.MinInt64, 0, math.MaxInt64}})
	case "[]string":
		return fw.Pick(r, [][]string{nil, {}, {""}, {"a", "<&>", "é"}, strPool[:5]})
	case "map[string]int":
		return fw.Pick(r, []map[string]int{nil, {}, {"a": 1}, {"": 0, "<k>": -1, "é": 2}})
	case "map[string][]string":
		return fw.Pick(r, []map[string][]string{nil, {}, {"a": nil}, {"a": {}, "b": {"x", ""}}})
	case "*Pt":
		return fw.Pick(r, []*Pt{nil, {}, {X: 1, Y: "y"}, {X: -5, Z: ip(0)}, {Y: "<>", Z: ip(math.MaxInt64)}})
	case "Pt":
		return *fw.Pick(r, []*Pt{{}, {X: 1, Y: "y"}, {X: -5, Z: ip(7)}})
	case "Nested":
		return fw.Pick(r, []Nested{{}, {Pt: Pt{X: 1, Y: "e"}, Inner: Inner{A: []int{}, B: map[string]bool{"t": true}}, P: &Pt{Z: ip(3)}, Tags: []string{}},
			{Inner: Inner{A: nil, B: nil}, Tags: nil}, {Pt: Pt{Z: ip(-1)}, P: &Pt{}, Tags: []string{"<a>", ""}}})
	case "json.RawMessage":
		return fw.Pick(r, []json.RawMessage{json.RawMessage(`null`), json.RawMessage(`{"a":[1,2,{"b":null}]}`), json.RawMessage(`"s"`), json.RawMessage(`[ ]`), json.RawMessage(`1.50`), json.RawMessage(`{"k": "<v>"}`)})
	case "interface{}":
		return fw.Pick(r, []interface{}{nil, 1.5, "s", true, []interface{}{1.0, "a", nil}, map[string]interface{}{"a": map[string]interface{}{"b": []interface{}{}}}, 42, Pt{X: 1}})
	case "*Stat":
		return fw.Pick(r, []*Stat{nil, {}, {Code: 7, Msg: "seven"}, {Code: -1, Msg: "<&>"}})
	case "Money":
		return fw.Pick(r, []Money{{}, {Cents: 1}, {Cents: -250}, {Cents: math.MaxInt64}})
	case "Secret":
		return fw.Pick(r, []Secret{"", "hunter2", "<s>", "é✓"})
	}
	panic("gen " + ty)
}

// bad returns a value of the type that does not survive the trip (or nil if the type has none).
func bad(r *rand.Rand, ty string) (interface{}, bool) {
	switch ty {
	case "float64":
		return fw.Pick(r, []float64{math.NaN(), math.Inf(1), math.Inf(-1)}), true
	case "interface{}":
		return fw.Pick(r, []interface{}{make(chan int), func() {}, math.NaN(), map[string]interface{}{"a": make(chan int)}}), true
	case "json.RawMessage":
		return json.RawMessage(`{broken`), true
	case "Secret":
		return Secret("FAIL-ENCODE"), true
	}
	return nil, false
}

var typeOf = map[string]reflect.Type{
	"int": reflect.TypeOf(0), "int64": reflect.TypeOf(int64(0)), "uint64": reflect.TypeOf(uint64(0)), "float64": reflect.TypeOf(0.0),
	"string": reflect.TypeOf(""), "bool": reflect.TypeOf(false), "[]byte": reflect.TypeOf([]byte{}), "[]int": reflect.TypeOf([]int{}),
	"[]string": reflect.TypeOf([]string{}), "map[string]int": reflect.TypeOf(map[string]int{}), "map[string][]string": reflect.TypeOf(map[string][]string{}),
	"*Pt": reflect.TypeOf(&Pt{}), "Pt": reflect.TypeOf(Pt{}), "Nested": reflect.TypeOf(Nested{}), "json.RawMessage": reflect.TypeOf(json.RawMessage{}),
	"*Stat":       reflect.TypeOf(&Stat{}),
	"interface{}": reflect.TypeOf((*interface{})(nil)).Elem(), "Money": reflect.TypeOf(Money{}), "Secret": reflect.TypeOf(Secret("")),
}

// rt is the property's oracle: json.Unmarshal(json.Marshal(v)) into the declared type.
func rt(v interface{}, ty string) (interface{}, error) {
	b, err := json.Marshal(v)
	if err != nil {
		return nil, err
	}
	p := reflect.New(typeOf[ty])
	if err := json.Unmarshal(b, p.Interface()); err != nil {
		return nil, err
	}
	return p.Elem().Interface(), nil
}

func deepEq(a, b interface{}) bool {
	// json.RawMessage survives byte for byte only up to compaction by the encoder; compare as JSON values
	if ra, ok := a.(json.RawMessage); ok {
		rb, ok2 := b.(json.RawMessage)
		if !ok2 {
			return false
		}
		var va, vb interface{}
		if json.Unmarshal(ra, &va) != nil || json.Unmarshal(rb, &vb) != nil {
			return bytes.Equal(ra, rb)
		}
		return reflect.DeepEqual(va, vb)
	}
	if fa, ok := a.(float64); ok {
		if fb, ok := b.(float64); ok {
			return fa == fb && math.Signbit(fa) == math.Signbit(fb)
		}
	}
	return reflect.DeepEqual(a, b)
}

type env struct {
	c      *C
	cl     *Client
	closer func()
	ts     *httptest.Server
}

var secretEnc = jsonrpc.WithParamEncoder(new(Secret), func(v reflect.Value) (reflect.Value, error) {
	s := v.Interface().(Secret)
	if s == "FAIL-ENCODE" {
		return reflect.Value{}, errors.New("cannot encode")
	}
	return reflect.ValueOf("enc:" + string(s)), nil
})

var secretDec = jsonrpc.WithParamDecoder(new(Secret), func(ctx context.Context, b []byte) (reflect.Value, error) {
	var s string
	if err := json.Unmarshal(b, &s); err != nil {
		return reflect.Value{}, err
	}
	if !strings.HasPrefix(s, "enc:") {
		return reflect.Value{}, errors.New("not encoded")
	}
	return reflect.ValueOf(Secret(strings.TrimPrefix(s, "enc:"))), nil
})

func mkEnv(transport string, f c09.Fmt, ns string) (*env, error) {
	e := &env{c: &C{r: &rec{}}, cl: &Client{}}
	srv := jsonrpc.NewServer(jsonrpc.WithServerMethodNameFormatter(c09.Formatter(f)), secretDec)
	srv.Register(ns, e.c)
	// aliases whose names coincide with registered methods: an alias is a fallback for names nothing is
	// registered under, so none of these may change which method a call runs
	on := c09.OracleFormatter(f)
	srv.AliasMethod(on(ns, "Int2"), on(ns, "Strs"))
	srv.AliasMethod(on(ns, "Strs"), on(ns, "I64"))
	srv.AliasMethod(on(ns, "R0"), on(ns, "NotThere"))
	srv.AliasMethod(on(ns, "E0"), on(ns, "V0"))
	srv.AliasMethod(on(ns, "Nest"), on(ns, "PtrPt"))
	copts := []jsonrpc.Option{jsonrpc.WithMethodNameFormatter(c09.Formatter(f)), secretEnc}
	var err error
	var closer jsonrpc.ClientCloser
	switch transport {
	case "custom":
		closer, err = jsonrpc.NewCustomClient(ns, []interface{}{e.cl}, func(ctx context.Context, body []byte) (io.ReadCloser, error) {
			var buf bytes.Buffer
			srv.HandleRequest(ctx, bytes.NewReader(body), &buf)
			return io.NopCloser(&buf), nil
		}, copts...)
	default:
		e.ts = httptest.NewServer(srv)
		url := e.ts.URL
		if transport == "ws" {
			url = "ws" + strings.TrimPrefix(url, "http")
		}
		closer, err = jsonrpc.NewMergeClient(context.Background(), url, ns, []interface{}{e.cl}, nil, copts...)
	}
	if err != nil {
		return nil, err
	}
	e.closer = func() {
		closer()
		if e.ts != nil {
			e.ts.Close()
		}
	}
	return e, nil
}

var formatters = []c09.Fmt{{Ns: true}, {Ns: true, Lower: true}, {Ns: false}, {Ns: false, Lower: true}, {Ns: true, Sep: "/"}}

type ctxKey struct{}

var errHang = errors.New("call hung")

func Run(d *fw.Driver, res *fw.Result, seed int64, n int) error {
	r := fw.Rng(seed, "c01")
	type ek struct {
		t string
		f int
	}
	envs := map[ek]*env{}
	defer func() {
		for _, e := range envs {
			e.closer()
		}
	}()
	for i := 0; i < n; i++ {
		tr := fw.Pick(r, []string{"custom", "http", "ws"})
		fi := r.Intn(len(formatters))
		e, ok := envs[ek{tr, fi}]
		if !ok {
			var err error
			e, err = mkEnv(tr, formatters[fi], "NS")
			if err != nil {
				return err
			}
			envs[ek{tr, fi}] = e
		}
		s := sigs[r.Intn(len(sigs))]
		if err := one(d, res, r, e, s, tr, fi); err != nil {
			if err == errHang {
				delete(envs, ek{tr, fi}) // that environment is wedged; leave it behind
				continue
			}
			return err
		}
	}
	return nil
}

func one(d *fw.Driver, res *fw.Result, r *rand.Rand, e *env, s SigDesc, tr string, fi int) error {
	// ---- build the call
	var args []reflect.Value
	var sent []interface{}
	badArgs := []int{}
	ctx := context.WithValue(context.Background(), ctxKey{}, "marker")
	if s.Ctx {
		args = append(args, reflect.ValueOf(ctx))
	}
	rawText := ""
	if s.Raw {
		rawText = fw.Pick(r, []string{`[1,"a",null]`, `{"named":{"x":1}}`, `[]`, `"scalar"`, `[[1,2],{"k":"<v>"}]`, ` [ 1 ] `})
		args = append(args, reflect.ValueOf(jsonrpc.RawParams(rawText)))
	} else {
		for i, t := range s.PTypes {
			var v interface{}
			if bv, ok := bad(r, t); ok && r.Intn(12) == 0 {
				v = bv
				badArgs = append(badArgs, i)
			} else {
				v = gen(r, t)
			}
			sent = append(sent, v)
			if v == nil {
				args = append(args, reflect.Zero(typeOf[t]))
			} else {
				args = append(args, reflect.ValueOf(v).Convert(typeOf[t]))
			}
		}
	}
	e.c.fail = r.Intn(5) == 0 && (s.Out == "err" || s.Out == "valerr")
	var retVal interface{}
	resultBad := false
	if s.VTy != "" {
		retVal = gen(r, s.VTy)
		// results are restricted to encoding/json-serialisable values (README; C09's quantifier), so
		// no unserialisable result is generated
		_ = resultBad
	}
	e.c.ret = retVal
	if e.c.fail {
		resultBad = false
	}
	e.c.r.mu.Lock()
	e.c.r.name, e.c.r.args, e.c.r.n = "", nil, 0
	e.c.r.mu.Unlock()

	ask := map[string]interface{}{"op": "call", "sig": s, "customTypes": []string{"Secret"}, "badArgs": badArgs,
		"handlerFails": e.c.fail, "resultBad": resultBad}
	model, err := d.Ask(ask)
	if err != nil {
		return err
	}

	// ---- the real call
	fn := reflect.ValueOf(e.cl).Elem().FieldByName(s.Name)
	var outs []reflect.Value
	doneCh := make(chan struct{})
	go func() {
		defer close(doneCh)
		defer func() {
			if p := recover(); p != nil {
				outs = nil
				err = fmt.Errorf("client panicked: %v", p)
			}
		}()
		if fn.Type().IsVariadic() {
			outs = fn.CallSlice(args) // the variadic arguments are passed as the slice they are
		} else {
			outs = fn.Call(args)
		}
	}()
	select {
	case <-doneCh:
	case <-time.After(15 * time.Second):
		res.Add(fw.Finding{Kind: "monitor", Signature: "call hangs " + s.Name, Detail: fmt.Sprintf("%s over %s did not return within 15s (sent %#v, handler returns %#v)", s.Name, tr, sent, retVal), Case: ask})
		return errHang
	}
	if err != nil {
		res.Add(fw.Finding{Kind: "monitor", Signature: "client panic " + s.Name, Detail: err.Error(), Case: ask})
		return nil
	}
	e.c.r.mu.Lock()
	gotName, gotArgs, gotN := e.c.r.name, e.c.r.args, e.c.r.n
	e.c.r.mu.Unlock()

	// ---- observations in the model's vocabulary, and the property's monitor
	mon := ""
	impl := map[string]interface{}{"slots": nil, "caller": nil}
	reached := gotN > 0
	if gotN > 1 {
		mon = fmt.Sprintf("the handler ran %d times for one call", gotN)
	}
	if reached {
		if gotName != s.Name {
			mon = fmt.Sprintf("called %s, handler %s ran", s.Name, gotName)
		}
		slots := []interface{}{}
		k := 0
		if s.Ctx {
			if len(gotArgs) == 0 {
				mon = "handler got no context"
			} else if _, ok := gotArgs[0].(context.Context); ok {
				slots = append(slots, "ctx")
				k = 1
			}
		}
		if s.Raw {
			if len(gotArgs) == k+1 {
				if rp, ok := gotArgs[k].(jsonrpc.RawParams); ok {
					slots = append(slots, map[string]interface{}{"raw": "RAW"})
					var a, b interface{}
					if json.Unmarshal(rp, &a) != nil || json.Unmarshal([]byte(rawText), &b) != nil || !reflect.DeepEqual(a, b) {
						mon = fmt.Sprintf("raw params %q arrived as %q", rawText, string(rp))
					}
				}
			}
		} else {
			if len(gotArgs)-k != len(sent) {
				mon = fmt.Sprintf("handler got %d positional arguments, %d were sent", len(gotArgs)-k, len(sent))
			}
			for i := 0; i+k < len(gotArgs) && i < len(sent); i++ {
				want, rerr := rt(sent[i], s.PTypes[i])
				if s.PTypes[i] == "Secret" {
					want, rerr = sent[i], nil // the encoder/decoder pair is the identity on Secret
				}
				if rerr == nil && deepEq(gotArgs[i+k], want) {
					slots = append(slots, map[string]interface{}{"arg": i})
				} else {
					slots = append(slots, map[string]interface{}{"arg": "mismatch"})
					if mon == "" {
						mon = fmt.Sprintf("%s: parameter %d (%s): sent %#v, its JSON round trip is %#v, handler received %#v", s.Name, i, s.PTypes[i], sent[i], want, gotArgs[i+k])
					}
				}
			}
		}
		impl["slots"] = slots
	}
	// what the caller got
	var cerr error
	var cval interface{}
	hasVal, hasErr := s.Out == "val" || s.Out == "valerr", s.Out == "err" || s.Out == "valerr"
	if hasVal {
		cval = outs[0].Interface()
	}
	if hasErr {
		if ev := outs[len(outs)-1].Interface(); ev != nil {
			cerr = ev.(error)
		}
	}
	var ec *jsonrpc.ErrClient
	isClientErr := cerr != nil && errors.As(cerr, &ec)
	if reached {
		switch {
		case isClientErr:
			impl["caller"] = "client-error"
		default:
			co := map[string]interface{}{"val": nil, "err": nil}
			if hasErr {
				co["err"] = cerr != nil
			}
			if hasVal {
				want, rerr := rt(retVal, s.VTy)
				zero := reflect.Zero(typeOf[s.VTy]).Interface()
				switch {
				case cerr != nil && deepEq(cval, zero):
					co["val"] = "zero"
				case cerr == nil && rerr == nil && deepEq(cval, want):
					co["val"] = "rt"
				case deepEq(cval, zero):
					co["val"] = "zero"
				default:
					co["val"] = "other"
				}
				if mon == "" {
					if e.c.fail && !deepEq(cval, zero) {
						mon = fmt.Sprintf("%s: handler failed but the caller's value is %#v, not the zero value", s.Name, cval)
					}
					if !e.c.fail && rerr == nil && !deepEq(cval, want) {
						mon = fmt.Sprintf("%s: handler returned %#v, its JSON round trip is %#v, caller got %#v (err %v)", s.Name, retVal, want, cval, cerr)
					}
				}
			}
			if mon == "" && hasErr {
				if e.c.fail && cerr == nil {
					mon = s.Name + ": handler failed but the caller's error is nil"
				}
				if !e.c.fail && !resultBad && cerr != nil {
					mon = s.Name + ": handler succeeded but the caller got " + cerr.Error()
				}
			}
			impl["caller"] = co
		}
	} else {
		// never reached the handler: legitimate only if some argument does not survive encoding
		if len(badArgs) == 0 && mon == "" {
			mon = fmt.Sprintf("%s: the handler was not run although every argument is serialisable (caller error: %v)", s.Name, cerr)
		}
		if hasErr && cerr == nil && mon == "" {
			mon = s.Name + ": the call did not reach the handler and the caller got no error"
		}
	}
	mv := map[string]interface{}{}
	for k, v := range model.(map[string]interface{}) {
		if k != "wire" {
			mv[k] = v
		}
	}
	cls := "ok"
	switch {
	case len(badArgs) > 0:
		cls = "bad-arg"
	case e.c.fail:
		cls = "handler-fails"
	case resultBad:
		cls = "bad-result"
	}
	res.Count("sig." + s.Name)
	res.Count("class." + cls)
	res.Count("transport." + tr)
	res.Count(fmt.Sprintf("formatter.%d", fi))
	res.Eval(reached, []interface{}{s.Name, tr, fi, fmt.Sprintf("%#v", sent), fmt.Sprintf("%#v", retVal), cls})
	if reached && len(sent) >= 3 {
		res.Sample(map[string]interface{}{"method": s.Name, "transport": tr, "sent": fmt.Sprintf("%#v", sent), "handler_received": fmt.Sprintf("%#v", gotArgs), "returned": fmt.Sprintf("%#v", retVal), "caller_got": fmt.Sprintf("%#v / %v", cval, cerr)})
	}
	res.Compare(fmt.Sprintf("call %s class=%s transport=%s fmt=%d", s.Name, cls, tr, fi), ask, mv, impl, mon)
	return nil
}

package c01

// PlainNextToEncoded: what a client sends depends on its own options only.  A client configured with a custom
// parameter encoder (and a server with the matching decoder) exist in the process; another client — no encoder,
// its server no decoder — passes a value of the same Go type: it must arrive as its plain JSON round trip.

import (
	"context"
	"fmt"
	"net/http/httptest"
	"strings"

	jsonrpc "github.com/filecoin-project/go-jsonrpc"

	"verif/harness/internal/c09"
	"verif/harness/internal/fw"
)

type plainH struct{ got []Secret }

func (h *plainH) Keep(s Secret, n int) (Secret, error) { h.got = append(h.got, s); return s, nil }

type plainClient struct {
	Keep func(Secret, int) (Secret, error)
}

func PlainNextToEncoded(res *fw.Result) error {
	for _, order := range []string{"encoded-first", "plain-first"} {
		var encoded *env
		mkEncoded := func() error {
			var err error
			encoded, err = mkEnv("http", c09.Fmt{Ns: true}, "NS")
			return err
		}
		if order == "encoded-first" {
			if err := mkEncoded(); err != nil {
				return err
			}
		}
		for _, transport := range []string{"http", "ws"} {
			h := &plainH{}
			srv := jsonrpc.NewServer()
			srv.Register("P", h)
			ts := httptest.NewServer(srv)
			url := ts.URL
			if transport == "ws" {
				url = "ws" + strings.TrimPrefix(url, "http")
			}
			var cl plainClient
			closer, err := jsonrpc.NewMergeClient(context.Background(), url, "P", []interface{}{&cl}, nil)
			if err != nil {
				ts.Close()
				return err
			}
			if order == "plain-first" && encoded == nil {
				if err := mkEncoded(); err != nil {
					closer()
					ts.Close()
					return err
				}
			}
			for _, v := range []Secret{"hello", "", "enc:x", "a\"b"} {
				h.got = nil
				back, err := cl.Keep(v, 1)
				ok := err == nil && back == v && len(h.got) == 1 && h.got[0] == v
				res.Count("plain-next-to-encoded")
				res.Eval(true, []interface{}{"plain-next-to-encoded", order, transport, string(v)})
				if !ok {
					res.Add(fw.Finding{Kind: "monitor", Signature: fmt.Sprintf("client without a parameter encoder next to one with it order=%s transport=%s", order, transport),
						Detail: fmt.Sprintf("Keep(%q) on a client that has no encoder for the type: handler received %q, caller got (%q, %v) — another client's encoder was applied", v, h.got, back, err),
						Case:   map[string]interface{}{"scenario": "plain-next-to-encoded", "order": order, "transport": transport, "value": string(v)}})
				}
			}
			closer()
			ts.Close()
		}
		if encoded != nil {
			encoded.closer()
		}
	}
	return nil
}

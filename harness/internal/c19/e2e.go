package c19

// End-to-end clause of C19: the permission set that decides a call is the one the HTTP handler attached
// to the request — through every way a request reaches a method (plain HTTP, WebSocket, WebSocket on a
// server built with a reverse client) and for every order of callers.  One privilege-ordered table backs
// every permission slice of the "application" (the verifier returns prefixes of it, the defaults are a
// prefix of it), as an application that keeps one list of all permissions would do: what one request is
// given must not change what another one gets.

import (
	"context"
	"errors"
	"fmt"
	"net/http"
	"net/http/httptest"
	"strings"

	jsonrpc "github.com/filecoin-project/go-jsonrpc"
	"github.com/filecoin-project/go-jsonrpc/auth"

	"verif/harness/internal/fw"
)

type revAPI struct {
	Hello func(context.Context) (int, error)
}

// pxAPI exposes the permission-checked function fields as methods (what an application's generated
// proxy type does), so that they can be registered with the RPC server.
type pxAPI struct{ p *proxy }

func (a pxAPI) ReadV(ctx context.Context) (int, error)  { return a.p.ReadV(ctx) }
func (a pxAPI) WriteV(ctx context.Context) (int, error) { return a.p.WriteV(ctx) }
func (a pxAPI) AdminV(ctx context.Context) (int, error) { return a.p.AdminV(ctx) }
func (a pxAPI) ReadE(ctx context.Context) error         { return a.p.ReadE(ctx) }
func (a pxAPI) WriteE(ctx context.Context) error        { return a.p.WriteE(ctx) }
func (a pxAPI) AdminE(ctx context.Context) error        { return a.p.AdminE(ctx) }

type e2eClient struct {
	ReadV  func(context.Context) (int, error)
	WriteV func(context.Context) (int, error)
	AdminV func(context.Context) (int, error)
	ReadE  func(context.Context) error
	WriteE func(context.Context) error
	AdminE func(context.Context) error
}

// RunE2E drives sequences of callers (token holders and anonymous ones) through auth.Handler in front of an
// RPC server whose API is wrapped by PermissionedProxy.
func RunE2E(d *fw.Driver, res *fw.Result) error {
	table := []auth.Permission{"read", "write", "admin"} // ordered by privilege; shared backing array
	pristine := append([]auth.Permission{}, table...)
	tokens := map[string]int{"t-none": 0, "t-read": 1, "t-write": 2, "t-admin": 3}
	orders := [][]string{
		{"t-admin", "t-write", "", "t-read", "t-none", "t-admin"},
		{"", "t-read", "t-admin", "", "t-write", "t-none"},
		{"t-none", "t-admin", "t-none", "t-write", "t-admin", ""},
	}
	for _, transport := range []string{"http", "ws", "ws+reverse"} {
		for ndef := 0; ndef <= 2; ndef++ {
			for oi, order := range orders {
				copy(table, pristine)
				defaults := table[:ndef]
				im := &impl{}
				var px proxy
				auth.PermissionedProxy(universe, defaults, im, &px)
				var sopts []jsonrpc.ServerOption
				if transport == "ws+reverse" {
					sopts = append(sopts, jsonrpc.WithReverseClient[revAPI]("rev"))
				}
				srv := jsonrpc.NewServer(sopts...)
				srv.Register("P", pxAPI{&px})
				h := &auth.Handler{
					Verify: func(ctx context.Context, token string) ([]auth.Permission, error) {
						n, ok := tokens[token]
						if !ok {
							return nil, errors.New("rejected")
						}
						return table[:n], nil
					},
					Next: srv.ServeHTTP,
				}
				ts := httptest.NewServer(h)
				for step, tok := range order {
					url := ts.URL
					if transport != "http" {
						url = "ws" + strings.TrimPrefix(url, "http")
					}
					hdr := http.Header{}
					if tok != "" {
						hdr.Set("Authorization", "Bearer "+tok)
					}
					var cl e2eClient
					closer, err := jsonrpc.NewMergeClient(context.Background(), url, "P", []interface{}{&cl}, hdr)
					if err != nil {
						ts.Close()
						return fmt.Errorf("c19 e2e: connecting (%s, token %q): %v", transport, tok, err)
					}
					var att interface{}
					eff := pristine[:ndef]
					if tok != "" {
						eff = pristine[:tokens[tok]]
						att = strs(eff)
					}
					for _, c := range []struct {
						name, required string
						want           int
					}{{"ReadV", "read", 11}, {"WriteV", "write", 12}, {"AdminV", "admin", 13}, {"ReadE", "read", 0}, {"WriteE", "write", 0}, {"AdminE", "admin", 0}} {
						im.ran = nil
						val := 0
						var cerr error
						ctx := context.Background()
						switch c.name {
						case "ReadV":
							val, cerr = cl.ReadV(ctx)
						case "WriteV":
							val, cerr = cl.WriteV(ctx)
						case "AdminV":
							val, cerr = cl.AdminV(ctx)
						case "ReadE":
							cerr = cl.ReadE(ctx)
						case "WriteE":
							cerr = cl.WriteE(ctx)
						case "AdminE":
							cerr = cl.AdminE(ctx)
						}
						ran := len(im.ran) == 1 && im.ran[0] == c.name
						ask := map[string]interface{}{"op": "perm", "attached": att, "defaults": strs(pristine[:ndef]), "required": c.required}
						model, aerr := d.Ask(ask)
						if aerr != nil {
							closer()
							ts.Close()
							return aerr
						}
						holds := false
						for _, p := range eff {
							if string(p) == c.required {
								holds = true
							}
						}
						mon := ""
						switch {
						case len(im.ran) > 1 || (len(im.ran) == 1 && !ran):
							mon = fmt.Sprintf("wrong implementation ran: %v", im.ran)
						case holds && !ran:
							mon = fmt.Sprintf("the caller (token %q: %v) holds %q but the method did not run (error: %v)", tok, strs(eff), c.required, cerr)
						case !holds && ran:
							mon = fmt.Sprintf("the caller (token %q: %v) lacks %q but the method ran", tok, strs(eff), c.required)
						case !holds && cerr == nil:
							mon = "permission missing but no error returned"
						case holds && (cerr != nil || val != c.want):
							mon = fmt.Sprintf("permitted call returned (%d, %v)", val, cerr)
						}
						res.Count(fmt.Sprintf("e2e.%s.ran=%v", transport, ran))
						res.Eval(true, []interface{}{"e2e", transport, ndef, oi, step, c.name})
						res.Compare(fmt.Sprintf("e2e transport=%s defaults=%v order=%d step=%d token=%q method=%s", transport, strs(pristine[:ndef]), oi, step, tok, c.name),
							ask, model, map[string]interface{}{"ran": ran}, mon)
					}
					closer()
					if !fw.Equal(strs(table), strs(pristine)) {
						res.Add(fw.Finding{Kind: "monitor", Signature: fmt.Sprintf("e2e transport=%s application's permission table modified", transport),
							Detail: fmt.Sprintf("after the request of token %q the application's own permission list reads %v (was %v): the library wrote to a slice it was handed", tok, strs(table), strs(pristine)),
							Case:   map[string]interface{}{"transport": transport, "order": order, "step": step, "defaults": ndef}})
						copy(table, pristine)
					}
				}
				ts.Close()
				if res.Enough() {
					return nil
				}
			}
		}
	}
	return nil
}

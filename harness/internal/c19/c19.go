// Package c19 — exhaustive differential check of auth.PermissionedProxy / auth.HasPerm and of
// auth.Handler.ServeHTTP against Jrpc.Auth, over the 3-permission universe.
package c19

import (
	"context"
	"errors"
	"fmt"
	"net/http"
	"net/http/httptest"
	"net/url"
	"strings"

	"github.com/filecoin-project/go-jsonrpc/auth"

	"verif/harness/internal/fw"
)

var universe = []auth.Permission{"read", "write", "admin"}

type impl struct{ ran []string }

func (i *impl) ReadE(ctx context.Context) error         { i.ran = append(i.ran, "ReadE"); return nil }
func (i *impl) WriteE(ctx context.Context) error        { i.ran = append(i.ran, "WriteE"); return nil }
func (i *impl) AdminE(ctx context.Context) error        { i.ran = append(i.ran, "AdminE"); return nil }
func (i *impl) ReadV(ctx context.Context) (int, error)  { i.ran = append(i.ran, "ReadV"); return 11, nil }
func (i *impl) WriteV(ctx context.Context) (int, error) { i.ran = append(i.ran, "WriteV"); return 12, nil }
func (i *impl) AdminV(ctx context.Context) (int, error) { i.ran = append(i.ran, "AdminV"); return 13, nil }

type proxy struct {
	ReadE  func(context.Context) error        `perm:"read"`
	WriteE func(context.Context) error        `perm:"write"`
	AdminE func(context.Context) error        `perm:"admin"`
	ReadV  func(context.Context) (int, error) `perm:"read"`
	WriteV func(context.Context) (int, error) `perm:"write"`
	AdminV func(context.Context) (int, error) `perm:"admin"`
}

func subsets() [][]auth.Permission {
	var out [][]auth.Permission
	for m := 0; m < 8; m++ {
		s := []auth.Permission{}
		for i, p := range universe {
			if m&(1<<i) != 0 {
				s = append(s, p)
			}
		}
		out = append(out, s)
	}
	// order and duplicates must not matter either
	out = append(out, []auth.Permission{"admin", "read"}, []auth.Permission{"write", "write"})
	// permissions the proxy was not told about (outside validPerms) must simply never match
	out = append(out, []auth.Permission{"sign"}, []auth.Permission{"sign", "write"}, []auth.Permission{"", "sign", "Read"})
	return out
}

func strs(ps []auth.Permission) []string {
	out := []string{}
	for _, p := range ps {
		out = append(out, string(p))
	}
	return out
}

func Run(d *fw.Driver, res *fw.Result) error {
	type call struct {
		name     string
		required string
		value    bool
		want     int
	}
	calls := []call{{"ReadE", "read", false, 0}, {"WriteE", "write", false, 0}, {"AdminE", "admin", false, 0},
		{"ReadV", "read", true, 11}, {"WriteV", "write", true, 12}, {"AdminV", "admin", true, 13}}
	for _, defaults := range subsets() {
		im := &impl{}
		var px proxy
		auth.PermissionedProxy(universe, defaults, im, &px)
		for _, caller := range subsets() {
			for _, attached := range []bool{true, false} {
				ctx := context.Background()
				var att interface{}
				if attached {
					ctx = auth.WithPerm(ctx, caller)
					att = strs(caller)
				}
				for _, c := range calls {
					im.ran = nil
					var err error
					val := 0
					switch c.name {
					case "ReadE":
						err = px.ReadE(ctx)
					case "WriteE":
						err = px.WriteE(ctx)
					case "AdminE":
						err = px.AdminE(ctx)
					case "ReadV":
						val, err = px.ReadV(ctx)
					case "WriteV":
						val, err = px.WriteV(ctx)
					case "AdminV":
						val, err = px.AdminV(ctx)
					}
					ran := len(im.ran) == 1 && im.ran[0] == c.name
					ask := map[string]interface{}{"op": "perm", "attached": att, "defaults": strs(defaults), "required": c.required}
					model, aerr := d.Ask(ask)
					if aerr != nil {
						return aerr
					}
					// the property, read directly
					eff := defaults
					if attached {
						eff = caller
					}
					holds := false
					for _, p := range eff {
						if string(p) == c.required {
							holds = true
						}
					}
					mon := ""
					switch {
					case len(im.ran) > 1 || (len(im.ran) == 1 && !ran):
						mon = fmt.Sprintf("wrong implementation ran: %v", im.ran)
					case holds && !ran:
						mon = "caller holds the permission but the method did not run"
					case !holds && ran:
						mon = "caller lacks the permission but the method ran"
					case !holds && err == nil:
						mon = "permission missing but no error returned"
					case !holds && val != 0:
						mon = "permission missing but a non-zero value returned"
					case holds && (err != nil || val != c.want):
						mon = fmt.Sprintf("permitted call returned (%d, %v)", val, err)
					case !holds && !strings.Contains(err.Error(), "missing permission"):
						mon = "error is not a permission error: " + err.Error()
					}
					res.Count(fmt.Sprintf("perm.attached=%v.ran=%v", attached, ran))
					res.Eval(true, ask)
					if ran != holds || len(res.Samples) < 2 {
						res.Sample(map[string]interface{}{"ask": ask, "ran": ran, "err": fmt.Sprint(err)})
					}
					res.Compare(fmt.Sprintf("perm attached=%v caller=%v defaults=%v required=%s shape=%v", attached, caller, defaults, c.required, c.value),
						ask, model, map[string]interface{}{"ran": ran}, mon)
				}
			}
		}
	}
	// ---- HTTP handler
	verifyTable := map[string][]auth.Permission{"good": {"read", "write"}, "empty": {}, "adm in": {"admin"}, "Bearer x": {"read"}}
	var vt []map[string]interface{}
	for _, tok := range []string{"good", "empty", "adm in", "Bearer x"} {
		vt = append(vt, map[string]interface{}{"token": tok, "perms": strs(verifyTable[tok])})
	}
	headers := []string{"", "Bearer good", "Bearer empty", "Bearer bad", "Bearer ", "Bearer", "bearer good", "Basic good", "good",
		"Bearer adm in", "Bearer  good", " Bearer good", "Bearer Bearer x", "BearerX good"}
	queries := []string{"", "good", "bad", "empty", "Bearer x", "adm in"}
	for _, hdr := range headers {
		for _, q := range queries {
			var nextRan bool
			var got interface{}
			h := &auth.Handler{
				Verify: func(ctx context.Context, token string) ([]auth.Permission, error) {
					if ps, ok := verifyTable[token]; ok {
						return ps, nil
					}
					return nil, errors.New("rejected")
				},
				Next: func(w http.ResponseWriter, r *http.Request) {
					nextRan = true
					// observe what is attached through the public API: HasPerm with distinguishable defaults
					got = observe(r.Context())
					w.WriteHeader(200)
				},
			}
			u := "/rpc"
			if q != "" {
				u += "?token=" + url.QueryEscape(q)
			}
			req := httptest.NewRequest("GET", u, nil)
			if hdr != "" {
				req.Header.Set("Authorization", hdr)
			}
			rec := httptest.NewRecorder()
			h.ServeHTTP(rec, req)
			ask := map[string]interface{}{"op": "authhttp", "header": hdr, "query": q, "verify": vt}
			model, err := d.Ask(ask)
			if err != nil {
				return err
			}
			impl := map[string]interface{}{"status": rec.Code, "next": nextRan, "attached": got}
			mon := ""
			// direct reading of the property
			tok, has := "", false
			switch {
			case hdr != "":
				if strings.HasPrefix(hdr, "Bearer ") {
					tok, has = strings.TrimPrefix(hdr, "Bearer "), true
				} else {
					if nextRan || rec.Code != 401 {
						mon = "malformed Authorization header not answered with 401"
					}
				}
			case q != "":
				tok, has = q, true
			default:
				if !nextRan || got != nil {
					mon = "token-less request not passed on with nothing attached"
				}
			}
			if has && mon == "" {
				ps, ok := verifyTable[tok]
				if ok {
					if !nextRan || !fw.Equal(got, strs(ps)) {
						mon = fmt.Sprintf("token %q: next handler should run with %v, got next=%v attached=%v", tok, ps, nextRan, got)
					}
				} else if nextRan || rec.Code != 401 {
					mon = fmt.Sprintf("rejected token %q not answered with 401", tok)
				}
			}
			res.Count(fmt.Sprintf("http.status=%d", rec.Code))
			res.Eval(true, ask)
			res.Sample(map[string]interface{}{"header": hdr, "query": q, "status": rec.Code, "next": nextRan, "attached": got})
			res.Compare(fmt.Sprintf("authhttp header=%q query=%q", hdr, q), ask, model, impl, mon)
		}
	}
	// ---- histories on ONE handler value: the verifier's answer for a token changes between requests
	// (narrowed, widened, revoked, reinstated); each request must get exactly what the verifier says now
	type step struct {
		perms  []auth.Permission
		reject bool
		via    string // header | query
	}
	histories := [][]step{
		{{perms: []auth.Permission{"read", "write"}, via: "header"}, {perms: []auth.Permission{"read"}, via: "header"}, {reject: true, via: "header"}, {perms: []auth.Permission{"admin"}, via: "query"}},
		{{perms: []auth.Permission{}, via: "query"}, {perms: []auth.Permission{"admin"}, via: "query"}, {perms: []auth.Permission{}, via: "header"}},
		{{reject: true, via: "header"}, {perms: []auth.Permission{"write"}, via: "header"}, {reject: true, via: "query"}, {reject: true, via: "header"}},
		{{perms: []auth.Permission{"read"}, via: "header"}, {perms: []auth.Permission{"read"}, via: "query"}, {reject: true, via: "query"}},
	}
	for hi, hist := range histories {
		var cur step
		var nextRan bool
		var got interface{}
		h := &auth.Handler{
			Verify: func(ctx context.Context, token string) ([]auth.Permission, error) {
				if token != "tok" || cur.reject {
					return nil, errors.New("rejected")
				}
				return cur.perms, nil
			},
			Next: func(w http.ResponseWriter, r *http.Request) {
				nextRan = true
				got = observe(r.Context())
				w.WriteHeader(200)
			},
		}
		for si, st := range hist {
			cur, nextRan, got = st, false, nil
			u := "/rpc"
			hdr, q := "", ""
			if st.via == "query" {
				q = "tok"
				u += "?token=tok"
			} else {
				hdr = "Bearer tok"
			}
			req := httptest.NewRequest("GET", u, nil)
			if hdr != "" {
				req.Header.Set("Authorization", hdr)
			}
			rec := httptest.NewRecorder()
			h.ServeHTTP(rec, req)
			vt := []map[string]interface{}{}
			if !st.reject {
				vt = append(vt, map[string]interface{}{"token": "tok", "perms": strs(st.perms)})
			}
			ask := map[string]interface{}{"op": "authhttp", "header": hdr, "query": q, "verify": vt}
			model, err := d.Ask(ask)
			if err != nil {
				return err
			}
			impl := map[string]interface{}{"status": rec.Code, "next": nextRan, "attached": got}
			mon := ""
			if st.reject {
				if nextRan || rec.Code != 401 {
					mon = fmt.Sprintf("history %d step %d: the verifier now rejects the token but the request got status %d, next=%v, attached=%v", hi, si, rec.Code, nextRan, got)
				}
			} else if !nextRan || !fw.Equal(got, strs(st.perms)) {
				mon = fmt.Sprintf("history %d step %d: the verifier now returns %v for the token but the next handler ran=%v with %v", hi, si, st.perms, nextRan, got)
			}
			res.Count("http.history")
			res.Eval(true, []interface{}{"history", hi, si})
			res.Compare(fmt.Sprintf("authhttp history=%d step=%d", hi, si), ask, model, impl, mon)
		}
	}
	res.Exhaustive = true
	return nil
}

// observe recovers the attached permission list through HasPerm: nothing attached ⇔ the defaults decide.
func observe(ctx context.Context) interface{} {
	marker := auth.Permission("__marker__")
	if auth.HasPerm(ctx, []auth.Permission{marker}, marker) {
		return nil // defaults were consulted: nothing attached
	}
	out := []string{}
	for _, p := range universe {
		if auth.HasPerm(ctx, nil, p) {
			out = append(out, string(p))
		}
	}
	return out
}

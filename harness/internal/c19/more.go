package c19

import (
	"context"
	"errors"
	"fmt"
	"io"
	"net/http"
	"net/http/httptest"
	"strings"

	"github.com/filecoin-project/go-jsonrpc/auth"

	"verif/harness/internal/fw"
)

// RunFormBody: "token-less" means no Authorization header and no token query parameter — whatever the body
// holds.  A POST whose body is (or merely looks like) a form must be passed on with nothing attached and
// with its body intact: the body belongs to the RPC server behind the auth handler.
func RunFormBody(d *fw.Driver, res *fw.Result) error {
	verifyTable := map[string][]auth.Permission{"good": {"read", "write"}}
	bodies := []string{
		"token=good", "token=bad", "a=1&token=good", "x=%zz&token=bad",
		`{"jsonrpc":"2.0","id":1,"method":"Filecoin.Note","params":["a&token=bad&b"]}`,
		`{"jsonrpc":"2.0","id":1,"method":"Filecoin.Version","params":[]}`,
	}
	ctypes := []string{"application/x-www-form-urlencoded", "application/x-www-form-urlencoded; charset=utf-8", "application/json", ""}
	for _, body := range bodies {
		for _, ct := range ctypes {
			for _, method := range []string{"POST", "PUT"} {
				var nextRan bool
				var got interface{}
				var seen string
				h := &auth.Handler{
					Verify: func(ctx context.Context, token string) ([]auth.Permission, error) {
						if ps, ok := verifyTable[token]; ok {
							return ps, nil
						}
						return nil, errors.New("rejected")
					},
					Next: func(w http.ResponseWriter, r *http.Request) {
						nextRan = true
						got = observe(r.Context())
						b, _ := io.ReadAll(r.Body)
						seen = string(b)
						w.WriteHeader(200)
					},
				}
				req := httptest.NewRequest(method, "/rpc/v0", strings.NewReader(body))
				if ct != "" {
					req.Header.Set("Content-Type", ct)
				}
				rec := httptest.NewRecorder()
				h.ServeHTTP(rec, req)
				ask := map[string]interface{}{"op": "authhttp", "header": "", "query": "", "verify": []map[string]interface{}{{"token": "good", "perms": []string{"read", "write"}}}}
				model, err := d.Ask(ask)
				if err != nil {
					return err
				}
				impl := map[string]interface{}{"status": rec.Code, "next": nextRan, "attached": got}
				mon := ""
				switch {
				case !nextRan:
					mon = fmt.Sprintf("a request without Authorization header and without token query parameter was not passed on (status %d): the handler took a token from the request body", rec.Code)
				case got != nil:
					mon = fmt.Sprintf("a request without Authorization header and without token query parameter got permissions %v attached: the handler took a token from the request body", got)
				case seen != body:
					mon = fmt.Sprintf("the request was passed on with its body consumed: the next handler read %q, the client sent %q", seen, body)
				}
				res.Count("http.formbody")
				res.Eval(true, []interface{}{"formbody", body, ct, method})
				res.Compare(fmt.Sprintf("authhttp token-less %s content-type=%q body=%.40q", method, ct, body), ask, model, impl, mon)
			}
		}
	}
	return nil
}

type implNoCtx struct{ ran []string }

func (i *implNoCtx) PingE() error            { i.ran = append(i.ran, "PingE"); return nil }
func (i *implNoCtx) AddV(a int) (int, error) { i.ran = append(i.ran, "AddV"); return a + 1, nil }
func (i *implNoCtx) AdminN(s string) error   { i.ran = append(i.ran, "AdminN"); return nil }
func (i *implNoCtx) SumV(xs ...int) (int, error) {
	i.ran = append(i.ran, "SumV")
	t := 0
	for _, x := range xs {
		t += x
	}
	return t, nil
}

type proxyNoCtx struct {
	PingE  func() error              `perm:"read"`
	AddV   func(int) (int, error)    `perm:"write"`
	AdminN func(string) error        `perm:"admin"`
	SumV   func(...int) (int, error) `perm:"write"` // a variadic method: ordinary Go, accepted at construction
}

// RunNoCtx: methods without a leading context (supported signatures of the library) behind the permissioned
// proxy: no context, hence nothing attached — the configured defaults decide.
func RunNoCtx(d *fw.Driver, res *fw.Result) error {
	for _, defaults := range subsets() {
		im := &implNoCtx{}
		var px proxyNoCtx
		auth.PermissionedProxy(universe, defaults, im, &px)
		for _, c := range []struct{ name, required string }{{"PingE", "read"}, {"AddV", "write"}, {"AdminN", "admin"}, {"SumV", "write"}} {
			im.ran = nil
			var err error
			val := 0
			panicked := ""
			func() {
				defer func() {
					if r := recover(); r != nil {
						panicked = fmt.Sprint(r)
					}
				}()
				switch c.name {
				case "PingE":
					err = px.PingE()
				case "AddV":
					val, err = px.AddV(41)
				case "AdminN":
					err = px.AdminN("x")
				case "SumV":
					val, err = px.SumV(20, 21, 1)
				}
			}()
			ran := len(im.ran) == 1 && im.ran[0] == c.name
			ask := map[string]interface{}{"op": "perm", "attached": nil, "defaults": strs(defaults), "required": c.required}
			model, aerr := d.Ask(ask)
			if aerr != nil {
				return aerr
			}
			holds := false
			for _, p := range defaults {
				if string(p) == c.required {
					holds = true
				}
			}
			mon := ""
			switch {
			case panicked != "":
				mon = "the permissioned function panicked instead of deciding: " + panicked
			case holds && !ran:
				mon = "the defaults hold the permission but the method did not run"
			case !holds && ran:
				mon = "the defaults lack the permission but the method ran"
			case !holds && err == nil:
				mon = "permission missing but no error returned"
			case holds && (err != nil || ((c.name == "AddV" || c.name == "SumV") && val != 42)):
				mon = fmt.Sprintf("permitted call returned (%d, %v)", val, err)
			}
			res.Count(fmt.Sprintf("perm.noctx.ran=%v", ran))
			res.Eval(true, []interface{}{"noctx", strs(defaults), c.name})
			res.Compare(fmt.Sprintf("perm context-less method=%s defaults=%v", c.name, defaults), ask, model, map[string]interface{}{"ran": ran}, mon)
		}
	}
	return nil
}

// RunMethods: the auth handler treats every HTTP method alike (the RPC server behind it does not look at the
// method either): a rejected or malformed token is answered 401 and a valid one is attached, whether the
// request is a POST, a GET, an OPTIONS preflight look-alike or anything else.
func RunMethods(d *fw.Driver, res *fw.Result) error {
	verifyTable := map[string][]auth.Permission{"good": {"read", "write"}}
	for _, method := range []string{"GET", "POST", "PUT", "OPTIONS", "HEAD", "PATCH", "DELETE"} {
		for _, hdr := range []string{"Bearer good", "Bearer bad", "Basic good", ""} {
			for _, q := range []string{"", "good", "bad"} {
				var nextRan bool
				var got interface{}
				h := &auth.Handler{
					Verify: func(ctx context.Context, token string) ([]auth.Permission, error) {
						if ps, ok := verifyTable[token]; ok {
							return ps, nil
						}
						return nil, errors.New("rejected")
					},
					Next: func(w http.ResponseWriter, r *http.Request) {
						nextRan = true
						got = observe(r.Context())
						w.WriteHeader(200)
					},
				}
				u := "/rpc/v0"
				if q != "" {
					u += "?token=" + q
				}
				req := httptest.NewRequest(method, u, strings.NewReader(`{"jsonrpc":"2.0","id":1,"method":"F.V","params":[]}`))
				if hdr != "" {
					req.Header.Set("Authorization", hdr)
				}
				rec := httptest.NewRecorder()
				h.ServeHTTP(rec, req)
				ask := map[string]interface{}{"op": "authhttp", "header": hdr, "query": q, "verify": []map[string]interface{}{{"token": "good", "perms": []string{"read", "write"}}}}
				model, err := d.Ask(ask)
				if err != nil {
					return err
				}
				impl := map[string]interface{}{"status": rec.Code, "next": nextRan, "attached": got}
				res.Count("http.method." + method)
				res.Eval(true, []interface{}{"method", method, hdr, q})
				// the monitor is the model's answer here: the model knows no HTTP method, so any dependence on it is a disagreement,
				// and the property's own clauses are checked on the implementation's outcome
				mon := ""
				tok, has, malformed := "", false, false
				switch {
				case hdr != "":
					if strings.HasPrefix(hdr, "Bearer ") {
						tok, has = strings.TrimPrefix(hdr, "Bearer "), true
					} else {
						malformed = true
					}
				case q != "":
					tok, has = q, true
				}
				switch {
				case malformed && (nextRan || rec.Code != 401):
					mon = fmt.Sprintf("%s with a malformed Authorization header: not answered 401 (status %d, next handler ran=%v)", method, rec.Code, nextRan)
				case has && verifyTable[tok] == nil && (nextRan || rec.Code != 401):
					mon = fmt.Sprintf("%s with a rejected token: not answered 401 (status %d, next handler ran=%v)", method, rec.Code, nextRan)
				case has && verifyTable[tok] != nil && (!nextRan || !fw.Equal(got, strs(verifyTable[tok]))):
					mon = fmt.Sprintf("%s with a valid token: next handler ran=%v with %v attached", method, nextRan, got)
				case !has && !malformed && (!nextRan || got != nil):
					mon = fmt.Sprintf("%s without a token: next handler ran=%v with %v attached", method, nextRan, got)
				}
				res.Compare(fmt.Sprintf("authhttp method=%s header=%q query=%q", method, hdr, q), ask, model, impl, mon)
			}
		}
	}
	return nil
}

// namedCtx is a context type of the application's own: it is a context.Context (it embeds one) without being that
// exact interface type.
type namedCtx interface {
	context.Context
	Tenant() string
}

type tenantCtx struct {
	context.Context
	tenant string
}

func (t tenantCtx) Tenant() string { return t.tenant }

type implNamed struct{ ran int }

func (i *implNamed) Ping(ctx namedCtx) error { i.ran++; return nil }

type proxyNamed struct {
	Ping func(namedCtx) error `perm:"read"`
}

// RunNamedCtx: the caller's set is what was attached to the context the method is called with — also when the method's
// first parameter is declared with a context type of the application's own.
func RunNamedCtx(res *fw.Result) error {
	for _, defaults := range subsets() {
		for _, attached := range subsets() {
			im := &implNamed{}
			var px proxyNamed
			auth.PermissionedProxy(universe, defaults, im, &px)
			ctx := tenantCtx{Context: auth.WithPerm(context.Background(), attached), tenant: "t"}
			var err error
			panicked := ""
			func() {
				defer func() {
					if r := recover(); r != nil {
						panicked = fmt.Sprint(r)
					}
				}()
				err = px.Ping(ctx)
			}()
			holds := false
			for _, p := range attached {
				if p == "read" {
					holds = true
				}
			}
			mon := ""
			switch {
			case panicked != "":
				mon = "the permissioned function panicked instead of deciding: " + panicked
			case holds && im.ran != 1:
				mon = fmt.Sprintf("the attached set %v holds the permission but the method did not run (defaults %v)", attached, defaults)
			case !holds && im.ran != 0:
				mon = fmt.Sprintf("the attached set %v lacks the permission but the method ran (the defaults %v decided)", attached, defaults)
			case !holds && err == nil:
				mon = "permission missing but no error returned"
			}
			res.Count("perm.namedctx")
			res.Eval(true, []interface{}{"namedctx", strs(defaults), strs(attached)})
			if mon != "" {
				res.Add(fw.Finding{Kind: "monitor", Signature: fmt.Sprintf("perm named-context attached=%v defaults=%v", attached, defaults), Detail: mon,
					Case: map[string]interface{}{"scenario": "named-ctx", "attached": strs(attached), "defaults": strs(defaults)}})
			}
		}
	}
	return nil
}

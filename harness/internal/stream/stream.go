// Package stream — channel subscriptions: scenarios for C07 (healthy streaming) and C08 (termination),
// projection of the hook trace onto each subscription, replay through Jrpc.Stream and the
// properties' monitors on what the consumers observed.
package stream

import (
	"context"
	"encoding/json"
	"fmt"
	"os"
	"sort"
	"sync"
	"time"

	jsonrpc "github.com/filecoin-project/go-jsonrpc"

	"verif/harness/internal/fw"
	"verif/harness/internal/hk"
	"verif/harness/internal/px"
	"verif/harness/internal/scen"
)

// Sub is one subscription as the harness drives and observes it.
type Sub struct {
	Tok      int
	N        int // values the handler will send (-1: until cancelled)
	Mode     string
	Ctx      context.Context
	Cancel   context.CancelFunc
	Err      error
	Got      []int
	Closed   bool
	Returned bool
	Resume   chan struct{}
	Done     chan struct{}
}

// consume reads the subscription according to its mode: fast | slow | stall (waits for Resume before
// reading) | stallN (reads 5 values, then waits for Resume).
func (s *Sub) consume(rt *hk.Runtime, ch <-chan int) {
	defer close(s.Done)
	i := 0
	if s.Mode == "stall" {
		<-s.Resume
	}
	for v := range ch {
		rt.Log("c.recv", "tok", s.Tok, "v", v)
		s.Got = append(s.Got, v)
		i++
		if s.Mode == "slow" {
			time.Sleep(200 * time.Microsecond)
		}
		if s.Mode == "stallN" && i == 5 {
			<-s.Resume
		}
	}
	rt.Log("c.closed", "tok", s.Tok)
	s.Closed = true
}

// Start issues the Sub call and starts the consumer.
func (s *Sub) Start(e *scen.Env, cl *scen.CL, wg *sync.WaitGroup) {
	s.Resume = make(chan struct{})
	s.Done = make(chan struct{})
	wg.Add(1)
	go func() {
		defer wg.Done()
		e.RT.Log("c.sub.call", "tok", s.Tok)
		ch, err := cl.Sub(s.Ctx, s.Tok, s.N)
		s.Err = err
		s.Returned = true
		if err != nil || ch == nil {
			e.RT.Log("c.sub.err", "tok", s.Tok)
			close(s.Done)
			return
		}
		e.RT.Log("c.sub.ret", "tok", s.Tok, "s", ch)
		s.consume(e.RT, ch)
	}()
}

// Project builds, per subscription, the model events from the trace.
func Project(evs []hk.Event) (byCh map[int][]map[string]interface{}, tokOfCh map[int]int) {
	byCh = map[int][]map[string]interface{}{}
	tokOfCh = map[int]int{}
	sinkOfCh := map[int]int{}
	chOfSink := map[int]int{}
	tokOfSink := map[int]int{}
	chOfReq := map[string]int{} // request id ↦ ch (server side registration)
	tokOfReq := map[string]int{}
	lastSink := 0
	fwdCount := map[int]int{}
	num := func(v interface{}) int {
		switch x := v.(type) {
		case int:
			return x
		case int64:
			return int(x)
		case float64:
			return int(x)
		case json.Number:
			n, _ := x.Int64()
			return int(n)
		}
		return 0
	}
	// one pass in trace order; sink identities are channel addresses and may be reused after a
	// subscription is gone, so the sink ↦ channel-id map is the one valid at that point of the trace
	_ = sinkOfCh
	_ = chOfReq
	_ = tokOfReq
	curSeq := 0
	add := func(ch int, m map[string]interface{}) {
		m["seq"] = curSeq
		byCh[ch] = append(byCh[ch], m)
	}
	tokCancel := map[int]bool{}
	tokOfHP := map[int]int{}
	chOfTok := map[int]int{}
	pendingCancel := map[int]int{} // tok ↦ seq of a cancel issued before the call returned its channel
	defer func() {
		for ch := range byCh {
			es := byCh[ch]
			sort.SliceStable(es, func(i, j int) bool { return es[i]["seq"].(int) < es[j]["seq"].(int) })
		}
	}()
	for _, e := range evs {
		curSeq = e.Seq
		switch e.Site {
		case "sink.new":
			lastSink = num(e.KV["s"])
		case "c.sub.ret":
			tok := num(e.KV["tok"])
			if ch, ok := chOfSink[num(e.KV["s"])]; ok {
				tokOfCh[ch] = tok
				chOfTok[tok] = ch
				tokOfSink[num(e.KV["s"])] = tok
				if cs, ok := pendingCancel[tok]; ok && !tokCancel[tok] {
					tokCancel[tok] = true
					byCh[ch] = append(byCh[ch], map[string]interface{}{"e": "ctxCancel", "seq": cs})
				}
			}
		case "h.subch":
			tokOfHP[num(e.KV["hp"])] = num(e.KV["tok"])
		case "fwd.reg":
			ch := num(e.KV["ch"])
			add(ch, map[string]interface{}{"e": "reg"})
			if tok, ok := tokOfHP[num(e.KV["hp"])]; ok {
				tokOfCh[ch] = tok
				chOfTok[tok] = ch
				if cs, ok := pendingCancel[tok]; ok && !tokCancel[tok] {
					tokCancel[tok] = true
					byCh[ch] = append(byCh[ch], map[string]interface{}{"e": "ctxCancel", "seq": cs})
				}
			}
		case "fwd.val":
			ch := num(e.KV["ch"])
			add(ch, map[string]interface{}{"e": "fwdVal", "v": fwdCount[ch]})
			fwdCount[ch]++
		case "fwd.close":
			add(num(e.KV["ch"]), map[string]interface{}{"e": "fwdClose"})
		case "fe.resp.chanreg":
			ch := num(e.KV["ch"])
			chOfSink[lastSink] = ch
			add(ch, map[string]interface{}{"e": "sinkReg"})
		case "fe.chval":
			add(num(e.KV["ch"]), map[string]interface{}{"e": "chval", "found": e.KV["found"]})
		case "fe.chclose":
			add(num(e.KV["ch"]), map[string]interface{}{"e": "chclose", "found": e.KV["found"]})
		case "cc.close":
			add(num(e.KV["ch"]), map[string]interface{}{"e": "ccClose"})
		case "sink.pushed", "sink.dropped", "buf.in", "buf.out", "buf.inclosed", "buf.close":
			ch, ok := chOfSink[num(e.KV["s"])]
			if !ok {
				continue
			}
			name := map[string]string{"sink.pushed": "pushed", "sink.dropped": "dropped", "buf.in": "bufIn", "buf.out": "bufOut", "buf.inclosed": "bufInClosed", "buf.close": "bufClose"}[e.Site]
			m := map[string]interface{}{"e": name}
			if e.Site == "buf.close" {
				m["cause"] = e.KV["cause"]
			}
			add(ch, m)
		case "ctx.cancel":
			tok := num(e.KV["tok"])
			if ch, ok := chOfTok[tok]; ok {
				if !tokCancel[tok] {
					tokCancel[tok] = true
					add(ch, map[string]interface{}{"e": "ctxCancel"})
				}
			} else if _, dup := pendingCancel[tok]; !dup {
				pendingCancel[tok] = e.Seq // cancelled before the call returned its channel
			}
		}
	}
	return
}

// Check replays every subscription through the model and compares what the model says the caller
// received with what the consumer really received.
func Check(d *fw.Driver, res *fw.Result, e *scen.Env, subs []*Sub, sig string) error {
	evs := e.RT.Events()
	byCh, tokOfCh := Project(evs)
	subOfTok := map[int]*Sub{}
	for _, s := range subs {
		subOfTok[s.Tok] = s
	}
	// the forwarder's select-set bookkeeping, per server-role connection: every value and every close must
	// carry the id announced for the handler channel it came from (Jrpc.Forwarder)
	fwdBy := map[int][]map[string]interface{}{}
	for _, ev := range evs {
		var name string
		switch ev.Site {
		case "fwd.reg":
			name = "reg"
		case "fwd.val":
			name = "val"
		case "fwd.close":
			name = "close"
		default:
			continue
		}
		fwdBy[ev.Conn] = append(fwdBy[ev.Conn], map[string]interface{}{"e": name, "hp": ev.KV["hp"], "id": ev.KV["ch"]})
	}
	for conn, fes := range fwdBy {
		model, err := d.Ask(map[string]interface{}{"op": "forwarder", "events": fes})
		if err != nil {
			return err
		}
		mm := model.(map[string]interface{})
		res.Traces++
		res.Events += len(fes)
		if mm["accepted"] != true {
			idx := 0
			if n, ok := mm["refusedAt"].(json.Number); ok {
				v, _ := n.Int64()
				idx = int(v)
			}
			lo := idx - 10
			if lo < 0 {
				lo = 0
			}
			// the implementation tagged a value (or a close) of one handler channel with the id announced for
			// another: a concrete violation of isolation, not just a broken tie
			res.Add(fw.Finding{Kind: "monitor", Signature: sig + " forwarder tags a channel's frame with another channel's id",
				Detail: fmt.Sprintf("server connection %d: event %d %v — the handler channel it came from was announced to the client under a different id (select set and id table out of step)", conn, idx, fes[idx]),
				Case:   map[string]interface{}{"forwarder_events": fes[lo : idx+1]}, Model: model})
		}
	}
	for ch, mes := range byCh {
		ask := map[string]interface{}{"op": "stream", "events": mes}
		model, err := d.Ask(ask)
		if err != nil {
			return err
		}
		mm := model.(map[string]interface{})
		res.Traces++
		res.Events += len(mes)
		if mm["accepted"] != true {
			// a subscription whose call failed (its response was lost with the connection or dropped because
			// the call had already been failed by the sweep) never had a sink and no channel was handed to a
			// caller: frames still arriving for its channel id find nothing.  C07/C08 speak of channels
			// handed to callers; the pipeline model starts at the sink registration.
			if tok, ok := tokOfCh[ch]; ok {
				if sb := subOfTok[tok]; sb != nil && sb.Returned && sb.Err != nil {
					hasReg := false
					for _, me := range mes {
						if me["e"] == "sinkReg" {
							hasReg = true
						}
					}
					if !hasReg {
						res.Count("channel-never-handed-out")
						continue
					}
				}
			}
			idx := 0
			if n, ok := mm["refusedAt"].(json.Number); ok {
				v, _ := n.Int64()
				idx = int(v)
			}
			lo := idx - 8
			if lo < 0 {
				lo = 0
			}
			res.Add(fw.Finding{Kind: "tie", Signature: sig + " stream event refused: " + fmt.Sprint(mes[idx]["e"]),
				Detail: fmt.Sprintf("channel %d: the model refuses event %d %v of the subscription's trace", ch, idx, mes[idx]),
				Case:   map[string]interface{}{"events_before": mes[lo : idx+1]}, Model: model})
			continue
		}
		tok, ok := tokOfCh[ch]
		if !ok {
			continue
		}
		s := subOfTok[tok]
		if s == nil {
			continue
		}
		// the model's view of what the caller received (values are indices) against the consumer's
		var mrecv []int
		for _, v := range mm["recv"].([]interface{}) {
			n, _ := v.(json.Number).Int64()
			mrecv = append(mrecv, tok*1000000+int(n))
		}
		select {
		case <-s.Done:
			if fw.JSON(mrecv) != fw.JSON(s.Got) && !(len(mrecv) == 0 && len(s.Got) == 0) {
				res.Add(fw.Finding{Kind: "tie", Signature: sig + " received differs from model", Detail: fmt.Sprintf("subscription %d: model says the caller received %v, the consumer received %v", tok, mrecv, s.Got)})
			}
		default:
		}
	}
	return nil
}

// Monitor evaluates the clock-free part of C07/C08 on what the consumers observed.
func Monitor(res *fw.Result, subs []*Sub, sig string, healthy bool) {
	for _, s := range subs {
		for i, v := range s.Got {
			if v != s.Tok*1000000+i {
				kind := "out of order, duplicated or lost"
				if v/1000000 != s.Tok {
					kind = "belongs to another subscription"
				}
				res.Add(fw.Finding{Kind: "monitor", Signature: sig + " stream not a prefix", Detail: fmt.Sprintf("subscription %d received %d at position %d (%s); received so far: %v", s.Tok, v, i, kind, head(s.Got, 40))})
				break
			}
		}
		if healthy && s.Err == nil && s.N >= 0 {
			select {
			case <-s.Done:
				if len(s.Got) != s.N {
					res.Add(fw.Finding{Kind: "monitor", Signature: sig + " stream lost values", Detail: fmt.Sprintf("subscription %d: the handler sent %d values and closed, the caller's channel closed after %d", s.Tok, s.N, len(s.Got))})
				}
			default:
			}
		}
	}
}

func head(xs []int, n int) []int {
	if len(xs) > n {
		return xs[:n]
	}
	return xs
}

// WireOrder checks that on the wire the response announcing a channel precedes its first value.
func WireOrder(res *fw.Result, frames []px.Frame, sig string) {
	announced := map[int]map[int]bool{}
	for _, f := range frames {
		if f.Dir != "s2c" || f.Index < 0 {
			continue
		}
		var m struct {
			Method string            `json:"method"`
			Params []json.RawMessage `json:"params"`
			Result json.RawMessage   `json:"result"`
			ID     interface{}       `json:"id"`
		}
		if json.Unmarshal([]byte(f.Text), &m) != nil {
			continue
		}
		if announced[f.Conn] == nil {
			announced[f.Conn] = map[int]bool{}
		}
		if m.Method == "" && m.ID != nil && len(m.Result) > 0 {
			var ch int
			if json.Unmarshal(m.Result, &ch) == nil {
				announced[f.Conn][ch] = true // (any integer result; harmless over-approximation)
			}
		}
		if m.Method == "xrpc.ch.val" && len(m.Params) >= 1 {
			var ch int
			if json.Unmarshal(m.Params[0], &ch) == nil && !announced[f.Conn][ch] {
				res.Add(fw.Finding{Kind: "monitor", Signature: sig + " value before announcement", Detail: fmt.Sprintf("connection %d: a value frame of channel %d was on the wire before the response announcing it", f.Conn, ch)})
				return
			}
		}
	}
}

// RunHealthy: C07 scenarios.
func RunHealthy(d *fw.Driver, res *fw.Result, seed int64, thorough bool) error {
	r := fw.Rng(seed, "c07")
	lengths := []int{0, 1, 31, 32, 33, 257, 1000}
	rounds := 16
	if thorough {
		rounds = 60
	}
	for round := 0; round < rounds && !res.Enough(); round++ {
		e, err := scen.NewEnv(seed+int64(round)*13, 2)
		if err != nil {
			return err
		}
		ctx, cancel := context.WithCancel(context.Background())
		cl, closer, err := e.Client(ctx, jsonrpc.WithNoReconnect())
		if err != nil {
			cancel()
			e.Close()
			return err
		}
		k := 1 + r.Intn(4)
		var subs []*Sub
		var wg sync.WaitGroup
		stalled := -1
		if round%3 == 2 {
			stalled = 0 // the first subscription's consumer stalls while the others and unary calls run
		}
		for i := 0; i < k; i++ {
			s := &Sub{Tok: round*10 + i + 1, N: lengths[(round+i)%len(lengths)], Mode: fw.Pick(r, []string{"fast", "fast", "slow"})}
			if i == stalled {
				s.Mode = fw.Pick(r, []string{"stall", "stallN"})
				s.N = fw.Pick(r, []int{33, 257, 1000})
			}
			s.Ctx, s.Cancel = context.WithCancel(ctx)
			subs = append(subs, s)
			s.Start(e, cl, &wg)
		}
		// unary calls alongside
		unaryOK := make(chan bool, 1)
		go func() {
			ok := true
			for j := 0; j < 20; j++ {
				cctx, cc := context.WithTimeout(ctx, 5*time.Second)
				v, err := cl.Count(cctx, 900000+round*100+j)
				cc()
				if err != nil || v != 900000+round*100+j {
					ok = false
				}
			}
			unaryOK <- ok
		}()
		sig := fmt.Sprintf("healthy subs=%d stalled=%v", k, stalled >= 0)
		select {
		case ok := <-unaryOK:
			if !ok {
				res.Add(fw.Finding{Kind: "monitor", Signature: sig + " unary calls disturbed", Detail: "ordinary calls on the connection failed while streams were running"})
			}
		case <-time.After(20 * time.Second):
			res.Add(fw.Finding{Kind: "monitor", Signature: sig + " unary calls blocked", Detail: "ordinary calls on the connection did not complete while a subscriber was not reading"})
		}
		// the non-stalled subscriptions must complete on their own
		for i, s := range subs {
			if i == stalled {
				continue
			}
			select {
			case <-s.Done:
			case <-time.After(20 * time.Second):
				res.Add(fw.Finding{Kind: "monitor", Signature: sig + " stream blocked", Detail: fmt.Sprintf("subscription %d (%d values) did not complete while another subscriber was not reading (received %d)", s.Tok, s.N, len(s.Got))})
			}
		}
		if stalled >= 0 {
			close(subs[stalled].Resume)
			select {
			case <-subs[stalled].Done:
			case <-time.After(20 * time.Second):
				res.Add(fw.Finding{Kind: "monitor", Signature: sig + " resumed stream incomplete", Detail: "the stalled subscription did not complete after its consumer resumed"})
			}
		}
		scen.WithTimeout(10*time.Second, wg.Wait)
		Monitor(res, subs, sig, true)
		WireOrder(res, e.PX.Frames(), sig)
		if err := Check(d, res, e, subs, sig); err != nil {
			return err
		}
		for _, s := range subs {
			res.Count(fmt.Sprintf("len.%d", s.N))
			res.Count("mode." + s.Mode)
		}
		res.Eval(true, []interface{}{"c07", seed, round})
		res.Sample(map[string]interface{}{"round": round, "subscriptions": k, "lengths": lens(subs), "modes": modes(subs), "received": got(subs)})
		scen.WithTimeout(5*time.Second, closer)
		cancel()
		e.Close()
	}
	return nil
}

func lens(ss []*Sub) []int {
	var out []int
	for _, s := range ss {
		out = append(out, s.N)
	}
	return out
}
func modes(ss []*Sub) []string {
	var out []string
	for _, s := range ss {
		out = append(out, s.Mode)
	}
	return out
}
func got(ss []*Sub) []int {
	var out []int
	for _, s := range ss {
		out = append(out, len(s.Got))
	}
	return out
}

// RunTermination: C08 scenarios — every termination cause at every kind of instant, and pairs of causes.
func RunTermination(d *fw.Driver, res *fw.Result, seed int64, thorough bool) error {
	r := fw.Rng(seed, "c08")
	causes := []string{"handler-close", "ctx-cancel", "conn-loss", "client-close", "cancel+loss", "loss+close", "handler-close+cancel"}
	instants := []string{"at-start", "early", "mid", "buffered"}
	reps := 1
	if thorough {
		reps = 6
	}
	for rep := 0; rep < reps; rep++ {
		for _, cause := range causes {
			for _, instant := range instants {
				for _, reconnect := range []bool{true, false} {
					if res.Enough() {
						return nil
					}
					if err := termOne(d, res, r, seed, cause, instant, reconnect); err != nil {
						return err
					}
				}
			}
		}
	}
	return nil
}

var termSeq = 0

func termOne(d *fw.Driver, res *fw.Result, r interface{ Intn(int) int }, seed int64, cause, instant string, reconnect bool) error {
	termSeq++
	t0 := time.Now()
	e, err := scen.NewEnv(seed+int64(termSeq)*7, 2, jsonrpc.WithServerPingInterval(5*time.Millisecond))
	if err != nil {
		return err
	}
	defer func() {
		t1 := time.Now()
		e.Close()
		if os.Getenv("VERIF_DEBUG") != "" {
			fmt.Fprintf(os.Stderr, "term %s/%s/%v: scenario %v close %v\n", cause, instant, reconnect, t1.Sub(t0), time.Since(t1))
		}
	}()
	ctx, cancelAll := context.WithCancel(context.Background())
	defer cancelAll()
	opts := []jsonrpc.Option{jsonrpc.WithPingInterval(10 * time.Millisecond), jsonrpc.WithTimeout(300 * time.Millisecond),
		jsonrpc.WithReconnectBackoff(3*time.Millisecond, 15*time.Millisecond)}
	if !reconnect {
		opts = append(opts, jsonrpc.WithNoReconnect())
	}
	cl, closer, err := e.Client(ctx, opts...)
	if err != nil {
		return err
	}
	sig := fmt.Sprintf("termination cause=%s instant=%s reconnect=%v", cause, instant, reconnect)
	k := 1 + r.Intn(3)
	var subs []*Sub
	var wg sync.WaitGroup
	n := 400
	if cause == "handler-close" || cause == "handler-close+cancel" {
		n = []int{0, 3, 40, 200}[r.Intn(4)]
	}
	// a fault armed on the server→client direction before anything is sent ("at-start": around the
	// channel-id response itself)
	kind := []string{"fin", "rst", "blackhole"}[r.Intn(3)]
	hasLoss := cause == "conn-loss" || cause == "cancel+loss" || cause == "loss+close"
	if hasLoss && instant == "at-start" {
		e.PX.Arm(px.Fault{Dir: "s2c", Frame: r.Intn(2), Pos: []string{"before", "header", "mid", "lastbyte", "after"}[r.Intn(5)], Kind: kind})
	}
	for i := 0; i < k; i++ {
		s := &Sub{Tok: termSeq*10 + i + 1, N: n, Mode: "fast"}
		if instant == "buffered" {
			s.Mode = "stallN"
		}
		s.Ctx, s.Cancel = context.WithCancel(ctx)
		subs = append(subs, s)
		s.Start(e, cl, &wg)
	}
	// wait for the instant
	waitRecv := func(min int) {
		deadline := time.Now().Add(3 * time.Second)
		for time.Now().Before(deadline) {
			if e.RT.Count("c.recv") >= min*k || e.RT.Count("c.closed")+e.RT.Count("c.sub.err") >= k {
				return
			}
			time.Sleep(200 * time.Microsecond)
		}
	}
	switch instant {
	case "at-start":
	case "early":
		waitRecv(1)
	case "mid":
		waitRecv(20)
	case "buffered":
		waitRecv(5)
		time.Sleep(3 * time.Millisecond) // values pile up behind the stalled consumers
	}
	doCancel := func() {
		for _, s := range subs {
			e.RT.Log("ctx.cancel", "tok", s.Tok)
			s.Cancel()
		}
	}
	doLoss := func() {
		if instant != "at-start" {
			e.PX.Cut(0, kind)
		}
	}
	closed := false
	doClose := func() {
		closed = true
		if !scen.WithTimeout(10*time.Second, closer) {
			res.Add(fw.Finding{Kind: "monitor", Signature: sig + " closer hangs", Detail: "the client's closer did not return within 10s"})
		}
	}
	switch cause {
	case "handler-close":
	case "ctx-cancel":
		doCancel()
	case "conn-loss":
		doLoss()
	case "client-close":
		doClose()
	case "cancel+loss":
		go doCancel()
		doLoss()
	case "loss+close":
		doLoss()
		time.Sleep(time.Duration(r.Intn(3)) * time.Millisecond)
		doClose()
	case "handler-close+cancel":
		go doCancel()
	}
	// consumers that were stalled resume: a channel must close once its consumer drains it
	for _, s := range subs {
		if s.Mode == "stallN" || s.Mode == "stall" {
			close(s.Resume)
		}
	}
	// every channel handed to a caller must get closed
	healthy := cause == "handler-close"
	for _, s := range subs {
		select {
		case <-s.Done:
		case <-time.After(8 * time.Second):
			if kind == "blackhole" && hasLoss && !closed {
				// a silent stall is only noticed by the keepalive (C17); give it its bound, then close the client
				doClose()
				select {
				case <-s.Done:
					continue
				case <-time.After(5 * time.Second):
				}
			}
			if !s.Returned {
				// the subscribing call itself never returned: no channel was handed to a caller, so this is
				// not C08's subject (C03 owns "no call hangs"); counted, not reported here
				res.Count("subscribing-call-hung")
				continue
			}
			res.Add(fw.Finding{Kind: "monitor", Signature: sig + " channel never closed", Detail: fmt.Sprintf("subscription %d: the channel handed to the caller was not closed within 8s of %s (received %d values; call returned=%v err=%v)", s.Tok, cause, len(s.Got), s.Returned, s.Err)})
		}
	}
	if !closed {
		doClose()
	}
	// after the client is closed every channel is closed
	for _, s := range subs {
		select {
		case <-s.Done:
		case <-time.After(3 * time.Second):
			if !s.Returned {
				continue
			}
			res.Add(fw.Finding{Kind: "monitor", Signature: sig + " channel open after client close", Detail: fmt.Sprintf("subscription %d still open after the client was closed", s.Tok)})
		}
	}
	scen.WithTimeout(5*time.Second, wg.Wait)
	time.Sleep(2 * time.Millisecond)
	Monitor(res, subs, sig, healthy)
	if err := Check(d, res, e, subs, sig); err != nil {
		return err
	}
	res.Count("cause." + cause)
	res.Count("instant." + instant)
	if hasLoss {
		res.Count("fault." + kind)
	}
	res.Eval(true, []interface{}{"c08", cause, instant, reconnect, kind, k, n})
	if termSeq%9 == 0 {
		res.Sample(map[string]interface{}{"cause": cause, "instant": instant, "reconnect": reconnect, "fault": kind, "subscriptions": k, "sent_by_handler": n, "received": got(subs)})
	}
	return nil
}

// RichElements: "the values a handler sends arrive on the caller's channel in the same order, each exactly
// once" for an element type with storage of its own.  The consumer keeps every element it received and
// compares all of them with what was sent only after the stream has ended — an element that was correct
// when delivered and changed afterwards (storage shared between elements) is seen this way.
func RichElements(res *fw.Result, seed int64, n int) error {
	e, err := scen.NewEnv(seed, 1)
	if err != nil {
		return err
	}
	defer e.Close()
	ctx, cancel := context.WithCancel(context.Background())
	defer cancel()
	cl, closer, err := e.Client(ctx, jsonrpc.WithNoReconnect())
	if err != nil {
		return err
	}
	defer scen.WithTimeout(3*time.Second, closer)
	sig := "stream of non-scalar elements"
	tok := 990000 + int(seed%1000)
	ch, err := cl.SubRich(ctx, tok, n)
	if err != nil || ch == nil {
		res.Add(fw.Finding{Kind: "monitor", Signature: sig + " call failed", Detail: fmt.Sprintf("SubRich failed on a healthy connection: %v", err)})
		return nil
	}
	var got []scen.Rich
	done := make(chan struct{})
	go func() {
		defer close(done)
		for v := range ch {
			got = append(got, v)
			if len(got)%16 == 0 {
				time.Sleep(50 * time.Microsecond) // let a backlog build up now and then
			}
		}
	}()
	select {
	case <-done:
	case <-time.After(10 * time.Second):
		res.Add(fw.Finding{Kind: "monitor", Signature: sig + " never closes", Detail: "the stream did not end within 10s"})
		return nil
	}
	bad, first := 0, ""
	for i := 0; i < n && i < len(got); i++ {
		want := scen.RichOf(tok, i)
		if fw.JSON(got[i]) != fw.JSON(want) {
			bad++
			if first == "" {
				first = fmt.Sprintf("element %d: sent %s, the caller holds %s", i, fw.JSON(want), fw.JSON(got[i]))
			}
		}
	}
	switch {
	case len(got) != n:
		res.Add(fw.Finding{Kind: "monitor", Signature: sig + " count", Detail: fmt.Sprintf("the handler sent %d elements and closed, the caller received %d", n, len(got)), Case: map[string]interface{}{"scenario": "rich-elements", "n": n}})
	case bad > 0:
		res.Add(fw.Finding{Kind: "monitor", Signature: sig + " corrupted", Detail: fmt.Sprintf("%d of %d elements differ from what the handler sent (after the stream ended); first: %s", bad, n, first), Case: map[string]interface{}{"scenario": "rich-elements", "n": n}})
	}
	res.Count("rich-elements")
	res.Eval(true, []interface{}{"rich-elements", n})
	return nil
}

// StaleContextAfterReconnect: channel ids restart on every connection.  Subscription A is lost with its
// connection (and closed correctly); the client redials; subscription B — which gets A's channel id on the
// new connection — is opened; then A's (stale) context is cancelled.  B must be unaffected: its values
// arrive and its channel closes when its handler closes.
func StaleContextAfterReconnect(d *fw.Driver, res *fw.Result, seed int64) error {
	e, err := scen.NewEnv(seed, 1)
	if err != nil {
		return err
	}
	defer e.Close()
	ctx, cancelAll := context.WithCancel(context.Background())
	defer cancelAll()
	cl, closer0, err := e.Client(ctx, jsonrpc.WithPingInterval(0), jsonrpc.WithTimeout(0), jsonrpc.WithReconnectBackoff(3*time.Millisecond, 15*time.Millisecond))
	if err != nil {
		return err
	}
	var closeOnce sync.Once
	closer := func() { closeOnce.Do(closer0) }
	defer scen.WithTimeout(3*time.Second, closer)
	sig := "stale subscription context cancelled after a reconnect"
	var wg sync.WaitGroup
	a := &Sub{Tok: 970001, N: -1, Mode: "fast"}
	a.Ctx, a.Cancel = context.WithCancel(ctx)
	a.Start(e, cl, &wg)
	for w := 0; w < 3000 && e.RT.Count("c.recv") < 3; w++ {
		time.Sleep(time.Millisecond)
	}
	e.PX.Cut(0, "rst")
	select {
	case <-a.Done:
	case <-time.After(5 * time.Second):
		res.Add(fw.Finding{Kind: "monitor", Signature: sig + " first channel never closed", Detail: "the subscription lost with its connection was not closed within 5s"})
		return nil
	}
	// wait for the heal
	healed := false
	for w := 0; w < 500 && !healed; w++ {
		done := make(chan bool, 1)
		go func() { v, err := cl.Add(20, 22); done <- err == nil && v == 42 }()
		select {
		case healed = <-done:
		case <-time.After(time.Second):
		}
		if !healed {
			time.Sleep(5 * time.Millisecond)
		}
	}
	if !healed {
		res.Add(fw.Finding{Kind: "monitor", Signature: sig + " no heal", Detail: "the client did not heal"})
		return nil
	}
	b := &Sub{Tok: 970002, N: 40, Mode: "slow"}
	b.Ctx, b.Cancel = context.WithCancel(ctx)
	b.Start(e, cl, &wg)
	time.Sleep(2 * time.Millisecond)
	e.RT.Log("ctx.cancel", "tok", a.Tok)
	a.Cancel() // the context of a subscription that ended with the previous connection
	select {
	case <-b.Done:
	case <-time.After(6 * time.Second):
		res.Add(fw.Finding{Kind: "monitor", Signature: sig + " channel never closed", Detail: fmt.Sprintf("subscription B (opened on the new connection) was not closed within 6s of its handler closing; it received %d of 40 values", len(b.Got)),
			Case: map[string]interface{}{"scenario": "stale-context-after-reconnect"}})
		return nil
	}
	if len(b.Got) != 40 {
		res.Add(fw.Finding{Kind: "monitor", Signature: sig + " values lost", Detail: fmt.Sprintf("subscription B received %d of the 40 values its handler sent on a healthy connection", len(b.Got)),
			Case: map[string]interface{}{"scenario": "stale-context-after-reconnect"}})
	}
	// a second loss: a subscription opened on the re-established connection must be closed by it too
	heal := func() bool {
		for w := 0; w < 500; w++ {
			done := make(chan bool, 1)
			go func() { v, err := cl.Add(20, 22); done <- err == nil && v == 42 }()
			select {
			case ok := <-done:
				if ok {
					return true
				}
			case <-time.After(time.Second):
			}
			time.Sleep(5 * time.Millisecond)
		}
		return false
	}
	c3 := &Sub{Tok: 970003, N: -1, Mode: "fast"}
	c3.Ctx, c3.Cancel = context.WithCancel(ctx)
	c3.Start(e, cl, &wg)
	for w := 0; w < 3000 && len(c3.Got) < 3 && !c3.Returned; w++ {
		time.Sleep(time.Millisecond)
	}
	time.Sleep(3 * time.Millisecond)
	e.PX.Cut(0, "rst")
	select {
	case <-c3.Done:
	case <-time.After(5 * time.Second):
		res.Add(fw.Finding{Kind: "monitor", Signature: sig + " second loss does not close", Detail: "a subscription opened after a reconnect was not closed when the connection broke again", Case: map[string]interface{}{"scenario": "second-loss"}})
	}
	if heal() {
		d4 := &Sub{Tok: 970004, N: -1, Mode: "fast"}
		d4.Ctx, d4.Cancel = context.WithCancel(ctx)
		d4.Start(e, cl, &wg)
		for w := 0; w < 3000 && len(d4.Got) < 3 && !d4.Returned; w++ {
			time.Sleep(time.Millisecond)
		}
		scen.WithTimeout(5*time.Second, closer)
		select {
		case <-d4.Done:
		case <-time.After(3 * time.Second):
			res.Add(fw.Finding{Kind: "monitor", Signature: sig + " close after reconnects does not close", Detail: "a subscription opened after two reconnects was still open 3s after the client was closed", Case: map[string]interface{}{"scenario": "close-after-reconnects"}})
		}
	}
	res.Count("stale-context-after-reconnect")
	res.Eval(true, []interface{}{"stale-context-after-reconnect"})
	return nil
}

// Independence: (a) a subscription whose producer never lets its channel run empty must not keep the
// forwarder from announcing and serving another subscription on the same connection; (b) an element the
// client cannot decode into its declared element type is that element's problem only — the later values
// arrive and the channel closes when the handler closes.
func Independence(res *fw.Result, seed int64) error {
	e, err := scen.NewEnv(seed+91, 0)
	if err != nil {
		return err
	}
	defer e.Close()
	ctx, cancel := context.WithCancel(context.Background())
	defer cancel()
	cl, closer, err := e.Client(ctx, jsonrpc.WithNoReconnect())
	if err != nil {
		return err
	}
	defer scen.WithTimeout(3*time.Second, closer)
	// (a)
	fctx, fcancel := context.WithCancel(ctx)
	fh, err := cl.Firehose(fctx, 980001)
	if err != nil || fh == nil {
		fcancel()
		return fmt.Errorf("harness error: Firehose: %v", err)
	}
	go func() {
		for range fh { // a consumer that keeps up
		}
	}()
	time.Sleep(30 * time.Millisecond)
	type subRes struct {
		got []int
		err error
	}
	done := make(chan subRes, 1)
	go func() {
		ch, err := cl.Sub(ctx, 980002, 3)
		var r subRes
		r.err = err
		if err == nil && ch != nil {
			for v := range ch {
				r.got = append(r.got, v)
			}
		}
		done <- r
	}()
	select {
	case r := <-done:
		if r.err != nil || len(r.got) != 3 {
			res.Add(fw.Finding{Kind: "monitor", Signature: "subscription next to a firehose", Detail: fmt.Sprintf("a 3-value subscription opened while another stream was running at full speed returned err=%v values=%v", r.err, r.got), Case: map[string]interface{}{"scenario": "independence-firehose"}})
		}
	case <-time.After(4 * time.Second):
		res.Add(fw.Finding{Kind: "monitor", Signature: "subscription next to a firehose blocked", Detail: "a subscription opened while another stream was running at full speed was not even announced within 4s: one stream starves the others", Case: map[string]interface{}{"scenario": "independence-firehose"}})
	}
	fcancel()
	// (b)
	sm, err := cl.SubSmall(ctx, 980003, 12)
	if err != nil || sm == nil {
		res.Add(fw.Finding{Kind: "monitor", Signature: "stream with undecodable elements: call failed", Detail: fmt.Sprintf("%v", err)})
		return nil
	}
	var got []int8
	closed := make(chan struct{})
	go func() {
		defer close(closed)
		for v := range sm {
			got = append(got, v)
		}
	}()
	select {
	case <-closed:
		want := []int8{0, 1, 3, 4, 6, 7, 9, 10} // every third value (1<<40+i) cannot be decoded into int8 and is skipped
		if fw.JSON(got) != fw.JSON(want) {
			res.Add(fw.Finding{Kind: "monitor", Signature: "stream with undecodable elements: values", Detail: fmt.Sprintf("the decodable values of the stream are %v, the caller received %v", want, got), Case: map[string]interface{}{"scenario": "independence-undecodable"}})
		}
	case <-time.After(4 * time.Second):
		res.Add(fw.Finding{Kind: "monitor", Signature: "stream with undecodable elements: never closes", Detail: fmt.Sprintf("the caller's channel was not closed within 4s of the handler closing its channel (received %v)", got), Case: map[string]interface{}{"scenario": "independence-undecodable"}})
	}
	res.Count("independence")
	res.Eval(true, []interface{}{"independence"})
	return nil
}

// SilentLossNoPings: keepalive switched off (ping interval 0) with a timeout configured; the connection dies
// without FIN or RST under a live subscription.  The read deadline is then the only detector: the
// subscription's channel must be closed within a bounded time.
func SilentLossNoPings(res *fw.Result, seed int64) error {
	e, err := scen.NewEnv(seed+93, 0, jsonrpc.WithServerPingInterval(0))
	if err != nil {
		return err
	}
	defer e.Close()
	ctx, cancel := context.WithCancel(context.Background())
	defer cancel()
	const T = 150 * time.Millisecond
	cl, closer, err := e.Client(ctx, jsonrpc.WithPingInterval(0), jsonrpc.WithTimeout(T), jsonrpc.WithReconnectBackoff(5*time.Millisecond, 20*time.Millisecond))
	if err != nil {
		return err
	}
	defer scen.WithTimeout(3*time.Second, closer)
	var wg sync.WaitGroup
	s := &Sub{Tok: 975001, N: -1, Mode: "fast"}
	s.Ctx, s.Cancel = context.WithCancel(ctx)
	s.Start(e, cl, &wg)
	for w := 0; w < 3000 && e.RT.Count("c.recv") < 3; w++ {
		time.Sleep(time.Millisecond)
	}
	e.PX.Cut(0, "blackhole")
	select {
	case <-s.Done:
	case <-time.After(5*T + time.Second):
		res.Add(fw.Finding{Kind: "monitor", Signature: "silent loss with keepalive off: channel never closed", Detail: fmt.Sprintf("a subscription's channel was still open %v after its connection went silent (ping interval 0, timeout %v)", 5*T+time.Second, T),
			Case: map[string]interface{}{"scenario": "silent-loss-no-pings"}})
	}
	s.Cancel()
	res.Count("silent-loss-no-pings")
	res.Eval(true, []interface{}{"silent-loss-no-pings"})
	return nil
}

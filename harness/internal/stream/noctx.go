package stream

// NoContext: a channel-returning proxy field without a context parameter is a supported signature; the
// channel it hands out must deliver and close like any other.  The client runs in a child process, because
// the failure this scenario was written for is a panic in a library goroutine.

import (
	"encoding/json"
	"fmt"
	"time"

	"verif/harness/internal/fw"
	"verif/harness/internal/scen"
	"verif/harness/internal/victim"
)

func NoContext(res *fw.Result, seed int64) error {
	e, err := scen.NewEnv(seed+4242, 0)
	if err != nil {
		return err
	}
	defer e.Close()
	child, err := victim.Start("victim-noctx", e.WSURL())
	if err != nil {
		return err
	}
	defer child.Stop()
	sig := "subscription through a proxy field without a context parameter"
	c := map[string]interface{}{"scenario": "no-context-subscription"}
	deadline := time.After(8 * time.Second)
	for {
		select {
		case line, ok := <-child.Lines:
			if !ok {
				res.Add(fw.Finding{Kind: "monitor", Signature: sig + " client process died", Detail: "the client process ended before its channel was closed: " + child.CrashInfo(), Case: c})
				res.Eval(true, []interface{}{"no-context-subscription"})
				return nil
			}
			var m map[string]interface{}
			if json.Unmarshal([]byte(line), &m) != nil {
				continue
			}
			switch m["ev"] {
			case "closed":
				if n, _ := m["n"].(float64); n != 5 {
					res.Add(fw.Finding{Kind: "monitor", Signature: sig + " wrong stream", Detail: fmt.Sprintf("the caller received %v of 5 values before the close", m["n"]), Case: c})
				}
				res.Count("no-context-subscription")
				res.Eval(true, []interface{}{"no-context-subscription"})
				return nil
			case "dial-error", "add-failed", "sub-failed":
				res.Add(fw.Finding{Kind: "monitor", Signature: sig + " failed", Detail: fmt.Sprintf("%v: %v", m["ev"], m["err"]), Case: c})
				res.Eval(true, []interface{}{"no-context-subscription"})
				return nil
			}
		case <-deadline:
			res.Add(fw.Finding{Kind: "monitor", Signature: sig + " never closes", Detail: "8s after subscribing to 5 values the caller's channel has not been closed", Case: c})
			res.Eval(true, []interface{}{"no-context-subscription"})
			return nil
		}
	}
}

// Package c14 — concurrent writers on one WebSocket connection: a mixed workload (requests of every
// size, notifications, cancels, handler responses, channel streams, reverse calls, pings, reconnect)
// runs through the frame-aware proxy; the hook trace of write-lock sections is replayed through
// Jrpc.Locks and every frame seen on the wire must be one well-formed JSON-RPC frame.
package c14

import (
	"context"
	"encoding/json"
	"fmt"
	"os"
	"strings"
	"sync"
	"time"

	jsonrpc "github.com/filecoin-project/go-jsonrpc"

	"verif/harness/internal/fw"
	"verif/harness/internal/hk"
	"verif/harness/internal/px"
	"verif/harness/internal/scen"
)

// WellFormed checks one data frame: exactly one JSON object that is a JSON-RPC 2.0 request,
// notification or response.
func WellFormed(text string) string {
	dec := json.NewDecoder(strings.NewReader(text))
	var m map[string]json.RawMessage
	if err := dec.Decode(&m); err != nil {
		return "not a JSON object: " + err.Error()
	}
	if dec.More() {
		return "more than one JSON value in a frame"
	}
	var ver string
	if v, ok := m["jsonrpc"]; !ok || json.Unmarshal(v, &ver) != nil || ver != "2.0" {
		return "jsonrpc member missing or not \"2.0\""
	}
	_, hasM := m["method"]
	_, hasR := m["result"]
	_, hasE := m["error"]
	switch {
	case hasM && (hasR || hasE):
		return "both a request and a response"
	case !hasM && hasR == hasE:
		return "a response must have exactly one of result and error"
	case !hasM:
		if _, ok := m["id"]; !ok {
			return "response without id"
		}
	}
	return ""
}

// LockEvents projects the trace on the write-lock alphabet, per connection.
func LockEvents(evs []hk.Event) map[int][]map[string]interface{} {
	out := map[int][]map[string]interface{}{}
	for _, e := range evs {
		switch e.Site {
		case "w.begin":
			out[e.Conn] = append(out[e.Conn], map[string]interface{}{"e": "begin", "site": e.KV["site"]})
		case "w.end":
			out[e.Conn] = append(out[e.Conn], map[string]interface{}{"e": "end", "site": e.KV["site"]})
		case "rc.swap":
			out[e.Conn] = append(out[e.Conn], map[string]interface{}{"e": "swap", "site": "swap"})
		}
	}
	// a section that began before this runtime was installed (a goroutine of the previous scenario's
	// connection still finishing) shows up as an `end` with no `begin`: the trace of a connection starts
	// at its first `begin` (or swap)
	for conn, les := range out {
		i := 0
		for i < len(les) && les[i]["e"] == "end" {
			i++
		}
		out[conn] = les[i:]
	}
	return out
}

// CheckLocks replays every connection's lock events through the model.
func CheckLocks(d *fw.Driver, res *fw.Result, evs []hk.Event, sig string) error {
	for conn, les := range LockEvents(evs) {
		ask := map[string]interface{}{"op": "locks", "events": les}
		model, err := d.Ask(ask)
		if err != nil {
			return err
		}
		mm := model.(map[string]interface{})
		res.Traces++
		res.Events += len(les)
		if mm["accepted"] != true {
			idx := 0
			if n, ok := mm["refusedAt"].(json.Number); ok {
				v, _ := n.Int64()
				idx = int(v)
			}
			lo := idx - 6
			if lo < 0 {
				lo = 0
			}
			res.Add(fw.Finding{Kind: "tie", Signature: sig + " lock-section overlap", Detail: fmt.Sprintf("connection %d: the model refuses write-lock event %d (%v): a writer entered while another was inside", conn, idx, les[idx]),
				Case: map[string]interface{}{"events_before": les[lo : idx+1]}, Model: model})
		}
	}
	return nil
}

// CheckFrames applies the wire monitor to every data frame the proxy saw.
func CheckFrames(res *fw.Result, frames []px.Frame, sig string) {
	for _, f := range frames {
		if f.Index < 0 {
			continue
		}
		res.Count("wire." + f.Dir)
		if why := WellFormed(f.Text); why != "" {
			t := f.Text
			if len(t) > 300 {
				t = t[:300] + "…"
			}
			res.Add(fw.Finding{Kind: "monitor", Signature: sig + " malformed frame", Detail: fmt.Sprintf("frame %d (%s) on connection %d is not one well-formed JSON-RPC frame: %s", f.Index, f.Dir, f.Conn, why), Case: map[string]interface{}{"frame": t}})
		}
	}
}

// CheckAnswers applies the correlation monitor to the wire: on every connection, the response frames under
// an id are no more than the requests that travelled the opposite way on that same connection under that id
// (ids compared as JSON text).  The proxy logs a frame after forwarding it, so the log of the two directions
// is not causally ordered: the check is on the multisets, not on the order.
func CheckAnswers(res *fw.Result, frames []px.Frame, sig string) {
	type key struct {
		conn int
		dir  string // direction of the request
		id   string
	}
	reqs, resps := map[key]int{}, map[key]int{}
	sample := map[key]string{}
	other := map[string]string{"c2s": "s2c", "s2c": "c2s"}
	for _, f := range frames {
		if f.Index < 0 {
			continue
		}
		var m map[string]json.RawMessage
		if json.Unmarshal([]byte(f.Text), &m) != nil {
			continue // malformed frames are CheckFrames' business
		}
		id, hasID := m["id"]
		if !hasID || string(id) == "null" {
			continue
		}
		if _, isReq := m["method"]; isReq {
			reqs[key{f.Conn, f.Dir, string(id)}]++
			continue
		}
		k := key{f.Conn, other[f.Dir], string(id)}
		resps[k]++
		res.Count("wire.response")
		if sample[k] == "" {
			sample[k] = f.Text
			if len(f.Text) > 200 {
				sample[k] = f.Text[:200] + "…"
			}
		}
	}
	for k, n := range resps {
		if n > reqs[k] {
			res.Add(fw.Finding{Kind: "monitor", Signature: sig + " more responses than requests",
				Detail: fmt.Sprintf("connection %d carries %d response(s) under id %s but only %d request(s) with that id travelled the other way (%s) on it", k.conn, n, k.id, reqs[k], k.dir),
				Case:   map[string]interface{}{"frame": sample[k]}})
		}
	}
}

// PongCut drives the schedule "a peer ping is pending when the connection loss is noticed": main is
// held while handling a request, a server ping arrives, the connection is cut, main is released and
// finds both the pong token and the closed reader ready.  (Used by the race-detector run: the
// reconnect goroutine then swaps the connection while main may still touch it.)
func PongCut(seed int64, iters int) error {
	for i := 0; i < iters; i++ {
		e, err := scen.NewEnv(seed+int64(i), 1, jsonrpc.WithServerPingInterval(time.Millisecond))
		if err != nil {
			return err
		}
		ctx, cancel := context.WithCancel(context.Background())
		cl, closer, err := e.Client(ctx, jsonrpc.WithPingInterval(50*time.Millisecond), jsonrpc.WithTimeout(5*time.Second),
			jsonrpc.WithReconnectBackoff(2*time.Millisecond, 10*time.Millisecond))
		if err != nil {
			cancel()
			e.Close()
			return err
		}
		g := e.RT.Gate("main.take", 1)
		go cl.Add(1, 2)
		if g.WaitReached(2 * time.Second) {
			time.Sleep(5 * time.Millisecond) // several server pings arrive meanwhile
			e.PX.Cut(0, "rst")
			time.Sleep(2 * time.Millisecond) // the reader notices
			g.Release()
		}
		// stay quiet during the reconnect window (a request would hand the write lock from main to the
		// redial goroutine and thereby order the two accesses), then let the client serve a call
		time.Sleep(25 * time.Millisecond)
		for k := 0; k < 100; k++ {
			if v, err := cl.Add(20, 22); err == nil && v == 42 {
				break
			}
			time.Sleep(2 * time.Millisecond)
		}
		scen.WithTimeout(3*time.Second, closer)
		cancel()
		e.Close()
	}
	return nil
}

// SubCut drives the schedule "a subscription's response is being processed by the frame executor when
// the connection is lost": the executor is held right after it has built the caller's channel (and
// before it registers the sink), the connection is cut, the sweep fails the pending call and the
// caller returns — reading the proxy's return slot that the executor has just written.  (Used by the
// race-detector run: nothing orders that write and that read unless the library does.)
func SubCut(seed int64, iters int) error {
	for i := 0; i < iters; i++ {
		e, err := scen.NewEnv(seed+int64(i), 1)
		if err != nil {
			return err
		}
		ctx, cancel := context.WithCancel(context.Background())
		cl, closer, err := e.Client(ctx, jsonrpc.WithPingInterval(0), jsonrpc.WithTimeout(0),
			jsonrpc.WithReconnectBackoff(2*time.Millisecond, 10*time.Millisecond))
		if err != nil {
			cancel()
			e.Close()
			return err
		}
		g := e.RT.Gate("fe.resp.prechan", 1)
		done := make(chan struct{})
		go func() {
			defer close(done)
			ch, err := cl.Sub(ctx, 5000+i, 3)
			if err == nil && ch != nil {
				for range ch {
				}
			}
		}()
		if g.WaitReached(2 * time.Second) {
			e.PX.Cut(0, "rst")
			select {
			case <-done: // the sweep failed the call while the executor is still inside handleResponse
			case <-time.After(500 * time.Millisecond):
			}
			g.Release()
		}
		scen.WithTimeout(2*time.Second, func() { <-done })
		e.RT.ReleaseAll()
		scen.WithTimeout(3*time.Second, closer)
		cancel()
		e.Close()
	}
	return nil
}

func Run(d *fw.Driver, res *fw.Result, seed int64, thorough bool) error {
	if os.Getenv("VERIF_NOTRACE") == "1" {
		if err := PongCut(seed, 25); err != nil {
			return err
		}
		if err := SubCut(seed, 15); err != nil {
			return err
		}
	}
	rounds := 6
	if thorough {
		rounds = 30
	}
	for round := 0; round < rounds && !res.Enough(); round++ {
		if err := one(d, res, seed+int64(round)*101, round, thorough); err != nil {
			return err
		}
	}
	return nil
}

func one(d *fw.Driver, res *fw.Result, seed int64, round int, thorough bool) error {
	e, err := scen.NewEnv(seed, 2, jsonrpc.WithReverseClient[scen.Rev]("rev"), jsonrpc.WithServerPingInterval(3*time.Millisecond))
	if err != nil {
		return err
	}
	defer e.Close()
	ctx, cancelAll := context.WithCancel(context.Background())
	defer cancelAll()
	cl, closer, err := e.Client(ctx, jsonrpc.WithClientHandler("rev", &scen.RevH{ID: 1}),
		jsonrpc.WithPingInterval(2*time.Millisecond), jsonrpc.WithTimeout(5*time.Second),
		jsonrpc.WithReconnectBackoff(5*time.Millisecond, 20*time.Millisecond))
	if err != nil {
		return err
	}
	r := fw.Rng(seed, "c14")
	var wg sync.WaitGroup
	errs := make(chan string, 64)
	n := 8
	if thorough {
		n = 12
	}
	sizes := []int{1, 100, 4000, 70000, 300000}
	for g := 0; g < n; g++ {
		wg.Add(1)
		kind := g % 8
		sz := sizes[r.Intn(len(sizes))]
		go func(g, kind, sz int) {
			defer wg.Done()
			for k := 0; k < 12; k++ {
				tok := g*1000 + k
				cctx, cancel := context.WithTimeout(ctx, 3*time.Second)
				switch kind {
				case 0:
					s, err := cl.Echo(cctx, tok, sz)
					if err == nil && !strings.HasPrefix(s, fmt.Sprintf("%d:", tok)) {
						errs <- fmt.Sprintf("Echo(%d) returned %.20q", tok, s)
					}
				case 1:
					cl.Note(tok)
					cl.Count(cctx, tok)
				case 2:
					ch, err := cl.Sub(cctx, tok, 30)
					if err == nil {
						for range ch {
						}
					}
				case 3:
					cl.CallBack(cctx, tok)
				case 4: // cancel path
					bctx, bcancel := context.WithCancel(cctx)
					go func() { time.Sleep(time.Duration(200+k*50) * time.Microsecond); bcancel() }()
					cl.Block(bctx, tok)
				case 6: // elements the forwarder cannot marshal: dropped whole, never a partial frame
					ch, err := cl.SubOdd(cctx, tok, 9)
					if err == nil {
						for range ch {
						}
					}
				case 7: // notifications that fail on the other side, in both directions: no output at all
					cl.Missing(tok)
					cl.Boom(tok)
					cl.NotifyAbsent(cctx, tok)
				case 5:
					s, err := cl.Echo(cctx, tok, sizes[(k+g)%len(sizes)])
					if err == nil && !strings.HasPrefix(s, fmt.Sprintf("%d:", tok)) {
						errs <- fmt.Sprintf("Echo(%d) returned %.20q", tok, s)
					}
				}
				cancel()
			}
		}(g, kind, sz)
	}
	// one reconnect in the middle of the workload (odd rounds), so that the swap is among the writers
	if round%2 == 1 {
		time.Sleep(3 * time.Millisecond)
		e.PX.Cut(0, fw.Pick(r, []string{"fin", "rst"}))
	}
	if !scen.WithTimeout(40*time.Second, wg.Wait) {
		res.Add(fw.Finding{Kind: "monitor", Signature: "c14 workload hangs", Detail: "the mixed workload did not finish within 40s"})
	}
	scen.WithTimeout(5*time.Second, closer)
	time.Sleep(5 * time.Millisecond)
	evs := e.RT.Events()
	frames := e.PX.Frames()
	sig := fmt.Sprintf("writers round-parity=%d", round%2)
	select {
	case m := <-errs:
		res.Add(fw.Finding{Kind: "monitor", Signature: sig + " corrupted result", Detail: m})
	default:
	}
	CheckFrames(res, frames, sig)
	CheckAnswers(res, frames, sig)
	if err := CheckLocks(d, res, evs, sig); err != nil {
		return err
	}
	sites := map[string]bool{}
	for _, ev := range evs {
		if ev.Site == "w.begin" {
			s := fmt.Sprint(ev.KV["site"])
			sites[s] = true
			res.Count("writer." + s)
		}
	}
	res.Eval(true, []interface{}{"c14", seed, len(evs)})
	ks := []string{}
	for s := range sites {
		ks = append(ks, s)
	}
	res.Sample(map[string]interface{}{"round": round, "hook_events": len(evs), "wire_frames": len(frames), "writer_sites_seen": ks, "reconnect": round%2 == 1})
	return nil
}

package c14

// BadRawParams: the one part of an outgoing request the library takes from the caller as bytes.  Raw params
// that are not JSON cannot be sent: the call must fail — promptly, like it does over HTTP — and nothing that
// is not a well-formed frame may reach the wire.

import (
	"context"
	"fmt"
	"time"

	jsonrpc "github.com/filecoin-project/go-jsonrpc"

	"verif/harness/internal/fw"
	"verif/harness/internal/scen"
)

type rawH struct{}

func (rawH) Raw(p jsonrpc.RawParams) (string, error) { return string(p), nil }

type rawClient struct {
	Raw func(jsonrpc.RawParams) (string, error)
}

func BadRawParams(res *fw.Result, seed int64) error {
	e, err := scen.NewEnv(seed+911, 0)
	if err != nil {
		return err
	}
	defer e.Close()
	e.Srv.Register("RW", rawH{})
	var rc rawClient
	closer, err := jsonrpc.NewMergeClient(context.Background(), e.WSURL(), "RW", []interface{}{&rc}, nil, jsonrpc.WithNoReconnect())
	if err != nil {
		return err
	}
	defer scen.WithTimeout(3*time.Second, closer)
	sig := "raw params that are not JSON"
	if s, err := rc.Raw(jsonrpc.RawParams(`[1,"a"]`)); err != nil || s != `[1,"a"]` {
		return fmt.Errorf("bad-raw-params: the control call failed: %q %v", s, err)
	}
	for _, bad := range []string{`{"a":`, ``, `[1,`, "\x00"} {
		c := map[string]interface{}{"scenario": "bad-raw-params", "params": bad}
		done := make(chan error, 1)
		go func() { _, err := rc.Raw(jsonrpc.RawParams(bad)); done <- err }()
		select {
		case err := <-done:
			if err == nil {
				res.Add(fw.Finding{Kind: "monitor", Signature: sig + " call succeeded", Detail: fmt.Sprintf("a call with raw params %q returned no error", bad), Case: c})
			}
		case <-time.After(3 * time.Second):
			res.Add(fw.Finding{Kind: "monitor", Signature: sig + " call never returns", Detail: fmt.Sprintf("a call with raw params %q had not returned after 3s on a healthy connection (its request cannot be written; the failure is only logged)", bad), Case: c})
		}
		res.Count("bad-raw-params")
		res.Eval(true, []interface{}{"bad-raw-params", bad})
	}
	// the connection is still good for others
	if s, err := rc.Raw(jsonrpc.RawParams(`[2]`)); err != nil || s != `[2]` {
		res.Add(fw.Finding{Kind: "monitor", Signature: sig + " later call fails", Detail: fmt.Sprintf("a well-formed call after the malformed ones failed: %q %v", s, err)})
	}
	time.Sleep(10 * time.Millisecond)
	frames := e.PX.Frames()
	CheckFrames(res, frames, sig)
	CheckAnswers(res, frames, sig)
	return nil
}

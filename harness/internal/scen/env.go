// Package scen provides the scenario environment shared by the trace-based checks: a real server
// with controllable handlers, the frame-aware proxy in front of it, a real client, and the hook
// runtime that records what the library does.
package scen

import (
	"context"
	"fmt"
	"math"
	"net/http"
	"net/http/httptest"
	"os"
	"strings"
	"sync"
	"sync/atomic"
	"time"

	jsonrpc "github.com/filecoin-project/go-jsonrpc"

	"verif/harness/internal/hk"
	"verif/harness/internal/px"
)

// Ctl holds the harness-side controls and observations of the handlers (kept off SH's method set,
// which the library registers wholesale).
type Ctl struct {
	RT *hk.Runtime

	mu      sync.Mutex
	release map[int]chan struct{}
	ctxs    map[int]context.Context
	execs   map[int]int
	entered map[int]int
	exited  map[int]bool
	// Reaction: how long a blocked handler keeps running after it noticed its context was cancelled
	Reaction time.Duration
}

// SH is the server-side handler of the scenarios.
type SH struct {
	C  *Ctl
	RT *hk.Runtime
}

func NewSH(rt *hk.Runtime) *SH {
	return &SH{RT: rt, C: &Ctl{RT: rt, release: map[int]chan struct{}{}, ctxs: map[int]context.Context{}, execs: map[int]int{}, entered: map[int]int{}, exited: map[int]bool{}}}
}

func (h *Ctl) relChan(tok int) chan struct{} {
	h.mu.Lock()
	defer h.mu.Unlock()
	ch, ok := h.release[tok]
	if !ok {
		ch = make(chan struct{})
		h.release[tok] = ch
	}
	return ch
}

func (h *Ctl) freshRel(tok int) chan struct{} {
	h.mu.Lock()
	defer h.mu.Unlock()
	ch := make(chan struct{})
	h.release[tok] = ch
	return ch
}

// Release lets the Block call with this token return.
func (h *Ctl) Release(tok int) {
	ch := h.relChan(tok)
	defer func() { recover() }()
	close(ch)
}

// ReleaseAgain releases a second execution with the same token (a retried call): every Block that is
// or will be waiting on tok returns.
func (h *Ctl) ReleaseAgain(tok int) {
	h.mu.Lock()
	ch, ok := h.release[tok]
	if ok {
		select {
		case <-ch:
		default:
			close(ch)
		}
	} else {
		ch = make(chan struct{})
		close(ch)
		h.release[tok] = ch
	}
	h.mu.Unlock()
}

func (h *Ctl) Execs(tok int) int {
	h.mu.Lock()
	defer h.mu.Unlock()
	return h.execs[tok]
}

func (h *Ctl) Exited(tok int) bool {
	h.mu.Lock()
	defer h.mu.Unlock()
	return h.exited[tok]
}

func (h *Ctl) exit(tok int, cause string) {
	h.mu.Lock()
	h.exited[tok] = true
	h.mu.Unlock()
	h.RT.Log("h.exit", "tok", tok, "cause", cause)
}

func (h *Ctl) Entered(tok int) int {
	h.mu.Lock()
	defer h.mu.Unlock()
	return h.entered[tok]
}

// CtxErr reports whether the context captured by the handler that ran with tok is cancelled.
func (h *Ctl) CtxErr(tok int) (cancelled bool, known bool) {
	h.mu.Lock()
	defer h.mu.Unlock()
	c, ok := h.ctxs[tok]
	if !ok {
		return false, false
	}
	return c.Err() != nil, true
}

func (h *Ctl) enter(ctx context.Context, name string, tok int) {
	h.mu.Lock()
	h.execs[tok]++
	h.entered[tok]++
	if ctx != nil {
		h.ctxs[tok] = ctx
	}
	h.mu.Unlock()
	h.RT.Log("h.enter", "tok", tok, "name", name)
}

func (h *SH) Add(a, b int) (int, error) { return a + b, nil }

// Echo returns tok followed by padding up to size bytes (responses of every size).
func (h *SH) Echo(ctx context.Context, tok int, size int) (string, error) {
	h.C.enter(ctx, "Echo", tok)
	s := fmt.Sprintf("%d:", tok)
	if size > len(s) {
		s += strings.Repeat("x", size-len(s))
	}
	h.RT.Log("h.exit", "tok", tok)
	return s, nil
}

// Count counts executions per token and answers at once.
func (h *SH) Count(ctx context.Context, tok int) (int, error) {
	h.C.enter(ctx, "Count", tok)
	h.RT.Log("h.exit", "tok", tok)
	return tok, nil
}

// Block waits until released by the harness or until its context is cancelled.
func (h *SH) Block(ctx context.Context, tok int) (int, error) {
	h.C.enter(ctx, "Block", tok)
	rel := h.C.relChan(tok)
	if h.C.Execs(tok) > 1 {
		// a later execution of the same token (retried call) waits for its own release
		rel = h.C.freshRel(tok)
	}
	select {
	case <-rel:
		h.C.exit(tok, "released")
		return tok, nil
	case <-ctx.Done():
		if h.C.Reaction > 0 {
			time.Sleep(h.C.Reaction)
		}
		h.C.exit(tok, "ctx")
		return 0, ctx.Err()
	}
}

// BlockBig is Block with a response of `size` bytes.
func (h *SH) BlockBig(ctx context.Context, tok int, size int) (string, error) {
	_, err := h.Block(ctx, tok)
	return strings.Repeat("y", size), err
}

// NoteBlock is a notification whose handler blocks like Block (it has no context parameter of its own
// to give away, so it captures the one it gets).
func (h *SH) NoteBlock(ctx context.Context, tok int) {
	h.Block(ctx, tok)
}

// CallBackBlock makes a reverse call, then blocks like Block.
func (h *SH) CallBackBlock(ctx context.Context, tok int) (int, error) {
	if rc, ok := jsonrpc.ExtractReverseClient[Rev](ctx); ok {
		rc.Ident(ctx, tok)
	}
	return h.Block(ctx, tok)
}

func (h *SH) Note(tok int) { h.C.enter(nil, "Note", tok) }

// NoteCtx is a notification whose function takes a context.
func (h *SH) NoteCtx(ctx context.Context, tok int) { h.C.enter(ctx, "NoteCtx", tok) }

// SubEnd streams until released, then closes its channel (the server side ends the subscription).
func (h *SH) SubEnd(ctx context.Context, tok int) (<-chan int, error) {
	h.C.enter(ctx, "SubEnd", tok)
	out := make(chan int)
	rel := h.C.relChan(tok)
	go func() {
		defer close(out)
		defer h.C.exit(tok, "stream-end")
		i := 0
		for {
			select {
			case out <- tok*1000000 + i:
				i++
				time.Sleep(200 * time.Microsecond)
			case <-rel:
				return
			case <-ctx.Done():
				return
			}
		}
	}()
	return out, nil
}

// Sub streams n values tok*1000000+i; it sends as fast as the library takes them.  n < 0: stream until cancelled.
func (h *SH) Sub(ctx context.Context, tok int, n int) (<-chan int, error) {
	h.C.enter(ctx, "Sub", tok)
	out := make(chan int)
	h.RT.Log("h.subch", "tok", tok, "hp", out)
	go func() {
		defer close(out)
		defer h.C.exit(tok, "stream-end")
		for i := 0; n < 0 || i < n; i++ {
			select {
			case out <- tok*1000000 + i:
				h.RT.Log("h.sent", "tok", tok, "i", i)
			case <-ctx.Done():
				h.RT.Log("h.subctx", "tok", tok)
				return
			}
		}
		h.RT.Log("h.subclose", "tok", tok)
	}()
	return out, nil
}

// Div returns a/b: for b = 0 a value encoding/json refuses (NaN or an infinity).
func (h *SH) Div(a, b float64) (float64, error) { return a / b, nil }

// Put takes a payload of any size and reports its length.
func (h *SH) Put(ctx context.Context, tok int, payload string) (int, error) {
	h.C.enter(ctx, "Put", tok)
	return len(payload), nil
}

// SubLeaky streams until its context ends and then simply returns: its channel is never closed (a producer
// that treats cancellation as "stop", which is all a handler owes the library).
func (h *SH) SubLeaky(ctx context.Context, tok int) (<-chan int, error) {
	h.C.enter(ctx, "SubLeaky", tok)
	out := make(chan int)
	go func() {
		defer h.C.exit(tok, "stream-stop")
		for i := 0; ; i++ {
			select {
			case out <- tok*1000000 + i:
				time.Sleep(300 * time.Microsecond)
			case <-ctx.Done():
				return
			}
		}
	}()
	return out, nil
}

// SubBoth is Sub declared with a bidirectional channel type (`chan int`, as a handler written without the
// arrow would be): still a subscription in every respect.
func (h *SH) SubBoth(ctx context.Context, tok int, n int) (chan int, error) {
	h.C.enter(ctx, "SubBoth", tok)
	out := make(chan int)
	h.RT.Log("h.subch", "tok", tok, "hp", out)
	go func() {
		defer close(out)
		defer h.C.exit(tok, "stream-end")
		for i := 0; n < 0 || i < n; i++ {
			select {
			case out <- tok*1000000 + i:
				h.RT.Log("h.sent", "tok", tok, "i", i)
			case <-ctx.Done():
				h.RT.Log("h.subctx", "tok", tok)
				return
			}
		}
		h.RT.Log("h.subclose", "tok", tok)
	}()
	return out, nil
}

// SubMixed sends n values of which every third does not fit into an int8 (what the client of SubSmall declared).
func (h *SH) SubMixed(ctx context.Context, tok int, n int) (<-chan int, error) {
	h.C.enter(ctx, "SubMixed", tok)
	out := make(chan int)
	go func() {
		defer close(out)
		defer h.C.exit(tok, "stream-end")
		for i := 0; i < n; i++ {
			v := i % 100
			if i%3 == 2 {
				v = 1<<40 + i
			}
			select {
			case out <- v:
			case <-ctx.Done():
				return
			}
		}
	}()
	return out, nil
}

// Rich is a stream element with storage of its own (slice, map, optional pointer): values that share or
// reuse storage across elements show up as elements that change after they were delivered.
type Rich struct {
	ID   int            `json:"id"`
	Tags []int          `json:"tags,omitempty"`
	M    map[string]int `json:"m,omitempty"`
	P    *int           `json:"p,omitempty"`
}

// RichOf is the i-th element of the stream of token tok.
func RichOf(tok, i int) Rich {
	r := Rich{ID: tok*1000000 + i}
	for k := 0; k < i%5; k++ {
		r.Tags = append(r.Tags, i*10+k)
	}
	if i%3 != 0 {
		r.M = map[string]int{fmt.Sprintf("k%d", i%7): i}
	}
	if i%4 == 1 {
		v := i
		r.P = &v
	}
	return r
}

// SubRich streams n elements of a non-scalar type.
func (h *SH) SubRich(ctx context.Context, tok int, n int) (<-chan Rich, error) {
	h.C.enter(ctx, "SubRich", tok)
	out := make(chan Rich)
	go func() {
		defer close(out)
		defer h.C.exit(tok, "stream-end")
		for i := 0; i < n; i++ {
			select {
			case out <- RichOf(tok, i):
			case <-ctx.Done():
				return
			}
		}
	}()
	return out, nil
}

// Firehose streams 16 KiB strings from a deep-buffered channel that its producer keeps full until the
// context ends: the forwarder never finds this channel empty.
func (h *SH) Firehose(ctx context.Context, tok int) (<-chan string, error) {
	h.C.enter(ctx, "Firehose", tok)
	out := make(chan string, 1024)
	item := strings.Repeat("f", 16<<10)
	go func() {
		defer close(out)
		defer h.C.exit(tok, "stream-end")
		for {
			select {
			case out <- item:
			case <-ctx.Done():
				return
			}
		}
	}()
	return out, nil
}

// SubSlow is Sub whose handler is still setting the subscription up (blocked like Block) when the
// caller may cancel: the channel is returned only after the release.
func (h *SH) SubSlow(ctx context.Context, tok int, n int) (<-chan int, error) {
	h.C.enter(ctx, "SubSlow", tok)
	select {
	case <-h.C.relChan(tok):
	case <-ctx.Done():
		if h.C.Reaction > 0 {
			time.Sleep(h.C.Reaction)
		}
		h.C.exit(tok, "ctx")
		return nil, ctx.Err()
	}
	out := make(chan int)
	go func() {
		defer close(out)
		defer h.C.exit(tok, "stream-end")
		for i := 0; n < 0 || i < n; i++ {
			select {
			case out <- tok*1000000 + i:
			case <-ctx.Done():
				return
			}
		}
	}()
	return out, nil
}

// CallBackBig makes a reverse call whose request carries `size` bytes, and returns when that call returns.
func (h *SH) CallBackBig(ctx context.Context, tok int, size int) (int, error) {
	h.C.enter(ctx, "CallBackBig", tok)
	defer h.C.exit(tok, "reverse-call-returned")
	rc, ok := jsonrpc.ExtractReverseClient[Rev](ctx)
	if !ok {
		return 0, fmt.Errorf("no reverse client")
	}
	return rc.Big(context.Background(), strings.Repeat("r", size))
}

// Rev is the client-side (reverse) API.
type Rev struct {
	Big     func(context.Context, string) (int, error)
	Ident   func(context.Context, int) (int, error)
	Aliased func(context.Context, int) (int, error) `rpc_method:"rev.alias"`
	Absent  func(int)                               `notify:"true"` // no client handler has this method
}

// SubOdd streams floats; every third element is one encoding/json refuses (NaN, ±Inf): the forwarder
// cannot marshal it and must drop it whole.
func (h *SH) SubOdd(ctx context.Context, tok int, n int) (<-chan float64, error) {
	h.C.enter(ctx, "SubOdd", tok)
	out := make(chan float64)
	go func() {
		defer close(out)
		odd := []float64{math.NaN(), math.Inf(1), math.Inf(-1)}
		for i := 0; i < n; i++ {
			v := float64(tok*1000 + i)
			if i%3 == 1 {
				v = odd[(i/3)%3]
			}
			select {
			case out <- v:
			case <-ctx.Done():
				return
			}
		}
	}()
	return out, nil
}

// Boom panics; NotifyAbsent sends the calling client a notification for a method it does not handle.
func (h *SH) Boom(tok int) { panic(fmt.Sprintf("boom %d", tok)) }

func (h *SH) NotifyAbsent(ctx context.Context, tok int) (int, error) {
	rc, ok := jsonrpc.ExtractReverseClient[Rev](ctx)
	if !ok {
		return -1, nil
	}
	rc.Absent(tok)
	return tok, nil
}

// CallBack calls back into the calling client and returns what it answered.
func (h *SH) CallBack(ctx context.Context, tok int) (int, error) {
	h.C.enter(ctx, "CallBack", tok)
	rc, ok := jsonrpc.ExtractReverseClient[Rev](ctx)
	if !ok {
		return -1, nil
	}
	return rc.Ident(ctx, tok)
}

// CL is the client proxy struct.
type CL struct {
	Add           func(int, int) (int, error)
	Echo          func(context.Context, int, int) (string, error)
	Count         func(context.Context, int) (int, error)
	CountRetry    func(context.Context, int) (int, error) `retry:"true" rpc_method:"SH.Count"`
	AddRetry      func(int, int) (int, error)             `retry:"true" rpc_method:"SH.Add"` // retry-tagged, no context parameter
	Block         func(context.Context, int) (int, error)
	BlockRetry    func(context.Context, int) (int, error) `retry:"true" rpc_method:"SH.Block"`
	Note          func(int)                               `notify:"true"`
	Sub           func(context.Context, int, int) (<-chan int, error)
	SubSlow       func(context.Context, int, int) (<-chan int, error)
	SubRich       func(context.Context, int, int) (<-chan Rich, error)
	Firehose      func(context.Context, int) (<-chan string, error)
	SubSmall      func(context.Context, int, int) (<-chan int8, error) `rpc_method:"SH.SubMixed"` // the client's element type cannot hold every value the server sends
	SubEnd        func(context.Context, int) (<-chan int, error)
	CallBack      func(context.Context, int) (int, error)
	BlockBig      func(context.Context, int, int) (string, error)
	NoteBlock     func(int) `notify:"true"`
	CallBackBlock func(context.Context, int) (int, error)
	SubOdd        func(context.Context, int, int) (<-chan float64, error)
	SubBoth       func(context.Context, int, int) (<-chan int, error)
	SubLeaky      func(context.Context, int) (<-chan int, error)
	Put           func(context.Context, int, string) (int, error)
	Div           func(float64, float64) (float64, error)
	Boom          func(int) `notify:"true"`
	Missing       func(int) `notify:"true"` // the server has no such method
	NotifyAbsent  func(context.Context, int) (int, error)
}

// RevH is the handler a client registers for reverse calls.
type RevH struct{ ID int }

func (r *RevH) Ident(ctx context.Context, tok int) (int, error) { return r.ID*1000 + tok%1000, nil }

type Env struct {
	RT        *hk.Runtime
	H         *SH
	Srv       *jsonrpc.RPCServer
	TS        *httptest.Server
	PX        *px.Proxy
	SrvCtx    context.Context
	SrvCancel context.CancelFunc
	closed    int32
	// SlowClose: the HTTP server did not finish its handlers within 3s of all connections being closed
	SlowClose bool
	CloseTook time.Duration
}

// NewEnv starts server and proxy.  The hook runtime is installed for the lifetime of the Env.
func NewEnv(seed int64, delayMode int32, sopts ...jsonrpc.ServerOption) (*Env, error) {
	rt := hk.New(seed)
	rt.DelayMode = delayMode
	// race-detector runs: no trace mutex (it would add happens-before edges and hide races)
	rt.NoTrace = os.Getenv("VERIF_NOTRACE") == "1"
	hk.Install(rt)
	e := &Env{RT: rt, H: NewSH(rt)}
	e.Srv = jsonrpc.NewServer(sopts...)
	e.Srv.Register("SH", e.H)
	// the request context of every connection is ours to cancel ("the server shuts the connection down")
	e.SrvCtx, e.SrvCancel = context.WithCancel(context.Background())
	e.TS = httptest.NewServer(http.HandlerFunc(func(w http.ResponseWriter, r *http.Request) {
		e.Srv.ServeHTTP(w, r.WithContext(e.SrvCtx))
	}))
	var err error
	e.PX, err = px.New(e.TS.Listener.Addr().String())
	if err != nil {
		e.TS.Close()
		return nil, err
	}
	return e, nil
}

func (e *Env) WSURL() string   { return "ws://" + e.PX.Addr() }
func (e *Env) HTTPURL() string { return "http://" + e.TS.Listener.Addr().String() }

func (e *Env) Close() {
	if !atomic.CompareAndSwapInt32(&e.closed, 0, 1) {
		return
	}
	e.RT.ReleaseAll()
	e.SrvCancel()
	e.PX.Close()
	t0 := time.Now()
	done := make(chan struct{})
	go func() { e.TS.CloseClientConnections(); e.TS.Close(); close(done) }()
	select {
	case <-done:
	case <-time.After(3 * time.Second):
		e.SlowClose = true
	}
	// let the goroutines of this environment's connections run to their end before the next
	// environment installs its runtime (the hook entry point is process-global)
	stable, last := 0, -1
	for i := 0; i < 150 && stable < 4; i++ {
		n := e.RT.Len()
		if n == last {
			stable++
		} else {
			stable, last = 0, n
		}
		time.Sleep(time.Millisecond)
	}
	e.CloseTook = time.Since(t0)
	hk.Uninstall()
}

// Client connects a real WebSocket client through the proxy.
func (e *Env) Client(ctx context.Context, opts ...jsonrpc.Option) (*CL, jsonrpc.ClientCloser, error) {
	var cl CL
	closer, err := jsonrpc.NewMergeClient(ctx, e.WSURL(), "SH", []interface{}{&cl}, nil, opts...)
	if err != nil {
		return nil, nil, err
	}
	return &cl, closer, nil
}

// WithTimeout runs f and reports whether it returned in time.
func WithTimeout(d time.Duration, f func()) bool {
	done := make(chan struct{})
	go func() { defer close(done); f() }()
	select {
	case <-done:
		return true
	case <-time.After(d):
		return false
	}
}

// WarmUp runs a scenario's opening call.  With keepalive timeouts of a few tens of milliseconds a starved
// process can lose the very first connection before the call is answered (the client then redials); the
// opening call only establishes that the link works before the fault under study is injected, so it is
// retried a few times and counts as failed only if it never succeeds.
func WarmUp(call func() error) error {
	var err error
	for i := 0; i < 6; i++ {
		if err = call(); err == nil {
			return nil
		}
		time.Sleep(time.Duration(20*(i+1)) * time.Millisecond)
	}
	return err
}

// LagProbe measures how late this process's goroutines are being scheduled while a timing-sensitive
// scenario runs: a goroutine sleeps 500 µs in a loop and records the largest oversleep.  A scenario whose
// verdict depends on the library reacting within a fraction of a configured timeout is only conclusive
// if the environment itself was that responsive.  The environment includes the harness: the probe also
// reports the longest time a hooked goroutine of the library was held inside the hook runtime (hk.MaxStall),
// which a goroutine that calls no hook — the sleeping one here, or a timer of the library — does not feel.
type LagProbe struct {
	stop chan struct{}
	done chan struct{}
	max  time.Duration
}

func StartLagProbe() *LagProbe {
	p := &LagProbe{stop: make(chan struct{}), done: make(chan struct{})}
	hk.ResetMaxStall()
	go func() {
		defer close(p.done)
		for {
			t0 := time.Now()
			select {
			case <-p.stop:
				return
			case <-time.After(500 * time.Microsecond):
			}
			if lag := time.Since(t0) - 500*time.Microsecond; lag > p.max {
				p.max = lag
			}
		}
	}()
	return p
}

// Stop ends the probe and returns the largest lag seen: of the scheduler, or of the hook runtime.
func (p *LagProbe) Stop() time.Duration {
	close(p.stop)
	<-p.done
	if st := hk.MaxStall(); st > p.max {
		return st
	}
	return p.max
}

// MaxGapS2C is the largest gap between consecutive server-to-client frames (control frames included) that
// the proxy forwarded on connection conn, up to the last one — the peer's activity as seen on the wire.
func (e *Env) MaxGapS2C(conn int) (time.Duration, int) {
	var last time.Time
	var max time.Duration
	n := 0
	for _, f := range e.PX.Frames() {
		if f.Conn != conn || f.Dir != "s2c" {
			continue
		}
		if n > 0 {
			if g := f.At.Sub(last); g > max {
				max = g
			}
		}
		last = f.At
		n++
	}
	return max, n
}

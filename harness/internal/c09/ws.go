package c09

// The WebSocket clause of C09: every request frame bearing a string or number id gets exactly one
// response frame, a notification (absent or null id) gets none — whatever the method, params and
// handler behaviour.  Frames generated from the same grammar as the HTTP bodies are sent one at a
// time to a real server over a raw gorilla connection; everything the server puts on the wire is
// collected and compared with the model's `execFrame` / `wsCall` (op "frames": wire, invoked).

import (
	"encoding/json"
	"fmt"
	"net/http/httptest"
	"os"
	"strings"
	"time"

	"github.com/gorilla/websocket"

	"verif/harness/internal/api"
	"verif/harness/internal/fw"
)

type wsFrame struct {
	Decodable bool   `json:"decodable"`
	ID        ID     `json:"id"`
	Method    string `json:"method"`
	Call      Params `json:"call"`
}

type wsCase struct {
	Op      string                 `json:"op"`
	Handler HandlerDesc            `json:"handler"`
	State   map[string]interface{} `json:"state"`
	Frames  []wsFrame              `json:"frames"`
	Raw     string                 `json:"raw"`
	Class   string                 `json:"class"`
	Req     *Req                   `json:"req,omitempty"` // what the frame was rendered from (replay)
}

type wsOut struct {
	Wire    []interface{} `json:"wire"`
	Invoked []string      `json:"invoked"`
}

// RunWS sends n generated request frames (one at a time) over one WebSocket connection per 64 frames.
func RunWS(d *fw.Driver, res *fw.Result, seed int64, n int, corpus []json.RawMessage) error {
	g := &gen{r: fw.Rng(seed, "c09ws")}
	h := DefaultHandler
	known, unknown := targets(h)
	l := &api.Log{}
	srv := BuildServer(h, 1<<20, l)
	ts := httptest.NewServer(srv)
	defer ts.Close()
	var conn *websocket.Conn
	msgs := make(chan []byte, 1024)
	dial := func() error {
		if conn != nil {
			conn.Close()
		}
		c, _, err := websocket.DefaultDialer.Dial("ws"+strings.TrimPrefix(ts.URL, "http"), nil)
		if err != nil {
			return err
		}
		conn = c
		msgs = make(chan []byte, 1024)
		go func(c *websocket.Conn, out chan []byte) {
			for {
				_, data, err := c.ReadMessage()
				if err != nil {
					close(out)
					return
				}
				out <- data
			}
		}(c, msgs)
		return nil
	}
	defer func() {
		if conn != nil {
			conn.Close()
		}
	}()
	probeSeq := 0
	type item struct {
		r   Req
		raw string
	}
	var items []item
	for _, raw := range corpus {
		var c wsCase
		if err := json.Unmarshal(raw, &c); err == nil && c.Op == "frames" && c.Req != nil {
			items = append(items, item{*c.Req, c.Raw})
			res.Count("corpus")
		}
	}
	for i := 0; i < n; i++ {
		r := g.req(h, known, unknown, 45)
		if r.NullElem {
			continue
		}
		items = append(items, item{r, r.render(g.r)})
	}
	for i, it := range items {
		if i%64 == 0 {
			if err := dial(); err != nil {
				return err
			}
		}
		r, raw := it.r, it.raw
		var probeDecode struct {
			Method interface{} `json:"method"`
		}
		// the frame executor decodes into the frame struct: a method member that is absent is the empty
		// string, i.e. a response frame — the grammar's "missing method" requests are not request frames
		if json.Unmarshal([]byte(raw), &probeDecode) != nil || probeDecode.Method == nil || r.Method == "" {
			continue
		}
		c := &wsCase{Op: "frames", Handler: h, State: map[string]interface{}{"hasHandler": true},
			Frames: []wsFrame{{Decodable: true, ID: r.ID, Method: r.Method, Call: r.Params}}, Raw: raw, Class: r.Class + "/" + r.ID.T, Req: &r}
		model, err := d.Ask(c)
		if err != nil {
			return err
		}
		mm, _ := model.(map[string]interface{})
		if mm == nil || mm["crash"] == true {
			return fmt.Errorf("harness error: model crashed on a call frame: %v", model)
		}
		mWire, _ := mm["wire"].([]interface{})
		mInv, _ := mm["invoked"].([]interface{})
		expectInv := []string{}
		for _, t := range mInv {
			expectInv = append(expectInv, fmt.Sprint(t))
		}
		// channel results are answered by the forwarder at registration (result = channel id)
		expectWire := append([]interface{}{}, mWire...)
		if fmt.Sprint(mm["chanRegs"]) == "1" {
			expectWire = append(expectWire, map[string]interface{}{"id": map[string]interface{}{"t": r.ID.T, "v": r.ID.V},
				"body": map[string]interface{}{"k": "result", "fromCall": true}})
		}
		l.Take()
		if err := conn.WriteMessage(websocket.TextMessage, []byte(raw)); err != nil {
			return fmt.Errorf("harness error: ws write: %v", err)
		}
		// a probe with a unique id follows; the executor is sequential, the handlers are not: wait for the
		// expected number of response frames (bounded), then for the probe's answer, then a short grace
		probeSeq++
		pid := fmt.Sprintf("c09ws-probe-%d", probeSeq)
		conn.WriteMessage(websocket.TextMessage, []byte(fmt.Sprintf(`{"jsonrpc":"2.0","id":%q,"method":"T.Add","params":[7770001,7770002]}`, pid)))
		got := []interface{}{}
		t0 := time.Now()
		var stray []string
		probeSeen := false
		deadline := time.After(3 * time.Second)
		grace := (<-chan time.Time)(nil)
	collect:
		for {
			if probeSeen && len(got) >= len(expectWire) && grace == nil {
				grace = time.After(3 * time.Millisecond)
			}
			select {
			case data, ok := <-msgs:
				if !ok {
					break collect
				}
				var f map[string]json.RawMessage
				if json.Unmarshal(data, &f) != nil {
					stray = append(stray, string(data))
					continue
				}
				if _, isReq := f["method"]; isReq {
					continue // xrpc.ch.val / xrpc.ch.close of a subscription: not response frames
				}
				if string(f["id"]) == fmt.Sprintf("%q", pid) {
					probeSeen = true
					continue
				}
				got = append(got, CanonObj(json.RawMessage(data)))
			case <-grace:
				break collect
			case <-deadline:
				break collect
			}
		}
		// handler invocations (asynchronous): wait, bounded, for the expected ones
		inv := []string{}
		for w := 0; w < 200; w++ {
			for _, e := range l.Take() {
				if !(e.Tag == "T.Add" && len(e.Args) == 2 && fmt.Sprint(e.Args[0]) == "7770001" && fmt.Sprint(e.Args[1]) == "7770002") {
					inv = append(inv, e.Tag)
				}
			}
			if len(inv) >= len(expectInv) {
				break
			}
			time.Sleep(2 * time.Millisecond)
		}
		if os.Getenv("VERIF_DEBUG") != "" && time.Since(t0) > 100*time.Millisecond {
			fmt.Fprintf(os.Stderr, "slow ws case %v: %s\n", time.Since(t0), raw)
		}
		out := wsOut{Wire: got, Invoked: inv}
		mon := ""
		idBearing := r.ID.T == "num" || r.ID.T == "str"
		switch {
		case len(stray) > 0:
			mon = fmt.Sprintf("a frame on the wire is not a JSON object: %.200q", stray[0])
		case !probeSeen:
			mon = "the connection stopped answering valid requests after this frame"
		case idBearing && len(got) != 1:
			mon = fmt.Sprintf("a request frame with a valid id got %d response frames (want exactly 1)", len(got))
		case !idBearing && r.ID.T != "invalid" && len(got) != 0:
			mon = fmt.Sprintf("a notification frame got %d response frame(s) (want none): %s", len(got), fw.JSON(got))
		case r.ID.T == "invalid" && (len(got) != 0 || len(inv) != 0):
			mon = "a frame with an invalid id type was acted upon"
		}
		if mon == "" && idBearing {
			if m, ok := got[0].(map[string]interface{}); ok {
				if _, bad := m["malformed_obj"]; bad {
					mon = "the response frame is not a well-formed JSON-RPC 2.0 response object: " + fw.JSON(m)
				} else if fw.JSON(m["id"]) != fw.JSON(map[string]interface{}{"t": r.ID.T, "v": r.ID.V}) {
					mon = "the response frame does not echo the request id: " + fw.JSON(m)
				}
			}
		}
		res.Count("ws." + r.Class)
		res.Count("ws.id." + r.ID.T)
		res.Eval(len(inv) > 0 || len(got) > 0, []interface{}{"ws", r.Class, r.ID.T, out})
		if i%50 == 0 {
			res.Sample(map[string]interface{}{"ws_frame": raw, "wire": got, "invoked": inv})
		}
		res.Compare("ws "+r.Class+"/"+r.ID.T, c, wsOut{Wire: expectWire, Invoked: expectInv}, out, mon)
	}
	return nil
}

// Package c09 — differential check of handleReader/handle (HTTP) against Jrpc.Framing/Dispatch,
// with the property's monitor evaluated on the implementation's own reply.
package c09

import (
	"bytes"
	"context"
	"encoding/json"
	"fmt"
	"io"
	"math"
	"math/rand"
	"net/http"
	"net/http/httptest"
	"strings"
	"unicode"
	"unicode/utf8"

	jsonrpc "github.com/filecoin-project/go-jsonrpc"

	"verif/harness/internal/api"
	"verif/harness/internal/fw"
)

// ---------- case description ----------

type ID struct {
	T string `json:"t"`
	V string `json:"v"`
}

type Params struct {
	T     string     `json:"t"`
	Elems [][]string `json:"elems,omitempty"`
}

type Req struct {
	ID     ID     `json:"id"`
	Method string `json:"method"`
	Params Params `json:"params"`

	// rendering only
	IDText     string   `json:"idText"`     // "" = member absent
	ParamsText string   `json:"paramsText"` // "" = member absent
	ElemTexts  []string `json:"elemTexts,omitempty"`
	NullElem   bool     `json:"nullElem,omitempty"`
	Class      string   `json:"class"`                // generator's label: ok | unknown | arity | badtype | nonarray | notif | badid …
	Token      int      `json:"token"`                // unique number placed in the params when the shape allows
	ChanTarget bool     `json:"chanTarget,omitempty"` // resolves to a channel-returning method (unsupported over HTTP: -32601 before any gate)
}

type Body struct {
	Kind string `json:"kind"`
	Req  *Req   `json:"req,omitempty"`
	Reqs []Req  `json:"reqs,omitempty"`
	Pid  *ID    `json:"pid,omitempty"`
}

type Fmt struct {
	Ns    bool   `json:"ns"`
	Lower bool   `json:"lower"`
	Sep   string `json:"sep,omitempty"`
}

type Reg struct {
	Ns      string           `json:"ns"`
	Methods []api.MethodDesc `json:"methods"`
	Recv    string           `json:"recv"` // which Go receiver: T | A | B
}

type HandlerDesc struct {
	Fmt     Fmt         `json:"fmt"`
	Regs    []Reg       `json:"regs"`
	Aliases [][2]string `json:"aliases"`
}

type Case struct {
	Op      string      `json:"op"`
	Handler HandlerDesc `json:"handler"`
	Max     int64       `json:"max"`
	Size    int         `json:"size"`
	Body    Body        `json:"body"`
	Raw     string      `json:"raw"` // the bytes sent
}

// ---------- building the real server from a description ----------

// OracleFormatter is the property's reading of the name formatters, written without calling the library:
// the expectations of a check must not be computed by the code under test.
func OracleFormatter(f Fmt) func(ns, m string) string {
	sep := f.Sep
	if sep == "" {
		sep = "."
	}
	return func(ns, m string) string {
		if f.Lower && len(m) > 0 {
			r, n := utf8.DecodeRuneInString(m)
			m = string(unicode.ToLower(r)) + m[n:]
		}
		if f.Ns {
			return ns + sep + m
		}
		return m
	}
}

func Formatter(f Fmt) jsonrpc.MethodNameFormatter {
	if f.Sep == "" || f.Sep == "." {
		cs := jsonrpc.OriginalCase
		if f.Lower {
			cs = jsonrpc.LowerFirstCharCase
		}
		return jsonrpc.NewMethodNameFormatter(f.Ns, cs)
	}
	// custom separator: namespace + sep + method (lower-first handled like the built-in)
	return func(ns, m string) string {
		if f.Lower && len(m) > 0 {
			r, n := utf8.DecodeRuneInString(m)
			m = string(unicode.ToLower(r)) + m[n:]
		}
		if f.Ns {
			return ns + f.Sep + m
		}
		return m
	}
}

func BuildServer(h HandlerDesc, max int64, l *api.Log, extra ...jsonrpc.ServerOption) *jsonrpc.RPCServer {
	opts := []jsonrpc.ServerOption{jsonrpc.WithServerMethodNameFormatter(Formatter(h.Fmt))}
	if max > 0 {
		opts = append(opts, jsonrpc.WithMaxRequestSize(max))
	}
	opts = append(opts, extra...)
	s := jsonrpc.NewServer(opts...)
	for _, r := range h.Regs {
		switch r.Recv {
		case "T":
			s.Register(r.Ns, &api.T{L: l})
		case "A":
			s.Register(r.Ns, &api.A{L: l})
		case "B":
			s.Register(r.Ns, &api.B{L: l})
		default:
			panic("recv " + r.Recv)
		}
	}
	for _, a := range h.Aliases {
		s.AliasMethod(a[0], a[1])
	}
	return s
}

var DefaultHandler = HandlerDesc{
	Fmt:     Fmt{Ns: true},
	Regs:    []Reg{{Ns: "T", Methods: api.TMethods, Recv: "T"}},
	Aliases: [][2]string{{"alias.add", "T.Add"}, {"alias.missing", "T.Nope"}, {"T.Echo", "T.Void"}},
}

// ---------- canonical forms ----------

func CanonID(text string) ID {
	if text == "" {
		return ID{T: "absent"}
	}
	var v interface{}
	if err := json.Unmarshal([]byte(text), &v); err != nil {
		return ID{T: "invalid", V: text}
	}
	return canonIDVal(v, text == "null")
}

func canonIDVal(v interface{}, _ bool) ID {
	switch x := v.(type) {
	case nil:
		return ID{T: "null"}
	case float64:
		b, _ := json.Marshal(x)
		return ID{T: "num", V: string(b)}
	case string:
		return ID{T: "str", V: x}
	default:
		b, _ := json.Marshal(x)
		return ID{T: "invalid", V: string(b)}
	}
}

// Tokenise splits a reply body into "[", ",", "]", objects and garbage, at top level + one array level.
func Tokenise(b []byte) []interface{} {
	toks := []interface{}{}
	i := 0
	for i < len(b) {
		c := b[i]
		switch {
		case c == ' ' || c == '\n' || c == '\t' || c == '\r':
			i++
		case c == '[' || c == ',' || c == ']':
			toks = append(toks, string(c))
			i++
		case c == '{':
			dec := json.NewDecoder(bytes.NewReader(b[i:]))
			var raw json.RawMessage
			if err := dec.Decode(&raw); err != nil {
				toks = append(toks, map[string]interface{}{"garbage": string(b[i:])})
				return toks
			}
			toks = append(toks, CanonObj(raw))
			i += int(dec.InputOffset())
		default:
			toks = append(toks, map[string]interface{}{"garbage": string(b[i:])})
			return toks
		}
	}
	return toks
}

// CanonObj maps one response object to the model's vocabulary; anything that is not a proper
// JSON-RPC 2.0 response object becomes {"malformed_obj": …}.
func CanonObj(raw json.RawMessage) interface{} {
	var m map[string]json.RawMessage
	if err := json.Unmarshal(raw, &m); err != nil {
		return map[string]interface{}{"malformed_obj": string(raw)}
	}
	bad := func(why string) interface{} {
		return map[string]interface{}{"malformed_obj": string(raw), "why": why}
	}
	var ver string
	if v, ok := m["jsonrpc"]; !ok || json.Unmarshal(v, &ver) != nil || ver != "2.0" {
		return bad("jsonrpc")
	}
	idRaw, ok := m["id"]
	if !ok {
		return bad("no id")
	}
	_, hasR := m["result"]
	_, hasE := m["error"]
	if hasR == hasE {
		return bad("result/error")
	}
	for k := range m {
		if k != "jsonrpc" && k != "id" && k != "result" && k != "error" {
			return bad("extra key " + k)
		}
	}
	id := CanonID(string(idRaw))
	if id.T == "absent" {
		id.T = "null"
	}
	var body interface{}
	if hasR {
		body = map[string]interface{}{"k": "result", "fromCall": strings.TrimSpace(string(m["result"])) != "null"}
	} else {
		var e struct {
			Code    *int    `json:"code"`
			Message *string `json:"message"`
		}
		if err := json.Unmarshal(m["error"], &e); err != nil || e.Code == nil || e.Message == nil {
			return bad("error object")
		}
		if *e.Code == 1 && *e.Message == api.ErrBoom.Error() {
			body = map[string]interface{}{"k": "herr"}
		} else {
			body = map[string]interface{}{"k": "error", "code": *e.Code}
		}
	}
	return map[string]interface{}{"id": id, "body": body}
}

// ---------- implementation run ----------

type Out struct {
	Status  int           `json:"status"`
	Toks    []interface{} `json:"toks"`
	Invoked []string      `json:"invoked"`
}

func RunImpl(c *Case) (Out, []byte, []api.Entry) {
	l := &api.Log{}
	s := BuildServer(c.Handler, c.Max, l)
	rec := httptest.NewRecorder()
	req := httptest.NewRequest("POST", "/", strings.NewReader(c.Raw))
	s.ServeHTTP(rec, req)
	body := rec.Body.Bytes()
	ents := l.Take()
	inv := []string{}
	for _, e := range ents {
		inv = append(inv, e.Tag)
	}
	return Out{Status: rec.Code, Toks: Tokenise(body), Invoked: inv}, body, ents
}

// RunImplVia delivers the same body another way: "chunked" = a real HTTP request whose length is not
// declared (Transfer-Encoding: chunked), "direct" = the exported HandleRequest entry point.  The size
// limit must hold however the bytes arrive.
func RunImplVia(c *Case, via string) (Out, []byte, []api.Entry) {
	l := &api.Log{}
	s := BuildServer(c.Handler, c.Max, l)
	var body []byte
	status := 200
	switch via {
	case "direct":
		var buf bytes.Buffer
		s.HandleRequest(context.Background(), strings.NewReader(c.Raw), &buf)
		body = buf.Bytes()
	case "chunked":
		ts := httptest.NewServer(s)
		req, _ := http.NewRequest("POST", ts.URL, io.MultiReader(strings.NewReader(c.Raw))) // not a type net/http knows the length of
		req.Header.Set("Content-Type", "application/json")
		resp, err := http.DefaultClient.Do(req)
		if err == nil {
			body, _ = io.ReadAll(resp.Body)
			resp.Body.Close()
			status = resp.StatusCode
		}
		ts.Close()
	case "server":
		// a real net/http server and client: what actually reaches a peer (net/http enforces things a
		// recorder does not, e.g. no body with a 204 / 304 status)
		ts := httptest.NewServer(s)
		resp, err := http.Post(ts.URL, "application/json", strings.NewReader(c.Raw))
		if err == nil {
			body, _ = io.ReadAll(resp.Body)
			resp.Body.Close()
			status = resp.StatusCode
		}
		ts.Close()
	default:
		return RunImpl(c)
	}
	ents := l.Take()
	inv := []string{}
	for _, e := range ents {
		inv = append(inv, e.Tag)
	}
	return Out{Status: status, Toks: Tokenise(body), Invoked: inv}, body, ents
}

// ---------- the property's monitor, on the implementation's own reply ----------

func idBearing(r *Req) bool { return r.ID.T == "num" || r.ID.T == "str" }

// Monitor returns "" if the reply satisfies C09 for this body, else what is wrong.
func Monitor(c *Case, out Out, body []byte, ents []api.Entry) string {
	oversize := int64(c.Size) > c.Max
	var reqs []Req
	switch c.Body.Kind {
	case "single":
		reqs = []Req{*c.Body.Req}
	case "batch":
		reqs = c.Body.Reqs
	}
	allNotif := len(reqs) > 0
	for i := range reqs {
		if !(reqs[i].ID.T == "absent" || reqs[i].ID.T == "null") {
			allNotif = false
		}
	}
	trimmed := bytes.TrimSpace(body)
	if len(trimmed) == 0 {
		if oversize || !allNotif {
			return "empty reply although the body did not consist solely of notifications"
		}
		return ""
	}
	// exactly one well-formed JSON value
	dec := json.NewDecoder(bytes.NewReader(trimmed))
	var v interface{}
	if err := dec.Decode(&v); err != nil {
		return "reply is not well-formed JSON: " + err.Error()
	}
	if dec.More() || len(bytes.TrimSpace(trimmed[dec.InputOffset():])) != 0 {
		return "reply holds more than one JSON value"
	}
	var objs []map[string]interface{}
	for _, t := range out.Toks {
		if m, ok := t.(map[string]interface{}); ok {
			if _, bad := m["malformed_obj"]; bad {
				return fmt.Sprintf("response object is not a JSON-RPC 2.0 response: %v", m)
			}
			if _, bad := m["garbage"]; bad {
				return "garbage in reply"
			}
			objs = append(objs, m)
		}
	}
	code := func(m map[string]interface{}) (int, bool) {
		b := m["body"].(map[string]interface{})
		if b["k"] == "error" {
			return b["code"].(int), true
		}
		return 0, false
	}
	idOf := func(m map[string]interface{}) ID { return m["id"].(ID) }
	isArray := len(trimmed) > 0 && trimmed[0] == '['

	tokensRun := map[int]bool{}
	for _, e := range ents {
		for _, a := range e.Args {
			if n, ok := a.(int); ok {
				tokensRun[n] = true
			}
		}
	}

	switch {
	case oversize:
		if len(objs) != 1 || isArray {
			return "oversize body not answered by one error object"
		}
		if _, isErr := code(objs[0]); !isErr {
			return "oversize body not rejected with an error"
		}
		if len(ents) != 0 {
			return "oversize body ran a handler"
		}
		return ""
	case c.Body.Kind == "blank" || (c.Body.Kind == "batch" && len(reqs) == 0):
		if len(objs) != 1 || isArray {
			return "empty request not answered by one object"
		}
		if cd, ok := code(objs[0]); !ok || cd != -32600 {
			return "empty request not reported as -32600"
		}
		if idOf(objs[0]).T != "null" {
			return "empty request: id not null"
		}
		if len(ents) != 0 {
			return "empty request ran a handler"
		}
		return ""
	case c.Body.Kind == "singleUndecodable" || c.Body.Kind == "batchUndecodable":
		if len(objs) != 1 || isArray {
			return "malformed JSON not answered by one object"
		}
		if cd, ok := code(objs[0]); !ok || cd != -32700 {
			return "malformed JSON not reported as -32700"
		}
		if len(ents) != 0 {
			return "malformed JSON ran a handler"
		}
		return ""
	}

	// single / batch
	if c.Body.Kind == "single" && isArray {
		return "single request answered by an array"
	}
	if c.Body.Kind == "batch" && !isArray {
		return "batch answered by a non-array"
	}
	// objects with a non-null id must be exactly the id-bearing requests, in order
	var want []ID
	for i := range reqs {
		if idBearing(&reqs[i]) {
			want = append(want, reqs[i].ID)
		}
	}
	var got []map[string]interface{}
	nullObjs := 0
	for _, o := range objs {
		if idOf(o).T == "null" {
			if _, isErr := code(o); !isErr {
				if o["body"].(map[string]interface{})["k"] != "herr" {
					return "a result object with id null"
				}
			}
			nullObjs++
			continue
		}
		got = append(got, o)
	}
	// an object with id null is owed only to an element whose id could not be determined (invalid type);
	// a notification — id absent or null — is never answered, whether it succeeds or fails
	undetermined := 0
	for i := range reqs {
		switch reqs[i].ID.T {
		case "absent", "null", "num", "str":
		default:
			undetermined++
		}
	}
	if nullObjs != undetermined {
		return fmt.Sprintf("%d response object(s) with id null for %d element(s) whose id could not be determined: a notification was answered", nullObjs, undetermined)
	}
	if len(got) != len(want) {
		return fmt.Sprintf("%d response objects with an id for %d id-bearing requests", len(got), len(want))
	}
	for i := range want {
		if idOf(got[i]) != want[i] {
			return fmt.Sprintf("response %d echoes id %v, request had %v", i, idOf(got[i]), want[i])
		}
	}
	// codes and no-handler clauses, per generator class
	gi := 0
	for i := range reqs {
		r := &reqs[i]
		var o map[string]interface{}
		if idBearing(r) {
			o = got[gi]
			gi++
		}
		wantCode := 0
		switch r.Class {
		case "unknown":
			wantCode = -32601
		case "arity":
			wantCode = -32602
		}
		if r.ChanTarget {
			wantCode = -32601 // "not supported in this mode" is decided before the arity gate
		}
		if wantCode != 0 {
			if o != nil {
				if cd, ok := code(o); !ok || cd != wantCode {
					return fmt.Sprintf("request class %s answered with %v, want code %d", r.Class, o["body"], wantCode)
				}
			}
		}
		switch r.Class {
		case "unknown", "arity", "badtype", "nonarray", "badid":
			if r.Token != 0 && tokensRun[r.Token] {
				return fmt.Sprintf("request class %s ran a handler", r.Class)
			}
			if o != nil {
				if _, ok := code(o); !ok {
					return fmt.Sprintf("request class %s not answered with an error", r.Class)
				}
			}
		}
	}
	return ""
}

// ---------- generator ----------

type gen struct {
	r     *rand.Rand
	token int
}

var idTexts = []string{
	`1`, `2`, `42`, `0`, `-7`, `1.5`, `0.25`, `1e3`, `9007199254740993`, `1e30`, `123456789012`,
	`"a"`, `""`, `"x\"y"`, `"é\n"`, `"<b>&"`, `"8116d306-56cc-4637-9dd7-39ce1548a5a0"`, `"1"`,
}
var badIdTexts = []string{`true`, `false`, `[1]`, `[]`, `{"a":1}`, `{}`, `[null]`}

var elemPool = []string{`1`, `-3`, `2.5`, `"s"`, `""`, `true`, `null`, `[1,2]`, `[]`, `{"x":1,"y":"q"}`, `{}`, `1e400`, `"<>&"`, `[1,"a"]`}

func (g *gen) id(notifBias int) (ID, string) {
	k := g.r.Intn(100)
	switch {
	case k < notifBias/2:
		return ID{T: "absent"}, ""
	case k < notifBias:
		return ID{T: "null"}, "null"
	case k < notifBias+8:
		t := fw.Pick(g.r, badIdTexts)
		return CanonID(t), t
	default:
		t := fw.Pick(g.r, idTexts)
		return CanonID(t), t
	}
}

// names the default handler answers to, with the method they resolve to ("" = nothing)
type target struct {
	name string
	m    *api.MethodDesc
}

func targets(h HandlerDesc) (known []target, unknown []string) {
	f := Formatter(h.Fmt)
	byName := map[string]*api.MethodDesc{}
	for ri := range h.Regs {
		for mi := range h.Regs[ri].Methods {
			m := &h.Regs[ri].Methods[mi]
			byName[f(h.Regs[ri].Ns, m.Name)] = m
		}
	}
	for n, m := range byName {
		known = append(known, target{n, m})
	}
	for _, a := range h.Aliases {
		if _, direct := byName[a[0]]; direct {
			continue
		}
		if m, ok := byName[a[1]]; ok {
			known = append(known, target{a[0], m})
		} else {
			unknown = append(unknown, a[0])
		}
	}
	// deterministic order
	for i := 0; i < len(known); i++ {
		for j := i + 1; j < len(known); j++ {
			if known[j].name < known[i].name {
				known[i], known[j] = known[j], known[i]
			}
		}
	}
	unknown = append(unknown, "", "T.Nope", "Add", "t.Add", "T.add", "T.Add ", "T..Add", "xrpc.nothing", "T")
	return
}

func validElem(g *gen, typ string, token int) string {
	switch typ {
	case "int":
		return fmt.Sprint(token)
	case "string":
		return fw.Pick(g.r, []string{`"s"`, `""`, `"<&>"`, `"é"`})
	case "bool":
		return fw.Pick(g.r, []string{"true", "false"})
	case "[]int":
		return fw.Pick(g.r, []string{"[]", "[1,2,3]", fmt.Sprintf("[%d]", token)})
	case "*int":
		return fmt.Sprint(token)
	case "Pt":
		return fmt.Sprintf(`{"x":%d,"y":"q"}`, token)
	}
	return "0"
}

func (g *gen) req(h HandlerDesc, known []target, unknown []string, notifBias int) Req {
	g.token++
	r := Req{Token: 1000 + g.token}
	r.ID, r.IDText = g.id(notifBias)
	k := g.r.Intn(100)
	if k < 15 {
		r.Method = fw.Pick(g.r, unknown)
		r.Class = "unknown"
		// any params
		n := g.r.Intn(3)
		for i := 0; i < n; i++ {
			r.ElemTexts = append(r.ElemTexts, fw.Pick(g.r, elemPool))
		}
		if g.r.Intn(4) == 0 {
			r.ParamsText = ""
			r.Params = Params{T: "absent"}
			r.ElemTexts = nil
		} else {
			r.setArr()
		}
		r.Token = 0
		return r.fin()
	}
	t := fw.Pick(g.r, known)
	r.Method = t.name
	m := t.m
	r.ChanTarget = m.Chan
	if m.Raw {
		r.Class = "ok"
		switch g.r.Intn(4) {
		case 0:
			r.Params = Params{T: "absent"}
		case 1:
			r.ParamsText = `{"named":1}`
			r.Params = Params{T: "nonarray"}
		case 2:
			r.ParamsText = "null"
			r.Params = Params{T: "null"}
		default:
			r.ElemTexts = []string{fmt.Sprint(r.Token)}
			r.setArr()
		}
		return r.fin()
	}
	n := len(m.PTypes)
	switch {
	case k < 30: // wrong arity
		r.Class = "arity"
		cnt := n + 1 + g.r.Intn(2)
		if n > 0 && g.r.Intn(2) == 0 {
			cnt = n - 1
		}
		for i := 0; i < cnt; i++ {
			if i < n {
				r.ElemTexts = append(r.ElemTexts, validElem(g, m.PTypes[i], r.Token))
			} else {
				r.ElemTexts = append(r.ElemTexts, fw.Pick(g.r, elemPool))
			}
		}
		if cnt == 0 && g.r.Intn(2) == 0 {
			if g.r.Intn(2) == 0 {
				r.Params = Params{T: "absent"}
			} else {
				r.ParamsText = "null"
				r.Params = Params{T: "null"}
			}
		} else {
			r.setArr()
		}
	case k < 38: // params not an array
		r.Class = "nonarray"
		r.ParamsText = fw.Pick(g.r, []string{`{"a":1}`, `"str"`, `5`, `true`})
		r.Params = Params{T: "nonarray"}
		r.Token = 0
	case k < 52 && n > 0: // right arity, one element of the wrong type
		r.Class = "badtype"
		bad := g.r.Intn(n)
		for i := 0; i < n; i++ {
			if i == bad {
				// pick an element that does not decode into the declared type
				var cand []string
				for _, e := range elemPool {
					ok := false
					for _, tn := range api.DecodesInto(e) {
						if tn == m.PTypes[i] {
							ok = true
						}
					}
					if !ok {
						cand = append(cand, e)
					}
				}
				r.ElemTexts = append(r.ElemTexts, fw.Pick(g.r, cand))
			} else {
				r.ElemTexts = append(r.ElemTexts, validElem(g, m.PTypes[i], r.Token))
			}
		}
		r.setArr()
	default:
		r.Class = "ok"
		for i := 0; i < n; i++ {
			r.ElemTexts = append(r.ElemTexts, validElem(g, m.PTypes[i], r.Token))
		}
		if n == 0 {
			switch g.r.Intn(3) {
			case 0:
				r.Params = Params{T: "absent"}
			case 1:
				r.ParamsText = "null"
				r.Params = Params{T: "null"}
			default:
				r.setArr()
			}
		} else {
			r.setArr()
		}
	}
	return r.fin()
}

func (r *Req) setArr() {
	r.ParamsText = "[" + strings.Join(r.ElemTexts, ",") + "]"
	r.Params = Params{T: "arr", Elems: [][]string{}}
	for _, e := range r.ElemTexts {
		r.Params.Elems = append(r.Params.Elems, api.DecodesInto(e))
	}
}

func (r Req) fin() Req {
	if r.ID.T == "invalid" {
		r.Class = "badid"
	}
	return r
}

func (r *Req) render(rng *rand.Rand) string {
	if r.NullElem {
		return "null"
	}
	parts := []string{}
	if rng.Intn(10) != 0 {
		parts = append(parts, `"jsonrpc":"2.0"`)
	}
	if r.IDText != "" {
		parts = append(parts, `"id":`+r.IDText)
	}
	mb, _ := json.Marshal(r.Method)
	if !(r.Method == "" && rng.Intn(2) == 0) {
		parts = append(parts, `"method":`+string(mb))
	}
	if r.ParamsText != "" {
		parts = append(parts, `"params":`+r.ParamsText)
	}
	if rng.Intn(8) == 0 {
		parts = append(parts, `"extra":{"a":[1,2]}`)
	}
	rng.Shuffle(len(parts), func(i, j int) { parts[i], parts[j] = parts[j], parts[i] })
	sep := ","
	if rng.Intn(3) == 0 {
		sep = " , "
	}
	return "{" + strings.Join(parts, sep) + "}"
}

func pad(rng *rand.Rand, s string) string {
	ws := []string{"", "", " ", "\n", "\t ", "  \r\n"}
	return fw.Pick(rng, ws) + s + fw.Pick(rng, ws)
}

var undecodableSingles = []struct {
	text string
	pid  string // id text the decoder leaves behind ("" = none)
}{
	{`{"jsonrpc":"2.0","id":5,"method":3}`, "5"},
	{`{"id":"k","method":{"a":1}}`, `"k"`},
	{`{"method":[1],"id":[1]}`, `[1]`},
	{`{"jsonrpc":"2.0","id":5,"method":"T.Void"`, ""},
	{`{"jsonrpc":"2.0","id":5,,}`, ""},
	{`123`, ""},
	{`"str"`, ""},
	{`[{"jsonrpc":"2.0","method":"T.Void","id":5}`, ""},
	{`[1,2] x`, ""},
	{`{"id":7,"meta":5,"method":"T.Void"}`, "7"},
	{`nul`, ""},
	{`{"id":1,"method":"T.Void","params":}`, ""},
	// a well-formed request followed by further bytes: the body as a whole is not one JSON value
	{`{"jsonrpc":"2.0","id":5,"method":"T.Void"} x`, ""},
	{`{"jsonrpc":"2.0","id":5,"method":"T.Void"}}`, ""},
	{`{"jsonrpc":"2.0","id":5,"method":"T.Void"}]`, ""},
	{`{"jsonrpc":"2.0","id":5,"method":"T.Void"},`, ""},
	{`{"jsonrpc":"2.0","id":5,"method":"T.Void"}{"jsonrpc":"2.0","id":6,"method":"T.Void"}`, ""},
	{`{"jsonrpc":"2.0","id":5,"method":"T.Void"}` + "\n" + `{"jsonrpc":"2.0","id":6,"method":"T.Void"}`, ""},
	{`{"jsonrpc":"2.0","method":"T.Void"} 1`, ""},
	{`[{"jsonrpc":"2.0","id":5,"method":"T.Void"}] x`, ""},
}

var undecodableBatches = []string{`[1,2]`, `[{"id":1,"method":3}]`, `[{"id":1,"method":"T.Void"},]`, `["a"]`, `[{"id":1 "method":"T.Void"}]`, `[[]]`, `[tru]`,
	// a well-formed batch followed by further bytes (the body still starts with "[" and ends with "]")
	`[{"jsonrpc":"2.0","id":5,"method":"T.Void"}][{"jsonrpc":"2.0","id":6,"method":"T.Void"}]`,
	`[{"jsonrpc":"2.0","id":5,"method":"T.Void"}] , {"jsonrpc":"2.0","id":6,"method":"T.Void"}]`,
	`[{"jsonrpc":"2.0","id":5,"method":"T.Void"}]]`,
}

func Generate(seed int64, n int) []*Case {
	g := &gen{r: fw.Rng(seed, "c09")}
	h := DefaultHandler
	known, unknown := targets(h)
	var cases []*Case
	mk := func(b Body, raw string, max int64) *Case {
		return &Case{Op: "http", Handler: h, Max: max, Size: len(raw), Body: b, Raw: raw}
	}
	for i := 0; i < n; i++ {
		k := g.r.Intn(100)
		var c *Case
		switch {
		case k < 3:
			raw := fw.Pick(g.r, []string{"", " ", "\n\t ", "   \r\n"})
			c = mk(Body{Kind: "blank"}, raw, 1<<20)
		case k < 8:
			u := fw.Pick(g.r, undecodableSingles)
			pid := CanonID(u.pid)
			c = mk(Body{Kind: "singleUndecodable", Pid: &pid}, pad(g.r, u.text), 1<<20)
		case k < 12:
			c = mk(Body{Kind: "batchUndecodable"}, pad(g.r, fw.Pick(g.r, undecodableBatches)), 1<<20)
		case k < 14:
			c = mk(Body{Kind: "batch", Reqs: []Req{}}, pad(g.r, fw.Pick(g.r, []string{"[]", "[ ]", "[\n]"})), 1<<20)
		case k < 45:
			r := g.req(h, known, unknown, 20)
			if g.r.Intn(40) == 0 {
				r = Req{NullElem: true, ID: ID{T: "absent"}, Params: Params{T: "absent"}, Class: "unknown"}
			}
			c = mk(Body{Kind: "single", Req: &r}, pad(g.r, r.render(g.r)), 1<<20)
		default:
			nb := 1 + g.r.Intn(5)
			if g.r.Intn(10) == 0 {
				nb = 6 + g.r.Intn(10)
			}
			bias := fw.Pick(g.r, []int{10, 30, 60, 100})
			var rs []Req
			var texts []string
			for j := 0; j < nb; j++ {
				r := g.req(h, known, unknown, bias)
				if g.r.Intn(30) == 0 {
					r = Req{NullElem: true, ID: ID{T: "absent"}, Params: Params{T: "absent"}, Class: "unknown"}
				}
				rs = append(rs, r)
				texts = append(texts, r.render(g.r))
			}
			sep := fw.Pick(g.r, []string{",", " ,\n", ", "})
			c = mk(Body{Kind: "batch", Reqs: rs}, pad(g.r, "["+pad(g.r, strings.Join(texts, sep))+"]"), 1<<20)
		}
		// "no limit", spelt as the largest value the option's type can hold
		if g.r.Intn(25) == 0 {
			c.Max = math.MaxInt64 - int64(g.r.Intn(2))
		}
		// size limit around the body length
		if g.r.Intn(6) == 0 {
			c.Max = int64(len(c.Raw) + fw.Pick(g.r, []int{-2, -1, 0, 1, 2}))
			if c.Max < 1 {
				c.Max = 1
			}
		}
		cases = append(cases, c)
	}
	return cases
}

func signature(c *Case) string {
	var cls []string
	switch c.Body.Kind {
	case "single":
		cls = []string{c.Body.Req.Class + "/" + c.Body.Req.ID.T}
	case "batch":
		seen := map[string]bool{}
		for _, r := range c.Body.Reqs {
			k := r.Class + "/" + r.ID.T
			if !seen[k] {
				seen[k] = true
				cls = append(cls, k)
			}
		}
		// sorted
		for i := range cls {
			for j := i + 1; j < len(cls); j++ {
				if cls[j] < cls[i] {
					cls[i], cls[j] = cls[j], cls[i]
				}
			}
		}
	}
	over := ""
	if int64(c.Size) > c.Max {
		over = " oversize"
	}
	return "http " + c.Body.Kind + over + " [" + strings.Join(cls, " ") + "]"
}

// Run executes the C09 differential for this seed/tier and records into res.
func Run(d *fw.Driver, res *fw.Result, seed int64, n int, corpus []json.RawMessage) error {
	var cases []*Case
	for _, raw := range corpus {
		var c Case
		if err := json.Unmarshal(raw, &c); err == nil && c.Op == "http" {
			cases = append(cases, &c)
			res.Count("corpus")
		}
	}
	cases = append(cases, Generate(seed, n)...)
	for ci, c := range cases {
		model, err := d.Ask(c)
		if err != nil {
			return err
		}
		out, body, ents := RunImpl(c)
		mon := Monitor(c, out, body, ents)
		if mon == "" && (ci%3 == 0 || c.Body.Kind == "batch") {
			// the same body through a real HTTP server: the peer must see the same reply
			out2, body2, ents2 := RunImplVia(c, "server")
			if m2 := Monitor(c, out2, body2, ents2); m2 != "" {
				mon = "over a real HTTP connection: " + m2
				out, body = out2, body2
			} else if fw.JSON(out2.Toks) != fw.JSON(out.Toks) || out2.Status != out.Status {
				mon = fmt.Sprintf("over a real HTTP connection the peer receives status %d body %q, the recorder shows status %d body %q", out2.Status, body2, out.Status, body)
				out, body = out2, body2
			}
			res.Count("via.server")
		}
		res.Count("body." + c.Body.Kind)
		if int64(c.Size) > c.Max {
			res.Count("oversize")
		}
		if int64(c.Size) == c.Max || int64(c.Size) == c.Max+1 {
			res.Count("size.boundary")
		}
		for _, r := range c.Body.Reqs {
			res.Count("req." + r.Class)
			res.Count("id." + r.ID.T)
		}
		if c.Body.Req != nil {
			res.Count("req." + c.Body.Req.Class)
			res.Count("id." + c.Body.Req.ID.T)
		}
		res.Count(fmt.Sprintf("status.%d", out.Status))
		nontrivial := len(out.Invoked) > 0 || out.Status != 200 || len(out.Toks) > 1
		res.Eval(nontrivial, []interface{}{c.Body.Kind, out})
		res.Sample(map[string]interface{}{"raw": c.Raw, "max": c.Max, "reply": string(body), "invoked": out.Invoked})
		res.Compare(signature(c), c, model, out, mon)
	}
	return nil
}

package c12

// NonASCII: a client and a server configured with the same built-in formatter agree on the method also when
// the Go method name starts with a letter outside ASCII (a legal exported identifier): the lower-first
// formatters must lower-case a letter, not a byte.

import (
	"context"
	"fmt"
	"net/http/httptest"
	"strings"

	jsonrpc "github.com/filecoin-project/go-jsonrpc"

	"verif/harness/internal/c09"
	"verif/harness/internal/fw"
)

type uSrv struct{}

func (uSrv) Ärger(a int) (int, error) { return a + 1, nil }
func (uSrv) Über() (int, error)       { return 7, nil }
func (uSrv) Élan(a int) (int, error)  { return a + 2, nil }
func (uSrv) Plain(a int) (int, error) { return a + 3, nil }

type uClient struct {
	Ärger func(int) (int, error)
	Über  func() (int, error)
	Élan  func(int) (int, error)
	Plain func(int) (int, error)
}

func NonASCII(res *fw.Result) error {
	for _, f := range formatters {
		lib := c09.Formatter(f)
		for _, transport := range []string{"http", "ws"} {
			srv := jsonrpc.NewServer(jsonrpc.WithServerMethodNameFormatter(lib))
			srv.Register("U", uSrv{})
			ts := httptest.NewServer(srv)
			url := ts.URL
			if transport == "ws" {
				url = "ws" + strings.TrimPrefix(url, "http")
			}
			var cl uClient
			closer, err := jsonrpc.NewMergeClient(context.Background(), url, "U", []interface{}{&cl}, nil, jsonrpc.WithMethodNameFormatter(lib))
			if err != nil {
				ts.Close()
				return err
			}
			check := func(name string, got int, err error, want int) {
				res.Count("nonascii")
				res.Eval(true, []interface{}{"nonascii", f.Ns, f.Lower, f.Sep, transport, name})
				if err != nil || got != want {
					res.Add(fw.Finding{Kind: "monitor", Signature: fmt.Sprintf("same formatter on both sides, method %s fmt=%v/%v/%q", name, f.Ns, f.Lower, f.Sep),
						Detail: fmt.Sprintf("client and server are configured with the same formatter, yet calling %s over %s gives (%d, %v), want %d", name, transport, got, err, want),
						Case:   map[string]interface{}{"scenario": "nonascii", "method": name, "transport": transport}})
				}
			}
			v, err := cl.Ärger(1)
			check("Ärger", v, err, 2)
			v, err = cl.Über()
			check("Über", v, err, 7)
			v, err = cl.Élan(1)
			check("Élan", v, err, 3)
			v, err = cl.Plain(1)
			check("Plain", v, err, 4)
			closer()
			ts.Close()
		}
	}
	return nil
}

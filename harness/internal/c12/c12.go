// Package c12 — exhaustive differential check of name formatting, registration, alias fallback and the
// arity/type gates over the small universe the property names, plus client/server agreement.
package c12

import (
	"context"
	"encoding/json"
	"fmt"
	"net/http/httptest"
	"strings"

	jsonrpc "github.com/filecoin-project/go-jsonrpc"

	"verif/harness/internal/api"
	"verif/harness/internal/c09"
	"verif/harness/internal/fw"
)

var formatters = []c09.Fmt{
	{Ns: true, Lower: false}, {Ns: true, Lower: true}, {Ns: false, Lower: false}, {Ns: false, Lower: true},
	{Ns: true, Lower: false, Sep: "_"}, {Ns: true, Lower: true, Sep: "::"},
}

func regA(ns string) c09.Reg { return c09.Reg{Ns: ns, Methods: api.AMethods, Recv: "A"} }
func regB(ns string) c09.Reg { return c09.Reg{Ns: ns, Methods: api.BMethods, Recv: "B"} }

var regSets = [][]c09.Reg{
	{regA("A")},
	{regA("A"), regB("B")},
	{regA(""), regB("B")},
	{regA("X"), regB("X")}, // same namespace: B overwrites Foo and Bar
	{regB("X"), regA("X")}, // … and the other way round
	{regA("A"), regB("A.B")},
	{regA("A"), regB("a")},
	{regA("A.Foo"), regB("A")}, // "A.Foo" + "." + "Bar" vs "A" + "." + "FooBar"-like collisions
	{regA("A"), regB("AB")},    // ("A","BFoo") vs ("AB","Foo"): equal when concatenated without the separator
	{regB("AB"), regA("A"), regA("")},
}

// expected implements the property's reading of dispatch directly: formatted name ↦ tag (latest wins),
// direct name first, then one alias hop.
func expected(h c09.HandlerDesc, method string) (tag string, m *api.MethodDesc) {
	f := c09.OracleFormatter(h.Fmt)
	byName := map[string]*api.MethodDesc{}
	for ri := range h.Regs {
		for mi := range h.Regs[ri].Methods {
			md := &h.Regs[ri].Methods[mi]
			byName[f(h.Regs[ri].Ns, md.Name)] = md
		}
	}
	if md, ok := byName[method]; ok {
		return md.Tag, md
	}
	alias := map[string]string{}
	for _, a := range h.Aliases {
		alias[a[0]] = a[1]
	}
	if t, ok := alias[method]; ok {
		if md, ok := byName[t]; ok {
			return md.Tag, md
		}
	}
	return "", nil
}

func candidates(h c09.HandlerDesc) []string {
	set := map[string]bool{"": true, ".": true, "Foo": true, "foo": true, "A": true, "A.": true, ".Foo": true, "A.foo ": true, "A.Foo.Bar": true, "xrpc.x": true}
	for _, f := range formatters {
		ff := c09.OracleFormatter(f)
		for _, ns := range []string{"A", "B", "", "X", "A.B", "a", "A.Foo", "AB"} {
			for _, m := range []string{"Foo", "Bar", "Baz", "FooBar", "Three", "BFoo", "ABFoo"} {
				set[ff(ns, m)] = true
			}
		}
	}
	for _, a := range h.Aliases {
		set[a[0]] = true
		set[a[1]] = true
	}
	// near misses of a registered name and of an alias: the same letters with a control or format character
	// somewhere — different strings, hence different methods
	near := []string{c09.OracleFormatter(h.Fmt)("A", "Foo")}
	if len(h.Aliases) > 0 {
		near = append(near, h.Aliases[0][0])
	}
	for _, nm := range near {
		if nm == "" {
			continue
		}
		k := len(nm) / 2
		for _, v := range []string{nm + "\n", nm[:k] + "\x00" + nm[k:], "\ufeff" + nm, nm + "\u200b", nm[:k] + "\a" + nm[k:], " " + nm} {
			set[v] = true
		}
	}
	var out []string
	for s := range set {
		out = append(out, s)
	}
	// deterministic
	for i := range out {
		for j := i + 1; j < len(out); j++ {
			if out[j] < out[i] {
				out[i], out[j] = out[j], out[i]
			}
		}
	}
	return out
}

type paramVariant struct {
	text  string // "" = absent
	class string
}

var variants = []paramVariant{
	// (a request without a params member right after one that was accepted: nothing of the earlier request may be reused)
	{`[%d]`, "one-int"}, {``, "absent"}, {`[]`, "empty"}, {`[%d,1]`, "two"}, {`["s"]`, "one-str"}, {`null`, "null"},
	{`{"a":1}`, "object"}, {`[null]`, "one-null"}, {`[1.5]`, "one-frac"}, {`[%d,2,3]`, "three"},
	// several positional params: every position mismatched on its own, and two at once
	{`["s",%d,true]`, "three-fit"}, {``, "absent-after-three"}, {`[5,%d,true]`, "three-bad-first"}, {`["s","x",true]`, "three-bad-middle"},
	{`["s",%d,"no"]`, "three-bad-last"}, {`[5,"x",true]`, "three-bad-two"}, {`[null,%d,true]`, "three-null-first"},
}

func aliasTables(h c09.HandlerDesc) [][][2]string {
	f := c09.OracleFormatter(h.Fmt)
	first := f(h.Regs[0].Ns, "Foo")
	second := f(h.Regs[len(h.Regs)-1].Ns, "Bar")
	return [][][2]string{
		nil,
		{{"x", first}, {"gone", "No.Such"}},
		{{first, second}, {"y", "x"}, {"x", second}}, // alias spelled like a direct name; two-hop chain y→x→second
		{{"x", second}, {"x", first}},                // alias overwritten: latest wins
	}
}

// Run enumerates the universe completely (the result is marked exhaustive).
func Run(d *fw.Driver, res *fw.Result, seed int64, thorough bool, corpus []json.RawMessage) error {
	token := 5000
	replayOnly := len(corpus) > 0 && seed < 0
	for _, raw := range corpus {
		var c c09.Case
		if json.Unmarshal(raw, &c) == nil && c.Op == "http" {
			if err := one(d, res, &c, "corpus"); err != nil {
				return err
			}
		}
	}
	if replayOnly {
		return nil
	}
	for _, f := range formatters {
		for _, regs := range regSets {
			base := c09.HandlerDesc{Fmt: f, Regs: regs}
			for _, al := range aliasTables(base) {
				h := c09.HandlerDesc{Fmt: f, Regs: regs, Aliases: al}
				if h.Aliases == nil {
					h.Aliases = [][2]string{}
				}
				for _, cand := range candidates(h) {
					_, md := expected(h, cand)
					vs := variants
					if md == nil && !thorough {
						vs = variants[:2]
					}
					for _, v := range vs {
						token++
						r := c09.Req{Method: cand, Token: token, Class: v.class}
						r.ID, r.IDText = c09.CanonID(fmt.Sprint(token)), fmt.Sprint(token)
						r.ParamsText = v.text
						if strings.Contains(v.text, "%d") {
							r.ParamsText = fmt.Sprintf(v.text, token)
						}
						r.Params = paramsOf(r.ParamsText)
						raw := render(&r)
						c := &c09.Case{Op: "http", Handler: h, Max: 1 << 20, Size: len(raw), Body: c09.Body{Kind: "single", Req: &r}, Raw: raw}
						if err := one(d, res, c, v.class); err != nil {
							return err
						}
					}
				}
				if err := agree(d, res, h); err != nil {
					return err
				}
			}
		}
	}
	if err := aliasFollowsLatest(res); err != nil {
		return err
	}
	res.Exhaustive = true
	return nil
}

// aliasFollowsLatest: Register(ns, first); AliasMethod(alias → ns.Foo); Register(ns, second).  The alias is an
// entry of the alias table, resolved through the method table at request time: both the direct name and
// the alias must run the handler registered last.
func aliasFollowsLatest(res *fw.Result) error {
	for _, order := range []string{"reg-alias-reg", "alias-reg-reg", "reg-reg-alias"} {
		l := &api.Log{}
		s := jsonrpc.NewServer()
		first, second := &api.A{L: l}, &api.B{L: l}
		steps := map[string][]func(){
			"reg-alias-reg": {func() { s.Register("N", first) }, func() { s.AliasMethod("al", "N.Foo") }, func() { s.Register("N", second) }},
			"alias-reg-reg": {func() { s.AliasMethod("al", "N.Foo") }, func() { s.Register("N", first) }, func() { s.Register("N", second) }},
			"reg-reg-alias": {func() { s.Register("N", first) }, func() { s.Register("N", second) }, func() { s.AliasMethod("al", "N.Foo") }},
		}[order]
		for _, st := range steps {
			st()
		}
		for _, name := range []string{"N.Foo", "al"} {
			l.Take()
			rec := httptest.NewRecorder()
			req := httptest.NewRequest("POST", "/", strings.NewReader(`{"jsonrpc":"2.0","id":1,"method":"`+name+`","params":[7]}`))
			s.ServeHTTP(rec, req)
			ents := l.Take()
			got := ""
			if len(ents) == 1 {
				got = ents[0].Tag
			}
			if got != "B.Foo" {
				res.Add(fw.Finding{Kind: "monitor", Signature: "alias after re-registration order=" + order + " name=" + name,
					Detail: fmt.Sprintf("after %s a request for %q ran %q; the handler registered last under N.Foo is B.Foo (reply %s)", order, name, got, strings.TrimSpace(rec.Body.String())),
					Case:   map[string]interface{}{"scenario": "alias-follows-latest", "order": order, "name": name}})
			}
			res.Count("alias-follows-latest")
			res.Eval(true, []interface{}{"alias-follows-latest", order, name})
		}
	}
	return nil
}

func paramsOf(text string) c09.Params {
	if text == "" {
		return c09.Params{T: "absent"}
	}
	var v interface{}
	json.Unmarshal([]byte(text), &v)
	switch x := v.(type) {
	case nil:
		return c09.Params{T: "null"}
	case []interface{}:
		var raws []json.RawMessage
		json.Unmarshal([]byte(text), &raws)
		p := c09.Params{T: "arr", Elems: [][]string{}}
		for _, r := range raws {
			p.Elems = append(p.Elems, api.DecodesInto(string(r)))
		}
		_ = x
		return p
	default:
		return c09.Params{T: "nonarray"}
	}
}

func render(r *c09.Req) string {
	mb, _ := json.Marshal(r.Method)
	s := `{"jsonrpc":"2.0","id":` + r.IDText + `,"method":` + string(mb)
	if r.ParamsText != "" {
		s += `,"params":` + r.ParamsText
	}
	return s + "}"
}

func one(d *fw.Driver, res *fw.Result, c *c09.Case, class string) error {
	model, err := d.Ask(c)
	if err != nil {
		return err
	}
	out, _, ents := c09.RunImpl(c)
	r := c.Body.Req
	wantTag, md := expected(c.Handler, r.Method)
	mon := ""
	gotTag := ""
	if len(ents) > 1 {
		mon = fmt.Sprintf("one request ran %d handlers", len(ents))
	} else if len(ents) == 1 {
		gotTag = ents[0].Tag
	}
	// which handler may run, by the property's reading
	arityOK := md != nil && len(r.Params.Elems) == len(md.PTypes) && r.Params.T != "nonarray"
	typesOK := arityOK
	if arityOK {
		for i, t := range md.PTypes {
			ok := false
			for _, d := range r.Params.Elems[i] {
				if d == t {
					ok = true
				}
			}
			typesOK = typesOK && ok
		}
	}
	code := func() (int, bool) {
		for _, t := range out.Toks {
			if m, ok := t.(map[string]interface{}); ok {
				if b, ok := m["body"].(map[string]interface{}); ok && b["k"] == "error" {
					return b["code"].(int), true
				}
			}
		}
		return 0, false
	}
	if mon == "" {
		switch {
		case wantTag == "":
			if gotTag != "" {
				mon = fmt.Sprintf("method %q matches no formatted name or alias but ran %s", r.Method, gotTag)
			} else if cd, ok := code(); !ok || cd != -32601 {
				mon = fmt.Sprintf("method %q not rejected as method-not-found", r.Method)
			}
		case !arityOK || !typesOK:
			if gotTag != "" {
				mon = fmt.Sprintf("params %s do not fit %s but the handler ran", r.ParamsText, wantTag)
			} else if _, ok := code(); !ok {
				mon = fmt.Sprintf("params %s do not fit %s but no error was returned", r.ParamsText, wantTag)
			}
		default:
			if gotTag != wantTag {
				mon = fmt.Sprintf("method %q should run %s, ran %q", r.Method, wantTag, gotTag)
			}
		}
	}
	res.Count("variant." + class)
	if wantTag == "" {
		res.Count("dispatch.notfound")
	} else if _, direct := directTag(c.Handler, r.Method); direct {
		res.Count("dispatch.direct")
	} else {
		res.Count("dispatch.alias")
	}
	res.Eval(gotTag != "" || wantTag != "", []interface{}{c.Handler.Fmt, regKey(c.Handler), c.Handler.Aliases, r.Method, class})
	if gotTag != "" {
		res.Sample(map[string]interface{}{"fmt": c.Handler.Fmt, "regs": regKey(c.Handler), "aliases": c.Handler.Aliases, "request": c.Raw, "ran": gotTag})
	}
	sig := fmt.Sprintf("dispatch fmt=%v/%v/%q regs=%s method=%q params=%s", c.Handler.Fmt.Ns, c.Handler.Fmt.Lower, c.Handler.Fmt.Sep, regKey(c.Handler), r.Method, class)
	res.Compare(sig, c, model, out, mon)
	return nil
}

func directTag(h c09.HandlerDesc, method string) (string, bool) {
	hh := h
	hh.Aliases = nil
	t, _ := expected(hh, method)
	return t, t != ""
}

func regKey(h c09.HandlerDesc) string {
	var parts []string
	for _, r := range h.Regs {
		parts = append(parts, r.Recv+"@"+r.Ns)
	}
	return strings.Join(parts, ",")
}

// ---- client/server agreement ----

// Client proxy structs: field names as on the server, plus fields tagged with a server-side name.
type clientA struct {
	Foo    func(int) (int, error)
	Bar    func(int) (int, error)
	FooBar func() (int, error)
}

type clientTagged struct {
	Other func(int) (int, error) `rpc_method:"TAG"`
}

func agree(d *fw.Driver, res *fw.Result, h c09.HandlerDesc) error {
	if h.Regs[0].Recv != "A" {
		return nil
	}
	ns0 := h.Regs[0].Ns
	f := c09.Formatter(h.Fmt)        // what the client is configured with (the library's formatter)
	fo := c09.OracleFormatter(h.Fmt) // what the expectations are computed with
	// the tagged field names a server-side alias
	h.Aliases = append(append([][2]string{}, h.Aliases...), [2]string{"TAG", fo(ns0, "Foo")})
	l := &api.Log{}
	s := c09.BuildServer(h, 0, l)
	ts := httptest.NewServer(s)
	defer ts.Close()
	var ca clientA
	var ct clientTagged
	closer, err := jsonrpc.NewMergeClient(context.Background(), ts.URL, ns0, []interface{}{&ca, &ct}, nil,
		jsonrpc.WithMethodNameFormatter(f))
	if err != nil {
		return err
	}
	defer closer()
	try := func(field, tag string, nargs int, call func() (int, error)) error {
		l.Take()
		_, cerr := call()
		ents := l.Take()
		got := ""
		if len(ents) == 1 {
			got = ents[0].Tag
		}
		name := fo(ns0, field)
		if tag != "" {
			name = tag
		}
		want, md := expected(h, name)
		if md != nil && len(md.PTypes) != nargs {
			want = "" // resolves, but the arity gate rejects it
		}
		elems := [][]string{}
		for i := 0; i < nargs; i++ {
			elems = append(elems, api.DecodesInto("1"))
		}
		ask := map[string]interface{}{"op": "agree", "handler": h, "ns": ns0, "field": field, "elems": elems}
		if tag != "" {
			ask["tag"] = tag
		}
		model, err := d.Ask(ask)
		if err != nil {
			return err
		}
		impl := map[string]interface{}{"name": name, "ran": nilIfEmpty(got)}
		mon := ""
		if got != want {
			mon = fmt.Sprintf("client field %s (namespace %q, tag %q) should reach %q, reached %q (err %v)", field, ns0, tag, want, got, cerr)
		}
		res.Count("agree")
		res.Eval(true, []interface{}{"agree", h.Fmt, regKey(h), h.Aliases, field})
		res.Compare(fmt.Sprintf("agree fmt=%v/%v/%q regs=%s field=%s", h.Fmt.Ns, h.Fmt.Lower, h.Fmt.Sep, regKey(h), field), ask, model, impl, mon)
		return nil
	}
	if err := try("Foo", "", 1, func() (int, error) { return ca.Foo(1) }); err != nil {
		return err
	}
	if err := try("Bar", "", 1, func() (int, error) { return ca.Bar(1) }); err != nil {
		return err
	}
	if err := try("FooBar", "", 0, func() (int, error) { return ca.FooBar() }); err != nil {
		return err
	}
	return try("Other", "TAG", 1, func() (int, error) { return ct.Other(1) })
}

func nilIfEmpty(s string) interface{} {
	if s == "" {
		return nil
	}
	return s
}

package c12

// Sequences on ONE server: what a request is checked against is that request alone.  After a request that was
// accepted, the same method is requested without a params member (and with too few params): it must be
// rejected without running the handler — nothing of the earlier request may be carried over.

import (
	"bytes"
	"context"
	"fmt"
	"strings"

	jsonrpc "github.com/filecoin-project/go-jsonrpc"

	"verif/harness/internal/fw"
)

type seqH struct{ ran []string }

func (h *seqH) Transfer(to string, amount int) (int, error) {
	h.ran = append(h.ran, fmt.Sprintf("Transfer(%s,%d)", to, amount))
	return amount, nil
}
func (h *seqH) One(a int) (int, error) {
	h.ran = append(h.ran, fmt.Sprintf("One(%d)", a))
	return a, nil
}

func Sequences(res *fw.Result) error {
	h := &seqH{}
	srv := jsonrpc.NewServer()
	srv.Register("S", h)
	do := func(body string) string {
		var buf bytes.Buffer
		srv.HandleRequest(context.Background(), strings.NewReader(body), &buf)
		return buf.String()
	}
	id := 0
	for round := 0; round < 40; round++ {
		for _, m := range []struct {
			name, good string
			bad        []string
		}{
			{"S.Transfer", `["bob",%d]`, []string{``, `["eve"]`, `[]`}},
			{"S.One", `[%d]`, []string{``, `[]`}},
		} {
			id++
			h.ran = nil
			do(fmt.Sprintf(`{"jsonrpc":"2.0","id":%d,"method":%q,"params":%s}`, id, m.name, fmt.Sprintf(m.good, 1000+id)))
			if len(h.ran) != 1 {
				res.Add(fw.Finding{Kind: "monitor", Signature: "sequence: accepted request did not run", Detail: fmt.Sprintf("%s with fitting params ran %v", m.name, h.ran)})
			}
			for _, b := range m.bad {
				id++
				h.ran = nil
				body := fmt.Sprintf(`{"jsonrpc":"2.0","id":%d,"method":%q,"params":%s}`, id, m.name, b)
				if b == "" {
					body = fmt.Sprintf(`{"jsonrpc":"2.0","id":%d,"method":%q}`, id, m.name)
				}
				reply := do(body)
				res.Count("sequence")
				res.Eval(true, []interface{}{"sequence", m.name, b, round})
				if len(h.ran) != 0 || !strings.Contains(reply, `"error"`) {
					res.Add(fw.Finding{Kind: "monitor", Signature: fmt.Sprintf("sequence: %s with params %q after an accepted request", m.name, b),
						Detail: fmt.Sprintf("the request does not carry the parameters the method declares, yet the handler ran: %v (reply %s) — parameters of an earlier request were used", h.ran, strings.TrimSpace(reply)),
						Case:   map[string]interface{}{"scenario": "sequence", "method": m.name, "params": b}})
				}
			}
		}
		if res.Enough() {
			break
		}
	}
	return nil
}

// Package c17 — keepalive: healthy links must stay up under every documented (ping, timeout) pair,
// whatever the peer's own ping interval, through long calls and idle periods; a silent peer must be
// noticed within a bound derived from the timeout.  Timed hook events (peer activity, deadline
// renewals, read failures) are replayed through Jrpc.Keepalive's trace acceptor.
package c17

import (
	"context"
	"encoding/json"
	"errors"
	"fmt"
	"time"
	"verif/harness/internal/c05"

	jsonrpc "github.com/filecoin-project/go-jsonrpc"

	"verif/harness/internal/corr"
	"verif/harness/internal/fw"
	"verif/harness/internal/hk"
	"verif/harness/internal/scen"
)

// Project: the keepalive alphabet of one connection, with times in microseconds.
func Project(evs []hk.Event, conn int) []map[string]interface{} {
	var out []map[string]interface{}
	for _, e := range evs {
		if e.Site == "harness.closing" {
			out = append(out, map[string]interface{}{"e": "disarm", "t": e.T})
			continue
		}
		if e.Conn != conn {
			continue
		}
		switch e.Site {
		case "ka.ping", "ka.pong", "reader.msg":
			out = append(out, map[string]interface{}{"e": "activity", "t": e.T})
		case "deadline.reset":
			out = append(out, map[string]interface{}{"e": "renew", "t": e.T})
		case "reader.err":
			out = append(out, map[string]interface{}{"e": "readFail", "t": e.T})
		case "rc.swap":
			out = append(out, map[string]interface{}{"e": "newconn", "t": e.T})
		case "main.arm":
			out = append(out, map[string]interface{}{"e": "arm", "t": e.T})
		case "main.timeout":
			out = append(out, map[string]interface{}{"e": "idleFire", "t": e.T})
		case "main.stop", "main.ctxdone", "main.exit.begin":
			out = append(out, map[string]interface{}{"e": "disarm", "t": e.T})
		}
	}
	return out
}

func check(d *fw.Driver, res *fw.Result, e *scen.Env, timeout time.Duration, faulted bool, sig string) error {
	evs := e.RT.Events()
	conn := corr.ClientConn(evs)
	mes := Project(evs, conn)
	ask := map[string]interface{}{"op": "keepalive", "timeout_us": timeout.Microseconds(), "slack_us": 3000, "events": mes}
	model, err := d.Ask(ask)
	if err != nil {
		return err
	}
	mm := model.(map[string]interface{})
	res.Traces++
	res.Events += len(mes)
	if mm["accepted"] != true {
		res.Add(fw.Finding{Kind: "tie", Signature: sig + " keepalive event refused", Detail: fmt.Sprintf("the model refuses the timed keepalive trace: %v", mm["why"]), Model: model, Case: ask})
	}
	_ = faulted
	return nil
}

type pt struct{ P, T time.Duration }

// Run: healthy and silent-peer scenarios.
func Run(d *fw.Driver, res *fw.Result, seed int64, thorough bool) error {
	pairs := []pt{{10 * time.Millisecond, 50 * time.Millisecond}, {20 * time.Millisecond, 100 * time.Millisecond}, {15 * time.Millisecond, 200 * time.Millisecond}}
	if thorough {
		pairs = append(pairs, pt{5 * time.Millisecond, 30 * time.Millisecond}, pt{40 * time.Millisecond, 90 * time.Millisecond}, pt{100 * time.Millisecond, 1000 * time.Millisecond})
	}
	serverPings := []time.Duration{5 * time.Second, 0, -1} // library default, disabled, same as the client's
	base := 600000
	for _, p := range pairs {
		for _, sp := range serverPings {
			base += 20
			if sp == -1 {
				sp = p.P
			}
			p, sp, base := p, sp, base
			if err := fw.Confirmed(res, "healthy", func(r *fw.Result) error { return healthy(d, r, seed, p, sp, base) }); err != nil {
				return err
			}
		}
		for _, when := range []string{"idle", "during-call", "busy", "from-start"} {
			base += 20
			if err := silent(d, res, seed, p, when, base); err != nil {
				return err
			}
		}
	}
	if err := fw.Confirmed(res, "keepalive-after-heal", func(r *fw.Result) error { return c05.KeepaliveAfterHeal(d, r, seed+900) }); err != nil {
		return err
	}
	// keepalive switched off but a timeout configured: the read deadline alone must notice a silent peer
	base += 20
	if err := silent(d, res, seed, pt{0, 100 * time.Millisecond}, "during-call", base); err != nil {
		return err
	}
	base += 20
	if err := silentAfterReconnect(res, seed, base); err != nil {
		return err
	}
	base += 20
	hb := base
	if err := fw.Confirmed(res, "heal-near-timeout", func(r *fw.Result) error { return healNearTimeout(r, seed, hb) }); err != nil {
		return err
	}
	base += 20
	sb := base
	if err := fw.Confirmed(res, "stalled-subscriber", func(r *fw.Result) error { return stalledSubscriber(r, seed, sb) }); err != nil {
		return err
	}
	return slowPeer(res)
}

// silentAfterReconnect: the first connection is reset; the second one completes the upgrade and then the
// peer is silent from its first moment.  The client must notice within a bounded time and dial a third time.
func silentAfterReconnect(res *fw.Result, seed int64, base int) error {
	e, err := scen.NewEnv(seed+55, 0, jsonrpc.WithServerPingInterval(5*time.Second))
	if err != nil {
		return err
	}
	defer e.Close()
	ctx, cancel := context.WithCancel(context.Background())
	defer cancel()
	const P, T = 20 * time.Millisecond, 150 * time.Millisecond
	cl, closer, err := e.Client(ctx, jsonrpc.WithPingInterval(P), jsonrpc.WithTimeout(T), jsonrpc.WithReconnectBackoff(30*time.Millisecond, 60*time.Millisecond))
	if err != nil {
		return err
	}
	defer scen.WithTimeout(3*time.Second, closer)
	sig := "peer silent right after a reconnect"
	c := map[string]interface{}{"scenario": "silent-after-reconnect", "ping": P.String(), "timeout": T.String()}
	if err := scen.WarmUp(func() error {
		v, err := cl.Count(ctx, base+1)
		if err == nil && v != base+1 {
			err = fmt.Errorf("answered %d", v)
		}
		return err
	}); err != nil {
		return fmt.Errorf("warm-up call failed: %v", err)
	}
	n0 := e.PX.Accepted() // 1 unless the warm-up had to be repeated on a new connection
	e.PX.Cut(0, "rst")
	// the second connection: let the upgrade through, then swallow everything without closing
	deadline := time.Now().Add(3 * time.Second)
	for time.Now().Before(deadline) && e.PX.Accepted() < n0+1 {
		time.Sleep(200 * time.Microsecond)
	}
	if e.PX.Accepted() < n0+1 {
		res.Add(fw.Finding{Kind: "monitor", Signature: sig + " no redial", Detail: "the client did not redial after the reset", Case: c})
		return nil
	}
	// (a blackhole before the handshake response would leave the client waiting in its dial, which is
	// not the situation under study)
	for time.Now().Before(deadline) && !e.PX.Upgraded(n0+1) {
		time.Sleep(200 * time.Microsecond)
	}
	time.Sleep(2 * time.Millisecond)
	e.PX.Cut(n0+1, "blackhole")
	t0 := time.Now()
	bound := 4*T + 200*time.Millisecond
	for time.Since(t0) < bound+time.Second && e.PX.Accepted() < n0+2 {
		time.Sleep(time.Millisecond)
	}
	if e.PX.Accepted() < n0+2 {
		res.Add(fw.Finding{Kind: "monitor", Signature: sig + " no reconnect", Detail: fmt.Sprintf("the client did not start reconnecting within %v of the peer falling silent on the freshly re-established connection", bound+time.Second), Case: c})
	} else {
		ok := false
		for w := 0; w < 300 && !ok; w++ {
			cctx, cc := context.WithTimeout(ctx, time.Second)
			v, err := cl.Count(cctx, base+2)
			cc()
			ok = err == nil && v == base+2
			if !ok {
				time.Sleep(5 * time.Millisecond)
			}
		}
		if !ok {
			res.Add(fw.Finding{Kind: "monitor", Signature: sig + " no heal", Detail: "calls did not work again after the third connection", Case: c})
		}
	}
	res.Count("silent-after-reconnect")
	res.Eval(true, []interface{}{"silent-after-reconnect"})
	return nil
}

func healthy(d *fw.Driver, res *fw.Result, seed int64, p pt, serverPing time.Duration, base int) error {
	e, err := scen.NewEnv(seed, 0, jsonrpc.WithServerPingInterval(serverPing))
	if err != nil {
		return err
	}
	defer e.Close()
	ctx, cancel := context.WithCancel(context.Background())
	defer cancel()
	cl, closer, err := e.Client(ctx, jsonrpc.WithPingInterval(p.P), jsonrpc.WithTimeout(p.T), jsonrpc.WithReconnectBackoff(5*time.Millisecond, 20*time.Millisecond))
	if err != nil {
		return err
	}
	sig := fmt.Sprintf("healthy ping=%v timeout=%v server-ping=%v", p.P, p.T, serverPing)
	// the verdicts below are conclusive only if the environment was responsive: the findings of this
	// scenario go through a local result first
	outer := res
	res = fw.NewResult("C17", seed, "")
	probe := scen.StartLagProbe()
	defer func() {
		lag := probe.Stop()
		gap, frames := e.MaxGapS2C(1)
		envOK := lag < p.T/4 && (frames < 2 || gap < p.T*6/10)
		for _, f := range res.Findings {
			if f.Kind == "monitor" && !envOK {
				outer.Count("healthy.inconclusive-slow-environment")
				outer.Note(fmt.Sprintf("%s: verdict %q dropped as inconclusive — the environment was not responsive enough for timeout %v (max scheduling lag %v, max gap between peer frames on the wire %v)", sig, f.Signature, p.T, lag, gap))
				continue
			}
			outer.Add(f)
		}
		outer.Traces += res.Traces
		outer.Events += res.Events
	}()
	// outgoing-only traffic denser than the ping interval all along (notifications get no answer): the
	// peer's pongs are then the only incoming frames, so the pings must keep going out
	stopNotes := make(chan struct{})
	defer close(stopNotes)
	go func() {
		for i := 0; ; i++ {
			select {
			case <-stopNotes:
				return
			case <-time.After(p.P / 3):
			}
			cl.Note(base + 1000 + i)
		}
	}()
	// a call several timeouts long, then an idle period, then short calls
	long := make(chan error, 1)
	go func() {
		v, err := cl.Block(ctx, base+1)
		if err == nil && v != base+1 {
			err = fmt.Errorf("got %d", v)
		}
		long <- err
	}()
	time.Sleep(3 * p.T)
	e.H.C.Release(base + 1)
	select {
	case err := <-long:
		if err != nil {
			res.Add(fw.Finding{Kind: "monitor", Signature: sig + " long call failed", Detail: fmt.Sprintf("a call lasting 3 timeouts on a healthy link failed: %v", err)})
		}
	case <-time.After(2*time.Second + 4*p.T):
		res.Add(fw.Finding{Kind: "monitor", Signature: sig + " long call hangs", Detail: "a call lasting 3 timeouts on a healthy link did not return"})
	}
	time.Sleep(2 * p.T) // idle
	for i := 0; i < 3; i++ {
		cctx, cc := context.WithTimeout(ctx, 2*time.Second)
		v, err := cl.Count(cctx, base+5+i)
		cc()
		if err != nil || v != base+5+i {
			res.Add(fw.Finding{Kind: "monitor", Signature: sig + " call after idle failed", Detail: fmt.Sprintf("a call after an idle period of 2 timeouts failed: %v", err)})
			break
		}
	}
	if n := e.PX.Accepted(); n != 1 {
		res.Add(fw.Finding{Kind: "monitor", Signature: sig + " healthy link dropped", Detail: fmt.Sprintf("the client re-dialled %d time(s) although the link was healthy throughout (ping interval %v < timeout/2 = %v)", n-1, p.P, p.T/2)})
	}
	e.RT.Log("harness.closing")
	scen.WithTimeout(3*time.Second, closer)
	if err := check(d, res, e, p.T, false, sig); err != nil {
		return err
	}
	outer.Count("healthy")
	outer.Eval(true, []interface{}{"healthy", p.P.String(), p.T.String(), serverPing.String()})
	outer.Sample(map[string]interface{}{"scenario": sig, "connections_accepted": e.PX.Accepted()})
	return nil
}

func silent(d *fw.Driver, res *fw.Result, seed int64, p pt, when string, base int) error {
	sp := p.P
	if when == "from-start" {
		sp = 5 * time.Second // the peer never shows a sign of life on this connection: not even a ping
	}
	e, err := scen.NewEnv(seed, 0, jsonrpc.WithServerPingInterval(sp))
	if err != nil {
		return err
	}
	defer e.Close()
	ctx, cancel := context.WithCancel(context.Background())
	defer cancel()
	cl, closer, err := e.Client(ctx, jsonrpc.WithPingInterval(p.P), jsonrpc.WithTimeout(p.T), jsonrpc.WithReconnectBackoff(5*time.Millisecond, 20*time.Millisecond),
		jsonrpc.WithErrors(jsonrpc.NewErrors()))
	if err != nil {
		return err
	}
	sig := fmt.Sprintf("silent-peer ping=%v timeout=%v when=%s", p.P, p.T, when)
	if when != "from-start" {
		if err := scen.WarmUp(func() error {
			v, err := cl.Count(ctx, base+1)
			if err == nil && v != base+1 {
				err = fmt.Errorf("answered %d", v)
			}
			return err
		}); err != nil {
			return fmt.Errorf("warm-up call failed: %v", err)
		}
	}
	pending := make(chan error, 1)
	if when == "during-call" {
		go func() { _, err := cl.Block(ctx, base+2); pending <- err }()
		for w := 0; w < 2000 && e.H.C.Entered(base+2) == 0; w++ {
			time.Sleep(time.Millisecond)
		}
	}
	t0 := time.Now()
	e.RT.Log("harness.cut")
	n0 := e.PX.Accepted() // 1 unless the warm-up had to be repeated on a new connection
	if n0 < 1 {
		n0 = 1
	}
	e.PX.Cut(0, "blackhole")
	bound := 4*p.T + 100*time.Millisecond
	if when == "busy" || when == "from-start" {
		// local traffic keeps the main loop iterating (its idle timer never fires): only the read deadline
		// can notice the silence
		stopBusy := make(chan struct{})
		defer close(stopBusy)
		go func() {
			for i := 0; ; i++ {
				select {
				case <-stopBusy:
					return
				case <-time.After(p.T / 5):
				}
				go func(i int) {
					cctx, cc := context.WithTimeout(ctx, 2*time.Second)
					defer cc()
					cl.Count(cctx, base+100+i)
				}(i)
			}
		}()
	}
	if when == "during-call" {
		select {
		case err := <-pending:
			var ce *jsonrpc.RPCConnectionError
			if err == nil {
				res.Add(fw.Finding{Kind: "monitor", Signature: sig + " pending call succeeded", Detail: "a call pending on a silent link returned a result"})
			} else if !errors.As(err, &ce) {
				res.Add(fw.Finding{Kind: "monitor", Signature: sig + " wrong error", Detail: fmt.Sprintf("the pending call failed with %T (%v), not the typed connection error", err, err)})
			}
			if el := time.Since(t0); el > bound {
				res.Add(fw.Finding{Kind: "monitor", Signature: sig + " slow detection", Detail: fmt.Sprintf("the pending call failed %v after the peer fell silent (bound %v)", el, bound)})
			}
		case <-time.After(bound + time.Second):
			res.Add(fw.Finding{Kind: "monitor", Signature: sig + " silence not detected", Detail: fmt.Sprintf("%v after the peer fell silent the pending call has still not failed (timeout %v)", bound+time.Second, p.T)})
		}
	}
	// reconnection starts: a second connection is accepted within the bound
	deadline := time.Now().Add(bound + time.Second)
	for time.Now().Before(deadline) && e.PX.Accepted() < n0+1 {
		time.Sleep(time.Millisecond)
	}
	if e.PX.Accepted() < n0+1 {
		res.Add(fw.Finding{Kind: "monitor", Signature: sig + " no reconnect", Detail: fmt.Sprintf("the client did not start reconnecting within %v of the peer falling silent", bound+time.Second)})
	} else if el := time.Since(t0); el > bound+50*time.Millisecond {
		res.Add(fw.Finding{Kind: "monitor", Signature: sig + " slow reconnect", Detail: fmt.Sprintf("the client re-dialled %v after the peer fell silent (bound %v)", el, bound)})
	}
	e.H.C.Release(base + 2)
	e.RT.Log("harness.closing")
	scen.WithTimeout(3*time.Second, closer)
	if err := check(d, res, e, p.T, true, sig); err != nil {
		return err
	}
	res.Count("silent." + when)
	res.Eval(true, []interface{}{"silent", p.P.String(), p.T.String(), when})
	return nil
}

var _ = json.Marshal

// healNearTimeout: a connection is lost and the redial succeeds shortly before the idle timer — armed when the
// old connection was lost — is due.  The fresh connection is healthy and idle: it must not be closed by a
// timer that measures the silence of its predecessor.
func healNearTimeout(res *fw.Result, seed int64, base int) error {
	const P, T = 100 * time.Millisecond, 600 * time.Millisecond
	e, err := scen.NewEnv(seed+77, 0, jsonrpc.WithServerPingInterval(5*time.Second))
	if err != nil {
		return err
	}
	defer e.Close()
	ctx, cancel := context.WithCancel(context.Background())
	defer cancel()
	cl, closer, err := e.Client(ctx, jsonrpc.WithPingInterval(P), jsonrpc.WithTimeout(T), jsonrpc.WithReconnectBackoff(10*time.Millisecond, 20*time.Millisecond))
	if err != nil {
		return err
	}
	defer scen.WithTimeout(3*time.Second, closer)
	if err := scen.WarmUp(func() error { _, err := cl.Count(ctx, base+1); return err }); err != nil {
		return fmt.Errorf("warm-up call failed: %v", err)
	}
	sig := "redial completes shortly before the old idle timer is due"
	c := map[string]interface{}{"scenario": "heal-near-timeout", "ping": P.String(), "timeout": T.String()}
	probe := scen.StartLagProbe()
	n0 := e.PX.Accepted()
	e.PX.SetRefuse(true)
	t0 := time.Now()
	e.PX.Cut(0, "rst")
	time.Sleep(T - 70*time.Millisecond - time.Since(t0))
	e.PX.SetRefuse(false)
	// the second connection
	for w := 0; w < 400 && e.PX.Accepted() < n0+1; w++ {
		time.Sleep(time.Millisecond)
	}
	healedAt := time.Since(t0)
	// idle for a timeout and a half: no third connection may appear
	time.Sleep(T + T/2)
	lag := probe.Stop()
	n := e.PX.Accepted()
	res.Count("heal-near-timeout")
	res.Eval(true, []interface{}{"heal-near-timeout"})
	switch {
	case lag > T/6 || healedAt > T-20*time.Millisecond || healedAt < T-P:
		// the environment did not deliver the schedule (the redial must land inside the last ping interval before the timer)
		res.Count("heal-near-timeout.inconclusive-schedule")
	case n != n0+1:
		res.Add(fw.Finding{Kind: "monitor", Signature: sig + " healthy link dropped",
			Detail: fmt.Sprintf("the link re-established %v after the loss (timeout %v, ping %v) was healthy and idle, yet %d further connection(s) were opened within the next %v: the idle timer armed at the loss closed the new connection", healedAt.Round(time.Millisecond), T, P, n-n0-1, T+T/2), Case: c})
	}
	return nil
}

// stalledSubscriber: a subscriber that does not read for several timeouts while tens of thousands of values
// are queued for it.  The link is healthy and must stay up: pongs keep being processed, other calls keep
// working, and when the subscriber resumes it finds every value.
func stalledSubscriber(res *fw.Result, seed int64, base int) error {
	const P, T, N = 100 * time.Millisecond, 500 * time.Millisecond, 70000
	e, err := scen.NewEnv(seed+88, 0, jsonrpc.WithServerPingInterval(5*time.Second))
	if err != nil {
		return err
	}
	defer scen.WithTimeout(5*time.Second, e.Close) // (a wedged endpoint must not wedge the check)
	ctx, cancel := context.WithCancel(context.Background())
	defer cancel()
	cl, closer, err := e.Client(ctx, jsonrpc.WithPingInterval(P), jsonrpc.WithTimeout(T), jsonrpc.WithReconnectBackoff(10*time.Millisecond, 20*time.Millisecond))
	if err != nil {
		return err
	}
	defer scen.WithTimeout(3*time.Second, closer)
	sig := "subscriber stalled with a long backlog"
	c := map[string]interface{}{"scenario": "stalled-subscriber", "values": N, "timeout": T.String()}
	probe := scen.StartLagProbe()
	ch, err := cl.Sub(ctx, base+1, N)
	if err != nil {
		return fmt.Errorf("stalled-subscriber: subscribing failed: %v", err)
	}
	// do not read; the producer runs as fast as the library takes its values
	deadline := time.Now().Add(6 * time.Second)
	for time.Now().Before(deadline) && !e.H.C.Exited(base+1) {
		time.Sleep(5 * time.Millisecond)
	}
	produced := e.H.C.Exited(base + 1)
	time.Sleep(2 * T)
	lag := probe.Stop()
	n := e.PX.Accepted()
	// (a cancelled call still waits for its response: do not let a wedged connection wedge the scenario)
	var v int
	cerr := fmt.Errorf("no answer within 3s")
	cdone := make(chan struct{})
	go func() {
		defer close(cdone)
		cctx, cc := context.WithTimeout(ctx, 2*time.Second)
		defer cc()
		x, err := cl.Count(cctx, base+2)
		v, cerr = x, err
	}()
	select {
	case <-cdone:
	case <-time.After(3 * time.Second):
	}
	got := 0
	closed := false
	drain := time.After(8 * time.Second)
loop:
	for {
		select {
		case _, ok := <-ch:
			if !ok {
				closed = true
				break loop
			}
			got++
		case <-drain:
			break loop
		}
	}
	res.Count("stalled-subscriber")
	res.Eval(true, []interface{}{"stalled-subscriber"})
	if lag > T/4 {
		// (scen.LagProbe: the scheduler, or the hook runtime itself, held goroutines of the library for a
		// sizeable part of the timeout — with some 700 000 hook events recorded in this scenario the second
		// is the likelier one; the idle timer does not wait for them)
		res.Count("stalled-subscriber.inconclusive-slow-environment")
		res.Note(fmt.Sprintf("%s: inconclusive — goroutines of the library were held for up to %v (scheduling lag or time inside the hook runtime) with timeout %v; the client connected %d time(s)", sig, lag, T, n))
		return nil
	}
	switch {
	case n != 1:
		res.Add(fw.Finding{Kind: "monitor", Signature: sig + " healthy link dropped", Detail: fmt.Sprintf("the client connected %d times while a subscriber was not reading: a healthy link was dropped", n), Case: c})
	case !produced:
		res.Add(fw.Finding{Kind: "monitor", Signature: sig + " producer blocked", Detail: fmt.Sprintf("6s after subscribing the handler has not been able to send its %d values although the library buffers for a subscriber that does not read", N), Case: c})
	case cerr != nil || v != base+2:
		res.Add(fw.Finding{Kind: "monitor", Signature: sig + " other call fails", Detail: fmt.Sprintf("an ordinary call on the same connection failed: %d, %v", v, cerr), Case: c})
	case !closed || got != N:
		res.Add(fw.Finding{Kind: "monitor", Signature: sig + " values lost", Detail: fmt.Sprintf("the subscriber, once it resumed, received %d of %d values (closed=%v)", got, N, closed), Case: c})
	}
	return nil
}

package c17

// slowPeer: a healthy link whose peer is briefly slow to read.  The peer (a bare gorilla endpoint) pings
// every 100 ms and does not read for about 2.2 s while the client sends a request far larger than the
// socket buffers: the client's data write blocks on the full socket, the peer's pings arrive meanwhile and
// the client's ping handler cannot get at the connection's writer to answer them within its one-second
// deadline.  Nothing is wrong with the link — the peer then reads on and answers — so the library must
// neither drop the connection nor fail the call (C17, first clause: "calls of any duration never make
// the library drop the connection").

import (
	"context"
	"encoding/json"
	"fmt"
	"net/http"
	"net/http/httptest"
	"strings"
	"sync/atomic"
	"time"

	jsonrpc "github.com/filecoin-project/go-jsonrpc"
	"github.com/gorilla/websocket"

	"verif/harness/internal/fw"
)

func slowPeer(res *fw.Result) error {
	var upgrades int64
	var peerFault, peerEnd atomic.Value // what the peer itself saw go wrong, if anything
	up := websocket.Upgrader{ReadBufferSize: 1024}
	ts := httptest.NewServer(http.HandlerFunc(func(w http.ResponseWriter, r *http.Request) {
		conn, err := up.Upgrade(w, r, nil)
		if err != nil {
			return
		}
		defer conn.Close()
		if atomic.AddInt64(&upgrades, 1) > 1 {
			// a redial: behave like a healthy server that simply answers
		}
		stop := make(chan struct{})
		defer close(stop)
		// the peer itself must never be the one that gives up: its control writes get a deadline far beyond
		// anything this scenario needs (gorilla marks a connection unusable once a control write times out,
		// and its default ping handler then fails the read side), and their failures are recorded
		patient := func() time.Time { return time.Now().Add(25 * time.Second) }
		conn.SetPingHandler(func(d string) error {
			if err := conn.WriteControl(websocket.PongMessage, []byte(d), patient()); err != nil {
				peerFault.Store(fmt.Sprintf("pong write: %v", err))
			}
			return nil
		})
		go func() {
			t := time.NewTicker(100 * time.Millisecond)
			defer t.Stop()
			for {
				select {
				case <-t.C:
					if err := conn.WriteControl(websocket.PingMessage, []byte("p"), patient()); err != nil {
						select {
						case <-stop:
						default:
							peerFault.Store(fmt.Sprintf("ping write: %v", err))
						}
					}
				case <-stop:
					return
				}
			}
		}()
		time.Sleep(2200 * time.Millisecond) // slow to read, not dead
		for {
			_, data, err := conn.ReadMessage()
			if err != nil {
				peerEnd.Store(err.Error())
				return
			}
			var rq struct {
				ID     interface{} `json:"id"`
				Method string      `json:"method"`
			}
			if json.Unmarshal(data, &rq) != nil || rq.Method == "" || rq.ID == nil {
				continue
			}
			idb, _ := json.Marshal(rq.ID)
			conn.WriteMessage(websocket.TextMessage, []byte(`{"jsonrpc":"2.0","id":`+string(idb)+`,"result":4242}`))
		}
	}))
	defer ts.Close()
	var cl struct {
		Put func(context.Context, string) (int, error)
	}
	closer, err := jsonrpc.NewMergeClient(context.Background(), "ws"+strings.TrimPrefix(ts.URL, "http"), "SP", []interface{}{&cl}, nil,
		jsonrpc.WithTimeout(30*time.Second), jsonrpc.WithPingInterval(5*time.Second), jsonrpc.WithReconnectBackoff(50*time.Millisecond, 200*time.Millisecond))
	if err != nil {
		return err
	}
	type out struct {
		v   int
		err error
	}
	ch := make(chan out, 1)
	big := strings.Repeat("z", 48<<20)
	go func() { v, err := cl.Put(context.Background(), big); ch <- out{v, err} }()
	sig := "healthy link, peer slow to read for 2.2s while a 48 MiB request is written"
	c := map[string]interface{}{"scenario": "slow-peer", "peer_ping_ms": 100, "peer_pause_ms": 2200, "request_bytes": 48 << 20, "timeout": "30s"}
	failed := false
	select {
	case o := <-ch:
		if o.err != nil || o.v != 4242 {
			failed = true
			if pf := peerFault.Load(); pf != nil {
				// the peer's own writes failed (a starved process): the link was not healthy, nothing to conclude
				res.Count("slowpeer.inconclusive-peer-failed")
				res.Sample(map[string]interface{}{"scenario": "slow-peer", "inconclusive": pf})
			} else {
				res.Add(fw.Finding{Kind: "monitor", Signature: sig + " call failed", Detail: fmt.Sprintf("the call returned (%d, %v) although the link was healthy throughout (timeout 30s, the peer kept pinging; the peer's read loop ended with: %v)", o.v, o.err, peerEnd.Load()), Case: c})
			}
		}
	case <-time.After(20 * time.Second):
		failed = true
		res.Add(fw.Finding{Kind: "monitor", Signature: sig + " call hangs", Detail: fmt.Sprintf("the call did not return within 20s (peer: fault %v, end %v)", peerFault.Load(), peerEnd.Load()), Case: c})
	}
	if n := atomic.LoadInt64(&upgrades); n != 1 && !(failed && peerFault.Load() != nil) {
		res.Add(fw.Finding{Kind: "monitor", Signature: sig + " healthy link dropped", Detail: fmt.Sprintf("the client connected %d times: it dropped a healthy link and redialled", n), Case: c})
	}
	done := make(chan struct{})
	go func() { closer(); close(done) }()
	select {
	case <-done:
	case <-time.After(3 * time.Second):
	}
	res.Count("slowpeer")
	res.Eval(true, []interface{}{"c17", "slow-peer"})
	return nil
}

package c17

// slowPeer: a healthy link whose peer is briefly slow to read.  The peer (a bare gorilla endpoint) pings
// every 100 ms and does not read for about 2.2 s while the client sends a request far larger than the
// socket buffers: the client's data write blocks on the full socket, the peer's pings arrive meanwhile and
// the client's ping handler cannot get at the connection's writer to answer them within its one-second
// deadline.  Nothing is wrong with the link — the peer then reads on and answers — so the library must
// neither drop the connection nor fail the call (C17, first clause: "calls of any duration never make
// the library drop the connection").

import (
	"context"
	"encoding/json"
	"fmt"
	"net/http"
	"net/http/httptest"
	"strings"
	"sync/atomic"
	"time"

	jsonrpc "github.com/filecoin-project/go-jsonrpc"
	"github.com/gorilla/websocket"

	"verif/harness/internal/fw"
)

func slowPeer(res *fw.Result) error {
	var upgrades int64
	up := websocket.Upgrader{ReadBufferSize: 1024}
	ts := httptest.NewServer(http.HandlerFunc(func(w http.ResponseWriter, r *http.Request) {
		conn, err := up.Upgrade(w, r, nil)
		if err != nil {
			return
		}
		defer conn.Close()
		if atomic.AddInt64(&upgrades, 1) > 1 {
			// a redial: behave like a healthy server that simply answers
		}
		stop := make(chan struct{})
		defer close(stop)
		go func() {
			t := time.NewTicker(100 * time.Millisecond)
			defer t.Stop()
			for {
				select {
				case <-t.C:
					conn.WriteControl(websocket.PingMessage, []byte("p"), time.Now().Add(time.Second))
				case <-stop:
					return
				}
			}
		}()
		time.Sleep(2200 * time.Millisecond) // slow to read, not dead
		for {
			_, data, err := conn.ReadMessage()
			if err != nil {
				return
			}
			var rq struct {
				ID     interface{} `json:"id"`
				Method string      `json:"method"`
			}
			if json.Unmarshal(data, &rq) != nil || rq.Method == "" || rq.ID == nil {
				continue
			}
			idb, _ := json.Marshal(rq.ID)
			conn.WriteMessage(websocket.TextMessage, []byte(`{"jsonrpc":"2.0","id":`+string(idb)+`,"result":4242}`))
		}
	}))
	defer ts.Close()
	var cl struct {
		Put func(context.Context, string) (int, error)
	}
	closer, err := jsonrpc.NewMergeClient(context.Background(), "ws"+strings.TrimPrefix(ts.URL, "http"), "SP", []interface{}{&cl}, nil,
		jsonrpc.WithTimeout(30*time.Second), jsonrpc.WithPingInterval(5*time.Second), jsonrpc.WithReconnectBackoff(50*time.Millisecond, 200*time.Millisecond))
	if err != nil {
		return err
	}
	type out struct {
		v   int
		err error
	}
	ch := make(chan out, 1)
	big := strings.Repeat("z", 48<<20)
	go func() { v, err := cl.Put(context.Background(), big); ch <- out{v, err} }()
	sig := "healthy link, peer slow to read for 2.2s while a 48 MiB request is written"
	c := map[string]interface{}{"scenario": "slow-peer", "peer_ping_ms": 100, "peer_pause_ms": 2200, "request_bytes": 48 << 20, "timeout": "30s"}
	select {
	case o := <-ch:
		if o.err != nil || o.v != 4242 {
			res.Add(fw.Finding{Kind: "monitor", Signature: sig + " call failed", Detail: fmt.Sprintf("the call returned (%d, %v) although the link was healthy throughout (timeout 30s, the peer kept pinging)", o.v, o.err), Case: c})
		}
	case <-time.After(20 * time.Second):
		res.Add(fw.Finding{Kind: "monitor", Signature: sig + " call hangs", Detail: "the call did not return within 20s", Case: c})
	}
	if n := atomic.LoadInt64(&upgrades); n != 1 {
		res.Add(fw.Finding{Kind: "monitor", Signature: sig + " healthy link dropped", Detail: fmt.Sprintf("the client connected %d times: it dropped a healthy link and redialled", n), Case: c})
	}
	done := make(chan struct{})
	go func() { closer(); close(done) }()
	select {
	case <-done:
	case <-time.After(3 * time.Second):
	}
	res.Count("slowpeer")
	res.Eval(true, []interface{}{"c17", "slow-peer"})
	return nil
}

package c16

// StaleAnswer: correlation of reverse calls across a reconnect.  A reconnecting client is serving a reverse
// call whose handler outlives the connection it arrived on (it does not look at its context).  The client
// redials; on the new connection the server makes another reverse call (the server-side reverse client of
// the new connection numbers its requests from the start again).  Then the old handler returns.  Its answer
// belongs to a request of a connection that no longer exists: the pending reverse call of the new connection
// must get its own answer (or an error), never that one.

import (
	"context"
	"fmt"
	"strings"
	"time"

	jsonrpc "github.com/filecoin-project/go-jsonrpc"

	"verif/harness/internal/c14"
	"verif/harness/internal/corr"
	"verif/harness/internal/fw"
	"verif/harness/internal/hk"
	"verif/harness/internal/px"
	"verif/harness/internal/scen"
)

// EpochEvents projects the trace of one reconnecting endpoint on the alphabet of Jrpc.Epoch.
func EpochEvents(evs []hk.Event, conn int) []map[string]interface{} {
	ids := map[string]int{}
	idOf := func(v interface{}) int {
		k := fmt.Sprint(v)
		if _, ok := ids[k]; !ok {
			ids[k] = len(ids) + 1
		}
		return ids[k]
	}
	num := func(v interface{}) int {
		switch x := v.(type) {
		case uint64:
			return int(x)
		case int:
			return x
		case float64:
			return int(x)
		}
		return -1
	}
	var out []map[string]interface{}
	for _, e := range evs {
		if e.Conn != conn {
			continue
		}
		switch e.Site {
		case "fe.call":
			if e.KV["id"] == nil {
				continue // notification: nothing is registered, nothing is written
			}
			out = append(out, map[string]interface{}{"e": "req", "id": idOf(e.KV["id"]), "epoch": num(e.KV["epoch"])})
		case "reconn.begin":
			out = append(out, map[string]interface{}{"e": "loss"})
		case "rc.swap":
			out = append(out, map[string]interface{}{"e": "swap"})
		case "w.begin":
			if e.KV["site"] == "nextWriter" {
				out = append(out, map[string]interface{}{"e": "write", "epoch": num(e.KV["epoch"])})
			}
		case "w.stale":
			out = append(out, map[string]interface{}{"e": "stale", "epoch": num(e.KV["epoch"])})
		case "h.done":
			if e.KV["keep"] == false {
				out = append(out, map[string]interface{}{"e": "done", "id": idOf(e.KV["id"]), "epoch": num(e.KV["epoch"])})
			}
		case "fe.cancel":
			out = append(out, map[string]interface{}{"e": "cancel", "id": idOf(e.KV["id"]), "found": e.KV["found"] == true})
		}
	}
	return out
}

// CheckEpoch replays the serving side of the client endpoint through Jrpc.Epoch.
func CheckEpoch(d *fw.Driver, res *fw.Result, evs []hk.Event, sig string) error {
	if d == nil {
		return nil
	}
	conn := corr.ClientConn(evs)
	mes := EpochEvents(evs, conn)
	ask := map[string]interface{}{"op": "epoch", "events": mes}
	model, err := d.Ask(ask)
	if err != nil {
		return err
	}
	res.Traces++
	res.Events += len(mes)
	mm, _ := model.(map[string]interface{})
	if mm["accepted"] != true {
		res.Add(fw.Finding{Kind: "tie", Signature: sig + " epoch event refused", Detail: fmt.Sprintf("the model refuses the serving-side trace of the reconnecting endpoint: %v", mm["why"]), Model: model, Case: ask})
	}
	var kinds []string
	for _, m := range mes {
		kinds = append(kinds, fmt.Sprint(m["e"]))
	}
	res.SampleKeep(map[string]interface{}{"scenario": sig, "epoch_trace": strings.Join(kinds, " "), "model": model})
	return nil
}

func StaleAnswer(d *fw.Driver, res *fw.Result, seed int64, kind string, base int) error {
	e, err := scen.NewEnv(seed+int64(base), 0, jsonrpc.WithReverseClient[RevAPI]("Rev"))
	if err != nil {
		return err
	}
	defer e.Close()
	rs := newRS(e.RT)
	e.Srv.Register("RS", rs)
	ctx, cancel := context.WithCancel(context.Background())
	defer cancel()
	api := &FwdAPI{}
	h := &RevH{ID: 7, C: newCtl(), Fwd: api}
	closer, err := jsonrpc.NewMergeClient(ctx, e.WSURL(), "RS", []interface{}{api}, nil,
		jsonrpc.WithClientHandler("Rev", h), jsonrpc.WithReconnectBackoff(10*time.Millisecond, 30*time.Millisecond))
	if err != nil {
		return err
	}
	defer scen.WithTimeout(3*time.Second, closer)
	sig := fmt.Sprintf("reverse answer of the previous connection kind=%s", kind)
	c := map[string]interface{}{"scenario": "stale-reverse-answer", "kind": kind}
	type ret struct {
		out Out
		err error
	}
	run := func(tok int) chan ret {
		ch := make(chan ret, 1)
		go func() {
			cctx, cc := context.WithTimeout(ctx, 10*time.Second)
			defer cc()
			o, err := api.Run(cctx, Spec{Tok: tok, Method: "Stubborn", N: 1, Bg: true})
			ch <- ret{o, err}
		}()
		return ch
	}
	// first connection: a reverse call whose handler will outlive it
	first := run(base + 1)
	arg1 := (base+1)*1000 + 0
	if !h.C.waitEntered(arg1, 3*time.Second) {
		return fmt.Errorf("stale-answer: the first reverse call did not reach the client handler")
	}
	n0 := e.PX.Accepted()
	e.PX.Cut(0, kind)
	// the client heals
	healed := false
	for w := 0; w < 400 && !healed; w++ {
		if e.PX.Accepted() > n0 {
			if v, err := api.Add(20, 22); err == nil && v == 42 {
				healed = true
				break
			}
		}
		time.Sleep(5 * time.Millisecond)
	}
	if !healed {
		res.Add(fw.Finding{Kind: "monitor", Signature: sig + " no heal", Detail: "the client did not work again after the loss", Case: c})
		h.C.Release(arg1)
		return nil
	}
	// second connection: another reverse call, pending while the old handler returns
	second := run(base + 2)
	arg2 := (base+2)*1000 + 0
	if !h.C.waitEntered(arg2, 3*time.Second) {
		res.Add(fw.Finding{Kind: "monitor", Signature: sig + " reverse call after heal not delivered", Detail: "a reverse call made on the re-established connection did not reach the client handler within 3s", Case: c})
		h.C.Release(arg1)
		return nil
	}
	h.C.Release(arg1) // the old handler returns now: its answer belongs to the dead connection
	time.Sleep(150 * time.Millisecond)
	h.C.Release(arg2)
	select {
	case r := <-second:
		switch {
		case r.err != nil:
			res.Add(fw.Finding{Kind: "monitor", Signature: sig + " forward call failed", Detail: fmt.Sprintf("the forward call on the healthy new connection failed: %v", r.err), Case: c})
		case len(r.out.Calls) != 1:
			res.Add(fw.Finding{Kind: "monitor", Signature: sig + " no reverse call", Detail: fmt.Sprintf("unexpected outcome %+v", r.out), Case: c})
		case r.out.Calls[0].Err == "" && r.out.Calls[0].Val == ident(h.ID, arg1):
			res.Add(fw.Finding{Kind: "monitor", Signature: sig + " delivered to a call of the new connection",
				Detail: fmt.Sprintf("the reverse call Stubborn(%d) made on the new connection returned %d, which is the answer to Stubborn(%d) made on the previous connection; its own answer is %d", arg2, r.out.Calls[0].Val, arg1, ident(h.ID, arg2)), Case: c})
		case r.out.Calls[0].Err == "" && r.out.Calls[0].Val != ident(h.ID, arg2):
			res.Add(fw.Finding{Kind: "monitor", Signature: sig + " wrong value", Detail: fmt.Sprintf("Stubborn(%d) returned %d, want %d", arg2, r.out.Calls[0].Val, ident(h.ID, arg2)), Case: c})
		case r.out.Calls[0].Err != "":
			res.Add(fw.Finding{Kind: "monitor", Signature: sig + " reverse call failed", Detail: fmt.Sprintf("the reverse call on the healthy new connection failed: %s", r.out.Calls[0].Err), Case: c})
		}
	case <-time.After(6 * time.Second):
		res.Add(fw.Finding{Kind: "monitor", Signature: sig + " blocked", Detail: "the forward call on the new connection did not return within 6s of its reverse handler's release", Case: c})
	}
	// the call of the first connection ended with an error (its client was gone), never with a value of the second
	select {
	case r := <-first:
		if r.err == nil && len(r.out.Calls) == 1 && r.out.Calls[0].Err == "" && r.out.Calls[0].Val != ident(h.ID, arg1) {
			res.Add(fw.Finding{Kind: "monitor", Signature: sig + " first call wrong value", Detail: fmt.Sprintf("Stubborn(%d) returned %d", arg1, r.out.Calls[0].Val), Case: c})
		}
	case <-time.After(3 * time.Second):
		// the forward call of the first connection is failed by the client's sweep; it cannot still be pending
		res.Add(fw.Finding{Kind: "monitor", Signature: sig + " first forward call blocked", Detail: "the forward call that was pending when the connection was lost has not returned", Case: c})
	}
	res.Count("stale-answer." + kind)
	res.Eval(true, []interface{}{"stale-answer", kind})
	time.Sleep(20 * time.Millisecond) // the returning handlers log their last events
	c14.CheckAnswers(res, e.PX.Frames(), sig)
	return CheckEpoch(d, res, e.RT.Events(), sig)
}

// StaleCancel: cancellation of a reverse call across a reconnect.  As in StaleAnswer a handler of the previous
// connection returns while a reverse call of the new connection — carrying the same request id — is running;
// then the server cancels that call.  The cancellation must still reach its handler: the finished handler of
// the dead connection has no business with the new connection's bookkeeping.
func StaleCancel(d *fw.Driver, res *fw.Result, seed int64, kind string, base int) error {
	e, err := scen.NewEnv(seed+int64(base), 0, jsonrpc.WithReverseClient[RevAPI]("Rev"))
	if err != nil {
		return err
	}
	defer e.Close()
	rs := newRS(e.RT)
	e.Srv.Register("RS", rs)
	ctx, cancel := context.WithCancel(context.Background())
	defer cancel()
	api := &FwdAPI{}
	h := &RevH{ID: 8, C: newCtl(), Fwd: api}
	closer, err := jsonrpc.NewMergeClient(ctx, e.WSURL(), "RS", []interface{}{api}, nil,
		jsonrpc.WithClientHandler("Rev", h), jsonrpc.WithReconnectBackoff(10*time.Millisecond, 30*time.Millisecond))
	if err != nil {
		return err
	}
	defer scen.WithTimeout(3*time.Second, closer)
	sig := fmt.Sprintf("cancel of a reverse call after a reconnect kind=%s", kind)
	c := map[string]interface{}{"scenario": "stale-reverse-cancel", "kind": kind}
	arg1, arg2 := (base+1)*1000, (base+2)*1000
	go func() {
		cctx, cc := context.WithTimeout(ctx, 10*time.Second)
		defer cc()
		api.Run(cctx, Spec{Tok: base + 1, Method: "Stubborn", N: 1, Bg: true})
	}()
	if !h.C.waitEntered(arg1, 3*time.Second) {
		return fmt.Errorf("stale-cancel: the first reverse call did not reach the client handler")
	}
	n0 := e.PX.Accepted()
	e.PX.Cut(0, kind)
	healed := false
	for w := 0; w < 400 && !healed; w++ {
		if e.PX.Accepted() > n0 {
			if v, err := api.Add(20, 22); err == nil && v == 42 {
				healed = true
				break
			}
		}
		time.Sleep(5 * time.Millisecond)
	}
	if !healed {
		res.Add(fw.Finding{Kind: "monitor", Signature: sig + " no heal", Detail: "the client did not work again after the loss", Case: c})
		h.C.Release(arg1)
		return nil
	}
	// the second reverse call runs with the server handler's context, which the caller can cancel
	cctx2, cancel2 := context.WithCancel(ctx)
	defer cancel2()
	done2 := make(chan struct{})
	go func() {
		defer close(done2)
		api.Run(cctx2, Spec{Tok: base + 2, Method: "Slow", N: 1})
	}()
	if !h.C.waitEntered(arg2, 3*time.Second) {
		res.Add(fw.Finding{Kind: "monitor", Signature: sig + " reverse call after heal not delivered", Detail: "a reverse call made on the re-established connection did not reach the client handler within 3s", Case: c})
		h.C.Release(arg1)
		return nil
	}
	h.C.Release(arg1) // the handler of the dead connection returns
	time.Sleep(100 * time.Millisecond)
	if how := h.C.How(arg2); how != "" {
		res.Add(fw.Finding{Kind: "monitor", Signature: sig + " spurious end", Detail: fmt.Sprintf("the running reverse handler of the new connection ended (%s) when the old connection's handler returned, although nobody cancelled it", how), Case: c})
	}
	cancel2() // forward call cancelled -> server handler's context -> its reverse call -> xrpc.cancel to the client
	dl := time.Now().Add(2 * time.Second)
	for time.Now().Before(dl) && h.C.How(arg2) == "" {
		time.Sleep(time.Millisecond)
	}
	if how := h.C.How(arg2); how != "cancelled" {
		res.Add(fw.Finding{Kind: "monitor", Signature: sig + " cancellation lost",
			Detail: fmt.Sprintf("2s after the caller cancelled, the reverse handler of the new connection has not seen its context cancelled (state %q): the handler of the previous connection, returning late, removed the bookkeeping of the call that now carries its request id", how), Case: c})
	}
	h.C.Release(arg2)
	select {
	case <-done2:
	case <-time.After(3 * time.Second):
	}
	res.Count("stale-cancel." + kind)
	res.Eval(true, []interface{}{"stale-cancel", kind})
	time.Sleep(20 * time.Millisecond)
	return CheckEpoch(d, res, e.RT.Events(), sig)
}

// ReverseSubAfterLoss: a reconnecting client serves a reverse subscription; the connection is lost and the
// handler (which does not watch its context) emits a value while the client is between connections; the
// client redials.  Reverse subscriptions on the new connection must be answered like any other reverse call:
// the goroutine that forwards channel values belongs to the client, not to one of its connections.
func ReverseSubAfterLoss(res *fw.Result, seed int64, base int) error {
	e, err := scen.NewEnv(seed+int64(base), 0, jsonrpc.WithReverseClient[RevAPI]("Rev"))
	if err != nil {
		return err
	}
	defer e.Close()
	rs := newRS(e.RT)
	e.Srv.Register("RS", rs)
	ctx, cancel := context.WithCancel(context.Background())
	defer cancel()
	api := &FwdAPI{}
	h := &RevH{ID: 9, C: newCtl(), Fwd: api}
	closer, err := jsonrpc.NewMergeClient(ctx, e.WSURL(), "RS", []interface{}{api}, nil,
		jsonrpc.WithClientHandler("Rev", h), jsonrpc.WithReconnectBackoff(40*time.Millisecond, 80*time.Millisecond))
	if err != nil {
		return err
	}
	defer scen.WithTimeout(3*time.Second, closer)
	sig := "reverse subscription after a loss"
	c := map[string]interface{}{"scenario": "reverse-sub-after-loss"}
	run := func(tok int) (Out, error) {
		cctx, cc := context.WithTimeout(ctx, 8*time.Second)
		defer cc()
		return api.Run(cctx, Spec{Tok: tok, Method: "Ticks", N: 1, Bg: true})
	}
	arg1, arg2 := (base+1)*1000, (base+2)*1000
	h.C.feed(arg1) <- 11
	o, err := run(base + 1)
	if err != nil || len(o.Calls) != 1 || o.Calls[0].Err != "" || o.Calls[0].Val != 11 {
		return fmt.Errorf("reverse-sub-after-loss: the first reverse subscription did not work: %+v %v", o, err)
	}
	// the connection goes away and stays away for a moment; meanwhile the old producer emits
	e.PX.SetRefuse(true)
	n0 := e.PX.Accepted()
	e.PX.Cut(0, "rst")
	time.Sleep(30 * time.Millisecond)
	h.C.feed(arg1) <- 12
	h.C.feed(arg1) <- 13
	time.Sleep(60 * time.Millisecond)
	e.PX.SetRefuse(false)
	healed := false
	for w := 0; w < 400 && !healed; w++ {
		if e.PX.Accepted() > n0 {
			if v, err := api.Add(20, 22); err == nil && v == 42 {
				healed = true
				break
			}
		}
		time.Sleep(5 * time.Millisecond)
	}
	if !healed {
		res.Add(fw.Finding{Kind: "monitor", Signature: sig + " no heal", Detail: "the client did not work again after the loss", Case: c})
		close(h.C.feed(arg1))
		return nil
	}
	// an ordinary reverse call works …
	if o, err := func() (Out, error) {
		cctx, cc := context.WithTimeout(ctx, 4*time.Second)
		defer cc()
		return api.Run(cctx, Spec{Tok: base + 3, Method: "Ident", N: 1})
	}(); err != nil || len(o.Calls) != 1 || o.Calls[0].Err != "" {
		res.Add(fw.Finding{Kind: "monitor", Signature: sig + " plain reverse call fails", Detail: fmt.Sprintf("after the reconnect a plain reverse call failed: %+v %v", o, err), Case: c})
	}
	// … and so must a reverse subscription; while it is open the producer of the old connection's
	// subscription, still alive, emits once more: that value belongs to nobody on this connection
	h.C.feed(arg2) <- 21
	done := make(chan struct{})
	var o2 Out
	var err2 error
	go func() {
		defer close(done)
		cctx, cc := context.WithTimeout(ctx, 8*time.Second)
		defer cc()
		o2, err2 = api.Run(cctx, Spec{Tok: base + 2, Method: "Ticks2", N: 1, Bg: true})
	}()
	fed := make(chan struct{})
	go func() {
		defer close(fed)
		if h.C.waitEntered(arg2, 3*time.Second) {
			time.Sleep(40 * time.Millisecond)
			h.C.feed(arg1) <- 111
			time.Sleep(40 * time.Millisecond)
			h.C.feed(arg2) <- 22
		}
	}()
	defer func() { <-fed }() // (runs before the feeds are closed below only on early returns; the normal path waits explicitly)
	select {
	case <-done:
		if err2 != nil || len(o2.Calls) != 1 || o2.Calls[0].Err != "" {
			res.Add(fw.Finding{Kind: "monitor", Signature: sig + " not answered", Detail: fmt.Sprintf("after the reconnect a reverse subscription failed: %+v %v", o2, err2), Case: c})
		} else if o2.Calls[0].Val != 21*1000+22 {
			res.Add(fw.Finding{Kind: "monitor", Signature: sig + " foreign value", Detail: fmt.Sprintf("the reverse subscription of the new connection delivered %d and %d; its producer sent 21 and 22 (111 was sent by the producer of the previous connection's subscription)", o2.Calls[0].Val/1000, o2.Calls[0].Val%1000), Case: c})
		}
	case <-time.After(7 * time.Second):
		res.Add(fw.Finding{Kind: "monitor", Signature: sig + " not answered", Detail: "a reverse subscription made on the re-established connection was never answered (no response frame for its request): the forwarding goroutine of the client ended with the previous connection", Case: c})
	}
	<-fed
	close(h.C.feed(arg1))
	close(h.C.feed(arg2))
	res.Count("reverse-sub-after-loss")
	res.Eval(true, []interface{}{"reverse-sub-after-loss"})
	return nil
}

// NoHandlerClient: a reverse call to a client that registered no handlers at all is a call to a method that
// does not exist there: it must fail with method-not-found like on any other client, not block.
func NoHandlerClient(res *fw.Result, seed int64, base int) error {
	w, err := newWorld(seed+int64(base), true)
	if err != nil {
		return err
	}
	defer w.close()
	c, err := w.connect(false)
	if err != nil {
		return err
	}
	sig := "reverse call to a client without handlers"
	done := make(chan struct{})
	var out Out
	var rerr error
	go func() {
		defer close(done)
		ctx, cc := context.WithTimeout(context.Background(), 8*time.Second)
		defer cc()
		out, rerr = c.api.Run(ctx, Spec{Tok: base + 1, Method: "Ident", N: 1, Bg: true})
	}()
	select {
	case <-done:
		switch {
		case rerr != nil:
			res.Add(fw.Finding{Kind: "monitor", Signature: sig + " forward call failed", Detail: fmt.Sprint(rerr)})
		case len(out.Calls) != 1 || out.Calls[0].Err == "":
			res.Add(fw.Finding{Kind: "monitor", Signature: sig + " no error", Detail: fmt.Sprintf("unexpected outcome %+v", out)})
		case out.Calls[0].TookMs > 2000:
			res.Add(fw.Finding{Kind: "monitor", Signature: sig + " slow failure", Detail: fmt.Sprintf("the reverse call took %d ms to fail", out.Calls[0].TookMs)})
		}
	case <-time.After(5 * time.Second):
		res.Add(fw.Finding{Kind: "monitor", Signature: sig + " blocks", Detail: "a reverse call to a connected client that has no handlers had not returned after 5s: the client drops the request without answering it",
			Case: map[string]interface{}{"scenario": "no-handler-client"}})
	}
	res.Count("no-handler-client")
	res.Eval(true, []interface{}{"no-handler-client"})
	return nil
}

// StaleAnswerQueued: as StaleAnswer, but the request of the previous connection is still waiting in the
// client's frame queue (it is large and slow to decode) when the connection ends and the client redials:
// it is executed after the new connection was installed.  It is nevertheless a request of the old
// connection, and its answer must not appear on the new one.
func StaleAnswerQueued(d *fw.Driver, res *fw.Result, seed int64, base int) error {
	e, err := scen.NewEnv(seed+int64(base), 0, jsonrpc.WithReverseClient[RevAPI]("Rev"))
	if err != nil {
		return err
	}
	defer e.Close()
	rs := newRS(e.RT)
	e.Srv.Register("RS", rs)
	ctx, cancel := context.WithCancel(context.Background())
	defer cancel()
	api := &FwdAPI{}
	h := &RevH{ID: 6, C: newCtl(), Fwd: api}
	closer, err := jsonrpc.NewMergeClient(ctx, e.WSURL(), "RS", []interface{}{api}, nil,
		jsonrpc.WithClientHandler("Rev", h), jsonrpc.WithReconnectBackoff(5*time.Millisecond, 10*time.Millisecond))
	if err != nil {
		return err
	}
	defer scen.WithTimeout(3*time.Second, closer)
	sig := "reverse request of the previous connection executed after the reconnect"
	c := map[string]interface{}{"scenario": "stale-reverse-answer-queued"}
	arg1, arg2 := (base+1)*1000, (base+2)*1000
	// the connection ends (orderly: everything written is delivered) right after the big reverse request
	// has passed: it is the first data frame server→client of connection 1
	e.PX.Arm(px.Fault{Conn: 1, Dir: "s2c", Frame: 0, Pos: "after", Kind: "fin"})
	go func() {
		cctx, cc := context.WithTimeout(ctx, 15*time.Second)
		defer cc()
		api.Run(cctx, Spec{Tok: base + 1, Method: "Big", N: 1, Bg: true})
	}()
	// the client redials while its executor is still decoding the 40 MiB frame
	healed := false
	for w := 0; w < 2000 && !healed; w++ {
		if e.PX.Accepted() >= 2 {
			if v, err := api.Add(20, 22); err == nil && v == 42 {
				healed = true
				break
			}
		}
		time.Sleep(2 * time.Millisecond)
	}
	if !healed {
		res.Add(fw.Finding{Kind: "monitor", Signature: sig + " no heal", Detail: "the client did not work again after the loss", Case: c})
		return nil
	}
	enteredBeforeHeal := h.C.Entered(arg1) > 0
	// a reverse call on the new connection, pending while the old request is (or was) executed
	second := make(chan Out, 1)
	go func() {
		cctx, cc := context.WithTimeout(ctx, 10*time.Second)
		defer cc()
		o, _ := api.Run(cctx, Spec{Tok: base + 2, Method: "Stubborn", N: 1, Bg: true})
		second <- o
	}()
	if !h.C.waitEntered(arg2, 3*time.Second) {
		res.Add(fw.Finding{Kind: "monitor", Signature: sig + " reverse call after heal not delivered", Detail: "a reverse call made on the re-established connection did not reach the client handler within 3s", Case: c})
		return nil
	}
	h.C.waitEntered(arg1, 5*time.Second) // the old request has been executed by now
	time.Sleep(150 * time.Millisecond)
	h.C.Release(arg2)
	select {
	case o := <-second:
		if len(o.Calls) == 1 && o.Calls[0].Err == "" && o.Calls[0].Val == ident(h.ID, arg1) {
			res.Add(fw.Finding{Kind: "monitor", Signature: sig + " answered on the new connection",
				Detail: fmt.Sprintf("the reverse call Stubborn(%d) made on the new connection returned %d, the answer to Big(%d) which arrived on the previous connection and was executed after the reconnect; its own answer is %d", arg2, o.Calls[0].Val, arg1, ident(h.ID, arg2)), Case: c})
		} else if len(o.Calls) == 1 && o.Calls[0].Err == "" && o.Calls[0].Val != ident(h.ID, arg2) {
			res.Add(fw.Finding{Kind: "monitor", Signature: sig + " wrong value", Detail: fmt.Sprintf("Stubborn(%d) returned %d", arg2, o.Calls[0].Val), Case: c})
		}
	case <-time.After(8 * time.Second):
		res.Add(fw.Finding{Kind: "monitor", Signature: sig + " blocked", Detail: "the forward call on the new connection did not return", Case: c})
	}
	c14.CheckAnswers(res, e.PX.Frames(), sig)
	time.Sleep(20 * time.Millisecond)
	if err := CheckEpoch(d, res, e.RT.Events(), sig); err != nil {
		return err
	}
	res.Count("stale-answer-queued")
	res.SampleKeep(map[string]interface{}{"scenario": "stale-answer-queued", "old_request_executed_before_heal": enteredBeforeHeal, "old_request_executed": h.C.Entered(arg1) > 0, "connections": e.PX.Accepted()})
	res.Eval(true, []interface{}{"stale-answer-queued"})
	return nil
}

// Package c16 — reverse calls: a reverse client extracted from a handler's context calls back into
// exactly the client whose request the handler serves (affinity, for every population of clients),
// with the forward guarantees (correlation, errors, aliases and method tags on the client-side handler);
// once that client's connection is gone the reverse call returns an error instead of blocking; over
// HTTP, or without the server option, no reverse client is present.
//
// Every connection's server-side endpoint plays the client role of Jrpc.Corr for its reverse calls:
// its hook trace is replayed through the model with the paired client connection as its peer.
package c16

import (
	"context"
	"errors"
	"fmt"
	"strings"
	"sync"
	"time"

	jsonrpc "github.com/filecoin-project/go-jsonrpc"

	"verif/harness/internal/c14"
	"verif/harness/internal/corr"
	"verif/harness/internal/fw"
	"verif/harness/internal/hk"
	"verif/harness/internal/px"
	"verif/harness/internal/scen"
)

// RevAPI is the proxy struct the server builds its reverse clients from (namespace "Rev").
type RevAPI struct {
	Ident   func(context.Context, int) (int, error)
	Slow    func(context.Context, int) (int, error)
	Tagged  func(context.Context, int) (int, error) `rpc_method:"rev.tagged"`
	Fail    func(context.Context, int) (int, error)
	Missing func(context.Context, int) (int, error)
	Nest    func(context.Context, int) (int, error)
	Note    func(int) `notify:"true"`
	// Stubborn's client-side handler does not look at its context: it outlives the connection it was called on
	Stubborn func(context.Context, int) (int, error)
	// Big: a reverse call with a large argument (slow to decode on the client)
	Big func(context.Context, int, string) (int, error)
	// Ticks: a reverse subscription (the client-side handler returns a channel)
	Ticks func(context.Context, int) (<-chan int, error)
	// IdentRetry: a retry-tagged reverse method without a context parameter
	IdentRetry func(int) (int, error) `retry:"true" rpc_method:"Rev.Ident"`
}

type ctl struct {
	mu      sync.Mutex
	entered map[int]int
	rel     map[int]chan struct{}
	how     map[int]string // why a Slow handler returned: released | cancelled | timeout
	feeds   map[int]chan int
}

func newCtl() *ctl {
	return &ctl{entered: map[int]int{}, rel: map[int]chan struct{}{}, how: map[int]string{}}
}

// feed returns the channel through which the scenario tells the Ticks handler of tok what to send next.
func (c *ctl) feed(tok int) chan int {
	c.mu.Lock()
	defer c.mu.Unlock()
	if c.feeds == nil {
		c.feeds = map[int]chan int{}
	}
	if c.feeds[tok] == nil {
		c.feeds[tok] = make(chan int, 16)
	}
	return c.feeds[tok]
}

func (c *ctl) setHow(tok int, h string) {
	c.mu.Lock()
	c.how[tok] = h
	c.mu.Unlock()
}

// How reports why the Slow handler of tok returned ("" while it is still running).
func (c *ctl) How(tok int) string {
	c.mu.Lock()
	defer c.mu.Unlock()
	return c.how[tok]
}

func (c *ctl) ch(tok int) chan struct{} {
	c.mu.Lock()
	defer c.mu.Unlock()
	if c.rel[tok] == nil {
		c.rel[tok] = make(chan struct{})
	}
	return c.rel[tok]
}
func (c *ctl) enter(tok int) {
	c.mu.Lock()
	c.entered[tok]++
	c.mu.Unlock()
}
func (c *ctl) Entered(tok int) int {
	c.mu.Lock()
	defer c.mu.Unlock()
	return c.entered[tok]
}
func (c *ctl) Release(tok int) {
	ch := c.ch(tok)
	c.mu.Lock()
	defer c.mu.Unlock()
	select {
	case <-ch:
	default:
		close(ch)
	}
}
func (c *ctl) waitEntered(tok int, d time.Duration) bool {
	dl := time.Now().Add(d)
	for time.Now().Before(dl) {
		if c.Entered(tok) > 0 {
			return true
		}
		time.Sleep(time.Millisecond)
	}
	return false
}

// RevH is what a client registers with WithClientHandler("Rev", …).
type RevH struct {
	ID  int
	C   *ctl
	Fwd *FwdAPI
}

func ident(id, arg int) int { return id*1000000 + arg }

func (r *RevH) Ident(ctx context.Context, arg int) (int, error) { return ident(r.ID, arg), nil }
func (r *RevH) Slow(ctx context.Context, arg int) (int, error) {
	r.C.enter(arg)
	select {
	case <-r.C.ch(arg):
		r.C.setHow(arg, "released")
	case <-ctx.Done():
		r.C.setHow(arg, "cancelled")
	case <-time.After(5 * time.Second):
		r.C.setHow(arg, "timeout")
	}
	return ident(r.ID, arg), nil
}

// Stubborn returns only when released (it ignores its context, as a handler doing a blocking computation would).
func (r *RevH) Stubborn(ctx context.Context, arg int) (int, error) {
	r.C.enter(arg)
	select {
	case <-r.C.ch(arg):
	case <-time.After(8 * time.Second):
	}
	return ident(r.ID, arg), nil
}

// Big ignores its payload and answers like Ident.
func (r *RevH) Big(ctx context.Context, arg int, payload string) (int, error) {
	r.C.enter(arg)
	return ident(r.ID, arg), nil
}

// Ticks returns a channel on which it sends whatever the scenario feeds it, whether or not its context is
// still live (a producer that does not watch its context), until the feed is closed.
func (r *RevH) Ticks(ctx context.Context, arg int) (<-chan int, error) {
	r.C.enter(arg)
	out := make(chan int)
	feed := r.C.feed(arg)
	go func() {
		defer close(out)
		for v := range feed {
			select {
			case out <- v:
			case <-time.After(3 * time.Second):
			}
		}
	}()
	return out, nil
}

// Note is the target of notify-tagged reverse calls.
func (r *RevH) Note(arg int) {}

func (r *RevH) Fail(ctx context.Context, arg int) (int, error) {
	return 0, fmt.Errorf("revfail-%d-%d", r.ID, arg)
}
func (r *RevH) Nest(ctx context.Context, arg int) (int, error) {
	v, err := r.Fwd.Add(arg, 1)
	if err != nil {
		return 0, err
	}
	return ident(r.ID, v), nil
}

// FwdAPI is the forward API of the scenario server (namespace "RS").
type FwdAPI struct {
	RunNote func(Spec) `notify:"true" rpc_method:"RS.Run"`
	Flood   func(context.Context, Spec) (Out, error)
	Has     func(context.Context) (bool, error)
	Run     func(context.Context, Spec) (Out, error)
	Add     func(int, int) (int, error)
}

type Spec struct {
	Tok    int
	Method string // Ident | Slow | Tagged | Fail | Missing | Nest
	N      int
	Par    bool
	Bg     bool // call with context.Background() instead of the handler's context
	Gate   bool // wait for the scenario's go-ahead before the first reverse call
	Twice  bool // after the calls, make one more (the connection is certainly gone by then)
}

type One struct {
	Arg    int
	Val    int
	Err    string
	TookMs int64
	After  bool // made after the calls of the scenario proper (Spec.Twice): the connection is certainly gone
}

type Out struct {
	Present bool
	Calls   []One
}

type RS struct {
	RT  *hk.Runtime
	C   *ctl
	mu  sync.Mutex
	out map[int]*Out
	fin map[int]chan struct{}
}

func newRS(rt *hk.Runtime) *RS {
	return &RS{RT: rt, C: newCtl(), out: map[int]*Out{}, fin: map[int]chan struct{}{}}
}

func (s *RS) finCh(tok int) chan struct{} {
	s.mu.Lock()
	defer s.mu.Unlock()
	if s.fin[tok] == nil {
		s.fin[tok] = make(chan struct{})
	}
	return s.fin[tok]
}

// Result waits for the server-side record of Run(tok).
func (s *RS) result(tok int, d time.Duration) (*Out, bool) {
	select {
	case <-s.finCh(tok):
		s.mu.Lock()
		defer s.mu.Unlock()
		return s.out[tok], true
	case <-time.After(d):
		return nil, false
	}
}

func (s *RS) Add(a, b int) (int, error) { return a + b, nil }

func (s *RS) Has(ctx context.Context) (bool, error) {
	_, ok := jsonrpc.ExtractReverseClient[RevAPI](ctx)
	return ok, nil
}

// Flood makes notify-tagged reverse calls from sp.N goroutines for 400 ms (the scenario cuts the client's
// connection meanwhile); every one of them must return.
func (s *RS) Flood(ctx context.Context, sp Spec) (Out, error) {
	out := &Out{}
	rc, ok := jsonrpc.ExtractReverseClient[RevAPI](ctx)
	out.Present = ok
	if !ok {
		s.mu.Lock()
		s.out[sp.Tok] = out
		s.mu.Unlock()
		close(s.finCh(sp.Tok))
		return *out, nil
	}
	s.C.enter(sp.Tok)
	var wg sync.WaitGroup
	var mu sync.Mutex
	t0 := time.Now()
	for g := 0; g < sp.N; g++ {
		wg.Add(1)
		go func(g int) {
			defer wg.Done()
			n := 0
			for time.Since(t0) < 400*time.Millisecond {
				if sp.Method == "Ident" {
					rc.Ident(context.Background(), sp.Tok*1000+g) // an id-bearing reverse call: it must return, with a result or an error
				} else {
					rc.Note(sp.Tok*1000 + g)
				}
				n++
				time.Sleep(200 * time.Microsecond)
			}
			mu.Lock()
			out.Calls = append(out.Calls, One{Arg: g, Val: n})
			mu.Unlock()
		}(g)
	}
	go func() {
		wg.Wait()
		s.mu.Lock()
		s.out[sp.Tok] = out
		s.mu.Unlock()
		close(s.finCh(sp.Tok))
	}()
	return *out, nil
}

func (s *RS) Run(ctx context.Context, sp Spec) (Out, error) {
	out := &Out{}
	defer func() {
		s.mu.Lock()
		s.out[sp.Tok] = out
		s.mu.Unlock()
		close(s.finCh(sp.Tok))
	}()
	rc, ok := jsonrpc.ExtractReverseClient[RevAPI](ctx)
	out.Present = ok
	if !ok {
		return *out, nil
	}
	if sp.Gate {
		s.C.enter(sp.Tok)
		select {
		case <-s.C.ch(sp.Tok):
		case <-time.After(5 * time.Second):
		}
	}
	cctx := ctx
	if sp.Bg {
		cctx = context.Background()
	}
	pick := func(m string) func(context.Context, int) (int, error) {
		switch m {
		case "Slow":
			return rc.Slow
		case "Tagged":
			return rc.Tagged
		case "Fail":
			return rc.Fail
		case "Missing":
			return rc.Missing
		case "Nest":
			return rc.Nest
		case "Stubborn":
			return rc.Stubborn
		case "Big":
			return func(ctx context.Context, a int) (int, error) { return rc.Big(ctx, a, strings.Repeat("b", 40<<20)) }
		case "Ticks2":
			// subscribe and return the first two values as v1*1000+v2
			return func(ctx context.Context, a int) (int, error) {
				ch, err := rc.Ticks(ctx, a)
				if err != nil {
					return 0, err
				}
				vs := []int{}
				for len(vs) < 2 {
					select {
					case v, ok := <-ch:
						if !ok {
							return 0, fmt.Errorf("reverse subscription closed after %v", vs)
						}
						vs = append(vs, v)
					case <-time.After(4 * time.Second):
						return 0, fmt.Errorf("reverse subscription delivered only %v within 4s", vs)
					}
				}
				return vs[0]*1000 + vs[1], nil
			}
		case "Ticks":
			// subscribe and return the first value
			return func(ctx context.Context, a int) (int, error) {
				ch, err := rc.Ticks(ctx, a)
				if err != nil {
					return 0, err
				}
				select {
				case v, ok := <-ch:
					if !ok {
						return 0, errors.New("reverse subscription closed before its first value")
					}
					return v, nil
				case <-time.After(4 * time.Second):
					return 0, errors.New("no value on the reverse subscription within 4s")
				}
			}
		}
		return rc.Ident
	}
	f := pick(sp.Method)
	one := func(i int) One {
		arg := sp.Tok*1000 + i
		t0 := time.Now()
		v, err := f(cctx, arg)
		o := One{Arg: arg, Val: v, TookMs: time.Since(t0).Milliseconds()}
		if err != nil {
			o.Err = err.Error()
			var ce *jsonrpc.RPCConnectionError
			if errors.As(err, &ce) {
				o.Err = "RPCConnectionError: " + o.Err
			}
		}
		return o
	}
	calls := make([]One, sp.N)
	if sp.Par {
		var wg sync.WaitGroup
		for i := 0; i < sp.N; i++ {
			wg.Add(1)
			go func(i int) { defer wg.Done(); calls[i] = one(i) }(i)
		}
		wg.Wait()
	} else {
		for i := 0; i < sp.N; i++ {
			calls[i] = one(i)
		}
	}
	if sp.Twice {
		f = rc.Ident
		o := one(900)
		o.After = true
		calls = append(calls, o)
		// the same through a retry-tagged method that takes no context: a connection that is gone for good
		// is not a temporary failure, the call must fail like any other
		f = func(_ context.Context, a int) (int, error) { return rc.IdentRetry(a) }
		o = one(901)
		o.After = true
		calls = append(calls, o)
	}
	out.Calls = calls
	return *out, nil
}

type client struct {
	id     int
	api    *FwdAPI
	closer jsonrpc.ClientCloser
	h      *RevH
	cancel context.CancelFunc
}

type world struct {
	e  *scen.Env
	rs *RS
	cs []*client
}

func newWorld(seed int64, reverse bool) (*world, error) {
	var sopts []jsonrpc.ServerOption
	if reverse {
		sopts = append(sopts, jsonrpc.WithReverseClient[RevAPI]("Rev"))
	}
	e, err := scen.NewEnv(seed, 0, sopts...)
	if err != nil {
		return nil, err
	}
	w := &world{e: e, rs: newRS(e.RT)}
	e.Srv.Register("RS", w.rs)
	return w, nil
}

// connect adds client number len(cs)+1; it returns once the server-side connection object exists, so
// that the k-th client is the k-th proxied connection and the k-th server-role wsConn.
func (w *world) connect(withHandler bool, extra ...jsonrpc.Option) (*client, error) {
	id := len(w.cs) + 1
	c := &client{id: id, api: &FwdAPI{}}
	ctx, cancel := context.WithCancel(context.Background())
	c.cancel = cancel
	opts := []jsonrpc.Option{jsonrpc.WithNoReconnect()}
	if withHandler {
		c.h = &RevH{ID: id, C: newCtl(), Fwd: c.api}
		opts = append(opts, jsonrpc.WithClientHandler("Rev", c.h), jsonrpc.WithClientHandlerAlias("rev.tagged", "Rev.Ident"))
	}
	opts = append(opts, extra...)
	closer, err := jsonrpc.NewMergeClient(ctx, w.e.WSURL(), "RS", []interface{}{c.api}, nil, opts...)
	if err != nil {
		cancel()
		return nil, err
	}
	var once sync.Once
	c.closer = func() { once.Do(closer) } // the library's closer must not be called twice
	w.cs = append(w.cs, c)
	if !w.e.RT.WaitCount("srv.conn", id, 2*time.Second) {
		return nil, fmt.Errorf("server connection %d did not appear", id)
	}
	// both endpoints' main loops have started before the next client connects: the trace then lists
	// server-role and client-role connections in the same order (that order is how they are paired)
	if !w.e.RT.WaitCount("main.start", 2*id, 2*time.Second) {
		return nil, fmt.Errorf("the main loops of connection %d did not both start", id)
	}
	return c, nil
}

func (w *world) close() {
	for _, c := range w.cs {
		c := c
		scen.WithTimeout(2*time.Second, c.closer)
		c.cancel()
	}
	w.e.Close()
}

// endpoints pairs the k-th server-role connection with the k-th client connection object.
func endpoints(evs []hk.Event) (srv []int, cli []int) {
	isSrv := map[int]bool{}
	for _, e := range evs {
		if e.Site == "srv.conn" {
			if !isSrv[e.Conn] {
				isSrv[e.Conn] = true
				srv = append(srv, e.Conn)
			}
		}
	}
	seen := map[int]bool{}
	for _, e := range evs {
		if e.Site == "main.start" && !isSrv[e.Conn] && !seen[e.Conn] {
			seen[e.Conn] = true
			cli = append(cli, e.Conn)
		}
	}
	return
}

// replay checks every endpoint's correlation trace against the model.
func (w *world) replay(d *fw.Driver, res *fw.Result, sig string) error {
	c14.CheckAnswers(res, w.e.PX.Frames(), sig)
	evs := w.e.RT.Events()
	srv, cli := endpoints(evs)
	if len(srv) != len(cli) {
		res.Add(fw.Finding{Kind: "tie", Signature: sig + " endpoint pairing", Detail: fmt.Sprintf("%d server-role and %d client-role connections in the trace", len(srv), len(cli))})
		return nil
	}
	for i := range srv {
		if _, err := corr.CheckWith(d, res, evs, srv[i], map[int]bool{cli[i]: true}, fmt.Sprintf("%s server-endpoint-%d", sig, i+1)); err != nil {
			return err
		}
		if _, err := corr.CheckWith(d, res, evs, cli[i], map[int]bool{srv[i]: true}, fmt.Sprintf("%s client-endpoint-%d", sig, i+1)); err != nil {
			return err
		}
	}
	return nil
}

func expectVal(id int, method string, arg int) int {
	if method == "Nest" {
		return ident(id, arg+1)
	}
	return ident(id, arg)
}

// judge evaluates one reverse call made for client `id`.
func judge(res *fw.Result, sig string, id int, method string, o One) {
	switch method {
	case "Fail":
		want := fmt.Sprintf("revfail-%d-%d", id, o.Arg)
		if !strings.Contains(o.Err, want) {
			res.Add(fw.Finding{Kind: "monitor", Signature: sig + " wrong error", Detail: fmt.Sprintf("reverse call %s(%d) for client %d returned (%d, %q); the client-side handler of client %d fails with %q", method, o.Arg, id, o.Val, o.Err, id, want)})
		}
	case "Missing":
		if !strings.Contains(o.Err, "not found") {
			res.Add(fw.Finding{Kind: "monitor", Signature: sig + " missing method", Detail: fmt.Sprintf("reverse call to a method the client does not handle returned (%d, %q), not a method-not-found error", o.Val, o.Err)})
		}
	default:
		if o.Err != "" {
			res.Add(fw.Finding{Kind: "monitor", Signature: sig + " reverse call failed", Detail: fmt.Sprintf("reverse call %s(%d) for client %d failed on a healthy connection: %s", method, o.Arg, id, o.Err)})
		} else if want := expectVal(id, method, o.Arg); o.Val != want {
			other := o.Val / 1000000
			res.Add(fw.Finding{Kind: "monitor", Signature: sig + " wrong client answered", Detail: fmt.Sprintf("reverse call %s(%d) made while serving client %d returned %d (want %d): answered by client %d / for argument %d", method, o.Arg, id, o.Val, want, other, o.Val%1000000)})
		}
	}
}

// Affinity: n clients connected at once, each with k concurrent forward calls that make reverse calls.
func Affinity(d *fw.Driver, res *fw.Result, seed int64, n, k, per int, par bool, base int) error {
	w, err := newWorld(seed, true)
	if err != nil {
		return err
	}
	defer w.close()
	for i := 0; i < n; i++ {
		if _, err := w.connect(true); err != nil {
			return err
		}
	}
	methods := []string{"Ident", "Tagged", "Nest", "Fail", "Missing", "Ident"}
	sig := fmt.Sprintf("affinity clients=%d calls=%d reverse-per-call=%d par=%v", n, k, per, par)
	type job struct {
		c      *client
		sp     Spec
		out    Out
		err    error
		finish chan struct{}
	}
	var jobs []*job
	for ci, c := range w.cs {
		for j := 0; j < k; j++ {
			tok := base + ci*50 + j
			jb := &job{c: c, sp: Spec{Tok: tok, Method: methods[(ci+j+int(seed))%len(methods)], N: per, Par: par}, finish: make(chan struct{})}
			jobs = append(jobs, jb)
		}
	}
	for _, jb := range jobs {
		jb := jb
		go func() {
			defer close(jb.finish)
			ctx, cc := context.WithTimeout(context.Background(), 5*time.Second)
			defer cc()
			jb.out, jb.err = jb.c.api.Run(ctx, jb.sp)
		}()
	}
	for _, jb := range jobs {
		select {
		case <-jb.finish:
		case <-time.After(6 * time.Second):
			res.Add(fw.Finding{Kind: "monitor", Signature: sig + " forward call hangs", Detail: fmt.Sprintf("forward call tok=%d of client %d (reverse method %s) did not return", jb.sp.Tok, jb.c.id, jb.sp.Method)})
			continue
		}
		if jb.err != nil {
			res.Add(fw.Finding{Kind: "monitor", Signature: sig + " forward call failed", Detail: fmt.Sprintf("forward call tok=%d of client %d failed: %v", jb.sp.Tok, jb.c.id, jb.err)})
			continue
		}
		if !jb.out.Present {
			res.Add(fw.Finding{Kind: "monitor", Signature: sig + " reverse client absent", Detail: "no reverse client in the handler's context although the server was built with WithReverseClient and the call came over WebSocket"})
			continue
		}
		if len(jb.out.Calls) != per {
			res.Add(fw.Finding{Kind: "monitor", Signature: sig + " result shape", Detail: fmt.Sprintf("%d reverse results for %d calls", len(jb.out.Calls), per)})
		}
		for _, o := range jb.out.Calls {
			judge(res, sig, jb.c.id, jb.sp.Method, o)
			res.Eval(true, []interface{}{"affinity", n, jb.sp.Method, par})
		}
		res.Count("reverse." + jb.sp.Method)
	}
	if err := w.replay(d, res, sig); err != nil {
		return err
	}
	res.Sample(map[string]interface{}{"scenario": sig, "forward_calls": len(jobs)})
	return nil
}

type lossCase struct {
	Kind  string // close | fin | rst
	Point string // before | before-late | during | resp-header | resp-mid | req-mid
	Bg    bool
	N     int // clients
}

// Gone: the victim's connection is lost at a chosen point of the reverse exchange.
func Gone(d *fw.Driver, res *fw.Result, seed int64, lc lossCase, base int) error {
	w, err := newWorld(seed, true)
	if err != nil {
		return err
	}
	defer w.close()
	for i := 0; i < lc.N; i++ {
		if _, err := w.connect(true); err != nil {
			return err
		}
	}
	victim := w.cs[int(seed)%lc.N]
	sig := fmt.Sprintf("gone kind=%s point=%s bg=%v clients=%d", lc.Kind, lc.Point, lc.Bg, lc.N)
	tok := base + 1
	sp := Spec{Tok: tok, N: 1, Bg: lc.Bg, Twice: true, Method: "Ident"}
	lose := func() {
		w.e.RT.Log("harness.cut", "kind", lc.Kind)
		if lc.Kind == "close" {
			go victim.closer()
		} else {
			w.e.PX.Cut(victim.id, lc.Kind)
		}
	}
	switch lc.Point {
	case "before", "before-late":
		sp.Gate = true
	case "during":
		sp.Method = "Slow"
	case "resp-header", "resp-mid":
		// the reverse response is the second data frame client→server on the victim's connection
		if lc.Kind != "close" {
			w.e.PX.Arm(px.Fault{Conn: victim.id, Dir: "c2s", Frame: 1, Pos: strings.TrimPrefix(lc.Point, "resp-"), Kind: lc.Kind})
		}
	case "req-mid":
		if lc.Kind != "close" {
			w.e.PX.Arm(px.Fault{Conn: victim.id, Dir: "s2c", Frame: 0, Pos: "mid", Kind: lc.Kind})
		}
	}
	fwdDone := make(chan struct{})
	go func() {
		defer close(fwdDone)
		ctx, cc := context.WithTimeout(context.Background(), 4*time.Second)
		defer cc()
		victim.api.Run(ctx, sp)
	}()
	switch lc.Point {
	case "before":
		w.rs.C.waitEntered(tok, 2*time.Second)
		lose()
		w.rs.C.Release(tok)
	case "before-late":
		w.rs.C.waitEntered(tok, 2*time.Second)
		lose()
		time.Sleep(60 * time.Millisecond)
		w.rs.C.Release(tok)
	case "during":
		victim.h.C.waitEntered(tok*1000, 2*time.Second)
		lose()
	default:
		if lc.Kind == "close" {
			lose()
		}
	}
	t0 := time.Now()
	out, ok := w.rs.result(tok, 3*time.Second)
	if !ok {
		res.Add(fw.Finding{Kind: "monitor", Signature: sig + " reverse call blocks", Detail: fmt.Sprintf("3 s after the calling client's connection was lost (%s at %s) the handler's reverse call has not returned", lc.Kind, lc.Point)})
	} else {
		for i, o := range out.Calls {
			which := "the reverse call in progress"
			if o.After {
				which = "a reverse call started after the loss"
			}
			_ = i
			if o.Err == "" {
				if o.Val/1000000 != victim.id {
					res.Add(fw.Finding{Kind: "monitor", Signature: sig + " answered by another client", Detail: fmt.Sprintf("%s returned %d: client %d answered a reverse call made while serving client %d", which, o.Val, o.Val/1000000, victim.id)})
				} else if o.After && lc.Kind != "close" || (lc.Point == "during") {
					// a result can only be genuine if the exchange completed before the loss
					res.Add(fw.Finding{Kind: "monitor", Signature: sig + " result after loss", Detail: fmt.Sprintf("%s returned the value %d although the connection was gone before the client could answer", which, o.Val)})
				}
			}
			if o.TookMs > 2000 {
				res.Add(fw.Finding{Kind: "monitor", Signature: sig + " slow failure", Detail: fmt.Sprintf("%s took %d ms to fail", which, o.TookMs)})
			}
		}
		res.Eval(true, []interface{}{"gone", lc.Kind, lc.Point, lc.Bg, lc.N})
	}
	_ = t0
	victim.h.C.Release(tok * 1000)
	select {
	case <-fwdDone:
	case <-time.After(5 * time.Second):
		res.Add(fw.Finding{Kind: "monitor", Signature: sig + " forward call hangs", Detail: "the forward call of the lost client did not return within its own 4 s context"})
	}
	// the survivors are unaffected and still get their own reverse calls
	for _, c := range w.cs {
		if c == victim {
			continue
		}
		ctx, cc := context.WithTimeout(context.Background(), 3*time.Second)
		o, err := c.api.Run(ctx, Spec{Tok: base + 10 + c.id, Method: "Ident", N: 2})
		cc()
		if err != nil || !o.Present {
			res.Add(fw.Finding{Kind: "monitor", Signature: sig + " survivor broken", Detail: fmt.Sprintf("after client %d was lost, a forward call of client %d failed: %v", victim.id, c.id, err)})
			continue
		}
		for _, x := range o.Calls {
			judge(res, sig+" survivor", c.id, "Ident", x)
		}
	}
	if err := w.replay(d, res, sig); err != nil {
		return err
	}
	res.Count("gone." + lc.Kind + "." + lc.Point)
	return nil
}

// Absent: no reverse client over HTTP, without the server option, or for another proxy type.
// NotifyGone: notify-tagged reverse calls in flight while the client's connection is reset — each must
// return (an error is not even reported to the caller of a notification), none may block.
func NotifyGone(res *fw.Result, seed int64, kind string, base int) error {
	return floodGone(res, seed, kind, base, "Note", 8)
}

// CallsGone is NotifyGone with many concurrent id-bearing reverse calls (a request queued for the main loop but
// not yet taken when the loop exits must still be answered).
func CallsGone(res *fw.Result, seed int64, kind string, base int) error {
	return floodGone(res, seed, kind, base, "Ident", 64)
}

func floodGone(res *fw.Result, seed int64, kind string, base int, method string, n int) error {
	w, err := newWorld(seed, true)
	if err != nil {
		return err
	}
	defer w.close()
	c, err := w.connect(true)
	if err != nil {
		return err
	}
	sig := "reverse " + map[string]string{"Note": "notifications", "Ident": "calls"}[method] + " while the client goes away kind=" + kind
	tok := base + 7
	go func() {
		ctx, cc := context.WithTimeout(context.Background(), 2*time.Second)
		defer cc()
		c.api.Flood(ctx, Spec{Tok: tok, N: n, Method: method})
	}()
	if !w.rs.C.waitEntered(tok, 2*time.Second) {
		return fmt.Errorf("harness error: Flood did not start")
	}
	time.Sleep(30 * time.Millisecond)
	if kind == "close" {
		go c.closer() // the client goes away gracefully
	} else {
		w.e.PX.Cut(c.id, kind)
	}
	out, ok := w.rs.result(tok, 5*time.Second)
	if !ok {
		res.Add(fw.Finding{Kind: "monitor", Signature: sig + " blocked", Detail: "a reverse call (" + method + ") made while the client's connection was being lost has not returned 4.5s after the connection was gone",
			Case: map[string]interface{}{"scenario": "flood-gone", "kind": kind, "method": method, "callers": n}})
	} else {
		total := 0
		for _, o := range out.Calls {
			total += o.Val
		}
		res.CountN("reverse.notifications", total)
	}
	res.Count("notifygone." + kind)
	res.Eval(true, []interface{}{"c16", "notify-gone", kind})
	return nil
}

// NotifyReverse: the handler of a *notification* makes reverse calls — the answers to those calls arrive
// as frames on the very connection whose executor dispatched the notification, so they can only be
// correlated if the notification's handler does not run on the executor.
func NotifyReverse(res *fw.Result, seed int64, base int) error {
	w, err := newWorld(seed, true)
	if err != nil {
		return err
	}
	defer w.close()
	c, err := w.connect(true)
	if err != nil {
		return err
	}
	sig := "reverse calls from the handler of a notification"
	tok := base + 3
	c.api.RunNote(Spec{Tok: tok, N: 2, Method: "Ident"})
	out, ok := w.rs.result(tok, 3*time.Second)
	if !ok {
		res.Add(fw.Finding{Kind: "monitor", Signature: sig + " blocked", Detail: "reverse calls made by the handler of a notify-tagged forward call did not complete within 3s on a healthy connection",
			Case: map[string]interface{}{"scenario": "notify-reverse"}})
	} else {
		if !out.Present {
			res.Add(fw.Finding{Kind: "monitor", Signature: sig + " no reverse client", Detail: "the handler of a notification over WebSocket found no reverse client in its context", Case: map[string]interface{}{"scenario": "notify-reverse"}})
		}
		for _, o := range out.Calls {
			judge(res, sig, c.id, "Ident", o)
		}
	}
	// the connection still serves ordinary calls afterwards
	done := make(chan error, 1)
	go func() { _, err := c.api.Add(1, 2); done <- err }()
	select {
	case err := <-done:
		if err != nil {
			res.Add(fw.Finding{Kind: "monitor", Signature: sig + " later call fails", Detail: "an ordinary call after the notification failed: " + err.Error(), Case: map[string]interface{}{"scenario": "notify-reverse"}})
		}
	case <-time.After(3 * time.Second):
		res.Add(fw.Finding{Kind: "monitor", Signature: sig + " later call blocked", Detail: "an ordinary call after the notification did not return within 3s", Case: map[string]interface{}{"scenario": "notify-reverse"}})
	}
	res.Count("notify-reverse")
	res.Eval(true, []interface{}{"c16", "notify-reverse"})
	return nil
}

func Absent(d *fw.Driver, res *fw.Result, seed int64) error {
	for _, reverse := range []bool{true, false} {
		w, err := newWorld(seed, reverse)
		if err != nil {
			return err
		}
		// WebSocket
		c, err := w.connect(reverse)
		if err != nil {
			w.close()
			return err
		}
		ctx, cc := context.WithTimeout(context.Background(), 3*time.Second)
		has, err := c.api.Has(ctx)
		cc()
		if err != nil || has != reverse {
			res.Add(fw.Finding{Kind: "monitor", Signature: fmt.Sprintf("absent ws option=%v", reverse), Detail: fmt.Sprintf("over WebSocket with server option=%v: reverse client present=%v err=%v", reverse, has, err)})
		}
		res.Eval(true, []interface{}{"absent", "ws", reverse})
		// HTTP
		var hapi FwdAPI
		hcloser, err := jsonrpc.NewMergeClient(context.Background(), w.e.HTTPURL(), "RS", []interface{}{&hapi}, nil)
		if err != nil {
			w.close()
			return err
		}
		ctx, cc = context.WithTimeout(context.Background(), 3*time.Second)
		has, err = hapi.Has(ctx)
		var out Out
		var err2 error
		if err == nil {
			out, err2 = hapi.Run(ctx, Spec{Tok: 7, Method: "Ident", N: 1})
		}
		cc()
		hcloser()
		if err != nil || err2 != nil || has || out.Present {
			res.Add(fw.Finding{Kind: "monitor", Signature: fmt.Sprintf("absent http option=%v", reverse), Detail: fmt.Sprintf("over HTTP with server option=%v: reverse client present=%v/%v err=%v/%v", reverse, has, out.Present, err, err2)})
		}
		res.Eval(true, []interface{}{"absent", "http", reverse})
		res.Count("absent")
		w.close()
	}
	return nil
}

func Run(d *fw.Driver, res *fw.Result, seed int64, thorough bool) error {
	base := 1000
	ns := []int{1, 2, 3, 5}
	for _, n := range ns {
		for _, par := range []bool{false, true} {
			base += 1000
			k, per := 3, 3
			if thorough {
				k, per = 6, 5
			}
			if err := Affinity(d, res, seed+int64(n), n, k, per, par, base); err != nil {
				return err
			}
		}
	}
	kinds := []string{"fin", "rst", "close"}
	points := []string{"before", "before-late", "during", "resp-header", "resp-mid", "req-mid"}
	i := 0
	for _, k := range kinds {
		for _, p := range points {
			if k == "close" && (strings.HasPrefix(p, "resp-") || p == "req-mid") {
				continue
			}
			for _, bg := range []bool{false, true} {
				i++
				if !thorough && i%2 == int(seed)%2 {
					continue
				}
				base += 1000
				if err := Gone(d, res, seed+int64(i), lossCase{Kind: k, Point: p, Bg: bg, N: 1 + i%3}, base); err != nil {
					return err
				}
			}
		}
	}
	for j, k := range []string{"rst", "fin"} {
		base += 1000
		if err := NotifyGone(res, seed+int64(j), k, base); err != nil {
			return err
		}
	}
	for j, k := range []string{"rst", "close"} {
		base += 1000
		if err := CallsGone(res, seed+int64(j)+5, k, base); err != nil {
			return err
		}
	}
	base += 1000
	if err := NotifyReverse(res, seed, base); err != nil {
		return err
	}
	for _, k := range []string{"rst", "fin"} {
		base += 1000
		if err := StaleAnswer(d, res, seed, k, base); err != nil {
			return err
		}
	}
	base += 1000
	if err := ReverseSubAfterLoss(res, seed, base); err != nil {
		return err
	}
	base += 1000
	if err := NoHandlerClient(res, seed, base); err != nil {
		return err
	}
	base += 1000
	if err := StaleAnswerQueued(d, res, seed, base); err != nil {
		return err
	}
	if err := FormatterOrder(res); err != nil {
		return err
	}
	if err := TwoHandlersOneNamespace(res); err != nil {
		return err
	}
	return Absent(d, res, seed)
}

package c16

// FormatterOrder: the reverse client names its requests with the server's method name formatter — whatever
// the order in which the two server options were given.  A client that serves the reverse methods under
// exactly those names (handlers in a namespace of its own plus aliases) must be reached.

import (
	"context"
	"fmt"
	"net/http/httptest"
	"strings"
	"time"

	jsonrpc "github.com/filecoin-project/go-jsonrpc"

	"verif/harness/internal/c09"
	"verif/harness/internal/fw"
)

type orderProxy struct {
	Double func(int) (int, error)
}

type orderSrv struct{}

func (orderSrv) Relay(ctx context.Context, v int) (int, error) {
	rc, ok := jsonrpc.ExtractReverseClient[orderProxy](ctx)
	if !ok {
		return 0, fmt.Errorf("no reverse client")
	}
	return rc.Double(v)
}

type orderImpl struct{}

func (orderImpl) Double(v int) (int, error) { return 2 * v, nil }

func FormatterOrder(res *fw.Result) error {
	for _, f := range []c09.Fmt{{Ns: false}, {Ns: true, Sep: "/"}, {Ns: true, Lower: true}} {
		lib := c09.Formatter(f)        // what the endpoints are configured with
		name := c09.OracleFormatter(f) // what the names are expected to be
		for _, order := range []string{"formatter-first", "reverse-client-first"} {
			opts := []jsonrpc.ServerOption{jsonrpc.WithServerMethodNameFormatter(lib), jsonrpc.WithReverseClient[orderProxy]("Client")}
			if order == "reverse-client-first" {
				opts[0], opts[1] = opts[1], opts[0]
			}
			srv := jsonrpc.NewServer(opts...)
			srv.Register("Server", orderSrv{})
			ts := httptest.NewServer(srv)
			var cl struct {
				Relay func(context.Context, int) (int, error)
			}
			closer, err := jsonrpc.NewMergeClient(context.Background(), "ws"+strings.TrimPrefix(ts.URL, "http"), "Server", []interface{}{&cl}, nil,
				jsonrpc.WithMethodNameFormatter(lib),
				jsonrpc.WithClientHandler("Impl", orderImpl{}),
				jsonrpc.WithClientHandlerAlias(name("Client", "Double"), name("Impl", "Double")))
			if err != nil {
				ts.Close()
				return err
			}
			ctx, cancel := context.WithTimeout(context.Background(), 4*time.Second)
			v, err := cl.Relay(ctx, 21)
			cancel()
			sig := fmt.Sprintf("reverse call named by the server's formatter fmt=%v/%v/%q options=%s", f.Ns, f.Lower, f.Sep, order)
			if err != nil || v != 42 {
				res.Add(fw.Finding{Kind: "monitor", Signature: sig, Detail: fmt.Sprintf("the reverse call did not reach the client handler published as %q: Relay(21) = %d, %v", name("Client", "Double"), v, err),
					Case: map[string]interface{}{"scenario": "formatter-order", "order": order, "reverse_name": name("Client", "Double")}})
			}
			// the same with the handler simply registered under the reverse namespace: client and server share
			// the formatter, so the names agree without any alias
			var cl2 struct {
				Relay func(context.Context, int) (int, error)
			}
			closer2, err := jsonrpc.NewMergeClient(context.Background(), "ws"+strings.TrimPrefix(ts.URL, "http"), "Server", []interface{}{&cl2}, nil,
				jsonrpc.WithMethodNameFormatter(lib),
				jsonrpc.WithClientHandler("Client", orderImpl{}))
			if err != nil {
				closer()
				ts.Close()
				return err
			}
			ctx2, cancel2 := context.WithTimeout(context.Background(), 4*time.Second)
			v2, err := cl2.Relay(ctx2, 21)
			cancel2()
			closer2()
			if err != nil || v2 != 42 {
				res.Add(fw.Finding{Kind: "monitor", Signature: fmt.Sprintf("reverse call under a formatter shared by both sides fmt=%v/%v/%q", f.Ns, f.Lower, f.Sep),
					Detail: fmt.Sprintf("client and server are configured with the same formatter and the client registers its handler under the reverse namespace, yet the reverse call does not reach it: Relay(21) = %d, %v", v2, err),
					Case:   map[string]interface{}{"scenario": "formatter-shared", "order": order}})
			}
			res.Count("formatter-order." + order)
			res.Eval(true, []interface{}{"formatter-order", f.Ns, f.Lower, f.Sep, order})
			closer()
			ts.Close()
		}
	}
	return nil
}

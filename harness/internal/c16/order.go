package c16

// FormatterOrder: the reverse client names its requests with the server's method name formatter — whatever
// the order in which the two server options were given.  A client that serves the reverse methods under
// exactly those names (handlers in a namespace of its own plus aliases) must be reached.

import (
	"context"
	"fmt"
	"net/http/httptest"
	"strings"
	"time"

	jsonrpc "github.com/filecoin-project/go-jsonrpc"

	"verif/harness/internal/c09"
	"verif/harness/internal/fw"
)

type orderProxy struct {
	Double func(int) (int, error)
}

type orderSrv struct{}

func (orderSrv) Relay(ctx context.Context, v int) (int, error) {
	rc, ok := jsonrpc.ExtractReverseClient[orderProxy](ctx)
	if !ok {
		return 0, fmt.Errorf("no reverse client")
	}
	return rc.Double(v)
}

type orderImpl struct{}

func (orderImpl) Double(v int) (int, error) { return 2 * v, nil }

func FormatterOrder(res *fw.Result) error {
	for _, f := range []c09.Fmt{{Ns: false}, {Ns: true, Sep: "/"}, {Ns: true, Lower: true}} {
		lib := c09.Formatter(f)        // what the endpoints are configured with
		name := c09.OracleFormatter(f) // what the names are expected to be
		for _, order := range []string{"formatter-first", "reverse-client-first"} {
			opts := []jsonrpc.ServerOption{jsonrpc.WithServerMethodNameFormatter(lib), jsonrpc.WithReverseClient[orderProxy]("Client")}
			if order == "reverse-client-first" {
				opts[0], opts[1] = opts[1], opts[0]
			}
			srv := jsonrpc.NewServer(opts...)
			srv.Register("Server", orderSrv{})
			ts := httptest.NewServer(srv)
			var cl struct {
				Relay func(context.Context, int) (int, error)
			}
			closer, err := jsonrpc.NewMergeClient(context.Background(), "ws"+strings.TrimPrefix(ts.URL, "http"), "Server", []interface{}{&cl}, nil,
				jsonrpc.WithMethodNameFormatter(lib),
				jsonrpc.WithClientHandler("Impl", orderImpl{}),
				jsonrpc.WithClientHandlerAlias(name("Client", "Double"), name("Impl", "Double")))
			if err != nil {
				ts.Close()
				return err
			}
			ctx, cancel := context.WithTimeout(context.Background(), 4*time.Second)
			v, err := cl.Relay(ctx, 21)
			cancel()
			sig := fmt.Sprintf("reverse call named by the server's formatter fmt=%v/%v/%q options=%s", f.Ns, f.Lower, f.Sep, order)
			if err != nil || v != 42 {
				res.Add(fw.Finding{Kind: "monitor", Signature: sig, Detail: fmt.Sprintf("the reverse call did not reach the client handler published as %q: Relay(21) = %d, %v", name("Client", "Double"), v, err),
					Case: map[string]interface{}{"scenario": "formatter-order", "order": order, "reverse_name": name("Client", "Double")}})
			}
			// the same with the handler simply registered under the reverse namespace: client and server share
			// the formatter, so the names agree without any alias
			var cl2 struct {
				Relay func(context.Context, int) (int, error)
			}
			closer2, err := jsonrpc.NewMergeClient(context.Background(), "ws"+strings.TrimPrefix(ts.URL, "http"), "Server", []interface{}{&cl2}, nil,
				jsonrpc.WithMethodNameFormatter(lib),
				jsonrpc.WithClientHandler("Client", orderImpl{}))
			if err != nil {
				closer()
				ts.Close()
				return err
			}
			ctx2, cancel2 := context.WithTimeout(context.Background(), 4*time.Second)
			v2, err := cl2.Relay(ctx2, 21)
			cancel2()
			closer2()
			if err != nil || v2 != 42 {
				res.Add(fw.Finding{Kind: "monitor", Signature: fmt.Sprintf("reverse call under a formatter shared by both sides fmt=%v/%v/%q", f.Ns, f.Lower, f.Sep),
					Detail: fmt.Sprintf("client and server are configured with the same formatter and the client registers its handler under the reverse namespace, yet the reverse call does not reach it: Relay(21) = %d, %v", v2, err),
					Case:   map[string]interface{}{"scenario": "formatter-shared", "order": order}})
			}
			res.Count("formatter-order." + order)
			res.Eval(true, []interface{}{"formatter-order", f.Ns, f.Lower, f.Sep, order})
			closer()
			ts.Close()
		}
	}
	return nil
}

type twoProxy struct {
	Double func(int) (int, error)
	Triple func(int) (int, error)
}

type twoSrv struct{}

func (twoSrv) Both(ctx context.Context, v int) (int, error) {
	rc, ok := jsonrpc.ExtractReverseClient[twoProxy](ctx)
	if !ok {
		return 0, fmt.Errorf("no reverse client")
	}
	a, err := rc.Double(v)
	if err != nil {
		return 0, fmt.Errorf("Double: %w", err)
	}
	b, err := rc.Triple(v)
	if err != nil {
		return 0, fmt.Errorf("Triple: %w", err)
	}
	return a*1000 + b, nil
}

type implDouble struct{}

func (implDouble) Double(v int) (int, error) { return 2 * v, nil }

type implTriple struct{}

func (implTriple) Triple(v int) (int, error) { return 3 * v, nil }

// TwoHandlersOneNamespace: WithClientHandler given twice for one namespace registers both objects' methods
// (as Register called twice on a server does): every one of them is reachable by a reverse call.
func TwoHandlersOneNamespace(res *fw.Result) error {
	srv := jsonrpc.NewServer(jsonrpc.WithReverseClient[twoProxy]("Client"))
	srv.Register("Server", twoSrv{})
	ts := httptest.NewServer(srv)
	defer ts.Close()
	for _, order := range []string{"double-triple", "triple-double"} {
		opts := []jsonrpc.Option{jsonrpc.WithClientHandler("Client", implDouble{}), jsonrpc.WithClientHandler("Client", implTriple{})}
		if order == "triple-double" {
			opts[0], opts[1] = opts[1], opts[0]
		}
		var cl struct {
			Both func(context.Context, int) (int, error)
		}
		closer, err := jsonrpc.NewMergeClient(context.Background(), "ws"+strings.TrimPrefix(ts.URL, "http"), "Server", []interface{}{&cl}, nil, opts...)
		if err != nil {
			return err
		}
		ctx, cancel := context.WithTimeout(context.Background(), 4*time.Second)
		v, err := cl.Both(ctx, 7)
		cancel()
		closer()
		res.Count("two-handlers-one-namespace")
		res.Eval(true, []interface{}{"two-handlers-one-namespace", order})
		if err != nil || v != 14*1000+21 {
			res.Add(fw.Finding{Kind: "monitor", Signature: "two client handlers in one namespace order=" + order,
				Detail: fmt.Sprintf("both objects were registered under the namespace, yet not both are reachable by reverse calls: Both(7) = %d, %v", v, err),
				Case:   map[string]interface{}{"scenario": "two-handlers-one-namespace", "order": order}})
		}
	}
	return nil
}

package c05

// Reconnect scenarios of C05, run against the real client through the frame-aware proxy:
//
//	outage      k refused redials, then the server is reachable again: the client must heal by itself, an
//	            untagged call in flight at the loss gets the connection error (typed iff error mapping is
//	            on), a retry-tagged one rides the outage out and returns its genuine result
//	flapping    the server accepts the upgrade and drops the connection at once, five times: every dial
//	            must still be preceded by its backoff sleep (no busy loop), then the client heals
//	noreconnect a client created WithNoReconnect never dials again; its calls fail
//	keepalive   after a heal, a call longer than the timeout succeeds without another dial (pings
//	            were restarted on the new connection)
//
// For each run the redial events of the client's connection (hook trace, with hook times) are replayed
// through Jrpc.Redial (`step?` must accept every event: a dial is enabled only `minDelay` after its
// rc.sleep), the retry loop's attempts are compared with Jrpc.Redial.retryLoop, and the property's
// own observations (heals, no redial, spacing at the proxy, what each caller got) are judged directly.

import (
	"context"
	"errors"
	"fmt"
	"time"

	jsonrpc "github.com/filecoin-project/go-jsonrpc"

	"verif/harness/internal/fw"
	"verif/harness/internal/hk"
	"verif/harness/internal/scen"
)

const (
	minD = 25 * time.Millisecond
	maxD = 80 * time.Millisecond
)

var tokSeq = 500000

func clientConn(evs []hk.Event) int {
	for _, e := range evs {
		if e.Site == "main.take" || e.Site == "reconn.begin" || e.Site == "rc.sleep" {
			return e.Conn
		}
	}
	for _, e := range evs {
		if e.Site == "main.start" {
			return e.Conn
		}
	}
	return 1
}

func num(v interface{}) int {
	switch x := v.(type) {
	case int:
		return x
	case int64:
		return int(x)
	case float64:
		return int(x)
	}
	return -1
}

// redialEvents projects the trace of connection conn on the alphabet of Jrpc.Redial.
func redialEvents(evs []hk.Event, conn int) []map[string]interface{} {
	out := []map[string]interface{}{}
	for _, e := range evs {
		if e.Conn != conn {
			continue
		}
		var name string
		switch e.Site {
		case "reconn.begin":
			name = "loss"
		case "reconn.spawn":
			name = "spawn"
		case "rc.sleep":
			name = "sleep"
		case "rc.dial":
			name = "dial"
		case "rc.swap":
			name = "swap"
		case "rc.abort":
			name = "abort"
		case "main.exit.begin":
			name = "exit"
		default:
			continue
		}
		m := map[string]interface{}{"e": name, "t": e.T}
		if name == "sleep" || name == "dial" {
			m["n"] = num(e.KV["attempt"])
		}
		out = append(out, m)
	}
	return out
}

// checkRedial replays the redial events through the model and applies the spacing monitor to the trace.
func checkRedial(d *fw.Driver, res *fw.Result, evs []hk.Event, reconnect bool, sig string, c map[string]interface{}) error {
	conn := clientConn(evs)
	revs := redialEvents(evs, conn)
	ask := map[string]interface{}{"op": "redial", "cfg": map[string]interface{}{"reconnect": reconnect, "minDelay": int(minD / time.Microsecond), "maxDelay": int(maxD / time.Microsecond)}, "events": revs}
	model, err := d.Ask(ask)
	if err != nil {
		return err
	}
	mm := model.(map[string]interface{})
	res.Traces++
	res.Events += len(revs)
	// the property's monitor on the same events: every dial at least minDelay after the latest earlier
	// spawn or dial; no dial at all without a dial factory
	mon := ""
	mark := int64(-1)
	k := 0 // consecutive dials of the current redial cycle, counted by the harness (not read off the hook)
	for _, e := range revs {
		t := e["t"].(int64)
		switch e["e"] {
		case "spawn":
			mark = t
			k = 0
		case "dial":
			// the backoff's lower bound for the k-th consecutive attempt: min * 1.5^k, capped at max
			lo := float64(minD / time.Microsecond)
			for i := 0; i < k; i++ {
				lo *= 1.5
			}
			if m := float64(maxD / time.Microsecond); lo > m {
				lo = m
			}
			if !reconnect {
				mon = "a client created WithNoReconnect dialled again"
			} else if mark >= 0 && t-mark < int64(minD/time.Microsecond) {
				mon = fmt.Sprintf("redial attempt %v started %d µs after the previous attempt / the start of the redial (configured minimum %d µs): the backoff was skipped", e["n"], t-mark, int64(minD/time.Microsecond))
			} else if mark >= 0 && float64(t-mark) < lo-1 {
				mon = fmt.Sprintf("consecutive redial attempt number %d of this outage started %d µs after the previous one; the configured backoff (min %v, max %v, factor 1.5 per attempt) requires at least %.0f µs: the delay does not grow", k, t-mark, minD, maxD, lo)
			}
			mark = t
			k++
		}
	}
	c["redial_events"] = revs
	if mon != "" {
		res.Add(fw.Finding{Kind: "monitor", Signature: sig + " spacing", Detail: mon, Case: c})
		return nil
	}
	if mm["accepted"] != true {
		at := num(jsonNum(mm["refusedAt"]))
		var ev interface{}
		if at >= 0 && at < len(revs) {
			ev = revs[at]
		}
		res.Add(fw.Finding{Kind: "tie", Signature: sig + " redial trace", Detail: fmt.Sprintf("the redial model refuses event %d of the implementation's trace: %v", at, ev), Case: c, Model: mm})
	}
	return nil
}

func jsonNum(v interface{}) interface{} {
	if s, ok := v.(fmt.Stringer); ok {
		var f float64
		fmt.Sscan(s.String(), &f)
		return f
	}
	return v
}

type outcome struct {
	val int
	err error
}

func goCall(f func() (int, error)) chan outcome {
	ch := make(chan outcome, 1)
	go func() { v, err := f(); ch <- outcome{v, err} }()
	return ch
}

func waitOutcome(ch chan outcome, d time.Duration) (outcome, bool) {
	select {
	case o := <-ch:
		return o, true
	case <-time.After(d):
		return outcome{}, false
	}
}

// probe calls Add until it succeeds (the client heals by itself) or the deadline passes.
func probe(cl *scen.CL, d time.Duration) bool {
	deadline := time.Now().Add(d)
	for time.Now().Before(deadline) {
		ok := make(chan bool, 1)
		go func() { v, err := cl.Add(20, 22); ok <- err == nil && v == 42 }()
		select {
		case r := <-ok:
			if r {
				return true
			}
		case <-time.After(2 * time.Second):
		}
		time.Sleep(5 * time.Millisecond)
	}
	return false
}

func waitEntered(e *scen.Env, tok, n int, d time.Duration) bool {
	deadline := time.Now().Add(d)
	for time.Now().Before(deadline) {
		if e.H.C.Entered(tok) >= n {
			return true
		}
		time.Sleep(time.Millisecond)
	}
	return false
}

// Outage: an outage with `fails` refused redials.
func outage(d *fw.Driver, res *fw.Result, seed int64, fails int, mapped bool) error {
	sig := fmt.Sprintf("outage fails=%d mapped=%v", fails, mapped)
	c := map[string]interface{}{"scenario": "outage", "failed_redials": fails, "error_mapping": mapped, "seed": seed}
	e, err := scen.NewEnv(seed, 1)
	if err != nil {
		return err
	}
	defer e.Close()
	ctx, cancel := context.WithCancel(context.Background())
	defer cancel()
	opts := []jsonrpc.Option{jsonrpc.WithReconnectBackoff(minD, maxD), jsonrpc.WithPingInterval(0), jsonrpc.WithTimeout(0)}
	if mapped {
		opts = append(opts, jsonrpc.WithErrors(jsonrpc.NewErrors()))
	}
	cl, closer, err := e.Client(ctx, opts...)
	if err != nil {
		return err
	}
	tokSeq += 4
	tRetry, tPlain, tLate := tokSeq, tokSeq+1, tokSeq+2
	retryCh := goCall(func() (int, error) { return cl.BlockRetry(ctx, tRetry) })
	plainCh := goCall(func() (int, error) { return cl.Block(ctx, tPlain) })
	if !waitEntered(e, tRetry, 1, 3*time.Second) || !waitEntered(e, tPlain, 1, 3*time.Second) {
		return fmt.Errorf("harness error: handlers did not start")
	}
	acc0 := len(e.PX.AcceptTimes())
	t0 := time.Now()
	e.PX.SetRefuse(true)
	e.PX.Cut(0, "rst")
	// the untagged call in flight surfaces the connection error
	po, ok := waitOutcome(plainCh, 3*time.Second)
	switch {
	case !ok:
		res.Add(fw.Finding{Kind: "monitor", Signature: sig + " untagged hangs", Detail: "an untagged call in flight when the connection was lost did not return within 3s", Case: c})
	case po.err == nil:
		res.Add(fw.Finding{Kind: "monitor", Signature: sig + " untagged no error", Detail: fmt.Sprintf("an untagged call in flight at the loss returned %d without error although its response never arrived", po.val), Case: c})
	default:
		var ce *jsonrpc.RPCConnectionError
		typed := errors.As(po.err, &ce)
		if typed != mapped {
			res.Add(fw.Finding{Kind: "monitor", Signature: sig + " untagged error type", Detail: fmt.Sprintf("error mapping enabled=%v but the untagged call's error is %T (%v)", mapped, po.err, po.err), Case: c})
		}
	}
	// a call issued during the outage: untagged fails fast
	lateCh := goCall(func() (int, error) { return cl.Count(ctx, tLate) })
	if lo, ok := waitOutcome(lateCh, 3*time.Second); !ok {
		res.Add(fw.Finding{Kind: "monitor", Signature: sig + " window call hangs", Detail: "an untagged call issued during the outage did not return within 3s", Case: c})
	} else if lo.err == nil {
		res.Add(fw.Finding{Kind: "monitor", Signature: sig + " window call", Detail: "an untagged call issued while the server was unreachable returned a result", Case: c})
	}
	// a retry-tagged call without a context parameter issued during the outage: it rides the outage out
	type addOut struct {
		v   int
		err error
		pan interface{}
	}
	addCh := make(chan addOut, 1)
	go func() {
		var o addOut
		defer func() {
			if p := recover(); p != nil {
				o.pan = p
			}
			addCh <- o
		}()
		o.v, o.err = cl.AddRetry(20, 22)
	}()
	// a notification issued while the client is between connections returns at once (whatever it can report)
	noteDone := make(chan struct{})
	go func() { defer close(noteDone); cl.Note(990000 + int(seed%1000)) }()
	select {
	case <-noteDone:
	case <-time.After(2 * time.Second):
		res.Add(fw.Finding{Kind: "monitor", Signature: sig + " notification blocks", Detail: "a notify-tagged call issued during the outage had not returned after 2s", Case: c})
	}
	// let `fails` redials be refused, then heal the network
	for w := 0; w < 4000 && len(e.PX.AcceptTimes())-acc0 < fails; w++ {
		time.Sleep(time.Millisecond)
	}
	window := time.Since(t0)
	refusedDials := len(e.PX.AcceptTimes()) - acc0
	e.PX.SetRefuse(false)
	if !probe(cl, 5*time.Second) {
		res.Add(fw.Finding{Kind: "monitor", Signature: sig + " no heal", Detail: "the client did not become usable again within 5s of the server being reachable", Case: c})
	}
	// never a busy loop: dials seen by the proxy during the outage window
	if limit := int(window/minD) + 2; refusedDials > limit {
		res.Add(fw.Finding{Kind: "monitor", Signature: sig + " busy redial", Detail: fmt.Sprintf("%d connection attempts reached the proxy in %v (backoff minimum %v allows at most %d)", refusedDials, window, minD, limit), Case: c})
	}
	// the retry-tagged call re-sends on the healed connection and returns its genuine result
	if waitEntered(e, tRetry, 2, 5*time.Second) {
		e.H.C.ReleaseAgain(tRetry)
	}
	e.H.C.Release(tRetry)
	ro, ok := waitOutcome(retryCh, 5*time.Second)
	switch {
	case !ok:
		res.Add(fw.Finding{Kind: "monitor", Signature: sig + " retry hangs", Detail: "the retry-tagged call in flight at the loss did not return within 5s of the heal", Case: c})
	case ro.err != nil || ro.val != tRetry:
		res.Add(fw.Finding{Kind: "monitor", Signature: sig + " retry result", Detail: fmt.Sprintf("the retry-tagged call returned (%d, %v) instead of its genuine result %d", ro.val, ro.err, tRetry), Case: c})
	}
	select {
	case o := <-addCh:
		switch {
		case o.pan != nil:
			res.Add(fw.Finding{Kind: "monitor", Signature: sig + " retry call panics", Detail: fmt.Sprintf("a retry-tagged call without a context parameter issued during the outage panicked in the caller: %v", o.pan), Case: c})
		case o.err != nil || o.v != 42:
			res.Add(fw.Finding{Kind: "monitor", Signature: sig + " retry call (no context) result", Detail: fmt.Sprintf("a retry-tagged call without a context parameter issued during the outage returned (%d, %v) instead of its genuine result", o.v, o.err), Case: c})
		}
	case <-time.After(5 * time.Second):
		res.Add(fw.Finding{Kind: "monitor", Signature: sig + " retry call (no context) hangs", Detail: "a retry-tagged call without a context parameter issued during the outage did not return within 5s of the heal", Case: c})
	}
	e.H.C.Release(tPlain)
	scen.WithTimeout(3*time.Second, closer)
	time.Sleep(2 * time.Millisecond)
	evs := e.RT.Events()
	// the retry loop of the tagged call: attempts and outcomes, against the model
	retries, recvErr := 0, 0
	var rid interface{}
	blockIDs := map[string]bool{} // ids of calls to SH.Block (the tagged call under observation is one of them)
	for _, ev := range evs {
		if ev.Site == "call.enq" && ev.KV["method"] == "SH.Block" {
			blockIDs[fw.JSON(ev.KV["id"])] = true
		}
	}
	for _, ev := range evs {
		if ev.Site == "call.retry" && blockIDs[fw.JSON(ev.KV["id"])] {
			retries++
			rid = ev.KV["id"]
		}
	}
	for _, ev := range evs {
		if ev.Site == "call.recv" && rid != nil && fw.JSON(ev.KV["id"]) == fw.JSON(rid) && ev.KV["err"] == true {
			recvErr++
		}
	}
	outs := []string{}
	for i := 0; i < retries; i++ {
		outs = append(outs, "connErr")
	}
	outs = append(outs, "answer")
	model, err := d.Ask(map[string]interface{}{"op": "retryloop", "retry": true, "outs": outs})
	if err != nil {
		return err
	}
	impl := map[string]interface{}{"returns": ok, "result": "answer", "attempts": retries + 1}
	if ok && ro.err != nil {
		impl["result"] = "other"
	}
	mon := ""
	if recvErr < retries {
		mon = fmt.Sprintf("the retry-tagged call re-sent %d times but received the temporary connection error only %d times", retries, recvErr)
	}
	res.Count("scenario.outage")
	res.CountN("refused_dials", refusedDials)
	res.CountN("retry_resends", retries)
	res.Eval(true, []interface{}{"outage", fails, mapped})
	res.Sample(map[string]interface{}{"scenario": sig, "refused_dials_seen_by_proxy": refusedDials, "outage_ms": window.Milliseconds(), "retry_resends": retries})
	res.Compare(sig+" retry loop", c, normRetry(model), impl, mon)
	return checkRedial(d, res, evs, true, sig, c)
}

func normRetry(m interface{}) interface{} {
	mm, _ := m.(map[string]interface{})
	out := map[string]interface{}{"returns": mm["returns"], "result": mm["result"], "attempts": num(jsonNum(mm["attempts"]))}
	return out
}

// flapping: the server side accepts the upgrade and drops the connection at once, `cycles` times.
func flapping(d *fw.Driver, res *fw.Result, seed int64, cycles int) error {
	sig := fmt.Sprintf("flapping cycles=%d", cycles)
	c := map[string]interface{}{"scenario": "flapping", "cycles": cycles, "seed": seed}
	e, err := scen.NewEnv(seed, 1)
	if err != nil {
		return err
	}
	defer e.Close()
	ctx, cancel := context.WithCancel(context.Background())
	defer cancel()
	cl, closer, err := e.Client(ctx, jsonrpc.WithReconnectBackoff(minD, maxD), jsonrpc.WithPingInterval(0), jsonrpc.WithTimeout(0))
	if err != nil {
		return err
	}
	if v, err := cl.Add(1, 2); err != nil || v != 3 {
		return fmt.Errorf("harness error: first call failed: %v", err)
	}
	t0 := time.Now()
	acc0 := e.PX.Accepted()
	e.PX.Cut(0, "rst")
	dropped := 0
	deadline := time.Now().Add(time.Duration(cycles)*maxD*3 + 2*time.Second)
	for dropped < cycles && time.Now().Before(deadline) {
		if n := e.PX.Accepted(); n > acc0+dropped {
			time.Sleep(500 * time.Microsecond) // let the upgrade complete: the dial succeeds
			e.PX.Cut(n, "rst")
			dropped++
			continue
		}
		time.Sleep(200 * time.Microsecond)
	}
	window := time.Since(t0)
	accepts := e.PX.Accepted() - acc0
	if !probe(cl, 5*time.Second) {
		res.Add(fw.Finding{Kind: "monitor", Signature: sig + " no heal", Detail: "the client did not become usable again after the server stopped dropping connections", Case: c})
	}
	if limit := int(window/minD) + 2; accepts > limit+1 {
		res.Add(fw.Finding{Kind: "monitor", Signature: sig + " busy redial", Detail: fmt.Sprintf("%d connections were accepted in %v (backoff minimum %v allows at most %d)", accepts, window, minD, limit), Case: c})
	}
	scen.WithTimeout(3*time.Second, closer)
	time.Sleep(2 * time.Millisecond)
	res.Count("scenario.flapping")
	res.Eval(true, []interface{}{"flapping", cycles})
	res.Sample(map[string]interface{}{"scenario": sig, "connections_dropped_after_upgrade": dropped, "window_ms": window.Milliseconds()})
	return checkRedial(d, res, e.RT.Events(), true, sig, c)
}

// politeClose: the server ends the connection with a close frame (normal closure 1000, or going away
// 1001) instead of a reset — to the client that is a lost connection like any other: it must heal.
func politeClose(d *fw.Driver, res *fw.Result, seed int64, kind string) error {
	sig := "server closes politely kind=" + kind
	c := map[string]interface{}{"scenario": "polite-close", "kind": kind, "seed": seed}
	e, err := scen.NewEnv(seed, 1)
	if err != nil {
		return err
	}
	defer e.Close()
	ctx, cancel := context.WithCancel(context.Background())
	defer cancel()
	cl, closer, err := e.Client(ctx, jsonrpc.WithReconnectBackoff(minD, maxD), jsonrpc.WithPingInterval(0), jsonrpc.WithTimeout(0))
	if err != nil {
		return err
	}
	if v, err := cl.Add(1, 2); err != nil || v != 3 {
		return fmt.Errorf("harness error: first call failed: %v", err)
	}
	acc0 := e.PX.Accepted()
	e.PX.Cut(0, kind)
	healed := probe(cl, 4*time.Second)
	if !healed {
		res.Add(fw.Finding{Kind: "monitor", Signature: sig + " no heal", Detail: fmt.Sprintf("after the server ended the connection with a close frame the client did not become usable again within 4s (new connections seen by the proxy: %d)", e.PX.Accepted()-acc0), Case: c})
	} else {
		tokSeq += 2
		tok := tokSeq
		ch := goCall(func() (int, error) { return cl.CountRetry(ctx, tok) })
		if o, ok := waitOutcome(ch, 3*time.Second); !ok || o.err != nil || o.val != tok {
			res.Add(fw.Finding{Kind: "monitor", Signature: sig + " retry call", Detail: fmt.Sprintf("a retry-tagged call after the heal returned (%d, %v, returned=%v)", o.val, o.err, ok), Case: c})
		}
	}
	scen.WithTimeout(3*time.Second, closer)
	time.Sleep(2 * time.Millisecond)
	res.Count("scenario.polite-close")
	res.Eval(true, []interface{}{"polite-close", kind})
	return checkRedial(d, res, e.RT.Events(), true, sig, c)
}

// noReconnect: a client created WithNoReconnect.
func noReconnect(d *fw.Driver, res *fw.Result, seed int64) error {
	// the option means the same wherever it stands among the options
	for _, order := range []string{"backoff-then-noreconnect", "noreconnect-then-backoff"} {
		if err := noReconnectOrder(d, res, seed, order); err != nil {
			return err
		}
	}
	return nil
}

func noReconnectOrder(d *fw.Driver, res *fw.Result, seed int64, order string) error {
	sig := "noreconnect options=" + order
	c := map[string]interface{}{"scenario": "noreconnect", "seed": seed, "options": order}
	e, err := scen.NewEnv(seed, 1)
	if err != nil {
		return err
	}
	defer e.Close()
	ctx, cancel := context.WithCancel(context.Background())
	defer cancel()
	opts := []jsonrpc.Option{jsonrpc.WithReconnectBackoff(minD, maxD), jsonrpc.WithNoReconnect(), jsonrpc.WithPingInterval(0), jsonrpc.WithTimeout(0)}
	if order == "noreconnect-then-backoff" {
		opts[0], opts[1] = opts[1], opts[0]
	}
	cl, closer, err := e.Client(ctx, opts...)
	if err != nil {
		return err
	}
	if v, err := cl.Add(1, 2); err != nil || v != 3 {
		return fmt.Errorf("harness error: first call failed: %v", err)
	}
	acc0 := len(e.PX.AcceptTimes())
	e.PX.Cut(0, "fin")
	time.Sleep(8 * minD)
	if n := len(e.PX.AcceptTimes()) - acc0; n != 0 {
		res.Add(fw.Finding{Kind: "monitor", Signature: sig + " redials", Detail: fmt.Sprintf("a client created WithNoReconnect opened %d new connection(s) after the loss", n), Case: c})
	}
	ch := goCall(func() (int, error) { return cl.Add(1, 1) })
	if o, ok := waitOutcome(ch, 3*time.Second); !ok {
		res.Add(fw.Finding{Kind: "monitor", Signature: sig + " call hangs", Detail: "a call on a no-reconnect client whose connection is gone did not return within 3s", Case: c})
	} else if o.err == nil {
		res.Add(fw.Finding{Kind: "monitor", Signature: sig + " call succeeds", Detail: "a call on a no-reconnect client whose connection is gone returned a result", Case: c})
	}
	scen.WithTimeout(3*time.Second, closer)
	time.Sleep(2 * time.Millisecond)
	res.Count("scenario.noreconnect")
	res.Eval(true, []interface{}{"noreconnect"})
	return checkRedial(d, res, e.RT.Events(), false, sig, c)
}

// KeepaliveAfterHeal is the scenario "after a heal the keepalive works on the new connection" for the
// checks of other properties (C17: a healthy link — also a re-established one — is never dropped).
func KeepaliveAfterHeal(d *fw.Driver, res *fw.Result, seed int64) error {
	return keepalive(d, res, seed)
}

// keepalive: after a heal the keepalive works on the new connection.
func keepalive(d *fw.Driver, res *fw.Result, seed int64) error {
	sig := "keepalive after heal"
	c := map[string]interface{}{"scenario": "keepalive-after-heal", "seed": seed}
	e, err := scen.NewEnv(seed, 1, jsonrpc.WithServerPingInterval(0))
	if err != nil {
		return err
	}
	defer e.Close()
	ctx, cancel := context.WithCancel(context.Background())
	defer cancel()
	const ping, timeout = 30 * time.Millisecond, 300 * time.Millisecond
	cl, closer, err := e.Client(ctx, jsonrpc.WithReconnectBackoff(minD, maxD), jsonrpc.WithPingInterval(ping), jsonrpc.WithTimeout(timeout))
	if err != nil {
		return err
	}
	// conclusive only if the environment was responsive (see scen.LagProbe)
	outer := res
	res = fw.NewResult("C05", seed, "")
	lagProbe := scen.StartLagProbe()
	defer func() {
		lag := lagProbe.Stop()
		gap, frames := e.MaxGapS2C(e.PX.Accepted())
		envOK := lag < timeout/4 && (frames < 2 || gap < timeout*6/10)
		for _, f := range res.Findings {
			if f.Kind == "monitor" && !envOK {
				outer.Count("keepalive.inconclusive-slow-environment")
				outer.Note(fmt.Sprintf("%s: verdict %q dropped as inconclusive — the environment was not responsive enough for timeout %v (max scheduling lag %v, max gap between peer frames %v)", sig, f.Signature, timeout, lag, gap))
				continue
			}
			outer.Add(f)
		}
		outer.Traces += res.Traces
		outer.Events += res.Events
		for k, v := range res.Distribution {
			outer.CountN(k, v)
		}
	}()
	if v, err := cl.Add(1, 2); err != nil || v != 3 {
		return fmt.Errorf("harness error: first call failed: %v", err)
	}
	e.PX.Cut(0, "rst")
	if !probe(cl, 5*time.Second) {
		res.Add(fw.Finding{Kind: "monitor", Signature: sig + " no heal", Detail: "the client did not heal", Case: c})
		return nil
	}
	acc := e.PX.Accepted()
	tokSeq += 2
	tok := tokSeq
	ch := goCall(func() (int, error) { return cl.Block(ctx, tok) })
	time.Sleep(3 * timeout) // a call longer than the timeout on the healed, healthy link
	e.H.C.Release(tok)
	o, ok := waitOutcome(ch, 3*time.Second)
	switch {
	case !ok:
		res.Add(fw.Finding{Kind: "monitor", Signature: sig + " long call hangs", Detail: "a long call on the healed connection did not return", Case: c})
	case o.err != nil || o.val != tok:
		res.Add(fw.Finding{Kind: "monitor", Signature: sig + " long call fails", Detail: fmt.Sprintf("a call of 3 x timeout on the healed, healthy connection returned (%d, %v): the keepalive does not work after the redial", o.val, o.err), Case: c})
	}
	if n := e.PX.Accepted() - acc; n != 0 {
		res.Add(fw.Finding{Kind: "monitor", Signature: sig + " drops healthy link", Detail: fmt.Sprintf("the healed, healthy connection was dropped and redialled %d time(s) during a long call", n), Case: c})
	}
	scen.WithTimeout(3*time.Second, closer)
	time.Sleep(2 * time.Millisecond)
	res.Count("scenario.keepalive")
	res.Eval(true, []interface{}{"keepalive"})
	return checkRedial(d, res, e.RT.Events(), true, sig, c)
}

// Scenarios runs the reconnect scenarios of C05.
func Scenarios(d *fw.Driver, res *fw.Result, seed int64, thorough bool) error {
	fails := []int{0, 2}
	flaps := []int{4}
	if thorough {
		fails = []int{0, 1, 2, 4, 7}
		flaps = []int{2, 5, 9}
	}
	for i, k := range fails {
		if err := outage(d, res, seed+int64(i), k, i%2 == 0); err != nil {
			return err
		}
		if res.Enough() {
			return nil
		}
	}
	if thorough {
		if err := outage(d, res, seed+77, 2, false); err != nil {
			return err
		}
		if err := outage(d, res, seed+78, 1, true); err != nil {
			return err
		}
	}
	for i, k := range flaps {
		if err := flapping(d, res, seed+100+int64(i), k); err != nil {
			return err
		}
	}
	for i, k := range []string{"close1000", "close1001"} {
		if err := politeClose(d, res, seed+150+int64(i), k); err != nil {
			return err
		}
	}
	if err := noReconnect(d, res, seed+200); err != nil {
		return err
	}
	for _, status := range []int{503, 404} {
		if err := OutageHTTP(res, seed+400, status); err != nil {
			return err
		}
	}
	return fw.Confirmed(res, "keepalive-after-heal", func(r *fw.Result) error { return keepalive(d, r, seed+300) })
}

// OutageHTTP: during the outage something still answers on the server's address — a front end that replies to
// the upgrade request with an HTTP error while the service restarts.  That is a failed dial like any other:
// the client keeps redialling and heals when the service is back.
func OutageHTTP(res *fw.Result, seed int64, status int) error {
	sig := fmt.Sprintf("outage answered with HTTP %d", status)
	c := map[string]interface{}{"scenario": "outage-http", "status": status}
	e, err := scen.NewEnv(seed+int64(status), 0)
	if err != nil {
		return err
	}
	defer e.Close()
	ctx, cancel := context.WithCancel(context.Background())
	defer cancel()
	cl, closer, err := e.Client(ctx, jsonrpc.WithReconnectBackoff(minD, maxD), jsonrpc.WithPingInterval(0), jsonrpc.WithTimeout(0))
	if err != nil {
		return err
	}
	defer scen.WithTimeout(3*time.Second, closer)
	if v, err := cl.Add(1, 2); err != nil || v != 3 {
		return fmt.Errorf("harness error: first call failed: %v", err)
	}
	acc0 := len(e.PX.AcceptTimes())
	e.PX.SetRefuseHTTP(status)
	e.PX.Cut(0, "rst")
	for w := 0; w < 4000 && len(e.PX.AcceptTimes())-acc0 < 3; w++ {
		time.Sleep(time.Millisecond)
	}
	refused := len(e.PX.AcceptTimes()) - acc0
	e.PX.SetRefuseHTTP(0)
	if refused < 2 {
		res.Add(fw.Finding{Kind: "monitor", Signature: sig + " gives up", Detail: fmt.Sprintf("after %d dial(s) answered with HTTP %d the client stopped redialling", refused, status), Case: c})
	}
	if !probe(cl, 5*time.Second) {
		res.Add(fw.Finding{Kind: "monitor", Signature: sig + " no heal", Detail: fmt.Sprintf("the client did not become usable again within 5s of the service being back (%d dials had been answered with HTTP %d)", refused, status), Case: c})
	}
	res.Count("scenario.outage-http")
	res.Eval(true, []interface{}{"outage-http", status})
	return nil
}

// Package c05 — backoff differential (this file) and reconnect scenarios.
package c05

import (
	"encoding/json"
	"fmt"
	"math/big"
	"time"

	jsonrpc "github.com/filecoin-project/go-jsonrpc"

	"verif/harness/internal/fw"
)

type BackoffCase struct {
	Op      string `json:"op"`
	Min     int64  `json:"min"`
	Max     int64  `json:"max"`
	Attempt int    `json:"attempt"`
}

// RunBackoff: for a grid of (min, max, attempt) the implementation's delay must lie in the model's
// interval for that attempt (the jitter is the implementation's own), and — the property — in
// [min, max].
func RunBackoff(d *fw.Driver, res *fw.Result, thorough bool, corpus []json.RawMessage) error {
	type mm struct{ min, max time.Duration }
	grid := []mm{
		{100 * time.Millisecond, 5 * time.Second}, // client defaults
		{100 * time.Millisecond, 10 * time.Minute}, // method retry
		{time.Millisecond, time.Second}, {time.Nanosecond, time.Hour}, {time.Second, time.Second},
		{5 * time.Millisecond, 50 * time.Millisecond}, {time.Minute, 100 * time.Hour}, {3, 7}, {1, 1 << 62},
	}
	maxAttempt := 400
	reps := 3
	if thorough {
		maxAttempt = 2000
		reps = 10
	}
	var cases []BackoffCase
	for _, raw := range corpus {
		var c BackoffCase
		if json.Unmarshal(raw, &c) == nil && c.Op == "backoff" {
			cases = append(cases, c)
			res.Count("corpus")
		}
	}
	for _, g := range grid {
		for a := -2; a <= maxAttempt; a++ {
			cases = append(cases, BackoffCase{"backoff", int64(g.min), int64(g.max), a})
		}
	}
	for _, c := range cases {
		model, err := d.Ask(c)
		if err != nil {
			return err
		}
		mm := model.(map[string]interface{})
		lo, _ := new(big.Int).SetString(mm["lo"].(json.Number).String(), 10)
		hi, _ := new(big.Int).SetString(mm["hi"].(json.Number).String(), 10)
		for k := 0; k < reps; k++ {
			v := int64(jsonrpc.VerifBackoffNext(time.Duration(c.Min), time.Duration(c.Max), c.Attempt))
			// float64 rounding slack: relative 2^-40 plus one nanosecond
			tol := new(big.Int).Rsh(hi, 40)
			tol.Add(tol, big.NewInt(1))
			bv := big.NewInt(v)
			in := new(big.Int).Sub(lo, tol).Cmp(bv) <= 0 && bv.Cmp(new(big.Int).Add(hi, tol)) <= 0
			mon := ""
			if v < c.Min || v > c.Max {
				mon = fmt.Sprintf("next(%d) = %d ns lies outside [minDelay=%d, maxDelay=%d]", c.Attempt, v, c.Min, c.Max)
				if v <= 0 {
					mon += " — a non-positive delay makes the redial loop spin"
				}
			}
			cls := "growing"
			if hi.Cmp(big.NewInt(c.Max)) == 0 && lo.Cmp(big.NewInt(c.Max)) == 0 {
				cls = "capped"
			} else if c.Attempt < 0 {
				cls = "negative-attempt"
			}
			res.Count("backoff." + cls)
			res.Eval(cls != "capped" || c.Attempt%50 == 0, []interface{}{c.Min, c.Max, c.Attempt})
			if k == 0 && (c.Attempt == 0 || c.Attempt == 7 || c.Attempt == 63) {
				res.Sample(map[string]interface{}{"min": c.Min, "max": c.Max, "attempt": c.Attempt, "delay_ns": v, "model_lo": lo.String(), "model_hi": hi.String()})
			}
			sig := fmt.Sprintf("backoff min=%d max=%d attempt>=63:%v", c.Min, c.Max, c.Attempt >= 63)
			impl := map[string]interface{}{"in": in}
			if !in {
				impl["delay"], impl["lo"], impl["hi"] = v, lo.String(), hi.String()
			}
			res.Compare(sig, c, map[string]interface{}{"in": true}, impl, mon)
		}
	}
	return nil
}


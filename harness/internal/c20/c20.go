// Package c20 — reader parameters: real client (ReaderParamEncoder) and server (ReaderParamDecoder),
// every read/close the handler performs is traced and replayed through Jrpc.Reader; both arrival
// orders of upload and request, concurrent calls, lengths around buffer sizes.
package c20

import (
	"bytes"
	"context"
	"crypto/sha256"
	"encoding/hex"
	"fmt"
	"io"
	"math/rand"
	"net/http"
	"net/http/httptest"
	"os"
	"strings"
	"sync"
	"sync/atomic"
	"time"

	"github.com/gorilla/mux"

	jsonrpc "github.com/filecoin-project/go-jsonrpc"
	"github.com/filecoin-project/go-jsonrpc/httpio"

	"verif/harness/internal/fw"
)

type ROp struct {
	Op          string `json:"op"`
	Want        int    `json:"want"`
	Got         int    `json:"got"`
	EOFWithData bool   `json:"eofWithData,omitempty"`
	// observed
	Sum int    `json:"sum"`
	EOF bool   `json:"eof"`
	Err string `json:"err,omitempty"`
}

type Digest struct {
	Len    int    `json:"len"`
	Sha    string `json:"sha"`
	Trace  []ROp  `json:"trace"`
	EOFSeq int64  `json:"eofSeq"` // global sequence number when the handler first saw EOF / closed
	Panic  string `json:"panic,omitempty"`
}

var seq int64

type RH struct{}

type tracer struct {
	r      io.Reader
	d      *Digest
	h      interface{ Write([]byte) (int, error) }
	closed bool
}

func (t *tracer) Read(p []byte) (int, error) {
	n, err := t.r.Read(p)
	op := ROp{Op: "read", Want: len(p), Got: n}
	for _, b := range p[:n] {
		op.Sum += int(b)
	}
	t.h.Write(p[:n])
	t.d.Len += n
	if err == io.EOF {
		op.EOF = true
		op.EOFWithData = n > 0
		if t.d.EOFSeq == 0 {
			t.d.EOFSeq = atomic.AddInt64(&seq, 1)
		}
	} else if err != nil {
		op.Err = err.Error()
	}
	t.d.Trace = append(t.d.Trace, op)
	return n, err
}

func (t *tracer) Close() error {
	if t.d.EOFSeq == 0 {
		t.d.EOFSeq = atomic.AddInt64(&seq, 1)
	}
	t.d.Trace = append(t.d.Trace, ROp{Op: "close"})
	if c, ok := t.r.(io.Closer); ok {
		return c.Close()
	}
	return nil
}

// Consume performs the read pattern on its reader parameter and reports everything it saw.
func (h *RH) Consume(ctx context.Context, r io.Reader, pattern int, size int) (d Digest, err error) {
	hash := sha256.New()
	t := &tracer{r: r, d: &d, h: hash}
	defer func() {
		if p := recover(); p != nil {
			d.Panic = fmt.Sprint(p)
		}
		d.Sha = hex.EncodeToString(hash.Sum(nil))
	}()
	readAll := func() {
		buf := make([]byte, 4096)
		for {
			_, err := t.Read(buf)
			if err != nil {
				return
			}
		}
	}
	switch pattern {
	case 0: // ReadAll
		io.ReadAll(t)
	case 1: // byte at a time
		b := make([]byte, 1)
		for {
			if _, err := t.Read(b); err != nil {
				break
			}
		}
	case 2: // read past EOF
		readAll()
		for i := 0; i < 3; i++ {
			t.Read(make([]byte, 16))
		}
	case 3: // explicit close after EOF
		readAll()
		t.Close()
	case 4: // early close
		buf := make([]byte, size/2+1)
		t.Read(buf)
		t.Close()
	case 5: // close twice after EOF, then read again
		readAll()
		t.Close()
		t.Close()
		t.Read(make([]byte, 8))
	case 6: // odd chunk sizes
		for _, n := range []int{1, 7, 4095, 4097, 3, 65536} {
			if _, err := t.Read(make([]byte, n)); err != nil {
				break
			}
		}
		readAll()
	}
	return d, nil
}

type Client struct {
	Consume func(context.Context, io.Reader, int, int) (Digest, error)
}

func content(n, salt int) []byte {
	b := make([]byte, n)
	for i := range b {
		b[i] = byte((i + salt) % 251)
	}
	return b
}

type envT struct {
	ts       *httptest.Server
	cl       Client
	closer   jsonrpc.ClientCloser
	pushWait time.Duration // delay before the push route is served (decoder first)
	rpcWait  time.Duration // delay before the rpc route is served (upload first; http transport only)
	pushDone sync.Map      // uuid path ↦ seq when the upload request completed
	nDone    int64         // upload requests completed
	nCalls   int64         // reader-carrying calls issued
}

func mkEnv(transport string) (*envT, error) {
	e := &envT{}
	readerHandler, readerServerOpt := httpio.ReaderParamDecoder()
	srv := jsonrpc.NewServer(readerServerOpt)
	srv.Register("RH", &RH{})
	m := mux.NewRouter()
	m.HandleFunc("/rpc/v0", func(w http.ResponseWriter, r *http.Request) {
		if e.rpcWait > 0 && !strings.Contains(strings.ToLower(r.Header.Get("Connection")), "upgrade") {
			time.Sleep(e.rpcWait)
		}
		srv.ServeHTTP(w, r)
	})
	m.HandleFunc("/rpc/streams/v0/push/{uuid}", func(w http.ResponseWriter, r *http.Request) {
		if e.pushWait > 0 {
			time.Sleep(e.pushWait)
		}
		readerHandler(w, r)
		e.pushDone.Store(r.URL.Path, atomic.AddInt64(&seq, 1))
		atomic.AddInt64(&e.nDone, 1)
	})
	e.ts = httptest.NewServer(m)
	addr := e.ts.Listener.Addr().String()
	re := httpio.ReaderParamEncoder("http://" + addr + "/rpc/streams/v0/push")
	scheme := "http://"
	if transport == "ws" {
		scheme = "ws://"
	}
	var err error
	e.closer, err = jsonrpc.NewMergeClient(context.Background(), scheme+addr+"/rpc/v0", "RH", []interface{}{&e.cl}, nil, re)
	if err != nil {
		e.ts.Close()
		return nil, err
	}
	return e, nil
}

func (e *envT) close() {
	e.closer()
	e.ts.Close()
}

type Case struct {
	Op      string `json:"op"`
	Len     int    `json:"len"`
	Salt    int    `json:"salt"`
	Pattern int    `json:"pattern"`
	Order   string `json:"order"`
	Trans   string `json:"transport"`
	Conc    int    `json:"concurrent"`
	Ops     []ROp  `json:"ops"`
}

func Run(d *fw.Driver, res *fw.Result, seed int64, thorough bool) error {
	r := fw.Rng(seed, "c20")
	lengths := []int{0, 1, 2, 4095, 4096, 4097, 8192, 65537, 1 << 20}
	if thorough {
		lengths = append(lengths, 5<<20, 33333, 511, 512, 513)
	}
	envs := map[string]*envT{}
	defer func() {
		for _, e := range envs {
			// a stuck upload keeps httptest.Server.Close waiting: do not let the harness hang on it
			done := make(chan struct{})
			go func(e *envT) { e.close(); close(done) }(e)
			select {
			case <-done:
			case <-time.After(3 * time.Second):
			}
		}
	}()
	get := func(tr string) (*envT, error) {
		if e, ok := envs[tr]; ok {
			return e, nil
		}
		e, err := mkEnv(tr)
		if err == nil {
			envs[tr] = e
		}
		return e, err
	}
	reps := 1
	if thorough {
		reps = 3
	}
	// both clients (two servers, two push addresses) exist before the first call: each client's reader
	// parameters must keep going to its own server whatever other clients the process constructs
	for _, tr := range []string{"ws", "http"} {
		if _, err := get(tr); err != nil {
			return err
		}
	}
	if err := RetryOutage(d, res); err != nil {
		return err
	}
	if err := TrailingSlash(res); err != nil {
		return err
	}
	for rep := 0; rep < reps; rep++ {
		for _, tr := range []string{"ws", "http"} {
			for _, ln := range lengths {
				for pattern := 0; pattern <= 6; pattern++ {
					if pattern == 1 && ln > 9000 {
						continue
					}
					order := fw.Pick(r, []string{"natural", "decoder-first", "upload-first"})
					if tr == "ws" && order == "upload-first" {
						order = "natural"
					}
					conc := 1
					if r.Intn(4) == 0 {
						conc = 2 + r.Intn(7)
					}
					if res.Enough() {
						return nil
					}
					e, err := get(tr)
					if err != nil {
						return err
					}
					if err := runGroup(d, res, r, e, tr, ln, pattern, order, conc); err != nil {
						if err == errHang {
							return nil // a concrete failing run is recorded; the environment is wedged, stop here
						}
						return err
					}
				}
			}
		}
	}
	// the rendezvous table alone: random arrival interleavings through the model only (it has no
	// observable trace without hooks) are covered by the theorem; here both forced orders above.
	return nil
}

var errHang = fmt.Errorf("a reader-carrying call hangs")

// mkSource wraps the caller's byte sequence in different kinds of io.Reader: what the handler must see is
// what the reader yields *from where the caller left it*, whatever else the reader can do (seek, report
// its length).  kind 0: in-memory; 1: a file positioned after a header the caller has already read;
// 2: a section reader read part-way (seekable, length unknown to net/http); 3: a pipe.
func mkSource(raw []byte, kind int) (io.Reader, func()) {
	const hdr = "HDR:0123456789ABCDEF"
	switch kind {
	case 1:
		f, err := os.CreateTemp("", "c20-*")
		if err != nil {
			break
		}
		f.WriteString(hdr)
		f.Write(raw)
		f.Seek(0, io.SeekStart)
		io.ReadFull(f, make([]byte, len(hdr))) // the caller consumed the header itself
		return f, func() { f.Close(); os.Remove(f.Name()) }
	case 2:
		sr := io.NewSectionReader(bytes.NewReader(append([]byte(hdr), raw...)), 0, int64(len(hdr)+len(raw)))
		io.ReadFull(sr, make([]byte, len(hdr)))
		return sr, func() {}
	case 3:
		pr, pw := io.Pipe()
		go func() {
			for off := 0; off < len(raw); off += 1000 {
				end := off + 1000
				if end > len(raw) {
					end = len(raw)
				}
				if _, err := pw.Write(raw[off:end]); err != nil {
					return
				}
			}
			pw.Close()
		}()
		return pr, func() { pr.Close() }
	}
	return strings.NewReader(string(raw)), func() {}
}

func runGroup(d *fw.Driver, res *fw.Result, r *rand.Rand, e *envT, tr string, ln, pattern int, order string, conc int) error {
	e.pushWait, e.rpcWait = 0, 0
	switch order {
	case "decoder-first":
		e.pushWait = 25 * time.Millisecond
	case "upload-first":
		e.rpcWait = 25 * time.Millisecond
	}
	type result struct {
		c   Case
		d   Digest
		err error
		raw []byte
	}
	results := make([]result, conc)
	var wg sync.WaitGroup
	for i := 0; i < conc; i++ {
		n := ln
		if i > 0 {
			n = ln + i*3 // concurrent calls carry different contents
		}
		salt := r.Intn(251)
		results[i].c = Case{Op: "reader", Len: n, Salt: salt, Pattern: pattern, Order: order, Trans: tr, Conc: conc}
		results[i].raw = content(n, salt)
		wg.Add(1)
		go func(i int) {
			defer wg.Done()
			ctx, cancel := context.WithTimeout(context.Background(), 8*time.Second)
			defer cancel()
			src, cleanup := mkSource(results[i].raw, (i+pattern+ln)%4)
			defer cleanup()
			results[i].d, results[i].err = e.cl.Consume(ctx, src, pattern, results[i].c.Len)
		}(i)
	}
	done := make(chan struct{})
	go func() { wg.Wait(); close(done) }()
	select {
	case <-done:
	case <-time.After(12 * time.Second):
		res.Add(fw.Finding{Kind: "monitor", Signature: fmt.Sprintf("reader call hangs pattern=%d order=%s", pattern, order), Detail: fmt.Sprintf("a reader-carrying call (%d concurrent) did not return within 12s", conc), Case: results[0].c})
		return errHang
	}
	// every upload request completes once its handler has consumed (or closed) the stream
	e.nCalls += int64(conc)
	for w := 0; w < 400 && atomic.LoadInt64(&e.nDone) < e.nCalls; w++ {
		time.Sleep(5 * time.Millisecond)
	}
	if atomic.LoadInt64(&e.nDone) < e.nCalls {
		res.Add(fw.Finding{Kind: "monitor", Signature: fmt.Sprintf("upload request never completes pattern=%d order=%s", pattern, order),
			Detail: fmt.Sprintf("%d of %d upload requests completed although every handler returned", atomic.LoadInt64(&e.nDone), e.nCalls), Case: results[0].c})
		e.nCalls = atomic.LoadInt64(&e.nDone)
	}
	for i := range results {
		c, dg := results[i].c, results[i].d
		c.Ops = dg.Trace
		// the model replays the trace over content (k+salt)%251
		ask := map[string]interface{}{"op": "reader", "len": c.Len, "salt": c.Salt, "ops": dg.Trace}
		model, err := d.Ask(ask)
		if err != nil {
			return err
		}
		// implementation's view in the model's vocabulary
		outs := []interface{}{}
		for _, op := range dg.Trace {
			if op.Op == "close" {
				outs = append(outs, "closed")
				continue
			}
			o := map[string]interface{}{"n": op.Got, "sum": op.Sum, "eof": op.EOF}
			if op.Err != "" {
				o["err"] = op.Err
			}
			outs = append(outs, o)
		}
		mm := model.(map[string]interface{})
		mv := map[string]interface{}{"outs": mm["outs"]}
		impl := map[string]interface{}{"outs": outs}
		// ---- the property, read directly
		mon := ""
		want := sha256.Sum256(results[i].raw)
		sawEOF := false
		for _, op := range dg.Trace {
			if op.EOF {
				sawEOF = true
			}
		}
		switch {
		case results[i].err != nil && strings.Contains(results[i].err.Error(), "panic"):
			mon = "the handler panicked while using its reader: " + results[i].err.Error()
		case results[i].err != nil:
			mon = "the call failed: " + results[i].err.Error()
		case dg.Panic != "":
			mon = "the handler panicked while using its reader: " + dg.Panic
		case pattern != 4 && dg.Len != c.Len:
			mon = fmt.Sprintf("handler read %d bytes, %d were sent", dg.Len, c.Len)
		case pattern != 4 && dg.Sha != hex.EncodeToString(want[:]):
			mon = "handler observed different bytes than the caller sent"
		case pattern != 4 && !sawEOF:
			mon = "handler never saw end-of-file"
		}
		if mon == "" {
			after := false
			for _, op := range dg.Trace {
				if op.Op == "read" && after && !(op.EOF && op.Got == 0) {
					mon = fmt.Sprintf("a read after end-of-file returned n=%d eof=%v err=%q instead of end-of-file", op.Got, op.EOF, op.Err)
				}
				if op.EOF {
					after = true
				}
			}
		}
		res.Count(fmt.Sprintf("pattern.%d", pattern))
		res.Count("order." + order)
		res.Count("transport." + tr)
		res.Count(fmt.Sprintf("concurrent.%d", conc))
		res.Eval(true, []interface{}{c.Len, c.Salt, pattern, order, tr, conc})
		if c.Len == 4097 {
			res.Sample(map[string]interface{}{"len": c.Len, "pattern": pattern, "order": order, "transport": tr, "trace": dg.Trace})
		}
		res.Compare(fmt.Sprintf("reader pattern=%d len=%d order=%s transport=%s", pattern, c.Len, order, tr), c, mv, impl, mon)
	}
	return nil
}

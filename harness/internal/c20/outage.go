package c20

// RetryOutage: a reader parameter on a retry-tagged method while the RPC connection is down.  The first
// attempt fails locally with the temporary connection error; the side-channel upload — a separate HTTP
// connection — has meanwhile reached the server and waits in the rendezvous table; when the connection is
// back the retried request must meet *that* upload: the handler sees exactly the caller's bytes and the
// upload request completes.

import (
	"context"
	"crypto/sha256"
	"encoding/hex"
	"fmt"
	"io"
	"net/http"
	"net/http/httptest"
	"strings"
	"sync/atomic"
	"time"

	jsonrpc "github.com/filecoin-project/go-jsonrpc"
	"github.com/filecoin-project/go-jsonrpc/httpio"
	"github.com/gorilla/mux"

	"verif/harness/internal/fw"
	"verif/harness/internal/px"
)

type retryClient struct {
	Consume      func(context.Context, io.Reader, int, int) (Digest, error)
	ConsumeRetry func(context.Context, io.Reader, int, int) (Digest, error) `retry:"true" rpc_method:"RH.Consume"`
}

func RetryOutage(d *fw.Driver, res *fw.Result) error {
	readerHandler, readerServerOpt := httpio.ReaderParamDecoder()
	srv := jsonrpc.NewServer(readerServerOpt)
	srv.Register("RH", &RH{})
	var uploads, uploadsDone int64
	m := mux.NewRouter()
	m.HandleFunc("/rpc/v0", srv.ServeHTTP)
	m.HandleFunc("/rpc/streams/v0/push/{uuid}", func(w http.ResponseWriter, r *http.Request) {
		atomic.AddInt64(&uploads, 1)
		readerHandler(w, r)
		atomic.AddInt64(&uploadsDone, 1)
	})
	ts := httptest.NewServer(m)
	defer func() {
		done := make(chan struct{})
		go func() { ts.Close(); close(done) }()
		select {
		case <-done:
		case <-time.After(2 * time.Second):
		}
	}()
	addr := ts.Listener.Addr().String()
	// the RPC connection goes through the proxy, the uploads go straight to the server
	proxy, err := px.New(addr)
	if err != nil {
		return err
	}
	defer proxy.Close()
	var cl retryClient
	closer, err := jsonrpc.NewMergeClient(context.Background(), "ws://"+proxy.Addr()+"/rpc/v0", "RH", []interface{}{&cl}, nil,
		httpio.ReaderParamEncoder("http://"+addr+"/rpc/streams/v0/push"), jsonrpc.WithReconnectBackoff(20*time.Millisecond, 60*time.Millisecond))
	if err != nil {
		return err
	}
	defer func() {
		done := make(chan struct{})
		go func() { closer(); close(done) }()
		select {
		case <-done:
		case <-time.After(2 * time.Second):
		}
	}()
	sig := "reader parameter on a retry-tagged call across an outage"
	c := map[string]interface{}{"scenario": "retry-outage", "len": 12003}
	ctx, cancel := context.WithTimeout(context.Background(), 10*time.Second)
	defer cancel()
	if dg, err := cl.Consume(ctx, strings.NewReader("warm-up"), 0, 7); err != nil || dg.Len != 7 {
		return fmt.Errorf("retry-outage: warm-up call failed: %v (%d bytes)", err, dg.Len)
	}
	proxy.SetRefuse(true)
	proxy.Cut(0, "rst")
	time.Sleep(150 * time.Millisecond)
	raw := content(12003, 17)
	type ret struct {
		d   Digest
		err error
	}
	ch := make(chan ret, 1)
	go func() {
		dg, err := cl.ConsumeRetry(ctx, strings.NewReader(string(raw)), 0, len(raw))
		ch <- ret{dg, err}
	}()
	time.Sleep(300 * time.Millisecond)
	proxy.SetRefuse(false)
	select {
	case r := <-ch:
		want := sha256.Sum256(raw)
		switch {
		case r.err != nil:
			res.Add(fw.Finding{Kind: "monitor", Signature: sig + " call failed", Detail: fmt.Sprintf("the retried call failed: %v", r.err), Case: c})
		case r.d.Len != len(raw) || r.d.Sha != hex.EncodeToString(want[:]):
			res.Add(fw.Finding{Kind: "monitor", Signature: sig + " wrong bytes", Detail: fmt.Sprintf("the handler observed %d bytes (sha %.12s), the caller sent %d (sha %.12s)", r.d.Len, r.d.Sha, len(raw), hex.EncodeToString(want[:])), Case: c})
		}
	case <-time.After(9 * time.Second):
		res.Add(fw.Finding{Kind: "monitor", Signature: sig + " call hangs", Detail: "the retried call had not returned 9s after the connection was back", Case: c})
	}
	// every upload that was started completes
	for w := 0; w < 400 && atomic.LoadInt64(&uploadsDone) < atomic.LoadInt64(&uploads); w++ {
		time.Sleep(5 * time.Millisecond)
	}
	if u, dn := atomic.LoadInt64(&uploads), atomic.LoadInt64(&uploadsDone); dn < u {
		res.Add(fw.Finding{Kind: "monitor", Signature: sig + " upload never completes", Detail: fmt.Sprintf("%d upload requests were started, %d completed: an upload nobody asks for stays parked on the server", u, dn), Case: c})
	}
	res.Count("retry-outage")
	res.Eval(true, []interface{}{"retry-outage"})
	return nil
}

// TrailingSlash: the push address may be written with a trailing slash; the upload must reach the same handler
// (a redirect would turn the POST into a GET without a body: the handler would read an empty stream).
func TrailingSlash(res *fw.Result) error {
	readerHandler, readerServerOpt := httpio.ReaderParamDecoder()
	srv := jsonrpc.NewServer(readerServerOpt)
	srv.Register("RH", &RH{})
	m := mux.NewRouter()
	m.HandleFunc("/rpc/v0", srv.ServeHTTP)
	m.HandleFunc("/rpc/streams/v0/push/{uuid}", readerHandler)
	ts := httptest.NewServer(m)
	defer ts.Close()
	addr := ts.Listener.Addr().String()
	for _, push := range []string{"http://" + addr + "/rpc/streams/v0/push/", "http://" + addr + "/rpc/streams/v0/push"} {
		var cl retryClient
		closer, err := jsonrpc.NewMergeClient(context.Background(), "ws://"+addr+"/rpc/v0", "RH", []interface{}{&cl}, nil, httpio.ReaderParamEncoder(push))
		if err != nil {
			return err
		}
		raw := content(131072, 5)
		ctx, cancel := context.WithTimeout(context.Background(), 8*time.Second)
		dg, err := cl.Consume(ctx, strings.NewReader(string(raw)), 0, len(raw))
		cancel()
		closer()
		want := sha256.Sum256(raw)
		res.Count("push-address")
		res.Eval(true, []interface{}{"push-address", strings.HasSuffix(push, "/")})
		if err != nil || dg.Len != len(raw) || dg.Sha != hex.EncodeToString(want[:]) {
			res.Add(fw.Finding{Kind: "monitor", Signature: fmt.Sprintf("push address trailing-slash=%v", strings.HasSuffix(push, "/")),
				Detail: fmt.Sprintf("the handler observed %d of the %d bytes the caller sent (error: %v)", dg.Len, len(raw), err),
				Case:   map[string]interface{}{"scenario": "push-address", "address": strings.Replace(push, addr, "HOST", 1)}})
		}
	}
	return nil
}

// Package c11 — differential check of the error path (createError → wire → JSONRPCError.val) with a
// family of real error types, random registration tables on both sides, all transports.
package c11

import (
	"bytes"
	"context"
	"encoding/json"
	"errors"
	"fmt"
	"io"
	"math/rand"
	"net/http/httptest"
	"reflect"
	"strings"

	jsonrpc "github.com/filecoin-project/go-jsonrpc"

	"verif/harness/internal/fw"
)

// ---------- the error family ----------

// EPlain: nothing but Error().
type EPlain struct{ S string }

func (e EPlain) Error() string { return "plain:" + e.S }

// EWrap: an error that wraps another one (Unwrap) — its own dynamic type is what the registry must look at,
// not the type of anything down its chain.
type EWrap struct {
	S     string
	Inner error
}

func (e EWrap) Error() string {
	if e.Inner == nil {
		return "wrap:" + e.S
	}
	return "wrap:" + e.S + ": " + e.Inner.Error()
}
func (e EWrap) Unwrap() error { return e.Inner }

// EPtr: Error() on the pointer only.
type EPtr struct{ S string }

func (e *EPtr) Error() string { return "ptr:" + e.S }

// EMarsh: marshalable on the pointer method set (UnmarshalJSON has a pointer receiver).
type EMarsh struct {
	Msg     string
	Content string
	Fail    string // "marshal" / "unmarshal": make that step fail
}

func (e EMarsh) Error() string { return e.Msg }
func (e EMarsh) MarshalJSON() ([]byte, error) {
	if e.Fail == "marshal" {
		return nil, errors.New("marshal failed")
	}
	return json.Marshal(map[string]string{"c": e.Content, "f": e.Fail})
}
func (e *EMarsh) UnmarshalJSON(b []byte) error {
	var m map[string]string
	if err := json.Unmarshal(b, &m); err != nil {
		return err
	}
	if m["f"] == "unmarshal" {
		return errors.New("unmarshal failed")
	}
	e.Content = m["c"]
	return nil
}

// ECodec: RPCErrorCodec on the pointer method set.
type ECodec struct {
	Msg     string
	Content string
	Fail    string // "to" / "from"
}

func (e ECodec) Error() string { return e.Msg }
func (e ECodec) ToJSONRPCError() (jsonrpc.JSONRPCError, error) {
	if e.Fail == "to" {
		return jsonrpc.JSONRPCError{}, errors.New("to failed")
	}
	return jsonrpc.JSONRPCError{Code: 9, Message: "codec:" + e.Msg, Data: map[string]string{"c": e.Content, "f": e.Fail}}, nil
}
func (e *ECodec) FromJSONRPCError(j jsonrpc.JSONRPCError) error {
	m, ok := j.Data.(map[string]interface{})
	if !ok {
		return errors.New("no data")
	}
	if m["f"] == "from" {
		return errors.New("from failed")
	}
	e.Content, _ = m["c"].(string)
	e.Msg = j.Message
	return nil
}

type Ty struct {
	Name string `json:"name"`
	Ptr  bool   `json:"ptr"`
}

var names = []string{"EPlain", "EPtr", "EMarsh", "ECodec", "EWrap"}

func goType(t Ty) reflect.Type {
	var rt reflect.Type
	switch t.Name {
	case "EPlain":
		rt = reflect.TypeOf(EPlain{})
	case "EPtr":
		rt = reflect.TypeOf(EPtr{})
	case "EMarsh":
		rt = reflect.TypeOf(EMarsh{})
	case "ECodec":
		rt = reflect.TypeOf(ECodec{})
	case "EWrap":
		rt = reflect.TypeOf(EWrap{})
	}
	if t.Ptr {
		rt = reflect.PointerTo(rt)
	}
	return rt
}

var errorT = reflect.TypeOf((*error)(nil)).Elem()
var codecT = reflect.TypeOf((*jsonrpc.RPCErrorCodec)(nil)).Elem()
var marshT = reflect.TypeOf((*interface {
	json.Marshaler
	json.Unmarshaler
})(nil)).Elem()

// capOf reads the capability of a dynamic type off its Go method set (the library's type switch
// prefers the codec).
func capOf(t Ty) string {
	rt := goType(t)
	switch {
	case rt.Implements(codecT):
		return "codec"
	case rt.Implements(marshT):
		return "marshalable"
	}
	return "plain"
}

// ---------- spec of what the handler returns ----------

type Spec struct {
	Nil     bool   `json:"nil"`
	Ty      Ty     `json:"ty"`
	Msg     string `json:"msg"`
	Content string `json:"content"`
	Fail    string `json:"fail"`
	Inner   *Ty    `json:"inner,omitempty"` // EWrap only: the dynamic type of the wrapped error
}

func (s Spec) build() error {
	if s.Nil {
		return nil
	}
	var v interface{}
	switch s.Ty.Name {
	case "EPlain":
		v = EPlain{S: s.Msg}
	case "EPtr":
		v = EPtr{S: s.Msg}
	case "EMarsh":
		v = EMarsh{Msg: s.Msg, Content: s.Content, Fail: s.Fail}
	case "ECodec":
		v = ECodec{Msg: s.Msg, Content: s.Content, Fail: s.Fail}
	case "EWrap":
		w := EWrap{S: s.Msg}
		if s.Inner != nil && s.Inner.Name != "EWrap" {
			w.Inner = Spec{Ty: *s.Inner, Msg: "inner " + s.Msg, Content: s.Content}.build()
		}
		v = w
	}
	if s.Ty.Ptr {
		p := reflect.New(reflect.TypeOf(v))
		p.Elem().Set(reflect.ValueOf(v))
		return p.Interface().(error)
	}
	return v.(error)
}

type H struct{}

func (H) Err(s Spec) error           { return s.build() }
func (H) ValErr(s Spec) (int, error) { return 77, s.build() }

type Client struct {
	Err    func(Spec) error
	ValErr func(Spec) (int, error)
}

// trigger is the server-side handler of the "reverse" transport: it calls back into the client that called it and
// keeps what that reverse call returned.
type trigger struct {
	val int
	err error
}

func (t *trigger) Go(ctx context.Context, sp Spec, shape string) error {
	rc, ok := jsonrpc.ExtractReverseClient[Client](ctx)
	if !ok {
		t.val, t.err = 0, errors.New("no reverse client")
		return nil
	}
	if shape == "err" {
		t.val, t.err = 77, rc.Err(sp)
	} else {
		t.val, t.err = rc.ValErr(sp)
	}
	return nil
}

type RegEntry struct {
	Code int `json:"code"`
	Ty   Ty  `json:"ty"`
}

func mkErrors(entries []RegEntry) jsonrpc.Errors {
	es := jsonrpc.NewErrors()
	for _, e := range entries {
		// Register(code, new(T)) for the value form, new(*T) for the pointer form
		es.Register(jsonrpc.ErrorCode(e.Code), reflect.New(goType(e.Ty)).Interface())
	}
	return es
}

type Case struct {
	Op    string      `json:"op"`
	SReg  interface{} `json:"sreg"` // nil or []RegEntry
	CReg  interface{} `json:"creg"`
	Err   interface{} `json:"err"` // nil or {ty,msg,content}
	HVal  string      `json:"hval"`
	App   interface{} `json:"app"`
	Spec  Spec        `json:"spec"`
	Shape string      `json:"shape"`
	Trans string      `json:"transport"`
	// Bystander: other endpoints sharing the table values are constructed before the call (harness only)
	Bystander bool `json:"bystander,omitempty"`
}

func contentOf(err error) (Ty, string, bool) {
	switch e := err.(type) {
	case EPlain:
		return Ty{"EPlain", false}, e.S, true
	case *EPlain:
		return Ty{"EPlain", true}, e.S, true
	case *EPtr:
		return Ty{"EPtr", true}, e.S, true
	case EMarsh:
		return Ty{"EMarsh", false}, e.Content, true
	case *EMarsh:
		return Ty{"EMarsh", true}, e.Content, true
	case ECodec:
		return Ty{"ECodec", false}, e.Content, true
	case *ECodec:
		return Ty{"ECodec", true}, e.Content, true
	case EWrap:
		return Ty{"EWrap", false}, e.S, true
	case *EWrap:
		return Ty{"EWrap", true}, e.S, true
	}
	return Ty{}, "", false
}

var messages = []string{"boom", "", "with \"quotes\" and \\ backslash", "<html>&amp;", "multi\nline\ttab", "héllo wörld ✓", "\u0001ctl", strings.Repeat("long ", 50)}

func genTable(r *rand.Rand) interface{} {
	if r.Intn(5) == 0 {
		return nil // no WithErrors / WithServerErrors at all
	}
	entries := []RegEntry{}
	for _, n := range names {
		switch r.Intn(4) {
		case 0:
		case 1:
			if n != "EPtr" { // the value form of EPtr does not implement error: Register would panic
				entries = append(entries, RegEntry{Code: 2 + r.Intn(5), Ty: Ty{n, false}})
			}
		default:
			entries = append(entries, RegEntry{Code: 2 + r.Intn(5), Ty: Ty{n, true}})
		}
	}
	if r.Intn(5) == 0 && len(entries) > 0 {
		// the same type under a second code (a client that talks to an old and a new server): it is sent under
		// the code registered last and must be accepted under both
		e0 := entries[r.Intn(len(entries))]
		entries = append(entries, RegEntry{Code: 10 + r.Intn(3), Ty: e0.Ty})
	}
	if r.Intn(6) == 0 { // codec code registered for something
		entries = append(entries, RegEntry{Code: 9, Ty: Ty{fw.Pick(r, []string{"ECodec", "EMarsh", "EPlain"}), r.Intn(2) == 0}})
	}
	r.Shuffle(len(entries), func(i, j int) { entries[i], entries[j] = entries[j], entries[i] })
	return entries
}

func Run(d *fw.Driver, res *fw.Result, seed int64, n int, corpus []json.RawMessage) error {
	r := fw.Rng(seed, "c11")
	var cases []*Case
	for _, raw := range corpus {
		var c Case
		if json.Unmarshal(raw, &c) == nil && c.Op == "errors" {
			cases = append(cases, &c)
		}
	}
	for i := 0; i < n; i++ {
		c := &Case{Op: "errors", HVal: "77"}
		c.SReg = genTable(r)
		if r.Intn(3) == 0 {
			c.CReg = c.SReg // same table on both sides
		} else {
			c.CReg = genTable(r)
		}
		forceTy := Ty{}
		if i%15 == 7 {
			// directed: the client knows a type under two codes (registered one after the other), the server
			// sends it under the one registered first
			forceTy = Ty{fw.Pick(r, []string{"EPlain", "EMarsh", "EWrap"}), r.Intn(2) == 0}
			c1, c2 := 2+r.Intn(3), 7+r.Intn(3)
			c.SReg = []RegEntry{{Code: c1, Ty: forceTy}}
			c.CReg = []RegEntry{{Code: c1, Ty: forceTy}, {Code: c2, Ty: forceTy}}
			if r.Intn(2) == 0 {
				c.CReg = []RegEntry{{Code: c1, Ty: forceTy}, {Code: 6, Ty: Ty{"EPtr", true}}, {Code: c2, Ty: forceTy}}
			}
		}
		c.Bystander = r.Intn(4) == 0
		c.Shape = fw.Pick(r, []string{"err", "valerr"})
		c.Trans = fw.Pick(r, []string{"custom", "custom", "http", "ws", "reverse"})
		sp := Spec{Nil: r.Intn(8) == 0, Msg: fw.Pick(r, messages), Content: fw.Pick(r, []string{"k", "", "x y", "ünï", "\"q\""})}
		sp.Ty = Ty{fw.Pick(r, names), r.Intn(2) == 0}
		if forceTy.Name != "" {
			sp.Ty = forceTy
			sp.Nil = false
		}
		if sp.Ty.Name == "EPtr" {
			sp.Ty.Ptr = true
		}
		if sp.Ty.Name == "EWrap" {
			in := Ty{fw.Pick(r, []string{"EPlain", "EPtr", "EMarsh", "ECodec"}), r.Intn(2) == 0}
			if in.Name == "EPtr" {
				in.Ptr = true
			}
			sp.Inner = &in
		}
		if r.Intn(5) == 0 {
			sp.Fail = fw.Pick(r, []string{"marshal", "unmarshal", "to", "from"})
		}
		c.Spec = sp
		cases = append(cases, c)
	}
	for _, c := range cases {
		if err := one(d, res, c); err != nil {
			return err
		}
	}
	return nil
}

func entriesOf(v interface{}) ([]RegEntry, bool) {
	if v == nil {
		return nil, false
	}
	b, _ := json.Marshal(v)
	var es []RegEntry
	json.Unmarshal(b, &es)
	return es, true
}

func one(d *fw.Driver, res *fw.Result, c *Case) error {
	sp := c.Spec
	herr := sp.build()
	// the application's behaviour, evaluated by running the real methods
	app := map[string]interface{}{}
	var caps []map[string]interface{}
	for _, n := range names {
		for _, p := range []bool{false, true} {
			caps = append(caps, map[string]interface{}{"ty": Ty{n, p}, "cap": capOf(Ty{n, p})})
		}
	}
	app["cap"] = caps
	var wireMsg string
	var wireData interface{}
	var meta []byte
	if herr != nil {
		wireMsg = herr.Error()
		c.Err = map[string]interface{}{"ty": sp.Ty, "msg": herr.Error(), "content": contentOfSpec(sp)}
		if m, ok := herr.(interface {
			json.Marshaler
			json.Unmarshaler
		}); ok {
			if b, err := m.MarshalJSON(); err == nil {
				meta = b
				app["marshal"] = string(b)
			}
		}
		if cd, ok := herr.(jsonrpc.RPCErrorCodec); ok {
			if w, err := cd.ToJSONRPCError(); err == nil {
				db, _ := json.Marshal(w.Data)
				app["toWire"] = map[string]interface{}{"code": int(w.Code), "msg": w.Message, "data": string(db)}
				wireMsg = w.Message
				json.Unmarshal(db, &wireData)
				meta = nil
			}
		}
	}
	var unm, frw []map[string]interface{}
	for _, n := range names {
		pv := reflect.New(goType(Ty{n, false}))
		var ur interface{}
		if u, ok := pv.Interface().(json.Unmarshaler); ok && len(meta) > 0 {
			if err := u.UnmarshalJSON(meta); err == nil {
				_, cont, _ := contentOf(pv.Interface().(error))
				ur = cont
			}
		}
		unm = append(unm, map[string]interface{}{"name": n, "result": ur})
		pv2 := reflect.New(goType(Ty{n, false}))
		var fr interface{}
		if cd, ok := pv2.Interface().(jsonrpc.RPCErrorCodec); ok {
			if err := cd.FromJSONRPCError(jsonrpc.JSONRPCError{Message: wireMsg, Data: wireData}); err == nil {
				_, cont, _ := contentOf(pv2.Interface().(error))
				fr = cont
			}
		}
		frw = append(frw, map[string]interface{}{"name": n, "result": fr})
	}
	app["unmarshal"], app["fromWire"] = unm, frw
	c.App = app

	model, err := d.Ask(c)
	if err != nil {
		return err
	}

	// ---- the real thing
	var sopts []jsonrpc.ServerOption
	var sTab, cTab *jsonrpc.Errors
	if es, ok := entriesOf(c.SReg); ok {
		t := mkErrors(es)
		sTab = &t
		sopts = append(sopts, jsonrpc.WithServerErrors(t))
	}
	srv := jsonrpc.NewServer(sopts...)
	srv.Register("H", H{})
	var copts []jsonrpc.Option
	if es, ok := entriesOf(c.CReg); ok {
		t := mkErrors(es)
		cTab = &t
		copts = append(copts, jsonrpc.WithErrors(t))
	}
	if c.Bystander {
		// other endpoints of the same process built from the same table values (an application keeps one
		// package-level table), each given a further table of its own: what they register must stay theirs
		var extra []RegEntry
		for i, n := range names {
			extra = append(extra, RegEntry{Code: 2 + i, Ty: Ty{n, n == "EPtr" || i%2 == 0}})
		}
		if sTab != nil {
			s2 := jsonrpc.NewServer(jsonrpc.WithServerErrors(*sTab), jsonrpc.WithServerErrors(mkErrors(extra)))
			s2.Register("H", H{})
		}
		if cTab != nil {
			var cl2 Client
			cl2closer, err := jsonrpc.NewCustomClient("H", []interface{}{&cl2}, func(ctx context.Context, body []byte) (io.ReadCloser, error) {
				return io.NopCloser(strings.NewReader("")), nil
			}, jsonrpc.WithErrors(*cTab), jsonrpc.WithErrors(mkErrors(extra)))
			if err != nil {
				return err
			}
			defer cl2closer()
		}
	}
	var cl Client
	var closer jsonrpc.ClientCloser
	switch c.Trans {
	case "custom":
		closer, err = jsonrpc.NewCustomClient("H", []interface{}{&cl}, func(ctx context.Context, body []byte) (io.ReadCloser, error) {
			var buf bytes.Buffer
			srv.HandleRequest(ctx, bytes.NewReader(body), &buf)
			return io.NopCloser(&buf), nil
		}, copts...)
	case "http", "ws":
		ts := httptest.NewServer(srv)
		defer ts.Close()
		url := ts.URL
		if c.Trans == "ws" {
			url = "ws" + strings.TrimPrefix(url, "http")
		}
		closer, err = jsonrpc.NewMergeClient(context.Background(), url, "H", []interface{}{&cl}, nil, copts...)
	case "reverse":
		// the handler runs on a client (WithClientHandler; the handler side's table goes in with WithErrors), the
		// caller is the reverse client a server-side handler extracts (the caller side's table with WithServerErrors)
		var ropts []jsonrpc.ServerOption
		if es, ok := entriesOf(c.CReg); ok {
			ropts = append(ropts, jsonrpc.WithServerErrors(mkErrors(es)))
		}
		ropts = append(ropts, jsonrpc.WithReverseClient[Client]("H"))
		rsrv := jsonrpc.NewServer(ropts...)
		tr := &trigger{}
		rsrv.Register("T", tr)
		ts := httptest.NewServer(rsrv)
		defer ts.Close()
		hopts := []jsonrpc.Option{jsonrpc.WithClientHandler("H", H{})}
		if es, ok := entriesOf(c.SReg); ok {
			hopts = append(hopts, jsonrpc.WithErrors(mkErrors(es)))
		}
		var tcl struct{ Go func(Spec, string) error }
		closer, err = jsonrpc.NewMergeClient(context.Background(), "ws"+strings.TrimPrefix(ts.URL, "http"), "T", []interface{}{&tcl}, nil, hopts...)
		if err != nil {
			return err
		}
		cl.Err = func(sp Spec) error { tcl.Go(sp, "err"); return tr.err }
		cl.ValErr = func(sp Spec) (int, error) { tcl.Go(sp, "valerr"); return tr.val, tr.err }
	}
	if err != nil {
		return err
	}
	defer closer()
	var gotErr error
	gotVal := 77
	if c.Shape == "err" {
		gotErr = cl.Err(sp)
	} else {
		gotVal, gotErr = cl.ValErr(sp)
	}
	// canonical view of what the caller got
	impl := map[string]interface{}{"val": nil, "err": nil}
	if gotErr == nil {
		impl["val"] = fmt.Sprint(gotVal)
	} else if gotVal != 0 && c.Shape == "valerr" {
		impl["val"] = fmt.Sprint(gotVal)
	}
	if c.Shape == "err" && gotErr == nil {
		impl["val"] = "77" // no value slot: the model's "handler's value" is vacuous
	}
	var je *jsonrpc.JSONRPCError
	switch {
	case gotErr == nil:
	case errors.As(gotErr, &je) && reflect.TypeOf(gotErr) == reflect.TypeOf(je):
		impl["err"] = map[string]interface{}{"k": "generic", "code": int(je.Code), "msg": je.Message}
	default:
		if t, cont, ok := contentOf(gotErr); ok {
			impl["err"] = map[string]interface{}{"k": "typed", "name": t.Name, "ptr": t.Ptr, "content": cont}
		} else if _, ok := gotErr.(*jsonrpc.RPCConnectionError); ok {
			impl["err"] = map[string]interface{}{"k": "typed", "name": "RPCConnectionError", "ptr": true, "content": ""}
		} else {
			impl["err"] = map[string]interface{}{"k": "other", "type": fmt.Sprintf("%T", gotErr), "msg": gotErr.Error()}
		}
	}
	// EPlain/EPtr typed results are zero values: content "" by the model; our contentOf reads S = ""
	// ---- the property, read directly
	mon := ""
	switch {
	case herr == nil && gotErr != nil:
		mon = "handler returned nil but the caller got an error: " + gotErr.Error()
	case herr != nil && gotErr == nil:
		mon = "handler returned an error but the caller got nil"
	case herr != nil && c.Shape == "valerr" && gotVal != 0:
		mon = fmt.Sprintf("handler failed but the caller's value is %d, not the zero value", gotVal)
	case herr == nil && c.Shape == "valerr" && gotVal != 77:
		mon = fmt.Sprintf("handler returned 77, caller got %d", gotVal)
	}
	if mon == "" && herr != nil {
		sEntries, sOK := entriesOf(c.SReg)
		cEntries, _ := entriesOf(c.CReg)
		registeredCode := 0
		if sOK {
			for _, e := range sEntries { // the last registration of the dynamic type wins
				if e.Ty == sp.Ty {
					registeredCode = e.Code
				}
			}
		}
		clientHas := func(code int) bool {
			if code == -1111111 && c.CReg != nil {
				return true
			}
			for _, e := range cEntries {
				if e.Code == code {
					return true
				}
			}
			return false
		}
		isCodec := capOf(sp.Ty) == "codec" && sp.Fail != "to"
		if registeredCode == 0 && !isCodec {
			// unregistered: generic error with the handler's message and code 1 — unless the client maps code 1
			if !clientHas(1) {
				if je == nil || reflect.TypeOf(gotErr) != reflect.TypeOf(je) || je.Message != herr.Error() || je.Code != 1 {
					mon = fmt.Sprintf("unregistered error %T(%q) arrived as %T(%q)", herr, herr.Error(), gotErr, gotErr.Error())
				}
			}
		}
	}
	if mon == "" && herr != nil && sp.Fail == "" && capOf(Ty{sp.Ty.Name, true}) != "codec" {
		// registered under the same code on both sides: the caller must get exactly that registered type
		sEntries, _ := entriesOf(c.SReg)
		cEntries, _ := entriesOf(c.CReg)
		sCode := 0
		for _, e := range sEntries {
			if e.Ty == sp.Ty {
				sCode = e.Code
			}
		}
		var cTy *Ty
		for _, e := range cEntries { // a later registration of the same code replaces the earlier
			if e.Code == sCode {
				t := e.Ty
				cTy = &t
			}
		}
		if sCode != 0 && cTy != nil && *cTy == sp.Ty {
			em, _ := impl["err"].(map[string]interface{})
			if em == nil || em["k"] != "typed" || em["name"] != sp.Ty.Name || em["ptr"] != sp.Ty.Ptr {
				mon = fmt.Sprintf("%v is registered under code %d on both sides but the caller got %T (%v)", sp.Ty, sCode, gotErr, gotErr)
			}
		}
	}
	cls := "nil"
	if herr != nil {
		cls = capOf(sp.Ty)
		if sp.Fail != "" {
			cls += ".fail-" + sp.Fail
		}
	}
	res.Count("err." + cls)
	res.Count("transport." + c.Trans)
	if e, ok := impl["err"].(map[string]interface{}); ok {
		res.Count("caller." + e["k"].(string))
	} else {
		res.Count("caller.nil")
	}
	res.Eval(herr != nil, []interface{}{c.SReg, c.CReg, c.Spec, c.Shape})
	if e, ok := impl["err"].(map[string]interface{}); ok && e["k"] == "typed" {
		res.Sample(map[string]interface{}{"server_table": c.SReg, "client_table": c.CReg, "handler_error": fmt.Sprintf("%T %q", herr, herr), "caller_error": fmt.Sprintf("%T %q", gotErr, gotErr)})
	}
	sig := fmt.Sprintf("errors ty=%v cap=%s fail=%s shape=%s", sp.Ty, cls, sp.Fail, c.Shape)
	res.Compare(sig, c, model, impl, mon)
	return nil
}

func contentOfSpec(sp Spec) string {
	switch sp.Ty.Name {
	case "EPlain", "EPtr", "EWrap":
		return sp.Msg
	}
	return sp.Content
}

// Package c10 — hostile-peer correspondence: frame sequences sent to a real server and, from a fake
// server, to a real client, each running in a child process; plus body sizes around the limit.
package c10

import (
	"encoding/json"
	"fmt"
	"math/rand"
	"net/http"
	"net/http/httptest"
	"strings"
	"time"

	"github.com/gorilla/websocket"

	"verif/harness/internal/api"
	"verif/harness/internal/c09"
	"verif/harness/internal/fw"
	"verif/harness/internal/victim"
)

// ---------- frame descriptors ----------

type JVal struct {
	Shape string `json:"shape"`
	Text  string `json:"text"` // canonical text (what the model keys on)
	Raw   string `json:"raw"`  // as sent
}

type CtlParams struct {
	T     string `json:"t"`
	Elems []JVal `json:"elems,omitempty"`
}

type Frame struct {
	Decodable bool       `json:"decodable"`
	ID        c09.ID     `json:"id"`
	Method    string     `json:"method"`
	Params    CtlParams  `json:"params"`
	Call      c09.Params `json:"call"`
	HasResult bool       `json:"hasResult,omitempty"`

	Raw       string `json:"raw"` // the message text sent
	Binary    bool   `json:"binary,omitempty"`
	Violation bool   `json:"violation,omitempty"` // a WebSocket-level protocol violation (connection may legitimately close)
	Class     string `json:"class"`
}

type Case struct {
	Op      string                 `json:"op"`
	Role    string                 `json:"role"`
	Handler c09.HandlerDesc        `json:"handler"`
	State   map[string]interface{} `json:"state"`
	Frames  []Frame                `json:"frames"`
}

func mkVal(raw string) JVal {
	var v interface{}
	if err := json.Unmarshal([]byte(raw), &v); err != nil {
		panic(raw)
	}
	shape := "num"
	text := raw
	switch x := v.(type) {
	case nil:
		shape = "null"
	case bool:
		shape = "bool"
	case string:
		shape, text = "str", x
	case []interface{}:
		shape = "arr"
	case map[string]interface{}:
		shape = "obj"
	case float64:
		var u uint64
		if json.Unmarshal([]byte(raw), &u) == nil {
			shape = "uint"
		}
		b, _ := json.Marshal(x)
		text = string(b)
	}
	return JVal{Shape: shape, Text: text, Raw: raw}
}

// xs: the values a params element ranges over (live ids and channel ids included).
var xs = []string{`7`, `"s7"`, `5`, `8`, `"other"`, `true`, `null`, `[1]`, `{"a":1}`, `1e30`, `-1`, `1.5`, `18446744073709551616`, `0`, `""`, `[]`, `{}`, `7.0`}
var ys = []string{`41`, `"v"`, `null`, `[1,2]`, `{"k":1}`}

func ctlParamSets() []struct {
	p   CtlParams
	raw string
} {
	type ps = struct {
		p   CtlParams
		raw string
	}
	out := []ps{
		{CtlParams{T: "absent"}, ""},
		{CtlParams{T: "null"}, "null"},
		{CtlParams{T: "arr", Elems: []JVal{}}, "[]"},
		{CtlParams{T: "nonarray"}, `{"id":7}`},
		{CtlParams{T: "nonarray"}, `"7"`},
		{CtlParams{T: "nonarray"}, `7`},
	}
	for _, x := range xs {
		out = append(out, ps{CtlParams{T: "arr", Elems: []JVal{mkVal(x)}}, "[" + x + "]"})
	}
	for _, x := range xs {
		for _, y := range ys {
			out = append(out, ps{CtlParams{T: "arr", Elems: []JVal{mkVal(x), mkVal(y)}}, "[" + x + "," + y + "]"})
		}
	}
	out = append(out, ps{CtlParams{T: "arr", Elems: []JVal{mkVal("7"), mkVal("1"), mkVal("2")}}, "[7,1,2]"})
	out = append(out, ps{CtlParams{T: "arr", Elems: []JVal{mkVal("5"), mkVal("1"), mkVal("2")}}, "[5,1,2]"})
	return out
}

var idTexts = []string{"", "null", "3", `"q"`, "true", "[1]", `{"a":1}`, "1.5"}

func frame(method string, idText string, paramsRaw string) string {
	parts := []string{`"jsonrpc":"2.0"`}
	if idText != "" {
		parts = append(parts, `"id":`+idText)
	}
	if method != "" {
		mb, _ := json.Marshal(method)
		parts = append(parts, `"method":`+string(mb))
	}
	if paramsRaw != "" {
		parts = append(parts, `"params":`+paramsRaw)
	}
	return "{" + strings.Join(parts, ",") + "}"
}

// hostileFrames enumerates the descriptor grid of the property.
func hostileFrames(token *int) []Frame {
	var out []Frame
	for _, m := range []string{"xrpc.cancel", "xrpc.ch.val", "xrpc.ch.close"} {
		for _, ps := range ctlParamSets() {
			for _, idt := range []string{"", "3", "[1]"} {
				f := Frame{Decodable: true, ID: c09.CanonID(idt), Method: m, Params: ps.p, Call: c09.Params{T: "absent"},
					Raw: frame(m, idt, ps.raw), Class: m + "/" + ps.p.T + fmt.Sprint(len(ps.p.Elems))}
				out = append(out, f)
			}
		}
	}
	// responses to requests never made, ids of every JSON type
	for _, idt := range idTexts {
		for _, body := range []string{`"result":1`, `"result":null`, `"error":{"code":1,"message":"x"}`, `"result":1,"error":{"code":1,"message":"x"}`, ``} {
			raw := `{"jsonrpc":"2.0"`
			if idt != "" {
				raw += `,"id":` + idt
			}
			if body != "" {
				raw += "," + body
			}
			raw += "}"
			out = append(out, Frame{Decodable: true, ID: c09.CanonID(idt), Method: "", Params: CtlParams{T: "absent"},
				Call: c09.Params{T: "absent"}, HasResult: strings.Contains(body, `"result":1`), Raw: raw, Class: "response/" + c09.CanonID(idt).T})
		}
	}
	// calls and notifications: valid, unknown method, wrong arity, wrong types
	for _, idt := range idTexts {
		for _, c := range []struct{ m, p, cls string }{
			{"T.Add", "[%d,1]", "call-ok"}, {"T.Nope", "[%d]", "call-unknown"}, {"T.Add", "[%d]", "call-arity"},
			{"T.Add", `["a",%d]`, "call-badtype"}, {"T.Add", `{"a":%d}`, "call-nonarray"}, {"T.Boom", "[%d]", "call-panics"},
			{"T.Void", "", "call-noparams"},
			// unknown names of every shape: trailing / leading / doubled separators, other case, no separator, blanks, non-ASCII
			{"T.", "[%d]", "call-unknown-shape"}, {".", "[%d]", "call-unknown-shape"}, {"T.Add.", "[%d,1]", "call-unknown-shape"},
			{".Add", "[%d,1]", "call-unknown-shape"}, {"T..Add", "[%d,1]", "call-unknown-shape"}, {"T.add", "[%d,1]", "call-unknown-shape"},
			{"t.Add", "[%d,1]", "call-unknown-shape"}, {"Add", "[%d,1]", "call-unknown-shape"}, {" ", "[%d]", "call-unknown-shape"},
			{"T.Ädd", "[%d,1]", "call-unknown-shape"}, {"T/Add", "[%d,1]", "call-unknown-shape"}, {"xrpc.", "[%d]", "call-unknown-shape"},
		} {
			*token++
			ptxt := c.p
			if strings.Contains(ptxt, "%d") {
				ptxt = fmt.Sprintf(ptxt, *token)
			}
			var cp c09.Params
			switch {
			case ptxt == "":
				cp = c09.Params{T: "absent"}
			case ptxt[0] == '{':
				cp = c09.Params{T: "nonarray"}
			default:
				var raws []json.RawMessage
				json.Unmarshal([]byte(ptxt), &raws)
				cp = c09.Params{T: "arr", Elems: [][]string{}}
				for _, r := range raws {
					cp.Elems = append(cp.Elems, api.DecodesInto(string(r)))
				}
			}
			out = append(out, Frame{Decodable: true, ID: c09.CanonID(idt), Method: c.m, Params: CtlParams{T: "absent"}, Call: cp,
				Raw: frame(c.m, idt, ptxt), Class: c.cls + "/" + c09.CanonID(idt).T})
			if c.cls == "call-ok" && (idt == "" || idt == "3" || idt == `"q"`) {
				// the same call carrying a meta member (the tracing side channel, map[string]string) of every shape: a span
				// context that is empty, blank, too short, not base64, of another version; other keys; no keys
				for _, meta := range []string{`{"SpanContext":""}`, `{"SpanContext":"\r\n"}`, `{"SpanContext":"AA=="}`, `{"SpanContext":"AAAA"}`,
					`{"SpanContext":"!!not-base64!!"}`, `{"SpanContext":"/////////////////////////////////////w=="}`, `{"other":"x"}`, `{}`,
					`{"SpanContext":"AAAAAAAAAAAAAAAAAAAAAAAAAAAAAAAAAAAAAAA="}`} {
					*token++
					p2 := fmt.Sprintf("[%d,1]", *token)
					raw := frame(c.m, idt, p2)
					raw = raw[:len(raw)-1] + `,"meta":` + meta + "}"
					var raws []json.RawMessage
					json.Unmarshal([]byte(p2), &raws)
					cp2 := c09.Params{T: "arr", Elems: [][]string{}}
					for _, r := range raws {
						cp2.Elems = append(cp2.Elems, api.DecodesInto(string(r)))
					}
					out = append(out, Frame{Decodable: true, ID: c09.CanonID(idt), Method: c.m, Params: CtlParams{T: "absent"}, Call: cp2,
						Raw: raw, Class: "call-ok-meta/" + c09.CanonID(idt).T})
				}
			}
		}
	}
	// undecodable buffers, binary and empty frames
	for _, g := range []struct {
		raw string
		bin bool
	}{
		{``, false}, {` `, false}, {`{`, false}, {`[]`, false}, {`[1,2]`, false}, {`"str"`, false}, {`nul`, false}, {`{"method":5}`, false},
		{`{"jsonrpc":"2.0","method":"xrpc.cancel","params":[7}`, false}, {`{"id":1,"method":"T.Add","params":[1,1]}{"x":1}`, false},
		{"\x00\x01\x02", true}, {``, true}, {`{"jsonrpc":"2.0","method":"xrpc.cancel","params":[]}`, true},
		{`{"params":5,"method":"xrpc.cancel"}`, false}, {`{"meta":5}`, false}, {`{"error":5}`, false}, {`{"error":{"code":"x"}}`, false},
	} {
		f := Frame{Decodable: false, ID: c09.ID{T: "absent"}, Params: CtlParams{T: "absent"}, Call: c09.Params{T: "absent"}, Raw: g.raw, Binary: g.bin, Class: "garbage"}
		// a few of these do decode into the frame struct: describe them faithfully
		switch g.raw {
		case `{"jsonrpc":"2.0","method":"xrpc.cancel","params":[]}`:
			f.Decodable, f.Method, f.Params, f.Class = true, "xrpc.cancel", CtlParams{T: "arr", Elems: []JVal{}}, "xrpc.cancel/binary"
		case `{"params":5,"method":"xrpc.cancel"}`:
			f.Decodable, f.Method, f.Params = true, "xrpc.cancel", CtlParams{T: "nonarray"}
		case `{"id":1,"method":"T.Add","params":[1,1]}{"x":1}`:
			f.Decodable = false // json.Unmarshal rejects trailing data
		}
		out = append(out, f)
	}
	// invalid UTF-8 in a text message is a WebSocket protocol violation
	out = append(out, Frame{Decodable: false, ID: c09.ID{T: "absent"}, Params: CtlParams{T: "absent"}, Call: c09.Params{T: "absent"},
		Raw: "{\"method\":\"\xff\xfe\"}", Violation: true, Class: "ws-violation"})
	return out
}

// ---------- server role ----------

type serverVictim struct {
	child *victim.Child
	url   string
}

func startServer() (*serverVictim, error) {
	ch, err := victim.Start("victim-server")
	if err != nil {
		return nil, err
	}
	line, ok := ch.WaitLine(10 * time.Second)
	if !ok || !strings.HasPrefix(line, "URL ") {
		ch.Stop()
		return nil, fmt.Errorf("victim server did not start: %q %s", line, ch.CrashInfo())
	}
	return &serverVictim{child: ch, url: strings.TrimPrefix(line, "URL ")}, nil
}

func httpCall(url, body string) (string, error) {
	cl := &http.Client{Timeout: 5 * time.Second}
	resp, err := cl.Post(url, "application/json", strings.NewReader(body))
	if err != nil {
		return "", err
	}
	defer resp.Body.Close()
	var sb strings.Builder
	buf := make([]byte, 4096)
	for {
		n, err := resp.Body.Read(buf)
		sb.Write(buf[:n])
		if err != nil {
			break
		}
	}
	return sb.String(), nil
}

func snapshot(url string) (victim.Snap, error) {
	b, err := httpCall(url, `{"jsonrpc":"2.0","id":1,"method":"V.Snapshot"}`)
	if err != nil {
		return victim.Snap{}, err
	}
	var r struct {
		Result victim.Snap `json:"result"`
	}
	if err := json.Unmarshal([]byte(b), &r); err != nil {
		return victim.Snap{}, fmt.Errorf("snapshot: %v (%s)", err, b)
	}
	return r.Result, nil
}

type serverObs struct {
	Crash     bool          `json:"crash"`
	Cancelled []interface{} `json:"cancelled"`
	Invoked   []string      `json:"invoked"`
}

var tokSeq = 100

// runServerCase sends the frames to a live server connection that has two blocked calls (ids 7 and "s7").
func runServerCase(sv **serverVictim, c *Case, expectInvoked []string) (obs serverObs, mon string, err error) {
	if *sv == nil || !(*sv).child.Alive() {
		if *sv != nil {
			(*sv).child.Stop()
		}
		*sv, err = startServer()
		if err != nil {
			return
		}
	}
	v := *sv
	wsURL := "ws" + strings.TrimPrefix(v.url, "http")
	conn, _, derr := websocket.DefaultDialer.Dial(wsURL, nil)
	if derr != nil {
		err = derr
		return
	}
	defer conn.Close()
	// drain messages in the background
	type msg struct {
		data []byte
		err  error
	}
	msgs := make(chan msg, 256)
	go func() {
		for {
			_, data, err := conn.ReadMessage()
			msgs <- msg{data, err}
			if err != nil {
				return
			}
		}
	}()
	snapshot(v.url) // reset invocation counters
	tokSeq += 2
	tokA, tokB := tokSeq, tokSeq+1
	conn.WriteMessage(websocket.TextMessage, []byte(fmt.Sprintf(`{"jsonrpc":"2.0","id":7,"method":"V.Block","params":[%d]}`, tokA)))
	conn.WriteMessage(websocket.TextMessage, []byte(fmt.Sprintf(`{"jsonrpc":"2.0","id":"s7","method":"V.Block","params":[%d]}`, tokB)))
	started := func(s victim.Snap, tok int) bool {
		for _, t := range s.Started {
			if t == tok {
				return true
			}
		}
		return false
	}
	deadline := time.Now().Add(5 * time.Second)
	for {
		s, serr := snapshot(v.url)
		if serr == nil && started(s, tokA) && started(s, tokB) {
			break
		}
		if time.Now().After(deadline) {
			err = fmt.Errorf("blockers did not start: %v", serr)
			return
		}
		time.Sleep(2 * time.Millisecond)
	}
	violation := false
	for _, f := range c.Frames {
		mt := websocket.TextMessage
		if f.Binary {
			mt = websocket.BinaryMessage
		}
		conn.WriteMessage(mt, []byte(f.Raw))
		violation = violation || f.Violation
	}
	// same-connection probe: the executor is sequential, so its answer comes after all frames were executed
	conn.WriteMessage(websocket.TextMessage, []byte(`{"jsonrpc":"2.0","id":"probe","method":"V.Snapshot"}`))
	var probe *victim.Snap
	timeout := time.After(4 * time.Second)
loop:
	for {
		select {
		case m := <-msgs:
			if m.err != nil {
				break loop
			}
			var r struct {
				ID     interface{}  `json:"id"`
				Result *victim.Snap `json:"result"`
			}
			if json.Unmarshal(m.data, &r) == nil && r.ID == "probe" && r.Result != nil {
				probe = r.Result
				break loop
			}
		case <-timeout:
			break loop
		case <-v.child.Exited:
			break loop
		}
	}
	time.Sleep(time.Millisecond)
	if !v.child.Alive() {
		obs.Crash = true
		mon = "the server process died: " + v.child.CrashInfo()
		return
	}
	// other connections must still be served correctly
	b, herr := httpCall(v.url, `{"jsonrpc":"2.0","id":9,"method":"V.Sum","params":[20,22]}`)
	if herr != nil || !strings.Contains(b, `"result":42`) {
		if !v.child.Alive() {
			obs.Crash = true
			mon = "the server process died: " + v.child.CrashInfo()
			return
		}
		mon = fmt.Sprintf("a valid request on another connection was not answered correctly afterwards: %q %v", b, herr)
	}
	if probe == nil {
		if !violation && mon == "" {
			mon = "the same connection no longer answers valid requests although no WebSocket-level violation was sent"
		}
		// fall back to an out-of-band snapshot for the comparison
		s, _ := snapshot(v.url)
		probe = &s
	}
	obs.Cancelled = []interface{}{}
	for _, t := range probe.Cancelled {
		if t == tokA {
			obs.Cancelled = append(obs.Cancelled, c09.ID{T: "num", V: "7"})
		}
		if t == tokB {
			obs.Cancelled = append(obs.Cancelled, c09.ID{T: "str", V: "s7"})
		}
	}
	// handlers run in their own goroutines: the probe's snapshot may precede their log entry, so keep
	// collecting (bounded) until the expected multiset is reached or nothing more can arrive
	acc := map[string]int{}
	merge := func(m map[string]int) {
		for tag, n := range m {
			if !strings.HasPrefix(tag, "V.") {
				acc[tag] += n
			}
		}
	}
	flat := func() []string {
		out := []string{}
		for tag, n := range acc {
			for i := 0; i < n; i++ {
				out = append(out, tag)
			}
		}
		sortStrings(out)
		return out
	}
	merge(probe.Invoked)
	for wait := 0; wait < 200 && fw.JSON(flat()) != fw.JSON(expectInvoked); wait++ {
		time.Sleep(5 * time.Millisecond)
		if s2, e2 := snapshot(v.url); e2 == nil {
			merge(s2.Invoked)
		}
	}
	obs.Invoked = flat()
	// release the blockers so the connection's handlers end
	conn.WriteMessage(websocket.TextMessage, []byte(`{"jsonrpc":"2.0","method":"xrpc.cancel","params":[7]}`))
	conn.WriteMessage(websocket.TextMessage, []byte(`{"jsonrpc":"2.0","method":"xrpc.cancel","params":["s7"]}`))
	return
}

func sortStrings(xs []string) {
	for i := range xs {
		for j := i + 1; j < len(xs); j++ {
			if xs[j] < xs[i] {
				xs[i], xs[j] = xs[j], xs[i]
			}
		}
	}
}

var serverHandler = c09.HandlerDesc{
	Fmt:     c09.Fmt{Ns: true},
	Regs:    []c09.Reg{{Ns: "T", Methods: api.TMethods, Recv: "T"}},
	Aliases: [][2]string{},
}

func modelServerView(model interface{}) serverObs {
	m := model.(map[string]interface{})
	o := serverObs{Cancelled: []interface{}{}, Invoked: []string{}}
	if m["crash"] == true {
		o.Crash = true
		return o
	}
	seen := map[string]bool{}
	for _, c := range m["cancelled"].([]interface{}) {
		k := fw.JSON(c)
		cm := c.(map[string]interface{})
		if (cm["t"] == "num" && cm["v"] == "7") || (cm["t"] == "str" && cm["v"] == "s7") {
			if !seen[k] {
				seen[k] = true
				o.Cancelled = append(o.Cancelled, c)
			}
		}
	}
	// canonical order: 7 before "s7"
	if len(o.Cancelled) == 2 && o.Cancelled[0].(map[string]interface{})["t"] == "str" {
		o.Cancelled[0], o.Cancelled[1] = o.Cancelled[1], o.Cancelled[0]
	}
	for _, t := range m["invoked"].([]interface{}) {
		o.Invoked = append(o.Invoked, t.(string))
	}
	sortStrings(o.Invoked)
	return o
}

// ---------- client role ----------

type clientObs struct {
	Crash     bool       `json:"crash"`
	Delivered [][]string `json:"delivered"`
	Closed    []string   `json:"closed"`
	Mailbox   int        `json:"mailbox"` // number of responses delivered to the live unary call
}

func runClientCase(c *Case) (obs clientObs, mon string, err error) {
	obs.Delivered, obs.Closed = [][]string{}, []string{}
	up := websocket.Upgrader{CheckOrigin: func(*http.Request) bool { return true }}
	type reqT struct {
		ID     interface{} `json:"id"`
		Method string      `json:"method"`
	}
	done := make(chan struct{})
	var subID, waitID interface{}
	srvErr := make(chan error, 1)
	release := make(chan struct{})
	ts := httptest.NewServer(http.HandlerFunc(func(w http.ResponseWriter, r *http.Request) {
		conn, e := up.Upgrade(w, r, nil)
		if e != nil {
			srvErr <- e
			return
		}
		defer conn.Close()
		for subID == nil || waitID == nil {
			_, data, e := conn.ReadMessage()
			if e != nil {
				srvErr <- e
				return
			}
			var rq reqT
			json.Unmarshal(data, &rq)
			switch rq.Method {
			case "T.Sub":
				subID = rq.ID
			case "T.Wait":
				waitID = rq.ID
			}
		}
		sid, _ := json.Marshal(subID)
		wid, _ := json.Marshal(waitID)
		conn.WriteMessage(websocket.TextMessage, []byte(fmt.Sprintf(`{"jsonrpc":"2.0","id":%s,"result":5}`, sid)))
		for _, f := range c.Frames {
			mt := websocket.TextMessage
			if f.Binary {
				mt = websocket.BinaryMessage
			}
			conn.WriteMessage(mt, []byte(f.Raw))
		}
		conn.WriteMessage(websocket.TextMessage, []byte(`{"jsonrpc":"2.0","method":"xrpc.ch.val","params":[5,4141]}`))
		conn.WriteMessage(websocket.TextMessage, []byte(`{"jsonrpc":"2.0","method":"xrpc.ch.close","params":[5]}`))
		conn.WriteMessage(websocket.TextMessage, []byte(fmt.Sprintf(`{"jsonrpc":"2.0","id":%s,"result":99}`, wid)))
		close(done)
		<-release
	}))
	defer ts.Close()
	defer close(release)
	child, serr := victim.Start("victim-client", "ws"+strings.TrimPrefix(ts.URL, "http"))
	if serr != nil {
		err = serr
		return
	}
	defer child.Stop()
	finished := false
	timeout := time.After(8 * time.Second)
	var events []map[string]interface{}
loop:
	for {
		select {
		case l, ok := <-child.Lines:
			if !ok {
				break loop
			}
			var ev map[string]interface{}
			if json.Unmarshal([]byte(l), &ev) == nil {
				events = append(events, ev)
				if ev["ev"] == "done" {
					finished = true
					break loop
				}
			}
		case e := <-srvErr:
			err = e
			return
		case <-timeout:
			break loop
		}
	}
	violation := false
	for _, f := range c.Frames {
		violation = violation || f.Violation
	}
	for _, ev := range events {
		switch ev["ev"] {
		case "val":
			obs.Delivered = append(obs.Delivered, []string{"5", fmt.Sprint(ev["v"])})
		case "closed":
			obs.Closed = append(obs.Closed, "5")
		case "wait-ret":
			if ev["err"] == nil {
				obs.Mailbox++
			}
		}
	}
	if !finished {
		select {
		case <-child.Exited:
			if info := child.CrashInfo(); strings.HasPrefix(info, "panic:") || strings.HasPrefix(info, "fatal error:") {
				obs.Crash = true
				mon = "the client process died: " + info
				return
			}
		case <-time.After(100 * time.Millisecond):
		}
		if !violation {
			mon = fmt.Sprintf("the client did not complete its live call and subscription after the hostile frames (events %v)", events)
		}
	}
	return
}

func modelClientView(model interface{}, liveWaitID string) clientObs {
	m := model.(map[string]interface{})
	o := clientObs{Delivered: [][]string{}, Closed: []string{}}
	if m["crash"] == true {
		o.Crash = true
		return o
	}
	for _, d := range m["delivered"].([]interface{}) {
		p := d.([]interface{})
		// the sink callback drops a value that does not decode into the channel's element type
		// (encoding/json oracle; the subscription here is a chan int)
		var n int
		if json.Unmarshal([]byte(p[1].(string)), &n) != nil {
			continue
		}
		o.Delivered = append(o.Delivered, []string{p[0].(string), fmt.Sprint(n)})
	}
	for _, c := range m["closed"].([]interface{}) {
		o.Closed = append(o.Closed, c.(string))
	}
	o.Mailbox = len(m["mailbox"].([]interface{}))
	return o
}

// ---------- run ----------

func Run(d *fw.Driver, res *fw.Result, seed int64, thorough bool, corpus []json.RawMessage) error {
	rng := fw.Rng(seed, "c10")
	token := 20000
	frames := hostileFrames(&token)
	var sv *serverVictim
	defer func() {
		if sv != nil {
			sv.child.Stop()
		}
	}()

	runOne := func(c *Case) error {
		model, err := d.Ask(c)
		if err != nil {
			return err
		}
		cls := []string{}
		for _, f := range c.Frames {
			cls = append(cls, f.Class)
		}
		sig := fmt.Sprintf("%s frames=%s", c.Role, strings.Join(cls, "+"))
		if len(c.Frames) == 1 {
			sig = fmt.Sprintf("%s frame=%s", c.Role, c.Frames[0].Raw)
		}
		switch c.Role {
		case "server":
			mv := modelServerView(model)
			obs, mon, err := runServerCase(&sv, c, mv.Invoked)
			if err != nil {
				return err
			}
			res.Count("server." + cls[0])
			res.Eval(true, []interface{}{c.Role, rawsOf(c)})
			if len(obs.Cancelled) > 0 || len(obs.Invoked) > 0 {
				res.Sample(map[string]interface{}{"role": "server", "frames": rawsOf(c), "cancelled": obs.Cancelled, "invoked": obs.Invoked})
			}
			res.Compare(sig, c, mv, obs, mon)
		case "client":
			obs, mon, err := runClientCase(c)
			if err != nil {
				return err
			}
			mv := modelClientView(model, "")
			res.Count("client." + cls[0])
			res.Eval(true, []interface{}{c.Role, rawsOf(c)})
			res.Compare(sig, c, mv, obs, mon)
		}
		return nil
	}

	for _, raw := range corpus {
		var c Case
		if json.Unmarshal(raw, &c) == nil && c.Op == "frames" {
			res.Count("corpus")
			if len(c.Handler.Regs) == 0 {
				c.Handler = serverHandler
			}
			if err := runOne(&c); err != nil {
				return err
			}
		}
	}
	serverState := map[string]interface{}{"handling": []c09.ID{{T: "num", V: "7"}, {T: "str", V: "s7"}}, "hasHandler": true}
	// server: every single frame of the grid, then random sequences
	stride := 1
	if !thorough {
		stride = 3
	}
	off := int(seed % int64(stride))
	if off < 0 {
		off = 0
	}
	for i := off; i < len(frames); i += stride {
		c := &Case{Op: "frames", Role: "server", Handler: serverHandler, State: serverState, Frames: []Frame{frames[i]}}
		if err := runOne(c); err != nil {
			return err
		}
	}
	nseq := 150
	if thorough {
		nseq = 1500
	}
	for i := 0; i < nseq; i++ {
		n := 2 + rng.Intn(4)
		var fs []Frame
		for j := 0; j < n; j++ {
			fs = append(fs, frames[rng.Intn(len(frames))])
		}
		c := &Case{Op: "frames", Role: "server", Handler: serverHandler, State: serverState, Frames: fs}
		if err := runOne(c); err != nil {
			return err
		}
	}
	// client: the control frames and responses (a client without reverse handler ignores calls)
	clientState := map[string]interface{}{"chanHandlers": []string{"5"}, "inflight": []c09.ID{{T: "num", V: "2"}}, "hasHandler": false}
	tail := []Frame{
		{Decodable: true, ID: c09.ID{T: "absent"}, Method: "xrpc.ch.val", Params: CtlParams{T: "arr", Elems: []JVal{mkVal("5"), mkVal("4141")}}, Call: c09.Params{T: "absent"}, Class: "tail"},
		{Decodable: true, ID: c09.ID{T: "absent"}, Method: "xrpc.ch.close", Params: CtlParams{T: "arr", Elems: []JVal{mkVal("5")}}, Call: c09.Params{T: "absent"}, Class: "tail"},
		{Decodable: true, ID: c09.ID{T: "num", V: "2"}, Method: "", Params: CtlParams{T: "absent"}, Call: c09.Params{T: "absent"}, HasResult: true, Class: "tail"},
	}
	cstride := 9
	if thorough {
		cstride = 2
	}
	coff := int(seed % int64(cstride))
	for i := coff; i < len(frames); i += cstride {
		f := frames[i]
		if f.Method == "" && f.ID.T == "num" && f.ID.V == "2" {
			continue
		}
		c := &Case{Op: "frames", Role: "client", Handler: serverHandler, State: clientState, Frames: []Frame{f}}
		// the model executes the harness's closing frames too
		mc := *c
		mc.Frames = append(append([]Frame{}, c.Frames...), tail...)
		model, err := d.Ask(&mc)
		if err != nil {
			return err
		}
		obs, mon, err := runClientCase(c)
		if err != nil {
			return err
		}
		res.Count("client." + f.Class)
		res.Eval(true, []interface{}{"client", f.Raw})
		if i%50 == 0 {
			res.Sample(map[string]interface{}{"role": "client", "frame": f.Raw, "observed": obs})
		}
		res.Compare("client frame="+f.Raw, c, modelClientView(model, "2"), obs, mon)
	}
	// body sizes around the limit, exhaustively for several limits
	if err := runLimits(d, res, rng); err != nil {
		return err
	}
	return nil
}

func rawsOf(c *Case) []string {
	var out []string
	for _, f := range c.Frames {
		out = append(out, f.Raw)
	}
	return out
}

func runLimits(d *fw.Driver, res *fw.Result, rng *rand.Rand) error {
	for _, L := range []int64{1, 2, 16, 63, 64, 65, 100, 1000, 4096, 65536, 1 << 20} {
		for _, delta := range []int64{-1, 0, 1, 2} {
			n := L + delta
			if n < 1 {
				continue
			}
			// a valid request padded with trailing spaces to exactly n bytes (when it fits), else spaces + junk
			tokSeq++
			base := fmt.Sprintf(`{"jsonrpc":"2.0","id":1,"method":"T.One","params":[%d]}`, tokSeq)
			var raw string
			var body c09.Body
			switch {
			case int64(len(base)) <= n:
				raw = base + strings.Repeat(" ", int(n)-len(base))
				r := c09.Req{ID: c09.ID{T: "num", V: "1"}, Method: "T.One", Params: c09.Params{T: "arr", Elems: [][]string{api.DecodesInto(fmt.Sprint(tokSeq))}}, Class: "ok", Token: tokSeq}
				body = c09.Body{Kind: "single", Req: &r}
			default:
				raw = strings.Repeat(" ", int(n))
				body = c09.Body{Kind: "blank"}
			}
			c := &c09.Case{Op: "http", Handler: serverHandler, Max: L, Size: len(raw), Body: body, Raw: raw}
			model, err := d.Ask(c)
			if err != nil {
				return err
			}
			for _, via := range []string{"recorder", "chunked", "direct"} {
				out, b, ents := c09.RunImplVia(c, via)
				if via == "direct" {
					out.Status = 0 // no HTTP status on this path: compare tokens and invocations only
				}
				mon := ""
				rejected := false
				for _, t := range out.Toks {
					if m, ok := t.(map[string]interface{}); ok {
						if bd, ok := m["body"].(map[string]interface{}); ok && bd["k"] == "error" {
							rejected = true
						}
					}
				}
				if n > L {
					if !rejected {
						mon = fmt.Sprintf("body of %d bytes accepted with limit %d", n, L)
					} else if len(ents) != 0 {
						mon = fmt.Sprintf("oversize body (%d > %d) ran a handler", n, L)
					}
				} else if body.Kind == "single" && (rejected || len(ents) != 1) {
					mon = fmt.Sprintf("body of %d bytes rejected with limit %d: %s", n, L, b)
				}
				res.Count(fmt.Sprintf("limit.delta%+d", delta))
				res.Count("limit.via." + via)
				res.Eval(true, []interface{}{"limit", L, n, via})
				mv := model
				if via == "direct" {
					if mm, ok := fw.Canon(model).(map[string]interface{}); ok {
						mm["status"] = 0
						mv = mm
					}
				}
				res.Compare(fmt.Sprintf("limit L=%d n=%d via=%s", L, n, via), c, mv, out, mon)
			}
		}
	}
	return nil
}

// Package corr — request/response correlation under concurrency, faults, reconnects and close:
// scenarios for C02, C03, C04, C05 (healing), C16 and C18; projection of the hook trace onto
// Jrpc.Corr's alphabet, replay through the model, and the properties' clock-free monitors.
package corr

import (
	"context"
	"encoding/json"
	"fmt"
	"os"
	"sort"
	"strings"
	"sync"
	"time"

	jsonrpc "github.com/filecoin-project/go-jsonrpc"

	"verif/harness/internal/fw"
	"verif/harness/internal/hk"
	"verif/harness/internal/scen"
)

func num(v interface{}) int {
	switch x := v.(type) {
	case int:
		return x
	case int64:
		return int(x)
	case float64:
		return int(x)
	case json.Number:
		n, _ := x.Int64()
		return int(n)
	}
	return 0
}

// Project maps the trace of one client-role endpoint (wsConn id `conn`) to model events; every other
// connection counts as its peer.
func Project(evs []hk.Event, conn int) (out []map[string]interface{}, attempts []int) {
	return ProjectWith(evs, conn, nil)
}

// ProjectWith: as Project, with the peer connections named (nil = every other connection).  Attempts are
// attributed to endpoints by the identity of the request queue they were put into.
func ProjectWith(evs []hk.Event, conn int, peers map[int]bool) (out []map[string]interface{}, attempts []int) {
	// attempt identities are addresses of `ready` channels, which are reused once an attempt is
	// garbage: every call.enq starts a new attempt under a fresh number
	alias := map[int]int{}
	next := 0
	evs = append([]hk.Event{}, evs...)
	for i := range evs {
		e := &evs[i]
		if _, has := e.KV["a"]; !has {
			continue
		}
		kv := map[string]interface{}{}
		for k, v := range e.KV {
			kv[k] = v
		}
		p := num(e.KV["a"])
		if e.Site == "call.enq" {
			next++
			alias[p] = next
		}
		if al, ok := alias[p]; ok {
			kv["a"] = al
		} else {
			next++
			alias[p] = next
			kv["a"] = next
		}
		e.KV = kv
	}
	connOf := map[int]int{}
	queueConn := map[int]int{}
	for _, e := range evs {
		if e.Site == "main.start" {
			if q := num(e.KV["q"]); q != 0 {
				queueConn[q] = e.Conn
			}
		}
	}
	for _, e := range evs {
		if e.Site == "call.enq" {
			if c, ok := queueConn[num(e.KV["q"])]; ok {
				connOf[num(e.KV["a"])] = c
			}
		}
	}
	for _, e := range evs {
		switch e.Site {
		case "main.take", "main.failfast", "main.register", "main.wrote", "main.notifreply", "main.errcheck":
			connOf[num(e.KV["a"])] = e.Conn
		}
	}
	lastWrote := map[string]int{} // id ↦ attempt whose request frame was written last
	seen := map[int]bool{}
	handling := 0                 // attempt the main loop is handling (0 = none)
	wroteLogged := map[int]bool{} // the model's `wrote` was emitted (at the begin of the write)
	writeFailed := map[int]bool{}
	add := func(m map[string]interface{}) { out = append(out, m) }
	mine := func(a int) bool {
		c, ok := connOf[a]
		return !ok || c == conn
	}
	for _, e := range evs {
		a := num(e.KV["a"])
		switch e.Site {
		case "call.enq":
			if mine(a) {
				if !seen[a] {
					seen[a] = true
					attempts = append(attempts, a)
				}
				add(map[string]interface{}{"e": "enq", "a": a, "id": e.KV["id"]})
			}
		case "call.exiterr":
			if mine(a) {
				add(map[string]interface{}{"e": "exitErr", "a": a})
			}
		case "call.recv":
			if mine(a) {
				add(map[string]interface{}{"e": "recv", "a": a, "err": e.KV["err"]})
			}
		}
		if e.Conn != conn {
			// the peer's executor: one handler start per request frame
			if e.Site == "fe.call" && (peers == nil || peers[e.Conn]) {
				if at, ok := lastWrote[fw.JSON(e.KV["id"])]; ok {
					add(map[string]interface{}{"e": "peerExec", "a": at})
				}
			}
			continue
		}
		switch e.Site {
		case "main.take":
			if !seen[a] {
				// the cancel request of doRequest's context branch goes into `requests` without passing
				// the enqueue hook: it becomes known here
				seen[a] = true
				attempts = append(attempts, a)
				add(map[string]interface{}{"e": "enq", "a": a, "id": e.KV["id"]})
			}
			handling = a
			add(map[string]interface{}{"e": "take", "a": a})
		case "w.begin":
			// the request frame goes onto the wire now (the peer may log its execution before main.wrote
			// is logged): this is the model's `wrote`
			if e.KV["site"] == "sendRequest" && handling != 0 && !wroteLogged[handling] {
				wroteLogged[handling] = true
				add(map[string]interface{}{"e": "wrote", "a": handling})
				if m, ok := e.KV["id"].(map[string]interface{}); ok && m["t"] != "null" {
					lastWrote[fw.JSON(e.KV["id"])] = handling
				}
			}
		case "main.errcheck":
			add(map[string]interface{}{"e": "errCheck", "a": a, "err": e.KV["err"]})
		case "main.failfast":
			handling = 0
			add(map[string]interface{}{"e": "failfast", "a": a})
		case "main.register":
			add(map[string]interface{}{"e": "register", "a": a})
		case "main.wrote":
			if ok, isB := e.KV["ok"].(bool); isB && !ok {
				writeFailed[a] = true
			}
			if m, ok := e.KV["id"].(map[string]interface{}); ok && m["t"] != "null" {
				handling = 0
			}
		case "main.notifreply":
			handling = 0
			add(map[string]interface{}{"e": "notifReply", "a": a, "bad": writeFailed[a]})
		case "fe.resp.lookup":
			add(map[string]interface{}{"e": "lookup", "id": e.KV["id"], "found": e.KV["found"]})
		case "fe.resp.deliver":
			add(map[string]interface{}{"e": "deliver", "id": e.KV["id"], "a": a})
		case "fe.resp.delete":
			add(map[string]interface{}{"e": "delete", "id": e.KV["id"]})
		case "cif.sent":
			add(map[string]interface{}{"e": "cifSend", "id": e.KV["id"], "a": a, "ok": e.KV["ok"]})
		case "cif.clear":
			add(map[string]interface{}{"e": "cifClear"})
		case "reader.err":
			add(map[string]interface{}{"e": "readerErr"})
		case "main.markbad":
			add(map[string]interface{}{"e": "readError"})
		case "reconn.begin":
			add(map[string]interface{}{"e": "reconnBegin"})
		case "reconn.spawn":
			add(map[string]interface{}{"e": "reconnSpawn"})
		case "rc.swap":
			add(map[string]interface{}{"e": "swap"})
		case "rc.abort":
			add(map[string]interface{}{"e": "abort"})
		case "main.exit.begin":
			add(map[string]interface{}{"e": "exitBegin"})
		case "main.exited":
			add(map[string]interface{}{"e": "exited"})
		}
	}
	return
}

// ClientConn finds the wsConn id of the client endpoint: the connection on which requests are taken
// for attempts enqueued by the harness's client (the first main.take of the trace, unless told otherwise).
func ClientConn(evs []hk.Event) int {
	for _, e := range evs {
		if e.Site == "main.take" {
			return e.Conn
		}
	}
	for _, e := range evs {
		if e.Site == "reader.msg" || e.Site == "reader.err" {
			return e.Conn
		}
	}
	return 1
}

// Check replays the client endpoint's correlation events through the model.
func Check(d *fw.Driver, res *fw.Result, evs []hk.Event, conn int, sig string) (map[int]map[string]interface{}, error) {
	if os.Getenv("VERIF_SKIPMODEL") == "1" {
		return nil, nil
	}
	return CheckWith(d, res, evs, conn, nil, sig)
}

// CheckWith: as Check with the peer connections named.
func CheckWith(d *fw.Driver, res *fw.Result, evs []hk.Event, conn int, peers map[int]bool, sig string) (map[int]map[string]interface{}, error) {
	if os.Getenv("VERIF_SKIPMODEL") == "1" {
		return nil, nil
	}
	mes, attempts := ProjectWith(evs, conn, peers)
	ask := map[string]interface{}{"op": "corr", "events": mes, "attempts": attempts}
	model, err := d.Ask(ask)
	if err != nil {
		return nil, err
	}
	mm := model.(map[string]interface{})
	res.Traces++
	res.Events += len(mes)
	if n, ok := mm["taus"].(json.Number); ok {
		v, _ := n.Int64()
		res.CountN("tau-steps", int(v))
	}
	byAtt := map[int]map[string]interface{}{}
	for _, x := range mm["attempts"].([]interface{}) {
		m := x.(map[string]interface{})
		byAtt[num(m["a"])] = m
	}
	if mm["accepted"] != true {
		idx := num(mm["refusedAt"])
		lo := idx - 10
		if lo < 0 {
			lo = 0
		}
		res.Add(fw.Finding{Kind: "tie", Signature: sig + " corr event refused: " + fmt.Sprint(mes[idx]["e"]),
			Detail: fmt.Sprintf("connection %d: the model refuses event %d %v of the endpoint's correlation trace", conn, idx, mes[idx]),
			Case:   map[string]interface{}{"events_before": mes[lo : idx+1]}, Model: map[string]interface{}{"accepted": false, "refusedAt": idx}})
	}
	return byAtt, nil
}

// Call is one application-level call issued by a scenario.
type Call struct {
	Tok      int
	Kind     string // count | block | note | retry
	Start    time.Time
	Done     chan struct{}
	Val      int
	Err      error
	Returned bool
	Phase    string
}

type Runner struct {
	E   *scen.Env
	CL  *scen.CL
	mu  sync.Mutex
	All []*Call
	ctx context.Context
}

func (r *Runner) Go(kind string, tok int, phase string) *Call {
	c := &Call{Tok: tok, Kind: kind, Done: make(chan struct{}), Start: time.Now(), Phase: phase}
	r.mu.Lock()
	r.All = append(r.All, c)
	r.mu.Unlock()
	go func() {
		defer close(c.Done)
		switch kind {
		case "count":
			c.Val, c.Err = r.CL.Count(r.ctx, tok)
		case "retry":
			c.Val, c.Err = r.CL.CountRetry(r.ctx, tok)
		case "block":
			c.Val, c.Err = r.CL.Block(r.ctx, tok)
		case "blockretry":
			c.Val, c.Err = r.CL.BlockRetry(r.ctx, tok)
		case "blockbig":
			var out string
			out, c.Err = r.CL.BlockBig(r.ctx, tok, 4<<20)
			c.Val = len(out)
		case "block2":
			// the same server method through another field of the proxy struct (another generated function)
			c.Val, c.Err = r.CL.BlockRetry(r.ctx, tok)
		case "note":
			r.CL.Note(tok)
		case "sub":
			var ch <-chan int
			ch, c.Err = r.CL.Sub(r.ctx, tok, 2)
			if c.Err == nil && ch != nil {
				for range ch {
				}
				c.Val = tok
			}
		}
		c.Returned = true
		r.E.RT.Log("c.ret", "tok", tok, "err", c.Err != nil)
	}()
	return c
}

func (c *Call) Wait(d time.Duration) bool {
	select {
	case <-c.Done:
		return true
	case <-time.After(d):
		return false
	}
}

// Probe issues calls until one round-trips (the link is healthy again) or the deadline passes.
// Cancelling a call's context does not make the library return it, so every probe runs in its own
// goroutine and is only waited for with a time-out.
func (r *Runner) Probe(base int, d time.Duration) bool {
	deadline := time.Now().Add(d)
	for i := 0; time.Now().Before(deadline); i++ {
		c := &Call{Tok: base + i, Kind: "probe", Done: make(chan struct{})}
		go func() {
			defer close(c.Done)
			c.Val, c.Err = r.CL.Count(r.ctx, c.Tok)
		}()
		if c.Wait(400*time.Millisecond) && c.Err == nil && c.Val == c.Tok {
			return true
		}
		time.Sleep(2 * time.Millisecond)
	}
	return false
}

// Verdicts applies the clock-free oracle of C03/C04 to every call of the run: after a probe issued
// later has round-tripped on the same client (or the client was closed), a call that has still not
// returned is lost.
func (r *Runner) Verdicts(res *fw.Result, sig string, grace time.Duration) {
	r.mu.Lock()
	calls := append([]*Call{}, r.All...)
	r.mu.Unlock()
	for _, c := range calls {
		if !c.Wait(grace) {
			if c.Kind == "block" || c.Kind == "block2" || c.Kind == "blockretry" {
				continue // blocked in its handler by design; released by the scenario
			}
			res.Add(fw.Finding{Kind: "monitor", Signature: sig + " call never returns",
				Detail: fmt.Sprintf("call %s(%d) issued in phase %q has not returned although a call issued after it has round-tripped on the same client (or the client was closed)", c.Kind, c.Tok, c.Phase)})
			continue
		}
		if c.Err == nil && c.Kind != "note" && c.Val != c.Tok {
			res.Add(fw.Finding{Kind: "monitor", Signature: sig + " foreign result",
				Detail: fmt.Sprintf("call %s(%d) returned %d: another call's result", c.Kind, c.Tok, c.Val)})
		}
		execs := r.E.H.C.Execs(c.Tok)
		switch c.Kind {
		case "count", "block", "block2", "sub":
			if execs > 1 {
				res.Add(fw.Finding{Kind: "monitor", Signature: sig + " executed twice",
					Detail: fmt.Sprintf("untagged call %s(%d) was executed %d times by the server", c.Kind, c.Tok, execs)})
			}
			if c.Err == nil && execs != 1 {
				res.Add(fw.Finding{Kind: "monitor", Signature: sig + " answer without exactly one execution",
					Detail: fmt.Sprintf("call %s(%d) returned a result but the handler ran %d times", c.Kind, c.Tok, execs)})
			}
		case "note":
			if execs > 1 {
				res.Add(fw.Finding{Kind: "monitor", Signature: sig + " notification executed twice", Detail: fmt.Sprintf("notification %d ran %d times", c.Tok, execs)})
			}
		}
	}
}

type opt struct {
	reconnect bool
	retryGate bool
}

func newRunner(seed int64, delay int32, reconnect bool, extra ...jsonrpc.Option) (*Runner, jsonrpc.ClientCloser, context.CancelFunc, error) {
	return newRunnerPing(4*time.Millisecond, seed, delay, reconnect, extra...)
}

// newRunnerPing: like newRunner with the server's ping interval chosen by the scenario (4 ms, the default of the
// scenarios, makes a server put hundreds of pings per second on the wire).
func newRunnerPing(serverPing time.Duration, seed int64, delay int32, reconnect bool, extra ...jsonrpc.Option) (*Runner, jsonrpc.ClientCloser, context.CancelFunc, error) {
	e, err := scen.NewEnv(seed, delay, jsonrpc.WithServerPingInterval(serverPing))
	if err != nil {
		return nil, nil, nil, err
	}
	ctx, cancel := context.WithCancel(context.Background())
	opts := []jsonrpc.Option{jsonrpc.WithPingInterval(8 * time.Millisecond), jsonrpc.WithTimeout(250 * time.Millisecond),
		jsonrpc.WithReconnectBackoff(3*time.Millisecond, 12*time.Millisecond)}
	if !reconnect {
		opts = append(opts, jsonrpc.WithNoReconnect())
	}
	opts = append(opts, extra...)
	cl, closer, err := e.Client(ctx, opts...)
	if err != nil {
		cancel()
		e.Close()
		return nil, nil, nil, err
	}
	return &Runner{E: e, CL: cl, ctx: ctx}, closer, cancel, nil
}

var tokBase = 0

func nextToks(n int) int {
	tokBase += n + 10
	return tokBase
}

// FaultGrid: C03/C04 — fault kind x position x direction x frame x timing of further calls.
func FaultGrid(d *fw.Driver, res *fw.Result, seed int64, thorough bool, prop string) error {
	r := fw.Rng(seed, "faultgrid")
	kinds := []string{"fin", "rst", "blackhole"}
	positions := []string{"before", "header", "mid", "lastbyte", "after"}
	dirs := []string{"c2s", "s2c"}
	type cfg struct {
		kind, pos, dir string
		frame          int
		double         bool
	}
	var grid []cfg
	for _, k := range kinds {
		for _, p := range positions {
			for _, dr := range dirs {
				grid = append(grid, cfg{k, p, dr, 1 + r.Intn(3), false})
			}
		}
	}
	if thorough {
		for i := 0; i < 60; i++ {
			grid = append(grid, cfg{fw.Pick(r, kinds), fw.Pick(r, positions), fw.Pick(r, dirs), r.Intn(5), r.Intn(3) == 0})
		}
	} else {
		// quick: the whole kind x position x direction grid (30 points), one frame choice each
		_ = grid
	}
	for gi, c := range grid {
		if res.Enough() {
			return nil
		}
		if err := faultOne(d, res, seed+int64(gi)*31, c.kind, c.pos, c.dir, c.frame, c.double, prop); err != nil {
			return err
		}
	}
	return nil
}

// MidFrameOutage: the two grid points C05 rests on besides its own outage scenarios — a loss noticed in the middle of
// a server-to-client frame (FIN and RST), with calls issued while the client is between connections: they must fail
// fast or be served after the redial, and the client must heal.
func MidFrameOutage(d *fw.Driver, res *fw.Result, seed int64) error {
	for i, kind := range []string{"fin", "rst"} {
		if err := faultOne(d, res, seed+int64(i), kind, "mid", "s2c", 1, false, "C05"); err != nil {
			return err
		}
	}
	return nil
}

func faultOne(d *fw.Driver, res *fw.Result, seed int64, kind, pos, dir string, frame int, double bool, prop string) error {
	t0 := time.Now()
	lap := func(what string) {
		if os.Getenv("VERIF_DEBUG") != "" {
			fmt.Fprintf(os.Stderr, "  %s/%s/%s %-12s %v\n", kind, pos, dir, what, time.Since(t0))
		}
	}
	run, closer, cancel, err := newRunner(seed, 2, true)
	if err != nil {
		return err
	}
	defer func() { run.E.Close(); lap("env-closed") }()
	defer cancel()
	sig := fmt.Sprintf("fault kind=%s pos=%s dir=%s", kind, pos, dir)
	base := nextToks(100)
	f := run.E.PX.Arm(pxFault(dir, frame, pos, kind))
	// workload: sequential calls until the fault strikes, plus a notification and a retry-tagged call
	var before []*Call
	for i := 0; i < 8; i++ {
		k := "count"
		if i == 2 {
			k = "note"
		}
		if i == 5 {
			k = "retry"
		}
		c := run.Go(k, base+i, "before-fault")
		before = append(before, c)
		select {
		case <-f.Struck:
		default:
			c.Wait(300 * time.Millisecond)
		}
	}
	select {
	case <-f.Struck:
	case <-time.After(500 * time.Millisecond):
	}
	// calls right after the strike (possibly before it is noticed) and in the reconnect window
	for i := 0; i < 3; i++ {
		run.Go("count", base+20+i, "after-strike")
	}
	time.Sleep(time.Duration(seed%5) * time.Millisecond)
	for i := 0; i < 3; i++ {
		run.Go("count", base+30+i, "window")
	}
	if double {
		time.Sleep(8 * time.Millisecond)
		run.E.PX.Cut(0, "rst")
	}
	lap("issued")
	healed := run.Probe(base+50, 4*time.Second)
	lap("probed")
	if !healed {
		res.Add(fw.Finding{Kind: "monitor", Signature: sig + " never heals", Detail: "no call succeeded within 4s although the server is reachable: the client did not re-establish the link"})
	} else {
		for i := 0; i < 2; i++ {
			c := run.Go("count", base+40+i, "after-recovery")
			c.Wait(2 * time.Second)
		}
		run.Verdicts(res, sig, 1500*time.Millisecond)
	}
	WireCounts(res, run, sig)
	lap("verdicts")
	if !scen.WithTimeout(5*time.Second, closer) {
		res.Add(fw.Finding{Kind: "monitor", Signature: sig + " closer hangs", Detail: "the client's closer did not return within 5s"})
	} else if !healed {
		run.Verdicts(res, sig, 1500*time.Millisecond)
	}
	lap("closed")
	time.Sleep(3 * time.Millisecond)
	evs := run.E.RT.Events()
	if _, err := Check(d, res, evs, ClientConn(evs), sig); err != nil {
		return err
	}
	res.Count("fault." + kind)
	res.Count("pos." + pos)
	res.Count("dir." + dir)
	res.Eval(true, []interface{}{prop, kind, pos, dir, frame, double, seed % 5})
	if pos == "mid" {
		outc := []string{}
		for _, c := range run.All {
			st := "pending"
			if c.Returned {
				st = "ok"
				if c.Err != nil {
					st = "err"
				}
			}
			outc = append(outc, fmt.Sprintf("%s(%d)@%s=%s", c.Kind, c.Tok, c.Phase, st))
		}
		sort.Strings(outc)
		res.Sample(map[string]interface{}{"fault": sig, "frame": frame, "calls": strings.Join(outc, " ")})
	}
	return nil
}

// SweepVsExecutor forces the schedule in which the sweep of closeInFlight meets a response that the
// frame executor has just delivered: the caller is parked in its context-cancel branch (so it is not
// reading its mailbox), the executor is parked after its lookup, the connection is cut, the main loop
// is parked inside the sweep holding the inflight lock, then the executor delivers, the main loop
// sends, and the caller tries to enqueue its cancel request.  Gates only delay goroutines.
func SweepVsExecutor(d *fw.Driver, res *fw.Result, seed int64, withClose bool) error {
	run, closer, cancel, err := newRunner(seed, 0, true)
	if err != nil {
		return err
	}
	defer run.E.Close()
	defer cancel()
	sig := fmt.Sprintf("schedule sweep-vs-executor close=%v", withClose)
	base := nextToks(20)
	rt := run.E.RT
	cctx, ccancel := context.WithCancel(run.ctx)
	c := &Call{Tok: base, Kind: "block", Done: make(chan struct{}), Phase: "gated"}
	run.mu.Lock()
	run.All = append(run.All, c)
	run.mu.Unlock()
	go func() {
		defer close(c.Done)
		c.Val, c.Err = run.CL.Block(cctx, base)
		c.Returned = true
	}()
	if !rt.WaitCount("main.wrote", 1, 2*time.Second) || !rt.WaitCount("h.enter", 1, 2*time.Second) {
		return fmt.Errorf("gated scenario: request not written")
	}
	gCaller := rt.Gate("call.ctxdone", 1)
	gFe := rt.Gate("fe.resp.deliver", 1)
	gMain := rt.Gate("cif.send", 1)
	ccancel() // the caller enters its cancel branch and parks before enqueuing the cancel request
	if !gCaller.WaitReached(2 * time.Second) {
		rt.ReleaseAll()
		return fmt.Errorf("gated scenario: caller did not reach its cancel branch")
	}
	run.E.H.C.Release(base) // the handler answers: the response reaches the executor
	if !gFe.WaitReached(2 * time.Second) {
		rt.ReleaseAll()
		return fmt.Errorf("gated scenario: executor did not reach the delivery")
	}
	run.E.PX.Cut(0, "rst") // the connection drops: the main loop starts the sweep
	if !gMain.WaitReached(3 * time.Second) {
		rt.ReleaseAll()
		return fmt.Errorf("gated scenario: main loop did not reach the sweep")
	}
	gFe.Release() // the executor delivers (mailbox now full) and goes for the inflight lock
	time.Sleep(5 * time.Millisecond)
	gMain.Release() // the sweep sends to the same mailbox
	time.Sleep(2 * time.Millisecond)
	gCaller.Release() // the caller enqueues its cancel request
	// oracle: the call returns; later calls are served after the redial; the closer returns
	if !c.Wait(3 * time.Second) {
		res.Add(fw.Finding{Kind: "monitor", Signature: sig + " call never returns", Detail: "the call whose response met the sweep never returned (caller, frame executor and main loop wait for each other)"})
	}
	if withClose {
		if !scen.WithTimeout(4*time.Second, closer) {
			res.Add(fw.Finding{Kind: "monitor", Signature: sig + " closer hangs", Detail: "the client's closer did not return within 4s"})
		}
	} else {
		if !run.Probe(base+5, 3*time.Second) {
			res.Add(fw.Finding{Kind: "monitor", Signature: sig + " never heals", Detail: "no call succeeded within 3s: the main loop is wedged inside the sweep and no redial happened"})
		}
		scen.WithTimeout(4*time.Second, closer)
	}
	rt.ReleaseAll()
	time.Sleep(3 * time.Millisecond)
	evs := rt.Events()
	if _, err := Check(d, res, evs, ClientConn(evs), sig); err != nil {
		return err
	}
	res.Count("schedule.sweep-vs-executor")
	res.Eval(true, []interface{}{"sweep-vs-executor", withClose, seed})
	return nil
}

// SubRegVsSweep forces the schedule in which the frame executor has looked a subscription's response
// up in `inflight` but has not yet registered the channel handler when the main loop sweeps
// (closeInFlight + closeChans) — because the client is closed (mode "close") or because the connection
// was lost (mode "loss").  Whatever the caller got, a channel it obtained must be closed afterwards.
func SubRegVsSweep(d *fw.Driver, res *fw.Result, seed int64, mode string) error {
	run, closer, cancel, err := newRunner(seed, 0, true)
	if err != nil {
		return err
	}
	defer run.E.Close()
	defer cancel()
	sig := "schedule subscription-registration-vs-sweep mode=" + mode
	base := nextToks(20)
	rt := run.E.RT
	if !run.Probe(base+1, 2*time.Second) {
		return fmt.Errorf("gated scenario: warm-up call failed")
	}
	// the executor stands still right after it found the subscription's request in `inflight` (it holds
	// inflightLk there); the main loop, once it owns that lock, stands still before its first
	// non-blocking send of the sweep
	gFe := rt.Gate("fe.resp.lookup", 1)
	gMain := rt.Gate("cif.send", 1)
	nDeliver := rt.Count("fe.resp.deliver")
	type subRes struct {
		ch  <-chan int
		err error
	}
	got := make(chan subRes, 1)
	go func() {
		ch, err := run.CL.Sub(run.ctx, base+2, -1)
		got <- subRes{ch, err}
	}()
	if !gFe.WaitReached(2 * time.Second) {
		rt.ReleaseAll()
		return fmt.Errorf("gated scenario: executor did not reach the lookup")
	}
	closerDone := make(chan struct{})
	switch mode {
	case "close":
		n := rt.Count("main.exit.begin")
		go func() { closer(); close(closerDone) }()
		rt.WaitCount("main.exit.begin", n+1, 500*time.Millisecond)
	case "loss":
		n := rt.Count("reconn.begin")
		run.E.PX.Cut(0, "rst")
		rt.WaitCount("reconn.begin", n+1, 500*time.Millisecond)
	}
	time.Sleep(3 * time.Millisecond) // whatever the main loop does before it needs inflightLk happens now
	gFe.Release()                    // the executor goes on: registers the channel handler, delivers the response
	gMain.WaitReached(500 * time.Millisecond)
	rt.WaitCount("fe.resp.deliver", nDeliver+1, 500*time.Millisecond)
	time.Sleep(2 * time.Millisecond)
	gMain.Release() // the sweep finds the mailbox full and moves on
	var sr subRes
	select {
	case sr = <-got:
	case <-time.After(3 * time.Second):
		res.Add(fw.Finding{Kind: "monitor", Signature: sig + " subscription call blocks", Detail: "the subscription call did not return within 3s of the sweep"})
		rt.ReleaseAll()
		return nil
	}
	if sr.err == nil && sr.ch != nil {
		// the caller holds a channel: it must end now that the connection it lived on was swept
		closedInTime := false
		deadline := time.After(2 * time.Second)
	drain:
		for {
			select {
			case _, ok := <-sr.ch:
				if !ok {
					closedInTime = true
					break drain
				}
			case <-deadline:
				break drain
			}
		}
		if !closedInTime {
			what := "the closer returned"
			if mode == "loss" {
				what = "the connection was lost and swept"
			}
			res.Add(fw.Finding{Kind: "monitor", Signature: sig + " channel left open", Detail: "a subscription whose response was being processed while the main loop swept got a channel that is still open 2s after " + what + ": its handler was registered after closeChans ran"})
		}
	}
	if mode == "loss" {
		if !run.Probe(base+5, 3*time.Second) {
			res.Add(fw.Finding{Kind: "monitor", Signature: sig + " never heals", Detail: "no call succeeded within 3s of the loss"})
		}
		scen.WithTimeout(4*time.Second, closer)
	} else {
		select {
		case <-closerDone:
		case <-time.After(4 * time.Second):
			res.Add(fw.Finding{Kind: "monitor", Signature: sig + " closer hangs", Detail: "the client's closer did not return within 4s"})
		}
	}
	rt.ReleaseAll()
	time.Sleep(3 * time.Millisecond)
	evs := rt.Events()
	if os.Getenv("VERIF_DEBUG") == "1" {
		for _, ev := range evs {
			fmt.Fprintln(os.Stderr, ev.Seq, ev.T, ev.Conn, ev.Site, ev.KV)
		}
	}
	if _, err := Check(d, res, evs, ClientConn(evs), sig); err != nil {
		return err
	}
	res.Count("schedule.subreg-vs-sweep." + mode)
	res.Eval(true, []interface{}{"subreg-vs-sweep", mode, seed})
	return nil
}

// StaleDelete forces the schedule in which the executor's delete of a delivered response runs only
// after a retry of the same call (same id) has been registered on the new connection.
func StaleDelete(d *fw.Driver, res *fw.Result, seed int64) error {
	run, closer, cancel, err := newRunner(seed, 0, true)
	if err != nil {
		return err
	}
	defer run.E.Close()
	defer cancel()
	sig := "schedule stale-delete retry"
	base := nextToks(20)
	rt := run.E.RT
	c := &Call{Tok: base, Kind: "retry", Done: make(chan struct{}), Phase: "gated"}
	run.mu.Lock()
	run.All = append(run.All, c)
	run.mu.Unlock()
	go func() {
		defer close(c.Done)
		c.Val, c.Err = run.CL.BlockRetry(run.ctx, base)
		c.Returned = true
	}()
	if !rt.WaitCount("main.wrote", 1, 2*time.Second) || !rt.WaitCount("h.enter", 1, 2*time.Second) {
		return fmt.Errorf("gated scenario: request not written")
	}
	gFe := rt.Gate("fe.resp.deliver", 1)
	run.E.H.C.Release(base) // first execution answers; the executor parks before delivering
	if !gFe.WaitReached(2 * time.Second) {
		rt.ReleaseAll()
		return fmt.Errorf("gated scenario: executor did not reach the delivery")
	}
	run.E.PX.Cut(0, "rst") // loss: the sweep answers the attempt with the connection error; the call retries
	// the retry (same id) is registered on the new connection and its handler blocks
	if !rt.WaitCount("main.register", 2, 3*time.Second) || !rt.WaitCount("h.enter", 2, 3*time.Second) {
		rt.ReleaseAll()
		res.Note("stale-delete: the retry was not registered in time; schedule not reached")
		scen.WithTimeout(4*time.Second, closer)
		return nil
	}
	gFe.Release() // the stale delivery completes and its delete runs now
	time.Sleep(5 * time.Millisecond)
	// second execution: a fresh release channel is needed for the same token
	releaseAgain(run.E, base)
	if !c.Wait(3 * time.Second) {
		res.Add(fw.Finding{Kind: "monitor", Signature: sig + " call never returns", Detail: "the retried call never returned: the response to its second attempt found no inflight entry (removed by the first attempt's late delete)"})
	} else if c.Err != nil || c.Val != base {
		res.Add(fw.Finding{Kind: "monitor", Signature: sig + " wrong outcome", Detail: fmt.Sprintf("the retried call returned (%d, %v)", c.Val, c.Err)})
	}
	scen.WithTimeout(4*time.Second, closer)
	rt.ReleaseAll()
	time.Sleep(3 * time.Millisecond)
	evs := rt.Events()
	if _, err := Check(d, res, evs, ClientConn(evs), sig); err != nil {
		return err
	}
	res.Count("schedule.stale-delete")
	res.Eval(true, []interface{}{"stale-delete", seed})
	return nil
}

func releaseAgain(e *scen.Env, tok int) { e.H.C.ReleaseAgain(tok) }

// ---------- C02: concurrent callers, every completion order ----------

func permutations(n int) [][]int {
	if n == 1 {
		return [][]int{{0}}
	}
	var out [][]int
	for _, p := range permutations(n - 1) {
		for i := 0; i <= len(p); i++ {
			q := append(append(append([]int{}, p[:i]...), n-1), p[i:]...)
			out = append(out, q)
		}
	}
	return out
}

// Concurrent runs N blocked calls and releases their handlers in the given order.
func Concurrent(d *fw.Driver, res *fw.Result, seed int64, thorough bool) error {
	r := fw.Rng(seed, "c02")
	maxN := 4
	if thorough {
		maxN = 5
	}
	type job struct {
		n     int
		order []int
	}
	var jobs []job
	for n := 1; n <= maxN; n++ {
		ps := permutations(n)
		if n == 5 {
			r.Shuffle(len(ps), func(i, j int) { ps[i], ps[j] = ps[j], ps[i] })
			ps = ps[:40]
		}
		if !thorough && n == 4 {
			r.Shuffle(len(ps), func(i, j int) { ps[i], ps[j] = ps[j], ps[i] })
			ps = ps[:10]
		}
		for _, p := range ps {
			jobs = append(jobs, job{n, p})
		}
	}
	extra := 6
	if thorough {
		extra = 64
	}
	for i := 0; i < extra; i++ {
		n := 6 + r.Intn(20)
		jobs = append(jobs, job{n, r.Perm(n)})
	}
	// "any number of calls": one job far beyond any plausible fixed bound, released in reverse order (every
	// handler that is still running depends on frames that arrive after the later requests)
	big := 150
	if thorough {
		big = 400
	}
	rev := make([]int, big)
	for i := range rev {
		rev[i] = big - 1 - i
	}
	jobs = append(jobs, job{big, rev})
	for ji, j := range jobs {
		if res.Enough() {
			break
		}
		run, closer, cancel, err := newRunner(seed+int64(ji)*17, 2, true)
		if err != nil {
			return err
		}
		base := nextToks(j.n + 5)
		sig := fmt.Sprintf("concurrent n=%d", j.n)
		var calls []*Call
		for i := 0; i < j.n; i++ {
			// alternate between two generated functions: ids must be fresh per client, not per function
			kind := "block"
			if i%2 == 1 {
				kind = "block2"
			}
			calls = append(calls, run.Go(kind, base+i, "concurrent"))
		}
		// all handlers entered, then release in the chosen order
		deadline := time.Now().Add(5 * time.Second)
		for time.Now().Before(deadline) {
			all := true
			for i := 0; i < j.n; i++ {
				if run.E.H.C.Entered(base+i) == 0 {
					all = false
				}
			}
			if all {
				break
			}
			time.Sleep(200 * time.Microsecond)
		}
		// "any number of calls in flight concurrently": all of them must be running at the same time
		entered := 0
		for i := 0; i < j.n; i++ {
			if run.E.H.C.Entered(base+i) > 0 {
				entered++
			}
		}
		if entered < j.n {
			res.Add(fw.Finding{Kind: "monitor", Signature: sig + " calls not concurrent", Detail: fmt.Sprintf("only %d of %d concurrent calls reached their handler within 5s while the others were still running: the number of calls in flight is capped", entered, j.n)})
		}
		for _, k := range j.order {
			run.E.H.C.Release(base + k)
			if r.Intn(2) == 0 {
				calls[k].Wait(50 * time.Millisecond)
			}
		}
		for i, c := range calls {
			if !c.Wait(5 * time.Second) {
				res.Add(fw.Finding{Kind: "monitor", Signature: sig + " call never returns", Detail: fmt.Sprintf("call %d of %d concurrent calls did not return after its handler finished (completion order %v)", i, j.n, j.order)})
			} else if c.Err != nil {
				res.Add(fw.Finding{Kind: "monitor", Signature: sig + " call failed", Detail: fmt.Sprintf("call Block(%d) failed on a healthy connection: %v", c.Tok, c.Err)})
			} else if c.Val != c.Tok {
				res.Add(fw.Finding{Kind: "monitor", Signature: sig + " foreign result", Detail: fmt.Sprintf("call Block(%d) returned %d — another call's response (completion order %v)", c.Tok, c.Val, j.order)})
			}
			if ex := run.E.H.C.Execs(c.Tok); ex != 1 {
				res.Add(fw.Finding{Kind: "monitor", Signature: sig + " executions", Detail: fmt.Sprintf("call Block(%d) was executed %d times", c.Tok, ex)})
			}
		}
		scen.WithTimeout(5*time.Second, closer)
		time.Sleep(2 * time.Millisecond)
		evs := run.E.RT.Events()
		byAtt, err := Check(d, res, evs, ClientConn(evs), sig)
		if err != nil {
			return err
		}
		// the model's account of what each attempt received must be "genuine" for all of them
		gen := 0
		for _, m := range byAtt {
			if rm, ok := m["recvd"].(map[string]interface{}); ok && rm["genuine"] != nil {
				gen++
			}
		}
		if byAtt != nil && gen < j.n {
			res.Add(fw.Finding{Kind: "tie", Signature: sig + " model disagrees on deliveries", Detail: fmt.Sprintf("%d calls returned their results, the model replay accounts for %d genuine deliveries", j.n, gen)})
		}
		res.Count(fmt.Sprintf("n.%d", j.n))
		res.Eval(true, []interface{}{"c02", j.n, j.order})
		if ji%15 == 0 {
			res.Sample(map[string]interface{}{"callers": j.n, "completion_order": j.order, "hook_events": len(evs)})
		}
		cancel()
		run.E.Close()
	}
	return oneShot(d, res)
}

// ---------- C04: request frames per call, on the wire ----------

// WireCounts checks on the proxy's frame log that no untagged call's request was written twice.
func WireCounts(res *fw.Result, run *Runner, sig string) {
	counts := map[int]int{}
	for _, f := range run.E.PX.Frames() {
		if f.Dir != "c2s" || f.Index < 0 {
			continue
		}
		var m struct {
			Method string        `json:"method"`
			Params []interface{} `json:"params"`
			ID     interface{}   `json:"id"`
		}
		if json.Unmarshal([]byte(f.Text), &m) != nil || len(m.Params) == 0 {
			continue
		}
		if tok, ok := m.Params[0].(float64); ok && (m.Method == "SH.Count" || m.Method == "SH.Block" || m.Method == "SH.Note" || m.Method == "SH.Sub") {
			counts[int(tok)]++
			if m.Method == "SH.Note" && m.ID != nil {
				res.Add(fw.Finding{Kind: "monitor", Signature: sig + " notification with id", Detail: "a notification-tagged call was written with an id: " + f.Text})
			}
		}
	}
	run.mu.Lock()
	defer run.mu.Unlock()
	for _, c := range run.All {
		if c.Kind == "retry" {
			continue
		}
		if counts[c.Tok] > 1 {
			res.Add(fw.Finding{Kind: "monitor", Signature: sig + " request re-sent", Detail: fmt.Sprintf("the request of untagged call %s(%d) appears %d times on the wire", c.Kind, c.Tok, counts[c.Tok])})
		}
	}
}

// ---------- C18: the closer at every yield point ----------

var yieldSites = []string{"call.enq", "main.take", "main.errcheck", "main.register", "w.begin", "main.wrote", "reader.msg", "reader.queue",
	"fe.resp.lookup", "fe.resp.prechan", "fe.resp.deliver", "fe.resp.delete", "fe.resp.chanreg", "fe.chval", "sink.pushed", "buf.in", "reconn.begin",
	"cif.send", "cif.clear", "reconn.spawn", "rc.sleep", "rc.dial", "rc.swap", "main.incoming", "reader.err", "call.recv", "main.pong"}

// closeWorkload runs the mixed workload; if gate != nil the closer is fired when the gate is reached.
func closeWorkload(d *fw.Driver, res *fw.Result, seed int64, site string, nth int, sig string) (counts map[string]int, err error) {
	run, closer, cancel, err := newRunner(seed, 1, true)
	if err != nil {
		return nil, err
	}
	defer run.E.Close()
	defer cancel()
	rt := run.E.RT
	base := nextToks(60)
	var g *hk.Gate
	if site != "" {
		g = rt.Gate(site, nth)
	}
	closed := make(chan struct{})
	closerDone := make(chan struct{})
	var fireOnce sync.Once
	fire := func() {
		fireOnce.Do(func() {
			close(closed)
			go func() { closer(); close(closerDone) }()
		})
	}
	if g != nil {
		go func() {
			select {
			case <-g.Reached():
				fire()
				// let the closer get as far as it can while the gated goroutine stands still (it may need
				// that goroutine — a lock it holds — to finish: then go on after a short while)
				select {
				case <-closerDone:
				case <-time.After(15 * time.Millisecond):
				}
				if site != "rc.sleep" {
					g.Release()
				}
			case <-run.ctx.Done():
			}
		}()
	}
	// workload: queued + written + awaiting calls, a large frame, a stream, then a loss with calls in the window
	var subGot []int
	subClosed := make(chan struct{})
	go func() {
		defer close(subClosed)
		ch, err := run.CL.Sub(run.ctx, base+50, 60)
		if err != nil || ch == nil {
			return
		}
		for v := range ch {
			subGot = append(subGot, v)
		}
	}()
	for i := 0; i < 4; i++ {
		run.Go("count", base+i, "steady")
	}
	big := &Call{Tok: base + 9, Kind: "echo", Done: make(chan struct{}), Phase: "big-frame"}
	run.mu.Lock()
	run.All = append(run.All, big)
	run.mu.Unlock()
	go func() {
		defer close(big.Done)
		s, err := run.CL.Echo(run.ctx, big.Tok, 400000)
		big.Err = err
		big.Returned = true
		if err == nil && strings.HasPrefix(s, fmt.Sprintf("%d:", big.Tok)) {
			big.Val = big.Tok
		}
	}()
	blocked := run.Go("block", base+10, "awaiting")
	run.Go("blockretry", base+11, "awaiting-retry-tagged")
	time.Sleep(2 * time.Millisecond)
	run.E.PX.Cut(0, "rst")
	for i := 0; i < 3; i++ {
		run.Go("count", base+20+i, "window")
	}
	time.Sleep(4 * time.Millisecond)
	for i := 0; i < 3; i++ {
		run.Go("count", base+30+i, "after")
	}
	time.Sleep(4 * time.Millisecond)
	run.E.H.C.Release(base + 10)
	_ = blocked
	if g == nil {
		fire() // counting run: close at the end
	} else if !g.WaitReached(300 * time.Millisecond) {
		fire() // the occurrence was not reached in this run: close now
		g.Release()
	}
	select {
	case <-closed:
	case <-time.After(time.Second):
	}
	// (1) the closer returns
	select {
	case <-closerDone:
	case <-time.After(6 * time.Second):
		res.Add(fw.Finding{Kind: "monitor", Signature: sig + " closer hangs", Detail: fmt.Sprintf("the closer, invoked at occurrence %d of %s, did not return within 6s", nth, site)})
		rt.ReleaseAll()
		return rt.CountsCopy(), nil
	}
	// everything the redial goroutine logs from here on happened after the closer returned (its hook `rc.dial` is
	// logged before the dial): a dial that was already in progress when the closer returned is not a reconnection
	// attempted after the close, however late the proxy gets to count it
	closedAt := len(rt.Events())
	if g != nil && site == "rc.sleep" {
		// the redial goroutine was held just before its backoff sleep while the closer ran and returned: only
		// now does it sleep — whatever it dials after waking up is a reconnection attempted after the close
		g.Release()
	}
	// (2) every call that was in flight has returned
	run.mu.Lock()
	calls := append([]*Call{}, run.All...)
	run.mu.Unlock()
	for _, c := range calls {
		if !c.Wait(3 * time.Second) {
			res.Add(fw.Finding{Kind: "monitor", Signature: sig + " call blocked after close", Detail: fmt.Sprintf("call %s(%d) (%s) has not returned 3s after the closer returned (closer at occurrence %d of %s)", c.Kind, c.Tok, c.Phase, nth, site)})
		} else if c.Err == nil && c.Kind != "note" && c.Val != c.Tok {
			res.Add(fw.Finding{Kind: "monitor", Signature: sig + " foreign result", Detail: fmt.Sprintf("call %s(%d) returned %d", c.Kind, c.Tok, c.Val)})
		}
	}
	// (3) a later call fails promptly — a retry-tagged one too: a closed client is not a temporary outage
	lateRetry := run.Go("retry", base+46, "after-close-retry-tagged")
	if !lateRetry.Wait(2 * time.Second) {
		res.Add(fw.Finding{Kind: "monitor", Signature: sig + " later retry-tagged call blocks", Detail: "a retry-tagged call issued after the closer returned did not return within 2s"})
	} else if lateRetry.Err == nil {
		res.Add(fw.Finding{Kind: "monitor", Signature: sig + " later call succeeds", Detail: "a retry-tagged call issued after the closer returned succeeded"})
	}
	late := run.Go("count", base+45, "after-close")
	if !late.Wait(2 * time.Second) {
		res.Add(fw.Finding{Kind: "monitor", Signature: sig + " later call blocks", Detail: "a call issued after the closer returned did not return within 2s"})
	} else if late.Err == nil {
		res.Add(fw.Finding{Kind: "monitor", Signature: sig + " later call succeeds", Detail: "a call issued after the closer returned succeeded"})
	}
	// (4) every channel obtained from the client is closed
	select {
	case <-subClosed:
		for i, v := range subGot {
			if v != (base+50)*1000000+i {
				res.Add(fw.Finding{Kind: "monitor", Signature: sig + " stream not a prefix", Detail: fmt.Sprintf("subscription received %d at position %d", v, i)})
				break
			}
		}
	case <-time.After(3 * time.Second):
		res.Add(fw.Finding{Kind: "monitor", Signature: sig + " channel open after close", Detail: "a channel obtained from the client was still open 3s after the closer returned"})
	}
	// (5) no reconnection after the close
	time.Sleep(40 * time.Millisecond)
	lateDials := 0
	for _, ev := range rt.Events()[closedAt:] {
		if ev.Site == "rc.dial" {
			lateDials++
		}
	}
	if lateDials > 0 {
		res.Add(fw.Finding{Kind: "monitor", Signature: sig + " redial after close", Detail: fmt.Sprintf("the client started %d dial(s) after its closer had returned", lateDials)})
	}
	rt.ReleaseAll()
	time.Sleep(2 * time.Millisecond)
	evs := rt.Events()
	if _, err := Check(d, res, evs, ClientConn(evs), sig); err != nil {
		return nil, err
	}
	return rt.CountsCopy(), nil
}

// CloseEverywhere fires the closer at sampled occurrences of every yield-point site of the workload.
func CloseEverywhere(d *fw.Driver, res *fw.Result, seed int64, thorough bool) error {
	if os.Getenv("VERIF_ONLY") == "subreg" {
		return SubRegVsSweep(d, res, seed, "close")
	}
	counts, err := closeWorkload(d, res, seed, "", 0, "close at end")
	if err != nil {
		return err
	}
	res.Eval(true, []interface{}{"c18", "end"})
	r := fw.Rng(seed, "c18")
	per := 2
	if thorough {
		per = 8
	}
	for _, site := range yieldSites {
		if res.Enough() {
			return nil
		}
		n := counts[site]
		if n == 0 {
			continue
		}
		picks := map[int]bool{1: true, n: true}
		for len(picks) < per && len(picks) < n {
			picks[1+r.Intn(n)] = true
		}
		for nth := range picks {
			sig := "close at " + site
			if _, err := closeWorkload(d, res, seed+int64(nth), site, nth, sig); err != nil {
				return err
			}
			res.Count("close-at." + site)
			res.Eval(true, []interface{}{"c18", site, nth})
		}
	}
	res.Sample(map[string]interface{}{"yield_point_occurrences_in_reference_run": counts})
	// the deadlock schedule, with the closer as the observer
	if err := SweepVsExecutor(d, res, seed, true); err != nil {
		return err
	}
	if err := SubRegVsSweep(d, res, seed, "close"); err != nil {
		return err
	}
	return oneShotClose(res)
}

package corr

import (
	"context"
	"encoding/json"
	"fmt"
	"net/http"
	"net/http/httptest"
	"sync/atomic"
	"time"

	jsonrpc "github.com/filecoin-project/go-jsonrpc"

	"verif/harness/internal/fw"
	"verif/harness/internal/px"
)

func pxFault(dir string, frame int, pos, kind string) px.Fault {
	return px.Fault{Dir: dir, Frame: frame, Pos: pos, Kind: kind}
}

// oneShot: an HTTP server that answers concurrent requests with each other's ids — the client must
// reject them, never deliver.
func oneShot(d *fw.Driver, res *fw.Result) error {
	type reqT struct {
		ID     interface{}   `json:"id"`
		Params []interface{} `json:"params"`
	}
	for _, mode := range []string{"same", "other-num", "string-of-same", "null", "absent", "bool"} {
		var hits int64
		ts := httptest.NewServer(http.HandlerFunc(func(w http.ResponseWriter, r *http.Request) {
			var rq reqT
			json.NewDecoder(r.Body).Decode(&rq)
			atomic.AddInt64(&hits, 1)
			var idText string
			idb, _ := json.Marshal(rq.ID)
			switch mode {
			case "same":
				idText = string(idb)
			case "other-num":
				idText = "99999"
			case "string-of-same":
				idText = `"` + string(idb) + `"`
			case "null":
				idText = "null"
			case "bool":
				idText = "true"
			}
			body := `{"jsonrpc":"2.0","result":4242`
			if mode != "absent" {
				body += `,"id":` + idText
			}
			body += "}"
			w.Write([]byte(body))
		}))
		var cl struct {
			Add func(int, int) (int, error)
		}
		closer, err := jsonrpc.NewMergeClient(context.Background(), ts.URL, "SH", []interface{}{&cl}, nil)
		if err != nil {
			ts.Close()
			return err
		}
		v, cerr := cl.Add(1, 2)
		closer()
		ts.Close()
		respID := map[string]interface{}{"same": map[string]interface{}{"t": "num", "v": "1"}, "other-num": map[string]interface{}{"t": "num", "v": "99999"},
			"string-of-same": map[string]interface{}{"t": "str", "v": "1"}, "null": map[string]interface{}{"t": "null", "v": ""},
			"absent": map[string]interface{}{"t": "absent", "v": ""}, "bool": map[string]interface{}{"t": "invalid", "v": "true"}}[mode]
		ask := map[string]interface{}{"op": "oneshot", "req": map[string]interface{}{"t": "num", "v": "1"}, "resp": respID}
		model, err := d.Ask(ask)
		if err != nil {
			return err
		}
		delivered := cerr == nil && v == 4242
		mon := ""
		if mode != "same" && delivered {
			mon = fmt.Sprintf("an HTTP response carrying id %s was delivered to the call with id 1", mode)
		}
		if mode == "same" && !delivered {
			mon = fmt.Sprintf("the matching HTTP response was not delivered: %v", cerr)
		}
		res.Count("oneshot." + mode)
		res.Eval(true, []interface{}{"oneshot", mode})
		res.Compare("oneshot response id "+mode, ask, model, map[string]interface{}{"accepted": delivered}, mon)
	}
	return nil
}

// oneShotClose: closers of HTTP and custom-transport clients return at once and do not disturb calls in progress.
func oneShotClose(res *fw.Result) error {
	release := make(chan struct{})
	ts := httptest.NewServer(http.HandlerFunc(func(w http.ResponseWriter, r *http.Request) {
		var rq struct {
			ID interface{} `json:"id"`
		}
		json.NewDecoder(r.Body).Decode(&rq)
		<-release
		idb, _ := json.Marshal(rq.ID)
		w.Write([]byte(`{"jsonrpc":"2.0","result":7,"id":` + string(idb) + `}`))
	}))
	defer ts.Close()
	var cl struct {
		Add func(int, int) (int, error)
	}
	closer, err := jsonrpc.NewMergeClient(context.Background(), ts.URL, "SH", []interface{}{&cl}, nil)
	if err != nil {
		return err
	}
	done := make(chan error, 1)
	go func() {
		v, err := cl.Add(3, 4)
		if err == nil && v != 7 {
			err = fmt.Errorf("got %d", v)
		}
		done <- err
	}()
	closed := make(chan struct{})
	go func() { closer(); close(closed) }()
	select {
	case <-closed:
	case <-time.After(2 * time.Second):
		res.Add(fw.Finding{Kind: "monitor", Signature: "http closer blocks", Detail: "the closer of an HTTP client did not return at once while a call was in progress"})
	}
	close(release)
	select {
	case err := <-done:
		if err != nil {
			res.Add(fw.Finding{Kind: "monitor", Signature: "http close disturbs call", Detail: "a call in progress failed because the HTTP client's closer was invoked: " + err.Error()})
		}
	case <-time.After(3 * time.Second):
		res.Add(fw.Finding{Kind: "monitor", Signature: "http call hangs after close", Detail: "a call in progress did not complete after the closer was invoked"})
	}
	res.Count("oneshot.close")
	res.Eval(true, []interface{}{"oneshot-close"})
	return nil
}

// SubLostResponse: an untagged channel-returning call whose response is lost with the connection — the
// handler has run, the channel-id response is cut before its first byte (or inside it), the client
// reconnects.  The library must not send the request again on the new connection.
func SubLostResponse(d *fw.Driver, res *fw.Result, seed int64) error {
	for i, pos := range []string{"before", "mid"} {
		run, closer, cancel, err := newRunner(seed+int64(i)*17, 2, true)
		if err != nil {
			return err
		}
		sig := "subscription response lost pos=" + pos
		base := nextToks(20)
		f := run.E.PX.Arm(pxFault("s2c", 0, pos, "rst"))
		c := run.Go("sub", base, "response-lost")
		select {
		case <-f.Struck:
		case <-time.After(2 * time.Second):
		}
		healed := run.Probe(base+10, 4*time.Second)
		if !healed {
			res.Add(fw.Finding{Kind: "monitor", Signature: sig + " never heals", Detail: "no call succeeded within 4s after the loss"})
		}
		c.Wait(2 * time.Second)
		time.Sleep(20 * time.Millisecond) // a re-sent request would be executed by now
		run.Verdicts(res, sig, 1500*time.Millisecond)
		WireCounts(res, run, sig)
		scenClose(res, closer, sig)
		time.Sleep(3 * time.Millisecond)
		evs := run.E.RT.Events()
		if _, err := Check(d, res, evs, ClientConn(evs), sig); err != nil {
			cancel()
			run.E.Close()
			return err
		}
		res.Count("sub.lost-response." + pos)
		res.Eval(true, []interface{}{"sub-lost-response", pos})
		cancel()
		run.E.Close()
	}
	return nil
}

func scenClose(res *fw.Result, closer jsonrpc.ClientCloser, sig string) {
	done := make(chan struct{})
	go func() { closer(); close(done) }()
	select {
	case <-done:
	case <-time.After(5 * time.Second):
		res.Add(fw.Finding{Kind: "monitor", Signature: sig + " closer hangs", Detail: "the client's closer did not return within 5s"})
	}
}

// OneShotAtMostOnce: over HTTP (and a custom transport) a request whose connection dies after the server
// executed it and before any response byte was written must surface an error to the caller — the
// library never sends it again on its own initiative.
func OneShotAtMostOnce(res *fw.Result) error {
	for _, mode := range []string{"close-after-exec", "reset-after-exec", "close-after-partial-response"} {
		var execs int64
		ts := httptest.NewServer(http.HandlerFunc(func(w http.ResponseWriter, r *http.Request) {
			var rq struct {
				ID     interface{}   `json:"id"`
				Params []interface{} `json:"params"`
			}
			json.NewDecoder(r.Body).Decode(&rq)
			n := atomic.AddInt64(&execs, 1) // "the handler ran"
			if n > 1 {
				// a second delivery of the same request: answer it, so that a re-sending client looks healthy
				idb, _ := json.Marshal(rq.ID)
				w.Write([]byte(`{"jsonrpc":"2.0","result":3,"id":` + string(idb) + `}`))
				return
			}
			hj, ok := w.(http.Hijacker)
			if !ok {
				return
			}
			conn, buf, err := hj.Hijack()
			if err != nil {
				return
			}
			switch mode {
			case "reset-after-exec":
				if tc, ok := conn.(interface{ SetLinger(int) error }); ok {
					tc.SetLinger(0)
				}
			case "close-after-partial-response":
				buf.WriteString("HTTP/1.1 200 OK\r\nContent-Type: application/json\r\nContent-Length: 40\r\n\r\n{\"jsonrpc\":")
				buf.Flush()
			}
			conn.Close()
		}))
		var cl struct {
			Add func(int, int) (int, error)
		}
		closer, err := jsonrpc.NewMergeClient(context.Background(), ts.URL, "SH", []interface{}{&cl}, nil)
		if err != nil {
			ts.Close()
			return err
		}
		type out struct {
			v   int
			err error
		}
		ch := make(chan out, 1)
		go func() { v, err := cl.Add(1, 2); ch <- out{v, err} }()
		sig := "http connection dies after execution mode=" + mode
		select {
		case o := <-ch:
			n := atomic.LoadInt64(&execs)
			switch {
			case n > 1:
				res.Add(fw.Finding{Kind: "monitor", Signature: sig + " executed twice", Detail: fmt.Sprintf("the server received the request of one untagged HTTP call %d times (caller got %d, %v): the library re-sent it on its own initiative", n, o.v, o.err),
					Case: map[string]interface{}{"scenario": "oneshot-at-most-once", "mode": mode}})
			case o.err == nil:
				res.Add(fw.Finding{Kind: "monitor", Signature: sig + " no error", Detail: fmt.Sprintf("the caller got %d without error although no response was ever written", o.v),
					Case: map[string]interface{}{"scenario": "oneshot-at-most-once", "mode": mode}})
			}
		case <-time.After(5 * time.Second):
			res.Add(fw.Finding{Kind: "monitor", Signature: sig + " hangs", Detail: "the HTTP call did not return within 5s of its connection being closed",
				Case: map[string]interface{}{"scenario": "oneshot-at-most-once", "mode": mode}})
		}
		closer()
		ts.CloseClientConnections()
		ts.Close()
		res.Count("oneshot.atmostonce." + mode)
		res.Eval(true, []interface{}{"oneshot-at-most-once", mode})
	}
	return nil
}

// AfterExit: calls issued after the connection goroutine has terminated — after the closer, or after a
// loss on a no-reconnect client — must return an error, not block (the callers select on the exit
// signal); the same for a call that is cancelled afterwards.
func AfterExit(d *fw.Driver, res *fw.Result, seed int64) error {
	for i, how := range []string{"closer", "loss-noreconnect"} {
		run, closer, cancel, err := newRunner(seed+int64(i)*13, 1, how != "loss-noreconnect")
		if err != nil {
			return err
		}
		sig := "calls after the connection goroutine ended how=" + how
		base := nextToks(20)
		first := run.Go("count", base, "before")
		first.Wait(2 * time.Second)
		if how == "closer" {
			scenClose(res, closer, sig)
		} else {
			run.E.PX.Cut(0, "rst")
			run.E.RT.WaitCount("main.exited", 1, 2*time.Second)
		}
		for k := 0; k < 3; k++ {
			c := run.Go("count", base+1+k, "after-exit")
			if !c.Wait(2 * time.Second) {
				res.Add(fw.Finding{Kind: "monitor", Signature: sig + " call blocks", Detail: fmt.Sprintf("call %d issued after the connection goroutine had ended (%s) did not return within 2s", k, how),
					Case: map[string]interface{}{"scenario": "after-exit", "how": how}})
				break
			} else if c.Err == nil {
				res.Add(fw.Finding{Kind: "monitor", Signature: sig + " call succeeds", Detail: "a call issued after the connection goroutine had ended returned a result",
					Case: map[string]interface{}{"scenario": "after-exit", "how": how}})
			}
		}
		if how != "closer" {
			scenClose(res, closer, sig)
		}
		time.Sleep(3 * time.Millisecond)
		evs := run.E.RT.Events()
		if _, err := Check(d, res, evs, ClientConn(evs), sig); err != nil {
			cancel()
			run.E.Close()
			return err
		}
		res.Count("after-exit." + how)
		res.Eval(true, []interface{}{"after-exit", how})
		cancel()
		run.E.Close()
	}
	return nil
}

package corr

import (
	"context"
	"encoding/json"
	"errors"
	"fmt"
	"net/http"
	"net/http/httptest"
	"os"
	"path/filepath"
	"runtime"
	"strings"
	"sync"
	"sync/atomic"
	"time"

	jsonrpc "github.com/filecoin-project/go-jsonrpc"

	"verif/harness/internal/fw"
	"verif/harness/internal/px"
	"verif/harness/internal/scen"
)

func pxFault(dir string, frame int, pos, kind string) px.Fault {
	return px.Fault{Dir: dir, Frame: frame, Pos: pos, Kind: kind}
}

// oneShot: an HTTP server that answers concurrent requests with each other's ids — the client must
// reject them, never deliver.
func oneShot(d *fw.Driver, res *fw.Result) error {
	type reqT struct {
		ID     interface{}   `json:"id"`
		Params []interface{} `json:"params"`
	}
	for _, mode := range []string{"same", "other-num", "string-of-same", "null", "absent", "bool"} {
		var hits int64
		ts := httptest.NewServer(http.HandlerFunc(func(w http.ResponseWriter, r *http.Request) {
			var rq reqT
			json.NewDecoder(r.Body).Decode(&rq)
			atomic.AddInt64(&hits, 1)
			var idText string
			idb, _ := json.Marshal(rq.ID)
			switch mode {
			case "same":
				idText = string(idb)
			case "other-num":
				idText = "99999"
			case "string-of-same":
				idText = `"` + string(idb) + `"`
			case "null":
				idText = "null"
			case "bool":
				idText = "true"
			}
			body := `{"jsonrpc":"2.0","result":4242`
			if mode != "absent" {
				body += `,"id":` + idText
			}
			body += "}"
			w.Write([]byte(body))
		}))
		var cl struct {
			Add func(int, int) (int, error)
		}
		closer, err := jsonrpc.NewMergeClient(context.Background(), ts.URL, "SH", []interface{}{&cl}, nil)
		if err != nil {
			ts.Close()
			return err
		}
		v, cerr := cl.Add(1, 2)
		closer()
		ts.Close()
		respID := map[string]interface{}{"same": map[string]interface{}{"t": "num", "v": "1"}, "other-num": map[string]interface{}{"t": "num", "v": "99999"},
			"string-of-same": map[string]interface{}{"t": "str", "v": "1"}, "null": map[string]interface{}{"t": "null", "v": ""},
			"absent": map[string]interface{}{"t": "absent", "v": ""}, "bool": map[string]interface{}{"t": "invalid", "v": "true"}}[mode]
		ask := map[string]interface{}{"op": "oneshot", "req": map[string]interface{}{"t": "num", "v": "1"}, "resp": respID}
		model, err := d.Ask(ask)
		if err != nil {
			return err
		}
		delivered := cerr == nil && v == 4242
		mon := ""
		if mode != "same" && delivered {
			mon = fmt.Sprintf("an HTTP response carrying id %s was delivered to the call with id 1", mode)
		}
		if mode == "same" && !delivered {
			mon = fmt.Sprintf("the matching HTTP response was not delivered: %v", cerr)
		}
		res.Count("oneshot." + mode)
		res.Eval(true, []interface{}{"oneshot", mode})
		res.Compare("oneshot response id "+mode, ask, model, map[string]interface{}{"accepted": delivered}, mon)
	}
	return nil
}

// oneShotClose: closers of HTTP and custom-transport clients return at once and do not disturb calls in progress.
func oneShotClose(res *fw.Result) error {
	release := make(chan struct{})
	ts := httptest.NewServer(http.HandlerFunc(func(w http.ResponseWriter, r *http.Request) {
		var rq struct {
			ID interface{} `json:"id"`
		}
		json.NewDecoder(r.Body).Decode(&rq)
		<-release
		idb, _ := json.Marshal(rq.ID)
		w.Write([]byte(`{"jsonrpc":"2.0","result":7,"id":` + string(idb) + `}`))
	}))
	defer ts.Close()
	var cl struct {
		Add func(int, int) (int, error)
	}
	closer, err := jsonrpc.NewMergeClient(context.Background(), ts.URL, "SH", []interface{}{&cl}, nil)
	if err != nil {
		return err
	}
	done := make(chan error, 1)
	go func() {
		v, err := cl.Add(3, 4)
		if err == nil && v != 7 {
			err = fmt.Errorf("got %d", v)
		}
		done <- err
	}()
	closed := make(chan struct{})
	go func() { closer(); close(closed) }()
	select {
	case <-closed:
	case <-time.After(2 * time.Second):
		res.Add(fw.Finding{Kind: "monitor", Signature: "http closer blocks", Detail: "the closer of an HTTP client did not return at once while a call was in progress"})
	}
	close(release)
	select {
	case err := <-done:
		if err != nil {
			res.Add(fw.Finding{Kind: "monitor", Signature: "http close disturbs call", Detail: "a call in progress failed because the HTTP client's closer was invoked: " + err.Error()})
		}
	case <-time.After(3 * time.Second):
		res.Add(fw.Finding{Kind: "monitor", Signature: "http call hangs after close", Detail: "a call in progress did not complete after the closer was invoked"})
	}
	res.Count("oneshot.close")
	res.Eval(true, []interface{}{"oneshot-close"})
	return nil
}

// SubLostResponse: an untagged channel-returning call whose response is lost with the connection — the
// handler has run, the channel-id response is cut before its first byte (or inside it), the client
// reconnects.  The library must not send the request again on the new connection.
func SubLostResponse(d *fw.Driver, res *fw.Result, seed int64) error {
	for i, pos := range []string{"before", "mid"} {
		run, closer, cancel, err := newRunner(seed+int64(i)*17, 2, true)
		if err != nil {
			return err
		}
		sig := "subscription response lost pos=" + pos
		base := nextToks(20)
		f := run.E.PX.Arm(pxFault("s2c", 0, pos, "rst"))
		c := run.Go("sub", base, "response-lost")
		select {
		case <-f.Struck:
		case <-time.After(2 * time.Second):
		}
		healed := run.Probe(base+10, 4*time.Second)
		if !healed {
			res.Add(fw.Finding{Kind: "monitor", Signature: sig + " never heals", Detail: "no call succeeded within 4s after the loss"})
		}
		c.Wait(2 * time.Second)
		time.Sleep(20 * time.Millisecond) // a re-sent request would be executed by now
		run.Verdicts(res, sig, 1500*time.Millisecond)
		WireCounts(res, run, sig)
		scenClose(res, closer, sig)
		time.Sleep(3 * time.Millisecond)
		evs := run.E.RT.Events()
		if _, err := Check(d, res, evs, ClientConn(evs), sig); err != nil {
			cancel()
			run.E.Close()
			return err
		}
		res.Count("sub.lost-response." + pos)
		res.Eval(true, []interface{}{"sub-lost-response", pos})
		cancel()
		run.E.Close()
	}
	return nil
}

func scenClose(res *fw.Result, closer jsonrpc.ClientCloser, sig string) {
	done := make(chan struct{})
	go func() { closer(); close(done) }()
	select {
	case <-done:
	case <-time.After(5 * time.Second):
		res.Add(fw.Finding{Kind: "monitor", Signature: sig + " closer hangs", Detail: "the client's closer did not return within 5s"})
	}
}

// OneShotAtMostOnce: over HTTP (and a custom transport) a request whose connection dies after the server
// executed it and before any response byte was written must surface an error to the caller — the
// library never sends it again on its own initiative.
func OneShotAtMostOnce(res *fw.Result) error {
	for _, mode := range []string{"close-after-exec", "reset-after-exec", "close-after-partial-response"} {
		var execs int64
		ts := httptest.NewServer(http.HandlerFunc(func(w http.ResponseWriter, r *http.Request) {
			var rq struct {
				ID     interface{}   `json:"id"`
				Params []interface{} `json:"params"`
			}
			json.NewDecoder(r.Body).Decode(&rq)
			n := atomic.AddInt64(&execs, 1) // "the handler ran"
			if n > 1 {
				// a second delivery of the same request: answer it, so that a re-sending client looks healthy
				idb, _ := json.Marshal(rq.ID)
				w.Write([]byte(`{"jsonrpc":"2.0","result":3,"id":` + string(idb) + `}`))
				return
			}
			hj, ok := w.(http.Hijacker)
			if !ok {
				return
			}
			conn, buf, err := hj.Hijack()
			if err != nil {
				return
			}
			switch mode {
			case "reset-after-exec":
				if tc, ok := conn.(interface{ SetLinger(int) error }); ok {
					tc.SetLinger(0)
				}
			case "close-after-partial-response":
				buf.WriteString("HTTP/1.1 200 OK\r\nContent-Type: application/json\r\nContent-Length: 40\r\n\r\n{\"jsonrpc\":")
				buf.Flush()
			}
			conn.Close()
		}))
		var cl struct {
			Add func(int, int) (int, error)
		}
		closer, err := jsonrpc.NewMergeClient(context.Background(), ts.URL, "SH", []interface{}{&cl}, nil)
		if err != nil {
			ts.Close()
			return err
		}
		type out struct {
			v   int
			err error
		}
		ch := make(chan out, 1)
		go func() { v, err := cl.Add(1, 2); ch <- out{v, err} }()
		sig := "http connection dies after execution mode=" + mode
		select {
		case o := <-ch:
			n := atomic.LoadInt64(&execs)
			switch {
			case n > 1:
				res.Add(fw.Finding{Kind: "monitor", Signature: sig + " executed twice", Detail: fmt.Sprintf("the server received the request of one untagged HTTP call %d times (caller got %d, %v): the library re-sent it on its own initiative", n, o.v, o.err),
					Case: map[string]interface{}{"scenario": "oneshot-at-most-once", "mode": mode}})
			case o.err == nil:
				res.Add(fw.Finding{Kind: "monitor", Signature: sig + " no error", Detail: fmt.Sprintf("the caller got %d without error although no response was ever written", o.v),
					Case: map[string]interface{}{"scenario": "oneshot-at-most-once", "mode": mode}})
			}
		case <-time.After(5 * time.Second):
			res.Add(fw.Finding{Kind: "monitor", Signature: sig + " hangs", Detail: "the HTTP call did not return within 5s of its connection being closed",
				Case: map[string]interface{}{"scenario": "oneshot-at-most-once", "mode": mode}})
		}
		closer()
		ts.CloseClientConnections()
		ts.Close()
		res.Count("oneshot.atmostonce." + mode)
		res.Eval(true, []interface{}{"oneshot-at-most-once", mode})
	}
	return nil
}

// AfterExit: calls issued after the connection goroutine has terminated — after the closer, or after a
// loss on a no-reconnect client — must return an error, not block (the callers select on the exit
// signal); the same for a call that is cancelled afterwards.
func AfterExit(d *fw.Driver, res *fw.Result, seed int64) error {
	for i, how := range []string{"closer", "loss-noreconnect"} {
		run, closer, cancel, err := newRunner(seed+int64(i)*13, 1, how != "loss-noreconnect")
		if err != nil {
			return err
		}
		sig := "calls after the connection goroutine ended how=" + how
		base := nextToks(20)
		first := run.Go("count", base, "before")
		first.Wait(2 * time.Second)
		if how == "closer" {
			scenClose(res, closer, sig)
		} else {
			run.E.PX.Cut(0, "rst")
			run.E.RT.WaitCount("main.exited", 1, 2*time.Second)
		}
		for k := 0; k < 3; k++ {
			c := run.Go("count", base+1+k, "after-exit")
			if !c.Wait(2 * time.Second) {
				res.Add(fw.Finding{Kind: "monitor", Signature: sig + " call blocks", Detail: fmt.Sprintf("call %d issued after the connection goroutine had ended (%s) did not return within 2s", k, how),
					Case: map[string]interface{}{"scenario": "after-exit", "how": how}})
				break
			} else if c.Err == nil {
				res.Add(fw.Finding{Kind: "monitor", Signature: sig + " call succeeds", Detail: "a call issued after the connection goroutine had ended returned a result",
					Case: map[string]interface{}{"scenario": "after-exit", "how": how}})
			}
		}
		if how != "closer" {
			scenClose(res, closer, sig)
		}
		time.Sleep(3 * time.Millisecond)
		evs := run.E.RT.Events()
		if _, err := Check(d, res, evs, ClientConn(evs), sig); err != nil {
			cancel()
			run.E.Close()
			return err
		}
		res.Count("after-exit." + how)
		res.Eval(true, []interface{}{"after-exit", how})
		cancel()
		run.E.Close()
	}
	return nil
}

// CancelThenClose: calls blocked in their handlers share one context; the context is cancelled and the
// closer is invoked at once.  Every caller is then in (or on its way to) its cancel branch — not parked on
// its mailbox — while the exit path fails the pending calls: all of them must still return.
func CancelThenClose(d *fw.Driver, res *fw.Result, seed int64) error {
	run, closer, cancel, err := newRunner(seed, 1, true)
	if err != nil {
		return err
	}
	defer run.E.Close()
	defer cancel()
	sig := "contexts cancelled and client closed at the same time"
	base := nextToks(60)
	cctx, ccancel := context.WithCancel(run.ctx)
	const n = 24
	done := make([]chan struct{}, n)
	for i := 0; i < n; i++ {
		done[i] = make(chan struct{})
		go func(i int) {
			defer close(done[i])
			run.CL.Block(cctx, base+i)
		}(i)
	}
	for w := 0; w < 3000; w++ {
		all := true
		for i := 0; i < n; i++ {
			if run.E.H.C.Entered(base+i) == 0 {
				all = false
			}
		}
		if all {
			break
		}
		time.Sleep(time.Millisecond)
	}
	ccancel()
	closed := make(chan struct{})
	go func() { closer(); close(closed) }()
	select {
	case <-closed:
	case <-time.After(5 * time.Second):
		res.Add(fw.Finding{Kind: "monitor", Signature: sig + " closer hangs", Detail: "the closer did not return within 5s", Case: map[string]interface{}{"scenario": "cancel-then-close"}})
	}
	blocked := 0
	for i := 0; i < n; i++ {
		select {
		case <-done[i]:
		case <-time.After(3 * time.Second):
			blocked++
		}
	}
	if blocked > 0 {
		res.Add(fw.Finding{Kind: "monitor", Signature: sig + " calls blocked", Detail: fmt.Sprintf("%d of %d calls whose context was cancelled just before the client was closed have not returned 3s after the closer returned", blocked, n),
			Case: map[string]interface{}{"scenario": "cancel-then-close", "calls": n}})
	}
	for i := 0; i < n; i++ {
		run.E.H.C.Release(base + i)
	}
	time.Sleep(3 * time.Millisecond)
	evs := run.E.RT.Events()
	if _, err := Check(d, res, evs, ClientConn(evs), sig); err != nil {
		return err
	}
	res.Count("cancel-then-close")
	res.Eval(true, []interface{}{"cancel-then-close"})
	return nil
}

// CloseWithBacklog: a subscription whose consumer has stopped reading is many thousands of values behind
// (the client-side buffer is unbounded by design) when the client is closed: the closer must return, the
// channel must be closed, later calls must fail promptly.
func CloseWithBacklog(res *fw.Result, seed int64, backlog int) error {
	run, closer, cancel, err := newRunner(seed, 0, true)
	if err != nil {
		return err
	}
	defer run.E.Close()
	defer cancel()
	sig := fmt.Sprintf("client closed with a subscriber %d values behind", backlog)
	base := nextToks(10)
	ch, err := run.CL.Sub(run.ctx, base, backlog)
	if err != nil || ch == nil {
		return fmt.Errorf("harness error: Sub failed: %v", err)
	}
	// read one value, then stop; wait until the handler has sent everything (the client buffers it)
	<-ch
	for w := 0; w < 10000 && !run.E.H.C.Exited(base); w++ {
		time.Sleep(time.Millisecond)
	}
	c := map[string]interface{}{"scenario": "close-with-backlog", "backlog": backlog}
	if !run.E.H.C.Exited(base) {
		res.Add(fw.Finding{Kind: "monitor", Signature: sig + " producer blocked", Detail: fmt.Sprintf("the handler could not send its %d values although the client buffers without bound: a stalled consumer blocks the connection", backlog), Case: c})
	}
	probe := run.Go("count", base+1, "with-backlog")
	if !probe.Wait(3*time.Second) || probe.Err != nil {
		res.Add(fw.Finding{Kind: "monitor", Signature: sig + " ordinary call blocked", Detail: "an ordinary call did not complete while a subscriber was behind", Case: c})
	}
	closed := make(chan struct{})
	go func() { closer(); close(closed) }()
	select {
	case <-closed:
	case <-time.After(5 * time.Second):
		res.Add(fw.Finding{Kind: "monitor", Signature: sig + " closer hangs", Detail: "the closer did not return within 5s", Case: c})
	}
	drained := make(chan int, 1)
	go func() {
		k := 0
		for range ch {
			k++
		}
		drained <- k
	}()
	select {
	case <-drained:
	case <-time.After(5 * time.Second):
		res.Add(fw.Finding{Kind: "monitor", Signature: sig + " channel open after close", Detail: "the subscription's channel was not closed within 5s of the close (reading it to the end)", Case: c})
	}
	late := run.Go("count", base+2, "after-close")
	if !late.Wait(2 * time.Second) {
		res.Add(fw.Finding{Kind: "monitor", Signature: sig + " later call blocks", Detail: "a call issued after the close did not return within 2s", Case: c})
	}
	res.Count("close-with-backlog")
	res.Eval(true, []interface{}{"close-with-backlog", backlog})
	return nil
}

// MergedStructs: two proxy structs given to one NewMergeClient declare the same method, the first with
// the retry tag, the second without.  A call through the *untagged* function that is in flight when the
// connection is lost must not be sent again after the redial.
func MergedStructs(res *fw.Result, seed int64) error {
	e, err := scen.NewEnv(seed+31, 1)
	if err != nil {
		return err
	}
	defer e.Close()
	ctx, cancel := context.WithCancel(context.Background())
	defer cancel()
	var tagged struct {
		Block func(context.Context, int) (int, error) `retry:"true"`
	}
	var plain struct {
		Block func(context.Context, int) (int, error)
		Add   func(int, int) (int, error)
	}
	closer, err := jsonrpc.NewMergeClient(ctx, e.WSURL(), "SH", []interface{}{&tagged, &plain}, nil,
		jsonrpc.WithPingInterval(0), jsonrpc.WithTimeout(0), jsonrpc.WithReconnectBackoff(3*time.Millisecond, 12*time.Millisecond))
	if err != nil {
		return err
	}
	defer scenClose(res, closer, "merged structs")
	sig := "untagged declaration next to a retry-tagged one of the same method"
	tok := nextToks(5)
	type out struct {
		v   int
		err error
	}
	ch := make(chan out, 1)
	go func() { v, err := plain.Block(ctx, tok); ch <- out{v, err} }()
	for w := 0; w < 3000 && e.H.C.Entered(tok) == 0; w++ {
		time.Sleep(time.Millisecond)
	}
	e.PX.Cut(0, "rst")
	// the client heals
	healed := false
	for w := 0; w < 400 && !healed; w++ {
		done := make(chan bool, 1)
		go func() { v, err := plain.Add(20, 22); done <- err == nil && v == 42 }()
		select {
		case healed = <-done:
		case <-time.After(time.Second):
		}
		if !healed {
			time.Sleep(5 * time.Millisecond)
		}
	}
	time.Sleep(150 * time.Millisecond) // a re-sent request (method retry backoff: 100 ms) would have been executed by now
	c := map[string]interface{}{"scenario": "merged-structs"}
	if n := e.H.C.Execs(tok); n > 1 {
		res.Add(fw.Finding{Kind: "monitor", Signature: sig + " executed twice", Detail: fmt.Sprintf("a call through the untagged function was executed %d times by the server: it was re-sent after the redial", n), Case: c})
	}
	e.H.C.Release(tok)
	e.H.C.ReleaseAgain(tok)
	select {
	case o := <-ch:
		if o.err == nil && e.H.C.Execs(tok) != 1 {
			res.Add(fw.Finding{Kind: "monitor", Signature: sig + " answer without exactly one execution", Detail: fmt.Sprintf("the untagged call returned %d without error after %d executions", o.v, e.H.C.Execs(tok)), Case: c})
		}
	case <-time.After(3 * time.Second):
		res.Add(fw.Finding{Kind: "monitor", Signature: sig + " call hangs", Detail: "the untagged call in flight at the loss did not return", Case: c})
	}
	res.Count("merged-structs")
	res.Eval(true, []interface{}{"merged-structs"})
	return nil
}

// OneShotNotifyOnce: a notify-tagged call over HTTP executes exactly once on a healthy connection, also
// when the caller releases its context as soon as the call has returned.
func OneShotNotifyOnce(res *fw.Result, seed int64) error {
	e, err := scen.NewEnv(seed+32, 0)
	if err != nil {
		return err
	}
	defer e.Close()
	var cl struct {
		NoteCtx func(context.Context, int) `notify:"true"`
		Note    func(int)                  `notify:"true"`
	}
	closer, err := jsonrpc.NewMergeClient(context.Background(), e.HTTPURL(), "SH", []interface{}{&cl}, nil)
	if err != nil {
		return err
	}
	defer closer()
	base := nextToks(50)
	const n = 20
	for i := 0; i < n; i++ {
		ctx, cancel := context.WithTimeout(context.Background(), 5*time.Second)
		cl.NoteCtx(ctx, base+i)
		cancel() // the usual `defer cancel()` of the calling function
		cl.Note(base + n + i)
	}
	time.Sleep(100 * time.Millisecond)
	missing, twice := 0, 0
	for i := 0; i < 2*n; i++ {
		switch k := e.H.C.Execs(base + i); {
		case k == 0:
			missing++
		case k > 1:
			twice++
		}
	}
	if missing > 0 || twice > 0 {
		res.Add(fw.Finding{Kind: "monitor", Signature: "http notifications not executed exactly once", Detail: fmt.Sprintf("%d notifications reported as sent over HTTP on a healthy connection: %d were never executed, %d executed more than once", 2*n, missing, twice),
			Case: map[string]interface{}{"scenario": "oneshot-notify-once"}})
	}
	res.Count("oneshot.notify-once")
	res.Eval(true, []interface{}{"oneshot-notify-once"})
	return nil
}

// CloseOnSilentLink: keepalive and timeout switched off (WithPingInterval(0), WithTimeout(0)), the peer
// has fallen silent without closing (black hole) — the closer must still return, and the call in flight
// must come back with an error.
func CloseOnSilentLink(res *fw.Result, seed int64) error {
	e, err := scen.NewEnv(seed+33, 0, jsonrpc.WithServerPingInterval(0))
	if err != nil {
		return err
	}
	defer e.Close()
	ctx, cancel := context.WithCancel(context.Background())
	defer cancel()
	cl, closer, err := e.Client(ctx, jsonrpc.WithPingInterval(0), jsonrpc.WithTimeout(0))
	if err != nil {
		return err
	}
	sig := "close on a silent link with timeout 0"
	c := map[string]interface{}{"scenario": "close-on-silent-link"}
	if v, err := cl.Add(1, 2); err != nil || v != 3 {
		return fmt.Errorf("harness error: first call failed: %v", err)
	}
	tok := nextToks(5)
	pending := make(chan error, 1)
	go func() { _, err := cl.Block(ctx, tok); pending <- err }()
	for w := 0; w < 3000 && e.H.C.Entered(tok) == 0; w++ {
		time.Sleep(time.Millisecond)
	}
	e.PX.Cut(0, "blackhole")
	time.Sleep(5 * time.Millisecond)
	closed := make(chan struct{})
	go func() { closer(); close(closed) }()
	select {
	case <-closed:
	case <-time.After(5 * time.Second):
		res.Add(fw.Finding{Kind: "monitor", Signature: sig + " closer hangs", Detail: "the closer did not return within 5s on a link whose peer is silent (no timeout configured)", Case: c})
	}
	select {
	case err := <-pending:
		if err == nil {
			res.Add(fw.Finding{Kind: "monitor", Signature: sig + " pending call succeeds", Detail: "the call in flight returned a result although the peer was silent", Case: c})
		}
	case <-time.After(3 * time.Second):
		res.Add(fw.Finding{Kind: "monitor", Signature: sig + " pending call blocked", Detail: "the call in flight has not returned 3s after the closer was invoked", Case: c})
	}
	e.H.C.Release(tok)
	res.Count("close-on-silent-link")
	res.Eval(true, []interface{}{"close-on-silent-link"})
	return nil
}

// CancelledThenMore: a call whose context is cancelled while it is in flight and which then completes
// (the handler answers after all), followed by further calls on the same client: the cancel request's
// local completion must not reach anybody, every later call gets its own response.
func CancelledThenMore(d *fw.Driver, res *fw.Result, seed int64) error {
	run, closer, cancel, err := newRunner(seed+41, 1, true)
	if err != nil {
		return err
	}
	defer run.E.Close()
	defer cancel()
	sig := "calls after a cancelled call that completed"
	base := nextToks(40)
	for round := 0; round < 3; round++ {
		tok := base + round*10
		cctx, cc := context.WithCancel(run.ctx)
		done := make(chan struct{})
		go func() { defer close(done); run.CL.Block(cctx, tok) }()
		for w := 0; w < 3000 && run.E.H.C.Entered(tok) == 0; w++ {
			time.Sleep(time.Millisecond)
		}
		cc()
		select {
		case <-done:
		case <-time.After(3 * time.Second):
			res.Add(fw.Finding{Kind: "monitor", Signature: sig + " cancelled call hangs", Detail: "a call whose context was cancelled did not return after its handler had returned", Case: map[string]interface{}{"scenario": "cancelled-then-more"}})
		}
		for k := 1; k <= 3; k++ {
			c := run.Go("count", tok+k, "after-cancelled")
			if !c.Wait(3 * time.Second) {
				res.Add(fw.Finding{Kind: "monitor", Signature: sig + " later call hangs", Detail: fmt.Sprintf("call %d after a cancelled-and-completed call did not return", k), Case: map[string]interface{}{"scenario": "cancelled-then-more"}})
				break
			}
			if c.Err != nil || c.Val != c.Tok {
				res.Add(fw.Finding{Kind: "monitor", Signature: sig + " later call wrong", Detail: fmt.Sprintf("Count(%d) issued after a cancelled-and-completed call returned (%d, %v)", c.Tok, c.Val, c.Err), Case: map[string]interface{}{"scenario": "cancelled-then-more"}})
				break
			}
		}
	}
	scenClose(res, closer, sig)
	time.Sleep(3 * time.Millisecond)
	evs := run.E.RT.Events()
	if _, err := Check(d, res, evs, ClientConn(evs), sig); err != nil {
		return err
	}
	res.Count("cancelled-then-more")
	res.Eval(true, []interface{}{"cancelled-then-more"})
	return nil
}

// CtxCancelPending: the context given to NewMergeClient is cancelled while an untagged call is pending on a
// link that has gone silent (the request was written but never executed).  The call must come back with an
// error — a result without an execution would break "exactly once when the caller gets an answer".
func CtxCancelPending(res *fw.Result, seed int64) error {
	e, err := scen.NewEnv(seed+71, 0, jsonrpc.WithServerPingInterval(0))
	if err != nil {
		return err
	}
	defer e.Close()
	ctx, cancel := context.WithCancel(context.Background())
	defer cancel()
	cl, closer, err := e.Client(ctx, jsonrpc.WithPingInterval(0), jsonrpc.WithTimeout(0))
	if err != nil {
		return err
	}
	defer scenClose(res, closer, "ctx-cancel-pending")
	if v, err := cl.Add(1, 2); err != nil || v != 3 {
		return fmt.Errorf("harness error: first call failed: %v", err)
	}
	e.PX.Cut(0, "blackhole")
	tok := nextToks(5)
	type out struct {
		v   int
		err error
	}
	ch := make(chan out, 1)
	go func() { v, err := cl.Count(context.Background(), tok); ch <- out{v, err} }()
	time.Sleep(30 * time.Millisecond)
	cancel() // the application shuts the client down through its context
	c := map[string]interface{}{"scenario": "ctx-cancel-pending"}
	select {
	case o := <-ch:
		if o.err == nil {
			res.Add(fw.Finding{Kind: "monitor", Signature: "client context cancelled with a call pending: result without execution", Detail: fmt.Sprintf("the pending call returned (%d, nil) although the server executed it %d times", o.v, e.H.C.Execs(tok)), Case: c})
		}
	case <-time.After(3 * time.Second):
		res.Add(fw.Finding{Kind: "monitor", Signature: "client context cancelled with a call pending: call hangs", Detail: "the pending call did not return within 3s of the client's context being cancelled", Case: c})
	}
	res.Count("ctx-cancel-pending")
	res.Eval(true, []interface{}{"ctx-cancel-pending"})
	return nil
}

// SilentStall: the link goes silent without closing while a call is pending.  Two configurations that the
// keepalive scenarios of C17 do not own: keepalive switched off with a timeout configured (the read deadline
// alone must notice), and an application that keeps issuing requests more often than the timeout (our own
// writes must not count as signs of life).  The pending call must return with an error within a bounded
// time and, once the link works again, new calls must be served.
func SilentStall(d *fw.Driver, res *fw.Result, seed int64) error {
	for i, mode := range []string{"no-pings", "poller", "big-write", "big-write-unread", "big-write-midframe"} {
		T := 150 * time.Millisecond
		bigWrite := strings.HasPrefix(mode, "big-write")
		if bigWrite {
			T = time.Second // long enough for the 48 MiB request to be marshalled and its write to be under way
		}
		if mode == "big-write-unread" {
			T = 2500 * time.Millisecond // … and for one more message to arrive while the loop is inside that write
		}
		opts := []jsonrpc.Option{jsonrpc.WithTimeout(T)}
		if mode == "no-pings" {
			opts = append(opts, jsonrpc.WithPingInterval(0))
		} else {
			opts = append(opts, jsonrpc.WithPingInterval(T/5))
		}
		srvPing := 4 * time.Millisecond
		if mode == "big-write-unread" {
			// a realistic server: with a ping every 4 ms, hundreds of pings are queued in the client's read buffer by
			// the time the link dies, and each costs the reader a second (the pong cannot be written while the writer
			// holds the connection) before it reaches the read whose deadline can expire
			srvPing = 2 * time.Second
		}
		run, closer, cancel, err := newRunnerPing(srvPing, seed+int64(i)*7+3, 0, true, opts...)
		if err != nil {
			return err
		}
		sig := "silent stall mode=" + mode
		c := map[string]interface{}{"scenario": "silent-stall", "mode": mode, "timeout": T.String()}
		base := nextToks(400)
		warm := run.Go("count", base, "warm-up")
		warm.Wait(2 * time.Second)
		pendingKind := "block"
		var midFault *px.Fault
		if mode == "big-write-midframe" {
			// the stall strikes inside the 4 MiB response of the pending call (data frame 1 of the direction: the
			// warm-up's response was frame 0): the reader is then inside the frame, not between messages
			pendingKind = "blockbig"
			midFault = run.E.PX.Arm(pxFault("s2c", 1, "mid", "stall"))
		}
		pending := run.Go(pendingKind, base+1, "pending-at-stall")
		for w := 0; w < 3000 && run.E.H.C.Entered(base+1) == 0; w++ {
			time.Sleep(time.Millisecond)
		}
		switch mode {
		case "big-write":
			run.E.PX.Cut(0, "stall") // silent and no longer reading: writes run into full buffers
		case "big-write-unread":
			run.E.PX.Cut(0, "stall-c2s") // first only the client's direction dies; the server can still deliver
		case "big-write-midframe":
			run.E.H.C.Release(base + 1)
			select {
			case <-midFault.Struck:
			case <-time.After(5 * time.Second):
				return fmt.Errorf("silent-stall %s: the fault inside the response never struck", mode)
			}
		default:
			run.E.PX.Cut(0, "blackhole")
		}
		stop := make(chan struct{})
		if mode == "poller" {
			go func() {
				for k := 0; ; k++ {
					select {
					case <-stop:
						return
					case <-time.After(T / 4):
					}
					go func(k int) {
						cctx, cc := context.WithTimeout(run.ctx, 3*time.Second)
						defer cc()
						run.CL.Count(cctx, base+100+k)
					}(k)
				}
			}()
		}
		var big chan error
		if bigWrite {
			// a request far larger than the socket buffers, issued on the silent link: the connection loop is
			// then inside the write when the silence has to be noticed
			big = make(chan error, 1)
			go func() {
				cctx, cc := context.WithTimeout(run.ctx, 20*time.Second)
				defer cc()
				_, err := run.CL.Put(cctx, base+2, strings.Repeat("w", 48<<20))
				big <- err
			}()
		}
		if mode == "big-write-unread" {
			// the loop is now inside the write; one more message from the server arrives (the pending call's
			// response): the reader takes it and waits for the loop to accept it — nobody is reading the socket any
			// more when, next, the other direction falls silent too
			time.Sleep(1100 * time.Millisecond)
			run.E.H.C.Release(base + 1)
			time.Sleep(150 * time.Millisecond)
			run.E.PX.Cut(0, "stall")
		}
		bound := 5*T + 500*time.Millisecond
		if big != nil {
			bound += 2 * time.Second // marshalling and buffering 48 MiB takes a moment
			select {
			case <-big:
				// (an error, or — if the client had healed before the request was taken — a genuine result)
			case <-time.After(bound):
				res.Add(fw.Finding{Kind: "monitor", Signature: sig + " call being written never returns", Detail: fmt.Sprintf("a call whose 48 MiB request was being written when the peer had fallen silent had not returned %v later (timeout %v): nothing closes the connection while the connection loop is inside the write", bound, T), Case: c})
			}
		}
		if !pending.Wait(bound) {
			res.Add(fw.Finding{Kind: "monitor", Signature: sig + " pending call never returns", Detail: fmt.Sprintf("a call pending when the peer fell silent had not returned %v later (timeout %v): the stall is not noticed", bound, T), Case: c})
		} else if pending.Err == nil && !bigWrite {
			res.Add(fw.Finding{Kind: "monitor", Signature: sig + " pending call succeeded", Detail: "a call pending on a silent link returned a result", Case: c})
		}
		close(stop)
		if !run.Probe(base+50, 4*time.Second) {
			if dir := os.Getenv("VERIF_STACKS"); dir != "" {
				buf := make([]byte, 16<<20)
				buf = buf[:runtime.Stack(buf, true)]
				os.WriteFile(filepath.Join(dir, "stacks-"+mode+".txt"), buf, 0o644)
			}
			res.Add(fw.Finding{Kind: "monitor", Signature: sig + " never heals", Detail: "no call succeeded within 4s although new connections reach the server", Case: c})
		}
		run.E.H.C.Release(base + 1)
		scenClose(res, closer, sig)
		res.Count("silent-stall." + mode)
		res.Eval(true, []interface{}{"silent-stall", mode})
		cancel()
		run.E.Close()
	}
	return nil
}

// Unencodable: a handler returns a value the codec refuses (0/0).  The server cannot put that value into a
// response, but the request still has to be answered: the caller gets an error, on either transport, and
// the other calls of the connection are unaffected.
func Unencodable(res *fw.Result, seed int64) error {
	e, err := scen.NewEnv(seed+515, 0)
	if err != nil {
		return err
	}
	defer e.Close()
	ctx, cancel := context.WithCancel(context.Background())
	defer cancel()
	for _, transport := range []string{"ws", "http"} {
		var cl *scen.CL
		var closer jsonrpc.ClientCloser
		if transport == "ws" {
			cl, closer, err = e.Client(ctx, jsonrpc.WithNoReconnect())
		} else {
			cl = &scen.CL{}
			closer, err = jsonrpc.NewMergeClient(ctx, e.HTTPURL(), "SH", []interface{}{cl}, nil)
		}
		if err != nil {
			return err
		}
		sig := "handler result the codec refuses transport=" + transport
		c := map[string]interface{}{"scenario": "unencodable-result", "transport": transport}
		if v, err := cl.Div(1, 2); err != nil || v != 0.5 {
			closer()
			return fmt.Errorf("unencodable: control call failed: %v %v", v, err)
		}
		for _, args := range [][2]float64{{0, 0}, {1, 0}, {-1, 0}} {
			done := make(chan error, 1)
			go func() { _, err := cl.Div(args[0], args[1]); done <- err }()
			select {
			case err := <-done:
				if err == nil {
					res.Add(fw.Finding{Kind: "monitor", Signature: sig + " no error", Detail: fmt.Sprintf("Div(%v,%v) returned no error although its result cannot be encoded", args[0], args[1]), Case: c})
				}
			case <-time.After(3 * time.Second):
				res.Add(fw.Finding{Kind: "monitor", Signature: sig + " call never returns", Detail: fmt.Sprintf("Div(%v,%v) had not returned after 3s on a healthy connection: the server could not encode the result and sent nothing at all", args[0], args[1]), Case: c})
			}
			res.Count("unencodable." + transport)
			res.Eval(true, []interface{}{"unencodable", transport, args[0], args[1]})
		}
		if v, err := cl.Div(3, 4); err != nil || v != 0.75 {
			res.Add(fw.Finding{Kind: "monitor", Signature: sig + " later call fails", Detail: fmt.Sprintf("a later call on the same client failed: %v %v", v, err), Case: c})
		}
		scen.WithTimeout(3*time.Second, closer)
	}
	return nil
}

// keepaliveGoroutines counts the library's ping goroutines alive in this process.
func keepaliveGoroutines() int {
	buf := make([]byte, 8<<20)
	buf = buf[:runtime.Stack(buf, true)]
	n := 0
	for _, g := range strings.Split(string(buf), "\n\n") {
		if strings.Contains(g, "go-jsonrpc.(*wsConn).setupPings.func") {
			n++
		}
	}
	return n
}

// CloseAfterReconnect: a client that has reconnected is closed.  Nothing of it may stay behind: in particular
// the keepalive goroutine of the connection that was current at the close must end like that of a client that
// never reconnected.
func CloseAfterReconnect(res *fw.Result, seed int64) error {
	for _, reconnects := range []int{0, 1, 2} {
		before := keepaliveGoroutines()
		run, closer, cancel, err := newRunner(seed+int64(reconnects)*13+77, 0, true, jsonrpc.WithPingInterval(20*time.Millisecond), jsonrpc.WithTimeout(2*time.Second))
		if err != nil {
			return err
		}
		sig := fmt.Sprintf("close after %d reconnect(s)", reconnects)
		c := map[string]interface{}{"scenario": "close-after-reconnect", "reconnects": reconnects}
		base := nextToks(50)
		for k := 0; k < reconnects; k++ {
			run.E.PX.Cut(0, "rst")
			if !run.Probe(base+k, 4*time.Second) {
				res.Add(fw.Finding{Kind: "monitor", Signature: sig + " never heals", Detail: "no call succeeded within 4s of the reset", Case: c})
			}
		}
		if !run.Probe(base+10, 4*time.Second) {
			res.Add(fw.Finding{Kind: "monitor", Signature: sig + " call fails", Detail: "a call on the healthy client failed", Case: c})
		}
		scenClose(res, closer, sig)
		cancel()
		run.E.Close()
		left := 0
		for w := 0; w < 400; w++ {
			if left = keepaliveGoroutines() - before; left <= 0 {
				break
			}
			time.Sleep(5 * time.Millisecond)
		}
		if left > 0 {
			res.Add(fw.Finding{Kind: "monitor", Signature: sig + " keepalive goroutine retained", Detail: fmt.Sprintf("2s after the closer returned %d keepalive goroutine(s) of the closed client are still running", left), Case: c})
		}
		res.Count("close-after-reconnect")
		res.Eval(true, []interface{}{"close-after-reconnect", reconnects})
	}
	return nil
}

// OwnErr is a registered error type with a payload.
type OwnErr struct{ Who string }

func (e *OwnErr) Error() string { return "failed for " + e.Who }

func (e *OwnErr) MarshalJSON() ([]byte, error) { return json.Marshal(e.Who) }
func (e *OwnErr) UnmarshalJSON(b []byte) error { return json.Unmarshal(b, &e.Who) }

type ownH struct{}

func (ownH) Fail(who string) (int, error) {
	time.Sleep(2 * time.Millisecond)
	return 0, &OwnErr{Who: who}
}

// ErrorsOwn: "no call ever observes another call's result or error" for typed errors: concurrent calls fail
// with the same registered code and different payloads; each caller, looking at its error after all calls have
// returned, must still see its own payload.
func ErrorsOwn(res *fw.Result, seed int64) error {
	table := jsonrpc.NewErrors()
	table.Register(jsonrpc.FirstUserCode+3, new(*OwnErr))
	e, err := scen.NewEnv(seed+616, 0, jsonrpc.WithServerErrors(table))
	if err != nil {
		return err
	}
	defer e.Close()
	e.Srv.Register("OW", ownH{})
	for _, transport := range []string{"ws", "http"} {
		var cl struct {
			Fail func(string) (int, error)
		}
		url := e.WSURL()
		if transport == "http" {
			url = e.HTTPURL()
		}
		closer, err := jsonrpc.NewMergeClient(context.Background(), url, "OW", []interface{}{&cl}, nil, jsonrpc.WithErrors(table))
		if err != nil {
			return err
		}
		const N = 12
		errs := make([]error, N)
		var wg sync.WaitGroup
		for i := 0; i < N; i++ {
			wg.Add(1)
			go func(i int) {
				defer wg.Done()
				_, errs[i] = cl.Fail(fmt.Sprintf("caller-%d", i))
			}(i)
		}
		wg.Wait()
		for i, err := range errs {
			var oe *OwnErr
			res.Count("errors-own." + transport)
			res.Eval(true, []interface{}{"errors-own", transport, i})
			switch {
			case err == nil:
				res.Add(fw.Finding{Kind: "monitor", Signature: "typed errors of concurrent calls transport=" + transport + " no error", Detail: fmt.Sprintf("call %d returned no error", i)})
			case !errors.As(err, &oe):
				res.Add(fw.Finding{Kind: "monitor", Signature: "typed errors of concurrent calls transport=" + transport + " not typed", Detail: fmt.Sprintf("call %d: error %T (%v) is not the registered type", i, err, err)})
			case oe.Who != fmt.Sprintf("caller-%d", i):
				res.Add(fw.Finding{Kind: "monitor", Signature: "typed errors of concurrent calls transport=" + transport + " foreign payload",
					Detail: fmt.Sprintf("call %d observes another call's error: %v", i, err), Case: map[string]interface{}{"scenario": "errors-own", "transport": transport}})
			}
		}
		scen.WithTimeout(3*time.Second, closer)
	}
	return nil
}

// NotifyInOutageThenClose: a notify-tagged call is issued while the client is between connections (the redial is
// being refused); then the client is closed.  The call must have returned, at the latest, when the closer has.
func NotifyInOutageThenClose(res *fw.Result, seed int64) error {
	run, closer, cancel, err := newRunner(seed+4711, 0, true, jsonrpc.WithPingInterval(0), jsonrpc.WithTimeout(0))
	if err != nil {
		return err
	}
	defer cancel()
	defer run.E.Close()
	sig := "notification in the reconnect window, then close"
	base := nextToks(20)
	if !run.Probe(base, 3*time.Second) {
		return fmt.Errorf("notify-in-outage: warm-up failed")
	}
	run.E.PX.SetRefuse(true)
	run.E.PX.Cut(0, "rst")
	// until an ordinary call fails fast: the loss has been noticed
	for w := 0; w < 400; w++ {
		cctx, cc := context.WithTimeout(run.ctx, 200*time.Millisecond)
		_, err := run.CL.Count(cctx, base+1)
		cc()
		if err != nil {
			break
		}
		time.Sleep(5 * time.Millisecond)
	}
	noteDone := make(chan struct{})
	go func() { defer close(noteDone); run.CL.Note(base + 2) }()
	time.Sleep(50 * time.Millisecond)
	scenClose(res, closer, sig)
	select {
	case <-noteDone:
	case <-time.After(2 * time.Second):
		res.Add(fw.Finding{Kind: "monitor", Signature: sig + " call blocked after close", Detail: "a notify-tagged call issued while the client was between connections has not returned 2s after the closer returned",
			Case: map[string]interface{}{"scenario": "notify-in-outage-then-close"}})
	}
	res.Count("notify-in-outage-then-close")
	res.Eval(true, []interface{}{"notify-in-outage-then-close"})
	return nil
}

// CloseDuringBurst: many goroutines are submitting calls when the client is closed.  Every call returns (a
// result or an error) — none may be left waiting for a connection routine that has gone.
func CloseDuringBurst(res *fw.Result, seed int64) error {
	for round := 0; round < 5; round++ {
		run, closer, cancel, err := newRunner(seed+int64(round)*3+900, 0, true, jsonrpc.WithPingInterval(0), jsonrpc.WithTimeout(0))
		if err != nil {
			return err
		}
		base := nextToks(100000)
		var wg sync.WaitGroup
		stop := make(chan struct{})
		var issued int64
		for g := 0; g < 48; g++ {
			wg.Add(1)
			go func(g int) {
				defer wg.Done()
				for k := 0; ; k++ {
					select {
					case <-stop:
						return
					default:
					}
					atomic.AddInt64(&issued, 1)
					if _, err := run.CL.Count(run.ctx, base+g*1000+k); err != nil {
						return // the client is closed
					}
				}
			}(g)
		}
		time.Sleep(time.Duration(3+round*2) * time.Millisecond)
		scenClose(res, closer, "close during a burst")
		close(stop)
		if !scen.WithTimeout(3*time.Second, wg.Wait) {
			res.Add(fw.Finding{Kind: "monitor", Signature: "close during a burst: calls never return", Detail: fmt.Sprintf("3s after the closer returned some of the calls submitted around the close (of %d issued by 48 goroutines) have still not returned", atomic.LoadInt64(&issued)),
				Case: map[string]interface{}{"scenario": "close-during-burst", "round": round}})
		}
		res.Count("close-during-burst")
		res.Eval(true, []interface{}{"close-during-burst", round})
		cancel()
		run.E.Close()
		if res.Enough() {
			break
		}
	}
	return nil
}

// SkewedSubscription: the client declares a method as returning a channel, the server's method of that name returns
// a plain value (the two sides were built from different versions of an API).  The response arrives and cannot be
// read as a channel id: the call must return (with an error), not wait for ever; other calls are unaffected.
func SkewedSubscription(res *fw.Result, seed int64) error {
	e, err := scen.NewEnv(seed+733, 0)
	if err != nil {
		return err
	}
	defer e.Close()
	ctx, cancel := context.WithCancel(context.Background())
	defer cancel()
	var skew struct {
		Div func(context.Context, float64, float64) (<-chan int, error)
		Add func(int, int) (int, error)
	}
	closer, err := jsonrpc.NewMergeClient(ctx, e.WSURL(), "SH", []interface{}{&skew}, nil, jsonrpc.WithNoReconnect())
	if err != nil {
		return err
	}
	sig := "response that is not a channel id for a channel-returning call"
	for _, args := range [][2]float64{{1, 2}, {-4, 2}, {1, 3}} {
		c := map[string]interface{}{"scenario": "skewed-subscription", "args": args}
		done := make(chan error, 1)
		cctx, ccancel := context.WithTimeout(ctx, 10*time.Second)
		go func() { _, err := skew.Div(cctx, args[0], args[1]); done <- err }()
		select {
		case err := <-done:
			if err == nil {
				res.Add(fw.Finding{Kind: "monitor", Signature: sig + ": no error", Detail: fmt.Sprintf("Div(%v,%v) = %v is not a channel id, yet the subscribing call returned a channel and no error", args[0], args[1], args[0]/args[1]), Case: c})
			}
		case <-time.After(3 * time.Second):
			res.Add(fw.Finding{Kind: "monitor", Signature: sig + ": call never returns", Detail: fmt.Sprintf("the server answered Div(%v,%v) with %v; the client could not read that as a channel id, dropped the response and the call had not returned after 3s on a healthy connection", args[0], args[1], args[0]/args[1]), Case: c})
		}
		ccancel()
		res.Count("skewed-subscription")
		res.Eval(true, []interface{}{"skewed-subscription", args[0], args[1]})
	}
	if v, err := skew.Add(3, 4); err != nil || v != 7 {
		res.Add(fw.Finding{Kind: "monitor", Signature: sig + ": later call fails", Detail: fmt.Sprintf("a later call on the same client failed: %v %v", v, err)})
	}
	scen.WithTimeout(3*time.Second, closer)
	return nil
}

// NotifyCancelledCtx: a notification issued with a context that is already done (or ends while the request is being
// handed over).  A notification has nothing to cancel at the peer; the call reports what happened to the notification
// itself: it was sent (and then the server executes it exactly once), or it was not.
func NotifyCancelledCtx(res *fw.Result, seed int64) error {
	e, err := scen.NewEnv(seed+741, 0)
	if err != nil {
		return err
	}
	defer e.Close()
	ctx, cancel := context.WithCancel(context.Background())
	defer cancel()
	var cl struct {
		NoteCtx func(context.Context, int) error `notify:"true"`
		Add     func(int, int) (int, error)
	}
	closer, err := jsonrpc.NewMergeClient(ctx, e.WSURL(), "SH", []interface{}{&cl}, nil, jsonrpc.WithNoReconnect())
	if err != nil {
		return err
	}
	base := nextToks(40)
	failed, ok := 0, 0
	var firstErr error
	for i := 0; i < 30; i++ {
		cctx, ccancel := context.WithCancel(ctx)
		ccancel()
		if err := cl.NoteCtx(cctx, base+i); err != nil {
			failed++
			if firstErr == nil {
				firstErr = err
			}
		} else {
			ok++
		}
	}
	// everything sent so far is executed before this call is answered (one connection, frames in order)
	if v, err := cl.Add(1, 1); err != nil || v != 2 {
		return fmt.Errorf("notify-cancelled: control call failed: %v %v", v, err)
	}
	time.Sleep(50 * time.Millisecond)
	executed := 0
	for i := 0; i < 30; i++ {
		executed += e.H.C.Entered(base + i)
	}
	c := map[string]interface{}{"scenario": "notify-cancelled-ctx", "sent": 30, "reported_failed": failed, "executed": executed}
	if failed > 0 && executed > ok {
		res.Add(fw.Finding{Kind: "monitor", Signature: "notification with a done context: reported as failed but executed",
			Detail: fmt.Sprintf("30 notifications issued with a cancelled context: %d calls returned an error (%v) while the server executed %d of them — the error belongs to an xrpc.cancel the library tried to build for a request that has no id", failed, firstErr, executed), Case: c})
	}
	res.Count("notify-cancelled-ctx")
	res.Eval(true, []interface{}{"notify-cancelled-ctx"})
	scen.WithTimeout(3*time.Second, closer)
	return nil
}

// NotifyThenClose: notifications sent on a healthy connection, then the client is closed gracefully.  Every one of
// them was reported to its caller as sent and reached the server in full before the close frame: each must be
// executed exactly once.
func NotifyThenClose(res *fw.Result, seed int64) error {
	for round := 0; round < 3; round++ {
		e, err := scen.NewEnv(seed+751+int64(round), 0)
		if err != nil {
			return err
		}
		ctx, cancel := context.WithCancel(context.Background())
		cl, closer, err := e.Client(ctx, jsonrpc.WithNoReconnect())
		if err != nil {
			cancel()
			e.Close()
			return err
		}
		n := []int{25, 60, 120}[round]
		base := nextToks(n + 5)
		reported := 0
		for i := 0; i < n; i++ {
			cl.Note(base + i)
			reported++
		}
		scen.WithTimeout(3*time.Second, closer)
		executed := 0
		for w := 0; w < 100; w++ {
			executed = 0
			for i := 0; i < n; i++ {
				if e.H.C.Entered(base+i) > 0 {
					executed++
				}
			}
			if executed == n {
				break
			}
			time.Sleep(20 * time.Millisecond)
		}
		twice := 0
		for i := 0; i < n; i++ {
			if e.H.C.Entered(base+i) > 1 {
				twice++
			}
		}
		c := map[string]interface{}{"scenario": "notify-then-close", "sent": n, "executed": executed}
		if executed < n {
			res.Add(fw.Finding{Kind: "monitor", Signature: "notifications sent before a graceful close are not executed",
				Detail: fmt.Sprintf("%d notifications were sent on a healthy connection and the client was then closed; 2s later the server had executed %d of them — frames received in full and still queued for the executor when the close arrived were discarded", n, executed), Case: c})
		}
		if twice > 0 {
			res.Add(fw.Finding{Kind: "monitor", Signature: "notification executed twice", Detail: fmt.Sprintf("%d of %d notifications ran more than once", twice, n), Case: c})
		}
		res.Count("notify-then-close")
		res.Eval(true, []interface{}{"notify-then-close", n})
		cancel()
		e.Close()
	}
	return nil
}

// NoErrorResultOnce: a proxy function without an error result (func(ctx, int) int) cannot report a lost connection —
// which is no licence to send its request again: in flight at a loss followed by a redial, it is executed once.
// The same for a notify-tagged function whose server method returns a channel: the method runs once and nothing
// about it ever appears on the wire (no response object, no channel frames).
func NoErrorResultOnce(res *fw.Result, seed int64) error {
	e, err := scen.NewEnv(seed+61, 0)
	if err != nil {
		return err
	}
	defer e.Close()
	ctx, cancel := context.WithCancel(context.Background())
	defer cancel()
	var cl struct {
		Block func(context.Context, int) int
		Add   func(int, int) (int, error)
		Sub   func(context.Context, int, int) `notify:"true"`
	}
	closer, err := jsonrpc.NewMergeClient(ctx, e.WSURL(), "SH", []interface{}{&cl}, nil,
		jsonrpc.WithPingInterval(0), jsonrpc.WithTimeout(0), jsonrpc.WithReconnectBackoff(3*time.Millisecond, 12*time.Millisecond))
	if err != nil {
		return err
	}
	defer scenClose(res, closer, "no-error-result")
	// ---- a notification for a channel-returning method: silent on the wire
	tokN := nextToks(5)
	before := len(e.PX.Frames())
	cl.Sub(ctx, tokN, 3)
	if v, err := cl.Add(1, 1); err != nil || v != 2 {
		return fmt.Errorf("no-error-result: control call failed: %v %v", v, err)
	}
	time.Sleep(100 * time.Millisecond)
	for _, f := range e.PX.Frames()[before:] {
		if f.Dir != "s2c" || (f.Opcode != 1 && f.Opcode != 2) {
			continue
		}
		if strings.Contains(f.Text, `"id":null`) || strings.Contains(f.Text, "xrpc.ch.") {
			res.Add(fw.Finding{Kind: "monitor", Signature: "a notification yields frames on the wire", Detail: "a notify-tagged call of a channel-returning method made the server send: " + f.Text, Case: map[string]interface{}{"scenario": "notify-channel-method"}})
			break
		}
	}
	if n := e.H.C.Execs(tokN); n != 1 {
		res.Add(fw.Finding{Kind: "monitor", Signature: "notification for a channel-returning method not executed once", Detail: fmt.Sprintf("executed %d times", n)})
	}
	// ---- the value-only function in flight at a loss
	sig := "function without an error result in flight at a loss"
	tok := nextToks(5)
	ch := make(chan int, 1)
	go func() { ch <- cl.Block(ctx, tok) }()
	for w := 0; w < 3000 && e.H.C.Entered(tok) == 0; w++ {
		time.Sleep(time.Millisecond)
	}
	e.PX.Cut(0, "rst")
	healed := false
	for w := 0; w < 400 && !healed; w++ {
		done := make(chan bool, 1)
		go func() { v, err := cl.Add(20, 22); done <- err == nil && v == 42 }()
		select {
		case healed = <-done:
		case <-time.After(time.Second):
		}
		if !healed {
			time.Sleep(5 * time.Millisecond)
		}
	}
	time.Sleep(250 * time.Millisecond) // a re-sent request (method retry backoff: 100 ms) would have been executed by now
	c := map[string]interface{}{"scenario": "no-error-result"}
	if n := e.H.C.Execs(tok); n > 1 {
		res.Add(fw.Finding{Kind: "monitor", Signature: sig + " executed twice", Detail: fmt.Sprintf("a call through an untagged function without an error result was executed %d times by the server: it was re-sent after the redial", n), Case: c})
	}
	e.H.C.Release(tok)
	e.H.C.ReleaseAgain(tok)
	select {
	case <-ch:
	case <-time.After(3 * time.Second):
		res.Add(fw.Finding{Kind: "monitor", Signature: sig + " call hangs", Detail: "the call in flight at the loss did not return", Case: c})
	}
	res.Count("no-error-result")
	res.Eval(true, []interface{}{"no-error-result"})
	return nil
}

// libGoroutines counts the goroutines of this process whose stack contains the given library function.
func libGoroutines(fn string) int {
	buf := make([]byte, 8<<20)
	buf = buf[:runtime.Stack(buf, true)]
	n := 0
	for _, g := range strings.Split(string(buf), "\n\n") {
		if strings.Contains(g, fn) {
			n++
		}
	}
	return n
}

// CloseLeavesNoWatcher: subscriptions whose context outlives the client (a long-lived application context, or none at
// all: the library then uses the background context).  After the closer has returned and the channels are closed, no
// goroutine of the client may be left waiting for those contexts.
func CloseLeavesNoWatcher(res *fw.Result, seed int64) error {
	before := libGoroutines("go-jsonrpc.(*wsConn).handleCtxAsync")
	run, closer, cancel, err := newRunner(seed+91, 0, true)
	if err != nil {
		return err
	}
	defer cancel()
	defer run.E.Close()
	base := nextToks(20)
	long, longCancel := context.WithCancel(context.Background())
	defer longCancel()
	var chans []<-chan int
	for i := 0; i < 4; i++ {
		ch, err := run.CL.Sub(long, base+i, -1)
		if err != nil {
			return fmt.Errorf("close-leaves-no-watcher: subscribe: %v", err)
		}
		chans = append(chans, ch)
	}
	scenClose(res, closer, "close with open subscriptions")
	for i, ch := range chans {
		deadline := time.After(3 * time.Second)
	drain:
		for {
			select {
			case _, ok := <-ch:
				if !ok {
					break drain
				}
			case <-deadline:
				res.Add(fw.Finding{Kind: "monitor", Signature: "channel not closed by the client's close", Detail: fmt.Sprintf("subscription %d still open 3s after the closer returned", i)})
				break drain
			}
		}
	}
	left := 0
	for w := 0; w < 400; w++ {
		if left = libGoroutines("go-jsonrpc.(*wsConn).handleCtxAsync") - before; left <= 0 {
			break
		}
		time.Sleep(5 * time.Millisecond)
	}
	if left > 0 {
		res.Add(fw.Finding{Kind: "monitor", Signature: "subscription context watchers left behind by the close",
			Detail: fmt.Sprintf("%d goroutine(s) of the closed client are still blocked in handleCtxAsync 2s after the closer returned and every channel was closed: they wait for subscription contexts that outlive the client (and pin the connection object)", left),
			Case:   map[string]interface{}{"scenario": "close-leaves-no-watcher"}})
	}
	res.Count("close-leaves-no-watcher")
	res.Eval(true, []interface{}{"close-leaves-no-watcher"})
	return nil
}

// ZeroBackoff: WithReconnectBackoff given a zero bound (an application that only wants to set the other one, or reads
// both from a configuration with missing entries).  Redial attempts must still be spaced: never a busy loop.
func ZeroBackoff(res *fw.Result, seed int64) error {
	for i, cfg := range [][2]time.Duration{{0, time.Second}, {100 * time.Millisecond, 0}, {0, 0}} {
		e, err := scen.NewEnv(seed+801+int64(i), 0)
		if err != nil {
			return err
		}
		ctx, cancel := context.WithCancel(context.Background())
		cl, closer, err := e.Client(ctx, jsonrpc.WithReconnectBackoff(cfg[0], cfg[1]))
		if err != nil {
			cancel()
			e.Close()
			return err
		}
		if v, err := cl.Add(1, 2); err != nil || v != 3 {
			cancel()
			e.Close()
			return fmt.Errorf("zero-backoff: warm-up call failed: %v %v", v, err)
		}
		n0 := len(e.PX.AcceptTimes())
		e.PX.SetRefuse(true)
		e.PX.Cut(0, "rst")
		time.Sleep(time.Second)
		dials := len(e.PX.AcceptTimes()) - n0
		e.PX.SetRefuse(false)
		healed := false
		for w := 0; w < 60 && !healed; w++ {
			done := make(chan bool, 1)
			go func() { v, err := cl.Add(20, 22); done <- err == nil && v == 42 }()
			select {
			case healed = <-done:
			case <-time.After(time.Second):
			}
			if !healed {
				time.Sleep(100 * time.Millisecond)
			}
		}
		c := map[string]interface{}{"scenario": "zero-backoff", "min": cfg[0].String(), "max": cfg[1].String(), "dials_in_1s": dials}
		if dials > 100 {
			res.Add(fw.Finding{Kind: "monitor", Signature: "redial busy loop with a zero backoff bound",
				Detail: fmt.Sprintf("WithReconnectBackoff(%v, %v): %d redial attempts reached the listener during an outage of one second — the attempts are not spaced at all", cfg[0], cfg[1], dials), Case: c})
		}
		if !healed {
			res.Add(fw.Finding{Kind: "monitor", Signature: "zero backoff bound: never heals", Detail: "no call succeeded within a minute of the server being reachable again", Case: c})
		}
		res.Count("zero-backoff")
		res.Eval(true, []interface{}{"zero-backoff", cfg[0].String(), cfg[1].String()})
		scen.WithTimeout(3*time.Second, closer)
		cancel()
		e.Close()
	}
	return nil
}

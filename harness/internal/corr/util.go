package corr

import (
	"context"
	"encoding/json"
	"fmt"
	"net/http"
	"net/http/httptest"
	"sync/atomic"
	"time"

	jsonrpc "github.com/filecoin-project/go-jsonrpc"

	"verif/harness/internal/fw"
	"verif/harness/internal/px"
)

func pxFault(dir string, frame int, pos, kind string) px.Fault {
	return px.Fault{Dir: dir, Frame: frame, Pos: pos, Kind: kind}
}

// oneShot: an HTTP server that answers concurrent requests with each other's ids — the client must
// reject them, never deliver.
func oneShot(d *fw.Driver, res *fw.Result) error {
	type reqT struct {
		ID     interface{}   `json:"id"`
		Params []interface{} `json:"params"`
	}
	for _, mode := range []string{"same", "other-num", "string-of-same", "null", "absent", "bool"} {
		var hits int64
		ts := httptest.NewServer(http.HandlerFunc(func(w http.ResponseWriter, r *http.Request) {
			var rq reqT
			json.NewDecoder(r.Body).Decode(&rq)
			atomic.AddInt64(&hits, 1)
			var idText string
			idb, _ := json.Marshal(rq.ID)
			switch mode {
			case "same":
				idText = string(idb)
			case "other-num":
				idText = "99999"
			case "string-of-same":
				idText = `"` + string(idb) + `"`
			case "null":
				idText = "null"
			case "bool":
				idText = "true"
			}
			body := `{"jsonrpc":"2.0","result":4242`
			if mode != "absent" {
				body += `,"id":` + idText
			}
			body += "}"
			w.Write([]byte(body))
		}))
		var cl struct {
			Add func(int, int) (int, error)
		}
		closer, err := jsonrpc.NewMergeClient(context.Background(), ts.URL, "SH", []interface{}{&cl}, nil)
		if err != nil {
			ts.Close()
			return err
		}
		v, cerr := cl.Add(1, 2)
		closer()
		ts.Close()
		respID := map[string]interface{}{"same": map[string]interface{}{"t": "num", "v": "1"}, "other-num": map[string]interface{}{"t": "num", "v": "99999"},
			"string-of-same": map[string]interface{}{"t": "str", "v": "1"}, "null": map[string]interface{}{"t": "null", "v": ""},
			"absent": map[string]interface{}{"t": "absent", "v": ""}, "bool": map[string]interface{}{"t": "invalid", "v": "true"}}[mode]
		ask := map[string]interface{}{"op": "oneshot", "req": map[string]interface{}{"t": "num", "v": "1"}, "resp": respID}
		model, err := d.Ask(ask)
		if err != nil {
			return err
		}
		delivered := cerr == nil && v == 4242
		mon := ""
		if mode != "same" && delivered {
			mon = fmt.Sprintf("an HTTP response carrying id %s was delivered to the call with id 1", mode)
		}
		if mode == "same" && !delivered {
			mon = fmt.Sprintf("the matching HTTP response was not delivered: %v", cerr)
		}
		res.Count("oneshot." + mode)
		res.Eval(true, []interface{}{"oneshot", mode})
		res.Compare("oneshot response id "+mode, ask, model, map[string]interface{}{"accepted": delivered}, mon)
	}
	return nil
}

// oneShotClose: closers of HTTP and custom-transport clients return at once and do not disturb calls in progress.
func oneShotClose(res *fw.Result) error {
	release := make(chan struct{})
	ts := httptest.NewServer(http.HandlerFunc(func(w http.ResponseWriter, r *http.Request) {
		var rq struct {
			ID interface{} `json:"id"`
		}
		json.NewDecoder(r.Body).Decode(&rq)
		<-release
		idb, _ := json.Marshal(rq.ID)
		w.Write([]byte(`{"jsonrpc":"2.0","result":7,"id":` + string(idb) + `}`))
	}))
	defer ts.Close()
	var cl struct {
		Add func(int, int) (int, error)
	}
	closer, err := jsonrpc.NewMergeClient(context.Background(), ts.URL, "SH", []interface{}{&cl}, nil)
	if err != nil {
		return err
	}
	done := make(chan error, 1)
	go func() {
		v, err := cl.Add(3, 4)
		if err == nil && v != 7 {
			err = fmt.Errorf("got %d", v)
		}
		done <- err
	}()
	closed := make(chan struct{})
	go func() { closer(); close(closed) }()
	select {
	case <-closed:
	case <-time.After(2 * time.Second):
		res.Add(fw.Finding{Kind: "monitor", Signature: "http closer blocks", Detail: "the closer of an HTTP client did not return at once while a call was in progress"})
	}
	close(release)
	select {
	case err := <-done:
		if err != nil {
			res.Add(fw.Finding{Kind: "monitor", Signature: "http close disturbs call", Detail: "a call in progress failed because the HTTP client's closer was invoked: " + err.Error()})
		}
	case <-time.After(3 * time.Second):
		res.Add(fw.Finding{Kind: "monitor", Signature: "http call hangs after close", Detail: "a call in progress did not complete after the closer was invoked"})
	}
	res.Count("oneshot.close")
	res.Eval(true, []interface{}{"oneshot-close"})
	return nil
}

package fw

import "testing"

func TestConfirmed(t *testing.T) {
	mk := func(fail ...bool) func(r *Result) error {
		i := 0
		return func(r *Result) error {
			r.Count("ran")
			r.Eval(true, i)
			if fail[i] {
				r.Add(Finding{Kind: "monitor", Signature: "s", Detail: "d"})
			}
			r.Add(Finding{Kind: "tie", Signature: "t"})
			i++
			return nil
		}
	}
	// a failure that repeats is reported; the reruns' own counts are not added
	res := NewResult("C17", 1, "quick")
	if err := Confirmed(res, "x", mk(true, false, true)); err != nil {
		t.Fatal(err)
	}
	if len(res.monitorFindings()) != 1 || res.Distribution["ran"] != 1 || res.Distribution["x.rerun"] != 2 || res.Evaluations != 1 {
		t.Fatalf("repeated failure: %+v", res)
	}
	// a failure that does not repeat is not, but is described; tie findings stay
	res = NewResult("C17", 1, "quick")
	if err := Confirmed(res, "x", mk(true, false, false)); err != nil {
		t.Fatal(err)
	}
	if len(res.monitorFindings()) != 0 || len(res.Findings) != 1 || res.Distribution["x.not-reproduced"] != 1 || len(res.Notes) != 1 {
		t.Fatalf("unrepeated failure: %+v", res)
	}
	// no failure: one run
	res = NewResult("C17", 1, "quick")
	if err := Confirmed(res, "x", mk(false)); err != nil {
		t.Fatal(err)
	}
	if len(res.Findings) != 1 || res.Distribution["x.rerun"] != 0 || res.Distribution["ran"] != 1 {
		t.Fatalf("no failure: %+v", res)
	}
}

// Package fw is the correspondence-check framework shared by all property harnesses:
// it drives the Lean model through the JSON line protocol, runs the real implementation on the
// same case, compares the two canonical outputs, evaluates the property's monitor on the
// implementation's own output, and collects coverage for the evidence file.
package fw

import (
	"bufio"
	"bytes"
	"crypto/sha256"
	"encoding/hex"
	"encoding/json"
	"fmt"
	"io"
	"math/rand"
	"os"
	"os/exec"
	"path/filepath"
	"reflect"
	"sort"
	"sync"
	"time"
)

// Driver is a running jrpc-driver process.
type Driver struct {
	cmd *exec.Cmd
	in  io.WriteCloser
	out *bufio.Reader
	mu  sync.Mutex
	N   int
}

func DriverPath() string {
	if p := os.Getenv("JRPC_DRIVER"); p != "" {
		return p
	}
	return "/verif/lean/.lake/build/bin/jrpc-driver"
}

func StartDriver() (*Driver, error) {
	cmd := exec.Command(DriverPath())
	in, err := cmd.StdinPipe()
	if err != nil {
		return nil, err
	}
	out, err := cmd.StdoutPipe()
	if err != nil {
		return nil, err
	}
	cmd.Stderr = os.Stderr
	if err := cmd.Start(); err != nil {
		return nil, err
	}
	return &Driver{cmd: cmd, in: in, out: bufio.NewReaderSize(out, 1<<20)}, nil
}

// Ask sends one case descriptor and returns the model's answer (decoded JSON).
func (d *Driver) Ask(v interface{}) (interface{}, error) {
	d.mu.Lock()
	defer d.mu.Unlock()
	b, err := json.Marshal(v)
	if err != nil {
		return nil, err
	}
	b = append(b, '\n')
	if _, err := d.in.Write(b); err != nil {
		return nil, err
	}
	line, err := d.out.ReadBytes('\n')
	if err != nil {
		return nil, fmt.Errorf("driver died: %w", err)
	}
	d.N++
	var out interface{}
	dec := json.NewDecoder(bytes.NewReader(line))
	dec.UseNumber()
	if err := dec.Decode(&out); err != nil {
		return nil, fmt.Errorf("driver output: %w (%q)", err, line)
	}
	if m, ok := out.(map[string]interface{}); ok {
		if e, ok := m["driver_error"]; ok {
			return nil, fmt.Errorf("driver_error: %v (input %s)", e, bytes.TrimSpace(b))
		}
	}
	return out, nil
}

func (d *Driver) Close() {
	d.in.Close()
	d.cmd.Wait()
}

// Canon round-trips v through JSON so that model and implementation outputs compare structurally.
func Canon(v interface{}) interface{} {
	b, err := json.Marshal(v)
	if err != nil {
		panic(err)
	}
	var out interface{}
	dec := json.NewDecoder(bytes.NewReader(b))
	dec.UseNumber()
	if err := dec.Decode(&out); err != nil {
		panic(err)
	}
	return out
}

func Equal(a, b interface{}) bool { return reflect.DeepEqual(Canon(a), Canon(b)) }

func JSON(v interface{}) string {
	b, _ := json.Marshal(v)
	return string(b)
}

func Hash(v interface{}) string {
	h := sha256.Sum256([]byte(JSON(v)))
	return hex.EncodeToString(h[:8])
}

// Finding is one problem found by a run.
type Finding struct {
	// Kind: "monitor" — the property's predicate is false on the implementation's own behaviour
	// (a concrete failing input); "tie" — model and implementation disagree (or the model refused an
	// implementation event) while the monitor is still true.
	Kind      string      `json:"kind"`
	Signature string      `json:"signature"` // canonical form of the failing input / site / schedule
	Detail    string      `json:"detail"`
	Case      interface{} `json:"case,omitempty"`
	Model     interface{} `json:"model,omitempty"`
	Impl      interface{} `json:"impl,omitempty"`
}

// Result is what a harness subcommand writes for bin/check.
type Result struct {
	Property     string         `json:"property"`
	Seed         int64          `json:"seed"`
	Tier         string         `json:"tier"`
	Evaluations  int            `json:"evaluations"`
	Distinct     int            `json:"distinct_nontrivial"`
	Rule         string         `json:"rule"`
	Distribution map[string]int `json:"distribution"`
	Samples      []interface{}  `json:"samples"`
	Traces       int            `json:"traces_validated_against_impl"`
	Events       int            `json:"events"`
	Exhaustive   bool           `json:"exhaustive"`
	Findings     []Finding      `json:"findings"`
	kept         int
	WallS        float64        `json:"wall_s"`
	Notes        []string       `json:"notes,omitempty"`

	mu       sync.Mutex
	distinct map[string]bool
	start    time.Time
	maxFind  int
}

func NewResult(prop string, seed int64, tier string) *Result {
	return &Result{Property: prop, Seed: seed, Tier: tier, Distribution: map[string]int{},
		distinct: map[string]bool{}, start: time.Now(), maxFind: 40}
}

func (r *Result) Count(key string) {
	r.mu.Lock()
	r.Distribution[key]++
	r.mu.Unlock()
}

func (r *Result) CountN(key string, n int) {
	r.mu.Lock()
	r.Distribution[key] += n
	r.mu.Unlock()
}

// Eval records one evaluated case; nontrivial says whether it counts for distinct_nontrivial,
// canon is the canonical form used to tell cases apart.
func (r *Result) Eval(nontrivial bool, canon interface{}) {
	r.mu.Lock()
	defer r.mu.Unlock()
	r.Evaluations++
	if nontrivial {
		r.distinct[Hash(canon)] = true
	}
}

func (r *Result) Sample(v interface{}) {
	r.mu.Lock()
	defer r.mu.Unlock()
	if len(r.Samples) < 6 {
		r.Samples = append(r.Samples, Canon(v))
	}
}

// SampleKeep records a sample of a rare kind even when the ordinary sample slots are taken (at most 10).
func (r *Result) SampleKeep(v interface{}) {
	r.mu.Lock()
	defer r.mu.Unlock()
	if r.kept < 10 {
		r.kept++
		r.Samples = append(r.Samples, Canon(v))
	}
}

func (r *Result) Add(f Finding) {
	r.mu.Lock()
	defer r.mu.Unlock()
	for _, g := range r.Findings {
		if g.Kind == f.Kind && g.Signature == f.Signature {
			return // one representative per signature
		}
	}
	if len(r.Findings) < r.maxFind {
		r.Findings = append(r.Findings, f)
	}
}

// Enough reports that the run already holds several concrete failing inputs (monitor findings with
// distinct signatures): scenario loops that cost seconds per case stop early then — the check has its
// replays, and a wedged implementation must not turn a quick run into an hour.
func (r *Result) Enough() bool {
	r.mu.Lock()
	defer r.mu.Unlock()
	n := 0
	for _, f := range r.Findings {
		if f.Kind == "monitor" {
			n++
		}
	}
	return n >= 6
}

func (r *Result) Note(s string) {
	r.mu.Lock()
	r.Notes = append(r.Notes, s)
	r.mu.Unlock()
}

// absorb adds what another result counted to this one; monitor findings only when asked to.
func (r *Result) absorb(o *Result, monitors bool) {
	o.mu.Lock()
	defer o.mu.Unlock()
	r.mu.Lock()
	r.Evaluations += o.Evaluations
	for k := range o.distinct {
		r.distinct[k] = true
	}
	for k, v := range o.Distribution {
		r.Distribution[k] += v
	}
	for _, x := range o.Samples {
		if len(r.Samples) < 6 {
			r.Samples = append(r.Samples, x)
		}
	}
	r.Traces += o.Traces
	r.Events += o.Events
	r.Notes = append(r.Notes, o.Notes...)
	r.mu.Unlock()
	for _, f := range o.Findings {
		if f.Kind != "monitor" || monitors {
			r.Add(f)
		}
	}
}

func (r *Result) monitorFindings() []Finding {
	r.mu.Lock()
	defer r.mu.Unlock()
	var out []Finding
	for _, f := range r.Findings {
		if f.Kind == "monitor" {
			out = append(out, f)
		}
	}
	return out
}

// Confirmed runs a scenario whose verdict is about real time ("a healthy link is not dropped": the link is
// healthy only if the machine delivers pings, pongs and wake-ups within a fraction of the configured timeout,
// which the scenario can estimate — scen.LagProbe, the proxy's frame log — but not know).  A monitor failure
// of such a scenario is reported only if the same scenario, run again from scratch, fails too (two more
// attempts): a change to the library that makes it drop healthy links does so every time, a machine that
// stalled one goroutine for a few tens of milliseconds does not do it again at the same point.  A failure
// that is not reproduced is counted as <name>.not-reproduced and described in the notes of the evidence;
// model/implementation differences ("tie" findings) and everything the first run counted are kept as they are.
func Confirmed(res *Result, name string, run func(r *Result) error) error {
	first := NewResult(res.Property, res.Seed, res.Tier)
	err := run(first)
	mon := first.monitorFindings()
	if err != nil || len(mon) == 0 {
		res.absorb(first, true)
		return err
	}
	for k := 0; k < 2; k++ {
		again := NewResult(res.Property, res.Seed, res.Tier)
		res.Count(name + ".rerun")
		if rerr := run(again); rerr != nil {
			continue // (the environment could not even set the scenario up: no second opinion from this attempt)
		}
		if len(again.monitorFindings()) > 0 {
			res.absorb(first, true)
			return nil
		}
	}
	res.absorb(first, false)
	res.Count(name + ".not-reproduced")
	for _, f := range mon {
		res.Note(fmt.Sprintf("%s: verdict %q (%s) was not reproduced by two further runs of the same scenario and is not reported: a timing verdict that does not repeat is attributed to the machine, not to the library", name, f.Signature, f.Detail))
	}
	return nil
}

func (r *Result) Write(path string) error {
	r.mu.Lock()
	defer r.mu.Unlock()
	r.Distinct = len(r.distinct)
	r.WallS = time.Since(r.start).Seconds()
	if r.Findings == nil {
		r.Findings = []Finding{}
	}
	if r.Samples == nil {
		r.Samples = []interface{}{}
	}
	b, err := json.MarshalIndent(r, "", " ")
	if err != nil {
		return err
	}
	if err := os.MkdirAll(filepath.Dir(path), 0o755); err != nil {
		return err
	}
	return os.WriteFile(path, b, 0o644)
}

// Compare runs the standard decision for one differential case.
//   - monitorErr != "" : the implementation's own output violates the property → "monitor" finding
//   - model != impl    : "tie" finding
func (r *Result) Compare(sig string, c, model, impl interface{}, monitorErr string) {
	if monitorErr != "" {
		r.Add(Finding{Kind: "monitor", Signature: sig, Detail: monitorErr, Case: Canon(c), Model: Canon(model), Impl: Canon(impl)})
		return
	}
	if !Equal(model, impl) {
		r.Add(Finding{Kind: "tie", Signature: sig, Detail: "model and implementation outputs differ", Case: Canon(c), Model: Canon(model), Impl: Canon(impl)})
	}
}

// Rng derives every random choice of a run from one seed.
func Rng(seed int64, stream string) *rand.Rand {
	h := sha256.Sum256([]byte(fmt.Sprintf("%d/%s", seed, stream)))
	var s int64
	for i := 0; i < 8; i++ {
		s = s<<8 | int64(h[i])
	}
	return rand.New(rand.NewSource(s))
}

func Pick[T any](r *rand.Rand, xs []T) T { return xs[r.Intn(len(xs))] }

func SortedKeys(m map[string]int) []string {
	ks := make([]string, 0, len(m))
	for k := range m {
		ks = append(ks, k)
	}
	sort.Strings(ks)
	return ks
}

// LoadCorpus reads every *.json file of dir (minimised past failures and hand-written witnesses).
func LoadCorpus(dir string) []json.RawMessage {
	var out []json.RawMessage
	ents, err := os.ReadDir(dir)
	if err != nil {
		return nil
	}
	names := []string{}
	for _, e := range ents {
		if filepath.Ext(e.Name()) == ".json" {
			names = append(names, e.Name())
		}
	}
	sort.Strings(names)
	for _, n := range names {
		b, err := os.ReadFile(filepath.Join(dir, n))
		if err == nil {
			out = append(out, json.RawMessage(b))
		}
	}
	return out
}

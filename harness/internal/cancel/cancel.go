// Package cancel — C06 (cancellation reaches exactly the cancelled call's handler) and C15 (a dead
// connection's handlers are cancelled and its goroutines go away): scenarios, projection of the
// server connection's hook trace onto Jrpc.Cancel, and the monitors.
package cancel

import (
	"bytes"
	"context"
	"encoding/json"
	"fmt"
	"github.com/gorilla/websocket"
	"net"
	"net/http/httptest"
	"os"
	"regexp"
	"runtime/pprof"
	"sort"
	"strings"
	"sync"
	"sync/atomic"
	"time"

	jsonrpc "github.com/filecoin-project/go-jsonrpc"

	"verif/harness/internal/fw"
	"verif/harness/internal/hk"
	"verif/harness/internal/scen"
)

func num(v interface{}) int {
	switch x := v.(type) {
	case int:
		return x
	case float64:
		return int(x)
	case json.Number:
		n, _ := x.Int64()
		return int(n)
	}
	return 0
}

// Project maps the hook trace of one server-role connection to Jrpc.Cancel events; it also returns the
// handler number the model uses for every request id.
func Project(evs []hk.Event, conn int) (out []map[string]interface{}, hOfID map[string]int, hOfTok map[int]int) {
	hOfID = map[string]int{}
	hOfTok = map[int]int{}
	cur := map[string]int{} // id ↦ handler currently registered under it
	next := 0
	for _, e := range evs {
		if e.Conn != conn {
			continue
		}
		switch e.Site {
		case "fe.call":
			next++
			idk := fw.JSON(e.KV["id"])
			if m, ok := e.KV["id"].(map[string]interface{}); ok && m["t"] != "null" {
				cur[idk] = next
				hOfID[idk] = next
			}
			var ps []interface{}
			if p, ok := e.KV["params"].(string); ok && json.Unmarshal([]byte(p), &ps) == nil && len(ps) > 0 {
				if t, ok := ps[0].(float64); ok {
					hOfTok[int(t)] = next
				}
			}
			out = append(out, map[string]interface{}{"e": "call", "h": next, "id": e.KV["id"]})
		case "fe.cancel":
			out = append(out, map[string]interface{}{"e": "cancelFrame", "id": e.KV["id"], "found": e.KV["found"]})
		case "h.done":
			idk := fw.JSON(e.KV["id"])
			if h, ok := cur[idk]; ok {
				out = append(out, map[string]interface{}{"e": "done", "h": h, "keep": e.KV["keep"]})
				if e.KV["keep"] == false {
					delete(cur, idk)
				}
			}
		case "cif.done":
			out = append(out, map[string]interface{}{"e": "sweep"})
			cur = map[string]int{}
		case "main.exited":
			out = append(out, map[string]interface{}{"e": "connEnd"})
		}
	}
	return
}

// ServerConns lists the wsConn ids that executed inbound calls (server role).
func ServerConns(evs []hk.Event) []int {
	seen := map[int]bool{}
	var out []int
	for _, e := range evs {
		if e.Site == "fe.call" && !seen[e.Conn] {
			seen[e.Conn] = true
			out = append(out, e.Conn)
		}
	}
	return out
}

// IDsOfToks reads the request frames off the proxy log: token (first param) ↦ canonical id, for the
// k-th accepted connection (ids are per client).
func IDsOfToks(e *scen.Env, pconn int) map[int]string {
	out := map[int]string{}
	for _, f := range e.PX.Frames() {
		if f.Conn != pconn {
			continue
		}
		if f.Dir != "c2s" || f.Index < 0 {
			continue
		}
		var m struct {
			Method string        `json:"method"`
			Params []interface{} `json:"params"`
			ID     interface{}   `json:"id"`
		}
		if json.Unmarshal([]byte(f.Text), &m) != nil || len(m.Params) == 0 || m.ID == nil {
			continue
		}
		if tok, ok := m.Params[0].(float64); ok && strings.HasPrefix(m.Method, "SH.") {
			out[int(tok)] = fw.JSON(hk.CanonID(m.ID))
		}
	}
	return out
}

// Check replays every server connection's trace and compares the model's verdict on each handler's
// context with what the handler's captured context says.
func Check(d *fw.Driver, res *fw.Result, e *scen.Env, toks []int, sig string) error {
	evs := e.RT.Events()
	conns := ServerConns(evs)
	for _, conn := range conns {
		mes, _, hOfTok := Project(evs, conn)
		var hs []int
		for _, h := range hOfTok {
			hs = append(hs, h)
		}
		sort.Ints(hs)
		ask := map[string]interface{}{"op": "cancel", "events": mes, "handlers": hs}
		model, err := d.Ask(ask)
		if err != nil {
			return err
		}
		mm := model.(map[string]interface{})
		res.Traces++
		res.Events += len(mes)
		if mm["accepted"] != true {
			idx := num(mm["refusedAt"])
			lo := idx - 8
			if lo < 0 {
				lo = 0
			}
			res.Add(fw.Finding{Kind: "tie", Signature: sig + " cancel event refused: " + fmt.Sprint(mes[idx]["e"]),
				Detail: fmt.Sprintf("server connection %d: the model refuses event %d %v", conn, idx, mes[idx]), Case: map[string]interface{}{"events_before": mes[lo : idx+1]}})
			continue
		}
		cancelledH := map[int]bool{}
		for _, x := range mm["cancelled"].([]interface{}) {
			cancelledH[num(x)] = true
		}
		for _, tok := range toks {
			h, ok := hOfTok[tok]
			if !ok {
				continue
			}
			got, known := e.H.C.CtxErr(tok)
			if known && got != cancelledH[h] {
				res.Add(fw.Finding{Kind: "tie", Signature: sig + " context state differs from model",
					Detail: fmt.Sprintf("handler of call %d: context cancelled=%v, the model replay says %v", tok, got, cancelledH[h]),
					Case:   map[string]interface{}{"conn": conn, "handler": h, "events": mes}})
			}
		}
	}
	return nil
}

type item struct {
	tok      int
	kind     string // block | sub
	cancel   context.CancelFunc
	ctx      context.Context
	doCancel bool
	done     chan struct{}
}

// Cancellation: C06 scenarios over WebSocket and HTTP.
func Cancellation(d *fw.Driver, res *fw.Result, seed int64, thorough bool) error {
	r := fw.Rng(seed, "c06")
	instants := []string{"before-send", "after-send", "racing-response", "sub-established"}
	rounds := 24
	if thorough {
		rounds = 120
	}
	base := 700000
	for round := 0; round < rounds && !res.Enough(); round++ {
		e, err := scen.NewEnv(seed+int64(round)*19, 2)
		if err != nil {
			return err
		}
		ctx, cancelAll := context.WithCancel(context.Background())
		cl, closer, err := e.Client(ctx, jsonrpc.WithNoReconnect())
		if err != nil {
			cancelAll()
			e.Close()
			return err
		}
		// a second client on its own connection: its calls must never be affected
		cl2, closer2, err := e.Client(ctx, jsonrpc.WithNoReconnect())
		if err != nil {
			cancelAll()
			e.Close()
			return err
		}
		instant := instants[round%len(instants)]
		n := 2 + r.Intn(4)
		var items []*item
		var wg sync.WaitGroup
		base += 50
		for i := 0; i < n; i++ {
			it := &item{tok: base + i, kind: "block", doCancel: r.Intn(2) == 0, done: make(chan struct{})}
			if instant == "sub-established" || r.Intn(4) == 0 {
				it.kind = "sub"
			} else if (instant == "after-send" || instant == "racing-response") && r.Intn(3) == 0 {
				it.kind = "subslow" // a subscription whose handler has not returned its channel yet
			}
			if i == 0 && instant == "after-send" {
				it.kind, it.doCancel = "subslow", true // always one subscription cancelled while its handler is still setting up
			}
			it.ctx, it.cancel = context.WithCancel(ctx)
			items = append(items, it)
		}
		other := &item{tok: base + 40, kind: "block", done: make(chan struct{})}
		other.ctx, other.cancel = context.WithCancel(ctx)
		go func() { defer close(other.done); cl2.Block(other.ctx, other.tok) }()
		for _, it := range items {
			it := it
			if instant == "before-send" && it.doCancel {
				it.cancel()
			}
			wg.Add(1)
			go func() {
				defer wg.Done()
				defer close(it.done)
				if it.kind == "sub" {
					sub := cl.Sub
					if it.tok%2 == 1 {
						sub = cl.SubBoth // the handler's channel type is `chan int`
					}
					ch, err := sub(it.ctx, it.tok, -1)
					if err == nil && ch != nil {
						for range ch {
						}
					}
				} else if it.kind == "subslow" {
					ch, err := cl.SubSlow(it.ctx, it.tok, -1)
					if err == nil && ch != nil {
						for range ch {
						}
					}
				} else {
					cl.Block(it.ctx, it.tok)
				}
			}()
		}
		sig := fmt.Sprintf("cancel instant=%s", instant)
		// wait until the handlers run (those cancelled before the send may never start)
		deadline := time.Now().Add(3 * time.Second)
		for time.Now().Before(deadline) {
			all := e.H.C.Entered(other.tok) > 0
			for _, it := range items {
				if !(instant == "before-send" && it.doCancel) && e.H.C.Entered(it.tok) == 0 {
					all = false
				}
			}
			if all {
				break
			}
			time.Sleep(300 * time.Microsecond)
		}
		if instant == "sub-established" {
			e.RT.WaitCount("c.recvany", 0, 0)
			time.Sleep(2 * time.Millisecond)
		}
		for _, it := range items {
			if it.doCancel && instant != "before-send" {
				if instant == "racing-response" && (it.kind == "block" || it.kind == "subslow") {
					go e.H.C.Release(it.tok)
				}
				it.cancel()
			}
		}
		// a probe on the same connection orders everything: when it returns, every cancel frame written
		// before it has been executed by the server
		probeDone := make(chan struct{})
		go func() { defer close(probeDone); cl.Count(ctx, base+45) }()
		select {
		case <-probeDone:
		case <-time.After(3 * time.Second):
			res.Add(fw.Finding{Kind: "monitor", Signature: sig + " probe blocked", Detail: "an ordinary call did not complete while other calls were being cancelled"})
		}
		// (1) cancelled calls' handlers see the cancellation
		var toks []int
		for _, it := range items {
			toks = append(toks, it.tok)
			if !it.doCancel || e.H.C.Entered(it.tok) == 0 {
				continue
			}
			ok := false
			for w := 0; w < 2000; w++ {
				if c, known := e.H.C.CtxErr(it.tok); known && c {
					ok = true
					break
				}
				if instant == "racing-response" && e.H.C.Exited(it.tok) {
					ok = true // the handler returned first: nothing left to cancel
					break
				}
				time.Sleep(time.Millisecond)
			}
			if !ok {
				res.Add(fw.Finding{Kind: "monitor", Signature: sig + " cancellation not delivered", Detail: fmt.Sprintf("the context of %s(%d) was cancelled by the caller but its handler's context stayed live", it.kind, it.tok)})
			}
		}
		// (2) nothing else was cancelled: other calls and subscriptions, on this and the other connection
		for _, it := range append(items, other) {
			if it.doCancel {
				continue
			}
			// (a unary handler that has returned has had its context released by the library: not a cancellation;
			// the endless streams of this round end only when their context does)
			endless := it.kind == "sub" || it.kind == "subslow"
			if c, known := e.H.C.CtxErr(it.tok); known && c && (endless || !e.H.C.Exited(it.tok)) {
				res.Add(fw.Finding{Kind: "monitor", Signature: sig + " spurious cancellation", Detail: fmt.Sprintf("the handler context of %s(%d) was cancelled although its caller did not cancel and the connection is healthy", it.kind, it.tok)})
			}
		}
		if err := Check(d, res, e, append(toks, other.tok), sig); err != nil {
			return err
		}
		// release everything
		for _, it := range append(items, other) {
			it.cancel()
			e.H.C.Release(it.tok)
		}
		scen.WithTimeout(3*time.Second, wg.Wait)
		scen.WithTimeout(3*time.Second, closer)
		scen.WithTimeout(3*time.Second, closer2)
		res.Count("instant." + instant)
		res.Eval(true, []interface{}{"c06", instant, n, round})
		if round%4 == 0 {
			desc := []string{}
			for _, it := range items {
				desc = append(desc, fmt.Sprintf("%s(%d) cancel=%v", it.kind, it.tok, it.doCancel))
			}
			res.Sample(map[string]interface{}{"instant": instant, "calls": desc})
		}
		cancelAll()
		e.Close()
	}
	if err := rawIDCancel(res, seed); err != nil {
		return err
	}
	if err := serverEndsOthers(res, seed); err != nil {
		return err
	}
	return httpCancel(res)
}

// serverEndsOthers: subscriptions that end on the server side (the handler closes its channel) must not
// touch the contexts of the subscriptions that stay open: open a, the server ends a; open b; open c, the
// server ends c; b's handler context must still be live, b must still deliver, and cancelling b must still
// reach b's handler.
func serverEndsOthers(res *fw.Result, seed int64) error {
	e, err := scen.NewEnv(seed+777, 1)
	if err != nil {
		return err
	}
	defer e.Close()
	ctx, cancelAll := context.WithCancel(context.Background())
	defer cancelAll()
	cl, closer, err := e.Client(ctx, jsonrpc.WithNoReconnect())
	if err != nil {
		return err
	}
	defer scen.WithTimeout(3*time.Second, closer)
	sig := "server-side end of one subscription vs the contexts of the others"
	base := 780000
	type sub struct {
		tok    int
		ch     <-chan int
		cancel context.CancelFunc
		n      int32
		closed chan struct{}
	}
	open := func(tok int) (*sub, error) {
		sctx, sc := context.WithCancel(ctx)
		ch, err := cl.SubEnd(sctx, tok)
		if err != nil || ch == nil {
			sc()
			return nil, fmt.Errorf("harness error: SubEnd: %v", err)
		}
		s := &sub{tok: tok, ch: ch, cancel: sc, closed: make(chan struct{})}
		go func() {
			defer close(s.closed)
			for range ch {
				atomic.AddInt32(&s.n, 1)
			}
		}()
		return s, nil
	}
	endByServer := func(s *sub) bool {
		e.H.C.Release(s.tok)
		select {
		case <-s.closed:
			return true
		case <-time.After(3 * time.Second):
			return false
		}
	}
	c := map[string]interface{}{"scenario": "server-ends-others"}
	a, err := open(base + 1)
	if err != nil {
		return err
	}
	if !endByServer(a) {
		res.Add(fw.Finding{Kind: "monitor", Signature: sig + " a not closed", Detail: "subscription a was not closed after its handler closed its channel", Case: c})
		return nil
	}
	b, err := open(base + 2)
	if err != nil {
		return err
	}
	cc, err := open(base + 3)
	if err != nil {
		return err
	}
	if !endByServer(cc) {
		res.Add(fw.Finding{Kind: "monitor", Signature: sig + " c not closed", Detail: "subscription c was not closed after its handler closed its channel", Case: c})
	}
	time.Sleep(20 * time.Millisecond)
	if cancelled, known := e.H.C.CtxErr(b.tok); known && cancelled {
		res.Add(fw.Finding{Kind: "monitor", Signature: sig + " spurious cancellation", Detail: "the handler context of the open subscription b was cancelled when other subscriptions were ended by the server, although b's caller did not cancel and the connection is healthy", Case: c})
	}
	n0 := atomic.LoadInt32(&b.n)
	time.Sleep(10 * time.Millisecond)
	if atomic.LoadInt32(&b.n) == n0 {
		select {
		case <-b.closed:
			res.Add(fw.Finding{Kind: "monitor", Signature: sig + " b closed", Detail: "the open subscription b was closed although neither its handler nor its caller ended it", Case: c})
		default:
			res.Add(fw.Finding{Kind: "monitor", Signature: sig + " b stalled", Detail: "the open subscription b stopped delivering values", Case: c})
		}
	}
	// cancelling b still reaches b's handler
	b.cancel()
	ok := false
	for w := 0; w < 2000; w++ {
		if cancelled, known := e.H.C.CtxErr(b.tok); known && cancelled {
			ok = true
			break
		}
		time.Sleep(time.Millisecond)
	}
	if !ok {
		res.Add(fw.Finding{Kind: "monitor", Signature: sig + " cancellation not delivered", Detail: "cancelling the open subscription b did not reach its handler after other subscriptions had been ended by the server", Case: c})
	}
	res.Count("server-ends-others")
	res.Eval(true, []interface{}{"server-ends-others"})
	return nil
}

// rawIDCancel: a peer that is not this library's client — request ids of every valid JSON type (string,
// integer, fraction, large number) on one connection; `xrpc.cancel [id]` must cancel exactly the
// handler of the request that carried that id, whatever its type.
func rawIDCancel(res *fw.Result, seed int64) error {
	e, err := scen.NewEnv(seed+4242, 1)
	if err != nil {
		return err
	}
	defer e.Close()
	conn, _, err := websocket.DefaultDialer.Dial("ws"+strings.TrimPrefix(e.HTTPURL(), "http"), nil)
	if err != nil {
		return err
	}
	defer conn.Close()
	go func() {
		for {
			if _, _, err := conn.ReadMessage(); err != nil {
				return
			}
		}
	}()
	ids := []string{`"req-a"`, `7`, `7.5`, `1e30`, `""`, `"7"`}
	base := 760000
	for i, id := range ids {
		conn.WriteMessage(websocket.TextMessage, []byte(fmt.Sprintf(`{"jsonrpc":"2.0","id":%s,"method":"SH.Block","params":[%d]}`, id, base+i)))
	}
	deadline := time.Now().Add(3 * time.Second)
	for time.Now().Before(deadline) {
		all := true
		for i := range ids {
			if e.H.C.Entered(base+i) == 0 {
				all = false
			}
		}
		if all {
			break
		}
		time.Sleep(time.Millisecond)
	}
	order := []int{0, 5, 2, 3, 4, 1}
	cancelled := map[int]bool{}
	for _, k := range order {
		conn.WriteMessage(websocket.TextMessage, []byte(fmt.Sprintf(`{"jsonrpc":"2.0","method":"xrpc.cancel","params":[%s]}`, ids[k])))
		cancelled[k] = true
		ok := false
		for w := 0; w < 1500; w++ {
			if c, known := e.H.C.CtxErr(base + k); known && c {
				ok = true
				break
			}
			time.Sleep(time.Millisecond)
		}
		sig := "raw cancel id=" + ids[k]
		if !ok {
			res.Add(fw.Finding{Kind: "monitor", Signature: sig + " not delivered", Detail: fmt.Sprintf("xrpc.cancel [%s] did not cancel the handler of the request that carried id %s", ids[k], ids[k]),
				Case: map[string]interface{}{"scenario": "raw-id-cancel", "id": ids[k]}})
		}
		for j := range ids {
			if cancelled[j] {
				continue
			}
			if c, known := e.H.C.CtxErr(base + j); known && c {
				res.Add(fw.Finding{Kind: "monitor", Signature: sig + " spurious", Detail: fmt.Sprintf("xrpc.cancel [%s] cancelled the handler of the request with id %s", ids[k], ids[j]),
					Case: map[string]interface{}{"scenario": "raw-id-cancel", "id": ids[k], "victim": ids[j]}})
			}
		}
		res.Count("rawcancel")
		res.Eval(true, []interface{}{"raw-id-cancel", ids[k]})
	}
	for i := range ids {
		e.H.C.Release(base + i)
	}
	return nil
}

// httpCancel: over HTTP the abort of the request cancels the handler's context, and only that one's.
func httpCancel(res *fw.Result) error {
	rt := hk.New(1)
	hk.Install(rt)
	defer hk.Uninstall()
	h := scen.NewSH(rt)
	srv := jsonrpc.NewServer()
	srv.Register("SH", h)
	ts := httptest.NewServer(srv)
	defer ts.Close()
	var cl scen.CL
	// (a short WebSocket-style timeout is configured: over HTTP it has no business ending a call)
	closer, err := jsonrpc.NewMergeClient(context.Background(), ts.URL, "SH", []interface{}{&cl}, nil, jsonrpc.WithTimeout(300*time.Millisecond))
	if err != nil {
		return err
	}
	defer closer()
	c1, cancel1 := context.WithCancel(context.Background())
	c2, cancel2 := context.WithCancel(context.Background())
	defer cancel2()
	go cl.Block(c1, 910001)
	go cl.Block(c2, 910002)
	for w := 0; w < 2000 && (h.C.Entered(910001) == 0 || h.C.Entered(910002) == 0); w++ {
		time.Sleep(time.Millisecond)
	}
	cancel1()
	ok := false
	for w := 0; w < 2000; w++ {
		if c, known := h.C.CtxErr(910001); known && c {
			ok = true
			break
		}
		time.Sleep(time.Millisecond)
	}
	if !ok {
		res.Add(fw.Finding{Kind: "monitor", Signature: "http cancellation not delivered", Detail: "aborting an HTTP call did not cancel its handler's context"})
	}
	if c, _ := h.C.CtxErr(910002); c {
		res.Add(fw.Finding{Kind: "monitor", Signature: "http spurious cancellation", Detail: "aborting one HTTP call cancelled another call's handler context"})
	}
	// the uncancelled call goes on for several times the configured timeout
	time.Sleep(900 * time.Millisecond)
	if c, _ := h.C.CtxErr(910002); c {
		res.Add(fw.Finding{Kind: "monitor", Signature: "http call ended by the library", Detail: "an HTTP call in flight for 1s (client option WithTimeout(300ms)) had its handler's context cancelled although its caller did not cancel",
			Case: map[string]interface{}{"scenario": "http-long-call", "timeout": "300ms"}})
	}
	h.C.Release(910002)
	res.Count("http")
	res.Eval(true, []interface{}{"c06", "http"})
	return nil
}

// ---------- C15 ----------

var labelRe = regexp.MustCompile(`(?m)^# labels: \{.*"jrpc-mode":"wsserver".*\}`)

// serverGoroutines counts goroutines carrying the pprof labels of a server-side connection, and
// returns a digest of their stacks.
func serverGoroutines() (int, string) {
	var buf bytes.Buffer
	pprof.Lookup("goroutine").WriteTo(&buf, 1)
	blocks := strings.Split(buf.String(), "\n\n")
	n := 0
	var digest []string
	for _, b := range blocks {
		if !labelRe.MatchString(b) {
			continue
		}
		cnt := 1
		fmt.Sscanf(b, "%d @", &cnt)
		n += cnt
		// the innermost library frame
		for _, line := range strings.Split(b, "\n") {
			if strings.Contains(line, "go-jsonrpc.") {
				digest = append(digest, strings.TrimSpace(strings.TrimPrefix(line, "#")))
				break
			}
		}
	}
	sort.Strings(digest)
	return n, strings.Join(digest, " | ")
}

// ConnectionEnd: C15 scenarios.
func ConnectionEnd(d *fw.Driver, res *fw.Result, seed int64, thorough bool) error {
	r := fw.Rng(seed, "c15")
	causes := []string{"graceful-close", "fin", "rst", "server-ctx-cancel"}
	reps := 2
	if thorough {
		reps = 12
	}
	base := 800000
	for rep := 0; rep < reps; rep++ {
		for _, cause := range causes {
			for _, reaction := range []time.Duration{0, 15 * time.Millisecond} {
				base += 50
				if err := endOne(d, res, r.Int63(), cause, reaction, base, ""); err != nil {
					return err
				}
			}
		}
	}
	// the hand-off schedule: the reader holds a message for the main loop when the server cancels the connection
	base += 50
	if err := endOne(d, res, seed, "server-ctx-cancel", 0, base, "reader.msg"); err != nil {
		return err
	}
	// a foreign peer: it stops reading while a big response is being written to it, then half-closes;
	// and it is midway through sending a message when the server shuts the connection down
	base += 50
	if err := rawEnd(res, seed, "stalled-writer-fin", base); err != nil {
		return err
	}
	base += 50
	if err := rawEnd(res, seed, "partial-frame-server-cancel", base); err != nil {
		return err
	}
	base += 50
	if err := rawEnd(res, seed, "stalled-writer-server-cancel", base); err != nil {
		return err
	}
	// the same with one keepalive ping from the peer while the writer is stalled
	base += 50
	if err := rawEnd(res, seed, "stalled-writer-ping-closeframe", base); err != nil {
		return err
	}
	base += 50
	if err := rawEnd(res, seed, "stalled-writer-ping-server-cancel", base); err != nil {
		return err
	}
	base += 50
	if err := rawEnd(res, seed, "reverse-call-write-fails-rst", base); err != nil {
		return err
	}
	// the connection loop itself is inside the write of a reverse request (to a peer that is alive but not reading)
	// when the server shuts the connection down
	base += 50
	if err := rawEnd(res, seed, "reverse-call-write-server-cancel", base); err != nil {
		return err
	}
	// a peer that sends an empty and a blank text message (its idea of a keepalive) and later closes: the end of the
	// connection must still be noticed (the reader keeps reading after a message it has nothing to do with)
	base += 50
	return rawEnd(res, seed, "empty-messages-then-fin", base)
}

// rawEnd: connection ends seen from a peer that is not this library's client.
func rawEnd(res *fw.Result, seed int64, mode string, base int) error {
	e, err := scen.NewEnv(seed+int64(base), 1, jsonrpc.WithServerPingInterval(10*time.Millisecond), jsonrpc.WithReverseClient[scen.Rev]("rev"))
	if err != nil {
		return err
	}
	defer e.Close()
	h := e.H
	before, _ := serverGoroutines()
	sig := "connection-end raw-peer " + mode
	dialer := websocket.Dialer{ReadBufferSize: 1024}
	conn, _, err := dialer.Dial("ws"+strings.TrimPrefix(e.HTTPURL(), "http"), nil)
	if err != nil {
		return err
	}
	defer conn.Close()
	tc, _ := conn.UnderlyingConn().(*net.TCPConn)
	if tc != nil {
		tc.SetReadBuffer(4096)
	}
	toks := []int{base + 1}
	conn.WriteMessage(websocket.TextMessage, []byte(fmt.Sprintf(`{"jsonrpc":"2.0","id":1,"method":"SH.Block","params":[%d]}`, base+1)))
	for w := 0; w < 3000 && h.C.Entered(base+1) == 0; w++ {
		time.Sleep(time.Millisecond)
	}
	switch mode {
	case "reverse-call-write-fails-rst", "reverse-call-write-server-cancel":
		// a handler makes a reverse call whose request is far larger than the socket buffers, to a peer that
		// never reads: the main loop is stuck writing it; then the peer resets the connection, the write fails
		conn.WriteMessage(websocket.TextMessage, []byte(fmt.Sprintf(`{"jsonrpc":"2.0","id":2,"method":"SH.CallBackBig","params":[%d,%d]}`, base+2, 48<<20)))
		toks = append(toks, base+2)
		for w := 0; w < 3000 && h.C.Entered(base+2) == 0; w++ {
			time.Sleep(time.Millisecond)
		}
		stalledSince := time.Time{}
		for w := 0; w < 5000; w++ {
			if e.RT.Count("w.begin") > e.RT.Count("w.end") {
				if stalledSince.IsZero() {
					stalledSince = time.Now()
				} else if time.Since(stalledSince) > 80*time.Millisecond {
					break
				}
			} else {
				stalledSince = time.Time{}
			}
			time.Sleep(time.Millisecond)
		}
		if mode == "reverse-call-write-server-cancel" {
			e.SrvCancel()
		} else {
			if tc != nil {
				tc.SetLinger(0)
			}
			conn.Close()
		}
	case "stalled-writer-fin", "stalled-writer-server-cancel", "stalled-writer-ping-closeframe", "stalled-writer-ping-server-cancel":
		// a response far larger than the socket buffers, to a peer that never reads: the writer holds the
		// write lock, the pinger queues behind it
		conn.WriteMessage(websocket.TextMessage, []byte(fmt.Sprintf(`{"jsonrpc":"2.0","id":2,"method":"SH.Echo","params":[%d,%d]}`, base+2, 48<<20)))
		for w := 0; w < 3000 && h.C.Entered(base+2) == 0; w++ {
			time.Sleep(time.Millisecond)
		}
		// wait until a writer has held the write lock for 80 ms without finishing (the response is stuck in the
		// socket), so that several ping intervals pass in that state
		stalledSince := time.Time{}
		for w := 0; w < 5000; w++ {
			if e.RT.Count("w.begin") > e.RT.Count("w.end") {
				if stalledSince.IsZero() {
					stalledSince = time.Now()
				} else if time.Since(stalledSince) > 80*time.Millisecond {
					break
				}
			} else {
				stalledSince = time.Time{}
			}
			time.Sleep(time.Millisecond)
		}
		if stalledSince.IsZero() || time.Since(stalledSince) < 80*time.Millisecond {
			res.Note("raw-end stalled-writer: the response writer did not stall (socket buffers took the whole response); scenario not exercised")
		}
		if strings.HasPrefix(mode, "stalled-writer-ping-") {
			// the peer's keepalive goes on independently of its reader: one ping arrives while the response
			// writer holds the write lock
			conn.WriteControl(websocket.PingMessage, []byte("k"), time.Now().Add(time.Second))
			time.Sleep(150 * time.Millisecond)
		}
		switch mode {
		case "stalled-writer-server-cancel", "stalled-writer-ping-server-cancel":
			e.SrvCancel()
		case "stalled-writer-ping-closeframe":
			// a close frame; closing TCP is left to the server, as RFC 6455 asks of clients
			conn.WriteControl(websocket.CloseMessage, websocket.FormatCloseMessage(websocket.CloseNormalClosure, ""), time.Now().Add(time.Second))
		default:
			if tc != nil {
				tc.CloseWrite()
			}
		}
	case "empty-messages-then-fin":
		conn.WriteMessage(websocket.TextMessage, []byte(""))
		conn.WriteMessage(websocket.TextMessage, []byte("\n"))
		time.Sleep(100 * time.Millisecond)
		if tc != nil {
			tc.CloseWrite()
		} else {
			conn.Close()
		}
	case "partial-frame-server-cancel":
		w, werr := conn.NextWriter(websocket.TextMessage)
		if werr == nil {
			w.Write([]byte(`{"jsonrpc":"2.0","id":3,"method":"SH.Echo","params":[1,"` + strings.Repeat("x", 64<<10)))
			// no Close: the message stays unfinished; the first fragment is on the wire
			if f, ok := w.(interface{ Flush() error }); ok {
				f.Flush()
			}
		}
		time.Sleep(20 * time.Millisecond)
		e.SrvCancel()
	}
	// (1) the handler still running for the connection sees its context cancelled
	ok := false
	for w := 0; w < 5000; w++ {
		if c, known := h.C.CtxErr(base + 1); known && c {
			ok = true
			break
		}
		time.Sleep(time.Millisecond)
	}
	if !ok {
		res.Add(fw.Finding{Kind: "monitor", Signature: sig + " handler context not cancelled", Detail: fmt.Sprintf("the connection ended (%s) but the context of the handler still running for it stayed live for 5s", mode),
			Case: map[string]interface{}{"scenario": "raw-end", "mode": mode}})
	}
	for _, t := range toks {
		h.C.Release(t)
	}
	for w := 0; w < 3000 && !h.C.Exited(base+1); w++ {
		time.Sleep(time.Millisecond)
	}
	if strings.HasPrefix(mode, "reverse-call-write-") {
		// the handler inside the reverse call must come back (the call fails), not stay blocked
		ok2 := false
		for w := 0; w < 5000; w++ {
			if h.C.Exited(base + 2) {
				ok2 = true
				break
			}
			time.Sleep(time.Millisecond)
		}
		if !ok2 {
			res.Add(fw.Finding{Kind: "monitor", Signature: sig + " reverse call never returns", Detail: "a handler inside a reverse call whose request could not be written was still blocked 5s after the connection was reset",
				Case: map[string]interface{}{"scenario": "raw-end", "mode": mode}})
		}
	}
	// (2) nothing is retained once the handlers have returned — without any further help from the peer:
	// the server closes the socket itself, which is what fails a write that is still stuck
	left, digest := 0, ""
	for w := 0; w < 600; w++ {
		left, digest = serverGoroutines()
		if left <= before {
			break
		}
		time.Sleep(5 * time.Millisecond)
	}
	if left > before {
		res.Add(fw.Finding{Kind: "monitor", Signature: sig + " goroutines retained: " + firstFrame(digest),
			Detail: fmt.Sprintf("%d goroutine(s) labelled for the dead server connection are still alive 3s after its handlers returned: %s", left-before, digest),
			Case:   map[string]interface{}{"scenario": "raw-end", "mode": mode}})
	}
	conn.Close()
	res.Count("rawend." + mode)
	res.Eval(true, []interface{}{"c15", "raw-end", mode})
	return nil
}

func endOne(d *fw.Driver, res *fw.Result, seed int64, cause string, reaction time.Duration, base int, gateSite string) error {
	e, err := scen.NewEnv(seed, 1, jsonrpc.WithReverseClient[scen.Rev]("rev"), jsonrpc.WithServerPingInterval(5*time.Millisecond))
	if err != nil {
		return err
	}
	t0 := time.Now()
	lap := func(w string) {
		if os.Getenv("VERIF_DEBUG") != "" {
			fmt.Fprintf(os.Stderr, "  %s %s %v\n", cause, w, time.Since(t0))
		}
	}
	defer func() { e.Close(); lap("env-closed") }()
	rt, h := e.RT, e.H
	before, _ := serverGoroutines()
	ctx, cancelAll := context.WithCancel(context.Background())
	defer cancelAll()
	cl, closer, err := e.Client(ctx, jsonrpc.WithNoReconnect(), jsonrpc.WithClientHandler("rev", &scen.RevH{ID: 3}), jsonrpc.WithPingInterval(5*time.Millisecond))
	if err != nil {
		return err
	}
	sig := fmt.Sprintf("connection-end cause=%s reaction=%v gate=%s", cause, reaction, gateSite)
	h.C.Reaction = reaction
	// handlers in progress: unary with id (large and small responses), a notification, a stream, a reverse call
	toks := []int{base + 1, base + 2, base + 3, base + 4, base + 5, base + 6}
	go func() {
		// a stream whose producer stops on cancellation without closing its channel
		ch, err := cl.SubLeaky(ctx, base+6)
		if err == nil && ch != nil {
			for range ch {
			}
		}
	}()
	go cl.Block(ctx, base+1)
	go cl.BlockBig(ctx, base+2, 300000)
	go func() {
		ch, err := cl.Sub(ctx, base+3, -1)
		if err == nil && ch != nil {
			for range ch {
			}
		}
	}()
	cl.NoteBlock(base + 4)
	go cl.CallBackBlock(ctx, base+5)
	for w := 0; w < 3000; w++ {
		all := true
		for _, t := range toks {
			if h.C.Entered(t) == 0 {
				all = false
			}
		}
		if all {
			break
		}
		time.Sleep(time.Millisecond)
	}
	var g *hk.Gate
	if gateSite != "" {
		// the server's reader (not the client's): park the next hand-off on the server connection
		g = rt.GateConn(gateSite, 1, func(evs []hk.Event) int {
			c := ServerConns(evs)
			if len(c) > 0 {
				return c[0]
			}
			return 0
		})
		go cl.Count(ctx, base+9) // a message for the reader to hand over
		g.WaitReached(2 * time.Second)
	}
	switch cause {
	case "graceful-close":
		scen.WithTimeout(3*time.Second, closer)
	case "fin", "rst":
		e.PX.Cut(0, cause)
	case "server-ctx-cancel":
		e.SrvCancel()
	}
	if g != nil {
		rt.WaitCount("main.exited", 1, 2*time.Second)
		g.Release()
	}
	lap("ended")
	// (1) every handler's context is cancelled
	for _, t := range toks {
		ok := false
		for w := 0; w < 3000; w++ {
			if c, known := h.C.CtxErr(t); known && c {
				ok = true
				break
			}
			time.Sleep(time.Millisecond)
		}
		if !ok {
			res.Add(fw.Finding{Kind: "monitor", Signature: sig + " handler context not cancelled", Detail: fmt.Sprintf("the connection ended (%s) but the context of handler %d stayed live", cause, t)})
		}
	}
	lap("ctx-checked")
	// the handlers react (after `reaction`) and return
	for _, t := range toks {
		h.C.Release(t)
	}
	for w := 0; w < 3000; w++ {
		all := true
		for _, t := range toks {
			if !h.C.Exited(t) {
				all = false
			}
		}
		if all {
			break
		}
		time.Sleep(time.Millisecond)
	}
	if cause != "graceful-close" {
		scen.WithTimeout(3*time.Second, closer)
	}
	lap("handlers-exited")
	// (2) no library goroutine is retained for the dead connection
	left, digest := 0, ""
	for w := 0; w < 400; w++ {
		left, digest = serverGoroutines()
		if left <= before {
			break
		}
		time.Sleep(5 * time.Millisecond)
	}
	if left > before {
		res.Add(fw.Finding{Kind: "monitor", Signature: sig + " goroutines retained: " + firstFrame(digest),
			Detail: fmt.Sprintf("%d goroutine(s) labelled for the dead server connection are still alive 2s after its handlers returned: %s", left-before, digest)})
	}
	lap("goroutines-checked")
	rt.ReleaseAll()
	if err := Check(d, res, e, toks, sig); err != nil {
		return err
	}
	res.Count("cause." + cause)
	res.Eval(true, []interface{}{"c15", cause, reaction.String(), gateSite})
	if reaction == 0 {
		res.Sample(map[string]interface{}{"cause": cause, "handlers": "Block, BlockBig(300kB), Sub(stream), NoteBlock(notification), CallBackBlock(reverse)", "goroutines_left": left - before})
	}
	return nil
}

func firstFrame(d string) string {
	if i := strings.Index(d, " | "); i >= 0 {
		d = d[:i]
	}
	if i := strings.Index(d, "+0x"); i >= 0 {
		d = d[:i]
	}
	f := strings.Fields(d)
	if len(f) > 0 {
		return f[len(f)-1]
	}
	return d
}

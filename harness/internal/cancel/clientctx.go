package cancel

// ClientContext: the context given to NewClient is cancelled while a call made with it (or with a context
// derived from it) is in flight.  That is a cancellation of the call's context like any other: the server
// handler's context must end — there is no later moment at which it could, the client is gone.

import (
	"context"
	"fmt"
	"time"

	jsonrpc "github.com/filecoin-project/go-jsonrpc"

	"verif/harness/internal/fw"
	"verif/harness/internal/scen"
)

func ClientContext(res *fw.Result, seed int64) error {
	for i, derive := range []bool{false, true} {
		e, err := scen.NewEnv(seed+int64(i)+31, 0)
		if err != nil {
			return err
		}
		appCtx, cancelApp := context.WithCancel(context.Background())
		cl, closer, err := e.Client(appCtx, jsonrpc.WithReconnectBackoff(20*time.Millisecond, 50*time.Millisecond))
		if err != nil {
			cancelApp()
			e.Close()
			return err
		}
		tok := 990000 + i
		callCtx := context.Context(appCtx)
		var cc context.CancelFunc = func() {}
		if derive {
			callCtx, cc = context.WithTimeout(appCtx, time.Minute)
		}
		done := make(chan struct{})
		go func() { defer close(done); cl.Block(callCtx, tok) }()
		for w := 0; w < 3000 && e.H.C.Entered(tok) == 0; w++ {
			time.Sleep(time.Millisecond)
		}
		sig := fmt.Sprintf("client context cancelled with a call in flight derived=%v", derive)
		c := map[string]interface{}{"scenario": "client-context-cancel", "derived": derive}
		cancelApp()
		ok := false
		for w := 0; w < 2500 && !ok; w++ {
			if cn, known := e.H.C.CtxErr(tok); known && cn {
				ok = true
				break
			}
			time.Sleep(time.Millisecond)
		}
		if !ok {
			res.Add(fw.Finding{Kind: "monitor", Signature: sig + " cancellation not delivered", Detail: "2.5s after the context of an in-flight call was cancelled (it is the context the client was created with) the server handler's context is still live; the connection is still up", Case: c})
		}
		select {
		case <-done:
		case <-time.After(3 * time.Second):
			res.Add(fw.Finding{Kind: "monitor", Signature: sig + " caller blocked", Detail: "the caller did not return within 3s of its context's cancellation", Case: c})
		}
		cc()
		e.H.C.Release(tok)
		scen.WithTimeout(3*time.Second, closer)
		res.Count("client-context-cancel")
		res.Eval(true, []interface{}{"client-context-cancel", derive})
		e.Close()
	}
	return nil
}

// SubCancelAfterReconnect: a subscription opened on a re-established connection is cancelled after its call
// returned: the cancellation must reach its handler exactly as on a first connection.
func SubCancelAfterReconnect(res *fw.Result, seed int64) error {
	e, err := scen.NewEnv(seed+47, 0)
	if err != nil {
		return err
	}
	defer e.Close()
	ctx, cancel := context.WithCancel(context.Background())
	defer cancel()
	cl, closer, err := e.Client(ctx, jsonrpc.WithReconnectBackoff(10*time.Millisecond, 20*time.Millisecond))
	if err != nil {
		return err
	}
	defer scen.WithTimeout(3*time.Second, closer)
	sig := "subscription cancelled after a reconnect"
	for reconnects := 0; reconnects <= 2; reconnects++ {
		if reconnects > 0 {
			n0 := e.PX.Accepted()
			e.PX.Cut(0, "rst")
			healed := false
			for w := 0; w < 600 && !healed; w++ {
				if e.PX.Accepted() > n0 {
					cctx, cc := context.WithTimeout(ctx, 300*time.Millisecond)
					_, err := cl.Count(cctx, 995000+reconnects)
					cc()
					healed = err == nil
				}
				time.Sleep(5 * time.Millisecond)
			}
			if !healed {
				res.Add(fw.Finding{Kind: "monitor", Signature: sig + " no heal", Detail: "the client did not heal"})
				return nil
			}
		}
		tok := 996000 + reconnects
		sctx, scancel := context.WithCancel(ctx)
		ch, err := cl.Sub(sctx, tok, -1)
		if err != nil {
			scancel()
			res.Add(fw.Finding{Kind: "monitor", Signature: sig + " subscribe fails", Detail: fmt.Sprint(err)})
			return nil
		}
		for k := 0; k < 3; k++ {
			select {
			case <-ch:
			case <-time.After(2 * time.Second):
			}
		}
		scancel()
		ok := false
		for w := 0; w < 2500 && !ok; w++ {
			if c, known := e.H.C.CtxErr(tok); known && c {
				ok = true
			}
			time.Sleep(time.Millisecond)
		}
		res.Count("sub-cancel-after-reconnect")
		res.Eval(true, []interface{}{"sub-cancel-after-reconnect", reconnects})
		if !ok {
			res.Add(fw.Finding{Kind: "monitor", Signature: sig + " cancellation not delivered", Detail: fmt.Sprintf("after %d reconnect(s): 2.5s after the subscription's context was cancelled its handler's context is still live", reconnects),
				Case: map[string]interface{}{"scenario": "sub-cancel-after-reconnect", "reconnects": reconnects}})
		}
		go func() {
			for range ch {
			}
		}()
	}
	return nil
}

// Package hk is the hook runtime: it receives the vhook calls of the library (built with -tags verif),
// appends them to one totally ordered trace, and — outside the trace mutex — applies the seed-driven
// delay policy and the gates that hold a goroutine at a chosen occurrence of a site.  Hooks only ever
// slow goroutines down, so every interleaving they produce is one the unhooked program can produce.
package hk

import (
	"encoding/json"
	"fmt"
	"hash/fnv"
	"reflect"
	"runtime"
	"sync"
	"sync/atomic"
	"time"

	jsonrpc "github.com/filecoin-project/go-jsonrpc"
)

type Event struct {
	Seq  int                    `json:"seq"`
	Site string                 `json:"site"`
	Conn int                    `json:"conn"`
	T    int64                  `json:"t"` // microseconds since the runtime was created
	KV   map[string]interface{} `json:"kv,omitempty"`
}

type Gate struct {
	site    string
	nth     int
	conn    int // 0 = any
	connNth int // with conn != 0: the nth call of site on that connection after the gate was set
	connCnt int
	reached chan struct{}
	release chan struct{}
	once    sync.Once
	ronce   sync.Once
}

// Reached is closed when a goroutine is parked at the gate.
func (g *Gate) Reached() <-chan struct{} { return g.reached }

func (g *Gate) WaitReached(d time.Duration) bool {
	select {
	case <-g.reached:
		return true
	case <-time.After(d):
		return false
	}
}

func (g *Gate) Release() { g.ronce.Do(func() { close(g.release) }) }

type Runtime struct {
	mu sync.Mutex
	// the trace is kept in fixed-size chunks: appending never copies what is already there.  (One growing
	// slice is copied and re-allocated under mu every time it fills up; at several hundred thousand events
	// that holds every hooked goroutine of the process for as long as the copy and the allocator's GC assist
	// take — under load longer than the timeouts the keepalive scenarios configure.)
	chunks     [][]Event
	nEvents    int
	connIDs    map[uintptr]int
	ptrIDs     map[uintptr]int
	implicit   map[uintptr]bool // ids handed out on first sight, not yet claimed by a creation site
	nextPtr    int
	nextConn   int
	srvPending map[uintptr]bool
	counts     map[string]int
	gates      []*Gate
	seed       uint64
	start      time.Time
	// DelayMode: 0 none, 1 yields, 2 yields and micro-sleeps
	DelayMode int32
	// NoTrace: do not take the trace mutex at all (race-detector runs: the mutex would add
	// happens-before edges and hide races)
	NoTrace   bool
	gateSites sync.Map
}

var current atomic.Pointer[Runtime]

func New(seed int64) *Runtime {
	return &Runtime{connIDs: map[uintptr]int{}, ptrIDs: map[uintptr]int{}, srvPending: map[uintptr]bool{}, counts: map[string]int{}, seed: uint64(seed), start: time.Now()}
}

// Install makes rt the receiver of every hook call.  VerifHook itself is set once.
func Install(rt *Runtime) {
	current.Store(rt)
	if jsonrpc.VerifHook == nil {
		jsonrpc.VerifHook = func(site string, conn interface{}, kv ...interface{}) {
			if r := current.Load(); r != nil {
				r.hook(site, conn, kv...)
			}
		}
	}
}

func Uninstall() { current.Store(nil) }

func ptrOf(v interface{}) (uintptr, bool) {
	if v == nil {
		return 0, false
	}
	rv := reflect.ValueOf(v)
	switch rv.Kind() {
	case reflect.Chan, reflect.Ptr, reflect.UnsafePointer, reflect.Func, reflect.Map:
		return rv.Pointer(), true
	case reflect.Uintptr:
		return uintptr(rv.Uint()), true
	}
	return 0, false
}

// CanonID renders a JSON-RPC id the way the model keys it.
func CanonID(v interface{}) interface{} {
	switch x := v.(type) {
	case nil:
		return map[string]interface{}{"t": "null", "v": ""}
	case float64:
		b, _ := json.Marshal(x)
		return map[string]interface{}{"t": "num", "v": string(b)}
	case int64:
		return map[string]interface{}{"t": "num", "v": fmt.Sprint(x)}
	case string:
		return map[string]interface{}{"t": "str", "v": x}
	}
	return map[string]interface{}{"t": "invalid", "v": fmt.Sprint(v)}
}

// creation sites: the object named by this key at this site has just been created.  Its address may be the
// address of an object that was freed earlier in the run (the allocator reuses memory), so it gets a fresh
// canonical id instead of inheriting the old object's.
var createdAt = map[string]string{
	"call.enq":       "a",  // the attempt's ready channel
	"call.cancelenq": "ca", // the cancel request's ready channel
	"sink.new":       "s",  // the caller's channel of a subscription
	"h.subch":        "hp", // the handler's channel of a subscription (harness log)
}

func (r *Runtime) canonAt(site, key string, v interface{}) interface{} {
	if createdAt[site] == key {
		if p, ok := ptrOf(v); ok {
			// A creation hook may run after the object has already been seen elsewhere (`call.cancelenq` is
			// logged after the request was handed to the connection loop, which may have taken and written it
			// by then): an id handed out on first sight, and not yet claimed by a creation site, is this object's.
			if id, seen := r.ptrIDs[p]; seen && r.implicit[p] {
				delete(r.implicit, p)
				return id
			}
			r.nextPtr++
			r.ptrIDs[p] = r.nextPtr
			delete(r.implicit, p)
			return r.nextPtr
		}
	}
	return r.canon(key, v)
}

func (r *Runtime) canon(key string, v interface{}) interface{} {
	if key == "id" {
		return CanonID(v)
	}
	if p, ok := ptrOf(v); ok {
		id, seen := r.ptrIDs[p]
		if !seen {
			r.nextPtr++
			id = r.nextPtr
			r.ptrIDs[p] = id
			if r.implicit == nil {
				r.implicit = map[uintptr]bool{}
			}
			r.implicit[p] = true
		}
		return id
	}
	switch x := v.(type) {
	case bool, string, int, int64, float64:
		return x
	case uint64:
		return int(x)
	}
	return fmt.Sprint(v)
}

const chunkSize = 4096

func (r *Runtime) appendLocked(ev Event) {
	if k := len(r.chunks); k == 0 || len(r.chunks[k-1]) == chunkSize {
		r.chunks = append(r.chunks, make([]Event, 0, chunkSize))
	}
	k := len(r.chunks) - 1
	r.chunks[k] = append(r.chunks[k], ev)
	r.nEvents++
}

// maxStall is the longest time any hooked goroutine has spent inside the hook runtime itself (waiting for
// the trace mutex and recording the event; gates and the seed-driven delays are not counted) since the last
// ResetMaxStall.  Hooks may slow goroutines down, but a scenario whose verdict depends on the library
// reacting within a fraction of a timeout is conclusive only if the harness did not hold the library's
// goroutines for that long itself (see scen.LagProbe).
var maxStall atomic.Int64

func ResetMaxStall()          { maxStall.Store(0) }
func MaxStall() time.Duration { return time.Duration(maxStall.Load()) }

func noteStall(t0 time.Time) {
	d := int64(time.Since(t0))
	for {
		cur := maxStall.Load()
		if d <= cur || maxStall.CompareAndSwap(cur, d) {
			return
		}
	}
}

func (r *Runtime) hook(site string, conn interface{}, kv ...interface{}) {
	var n int
	var gate *Gate
	t0 := time.Now()
	if r.NoTrace {
		// only sites that carry a gate are counted (under the mutex): everything else stays free of
		// synchronisation so that the race detector sees the program's own ordering only
		if _, gated := r.gateSites.Load(site); gated {
			r.mu.Lock()
			r.counts[site]++
			n = r.counts[site]
			for _, g := range r.gates {
				if g.site == site && g.nth == n {
					gate = g
				}
			}
			r.mu.Unlock()
		}
	}
	if !r.NoTrace {
		r.mu.Lock()
		cid := 0
		if p, ok := ptrOf(conn); ok {
			id, seen := r.connIDs[p]
			// a connection object is new at srv.conn (server role) or, for a client, at main.start when no
			// srv.conn preceded it on this object: do not inherit the id of a freed connection at the same address
			fresh := site == "srv.conn" || (site == "main.start" && !r.srvPending[p])
			if site == "srv.conn" {
				r.srvPending[p] = true
			} else if site == "main.start" {
				delete(r.srvPending, p)
			}
			if !seen || fresh {
				r.nextConn++
				id = r.nextConn
				r.connIDs[p] = id
			}
			cid = id
		}
		ev := Event{Seq: r.nEvents, Site: site, Conn: cid, T: time.Since(r.start).Microseconds()}
		if len(kv) > 0 {
			ev.KV = map[string]interface{}{}
			for i := 0; i+1 < len(kv); i += 2 {
				k := fmt.Sprint(kv[i])
				ev.KV[k] = r.canonAt(site, k, kv[i+1])
			}
		}
		r.appendLocked(ev)
		r.counts[site]++
		n = r.counts[site]
		for _, g := range r.gates {
			if g.site != site {
				continue
			}
			if g.conn == 0 {
				if g.nth == n {
					gate = g
				}
			} else if g.conn == cid {
				g.connCnt++
				if g.connCnt == g.connNth {
					gate = g
				}
			}
		}
		r.mu.Unlock()
	}
	noteStall(t0)
	if gate != nil {
		gate.once.Do(func() { close(gate.reached) })
		<-gate.release
		return
	}
	switch atomic.LoadInt32(&r.DelayMode) {
	case 0:
	default:
		h := fnv.New64a()
		fmt.Fprintf(h, "%d/%s/%d", r.seed, site, n)
		x := h.Sum64()
		switch {
		case x%4 == 0:
			runtime.Gosched()
		case x%16 == 1:
			for i := 0; i < 4; i++ {
				runtime.Gosched()
			}
		case x%32 == 2 && r.DelayMode >= 2:
			time.Sleep(time.Duration(20+x%200) * time.Microsecond)
		case x%128 == 3 && r.DelayMode >= 2:
			time.Sleep(time.Duration(1+x%3) * time.Millisecond)
		}
	}
}

// Log adds a harness-side observable event to the same total order.
func (r *Runtime) Log(site string, kv ...interface{}) {
	r.mu.Lock()
	ev := Event{Seq: r.nEvents, Site: site, T: time.Since(r.start).Microseconds()}
	if len(kv) > 0 {
		ev.KV = map[string]interface{}{}
		for i := 0; i+1 < len(kv); i += 2 {
			k := fmt.Sprint(kv[i])
			ev.KV[k] = r.canonAt(site, k, kv[i+1])
		}
	}
	r.appendLocked(ev)
	r.counts[site]++
	r.mu.Unlock()
}

// Gate parks the goroutine that makes the nth call (1-based, counted over all connections) of site.
func (r *Runtime) Gate(site string, nth int) *Gate {
	g := &Gate{site: site, nth: nth, reached: make(chan struct{}), release: make(chan struct{})}
	r.gateSites.Store(site, true)
	r.mu.Lock()
	g.nth = r.counts[site] + nth // relative to now
	r.gates = append(r.gates, g)
	r.mu.Unlock()
	return g
}

// GateConn is Gate restricted to one connection, chosen from the trace so far when the gate is set.
func (r *Runtime) GateConn(site string, nth int, pick func([]Event) int) *Gate {
	conn := pick(r.Events())
	g := &Gate{site: site, nth: nth, conn: conn, reached: make(chan struct{}), release: make(chan struct{})}
	r.gateSites.Store(site, true)
	r.mu.Lock()
	g.connNth = nth
	r.gates = append(r.gates, g)
	r.mu.Unlock()
	return g
}

// ReleaseAll opens every gate (end of scenario).
func (r *Runtime) ReleaseAll() {
	r.mu.Lock()
	gs := r.gates
	r.mu.Unlock()
	for _, g := range gs {
		g.Release()
	}
}

func (r *Runtime) Events() []Event {
	r.mu.Lock()
	defer r.mu.Unlock()
	out := make([]Event, 0, r.nEvents)
	for _, c := range r.chunks {
		out = append(out, c...)
	}
	return out
}

func (r *Runtime) CountsCopy() map[string]int {
	r.mu.Lock()
	defer r.mu.Unlock()
	out := map[string]int{}
	for k, v := range r.counts {
		out[k] = v
	}
	return out
}

func (r *Runtime) Len() int {
	r.mu.Lock()
	defer r.mu.Unlock()
	return r.nEvents
}

func (r *Runtime) Count(site string) int {
	r.mu.Lock()
	defer r.mu.Unlock()
	return r.counts[site]
}

// WaitCount waits until site was hit at least n times.
func (r *Runtime) WaitCount(site string, n int, d time.Duration) bool {
	deadline := time.Now().Add(d)
	for time.Now().Before(deadline) {
		if r.Count(site) >= n {
			return true
		}
		time.Sleep(200 * time.Microsecond)
	}
	return r.Count(site) >= n
}

// Package api holds the handler types the harness registers with the real server, the invocation
// log they write, and the hand-written descriptors the model receives for them.
package api

import (
	"context"
	"encoding/json"
	"errors"
	"reflect"
	"sync"

	jsonrpc "github.com/filecoin-project/go-jsonrpc"
)

// Log records every handler invocation (the observation the "no handler was run" clauses need).
type Log struct {
	mu sync.Mutex
	E  []Entry
}

type Entry struct {
	Tag  string        `json:"tag"`
	Args []interface{} `json:"args"`
}

func (l *Log) Add(tag string, args ...interface{}) {
	l.mu.Lock()
	l.E = append(l.E, Entry{tag, args})
	l.mu.Unlock()
}

func (l *Log) Take() []Entry {
	l.mu.Lock()
	defer l.mu.Unlock()
	e := l.E
	l.E = nil
	return e
}

func (l *Log) Tags() []string {
	out := []string{}
	for _, e := range l.Take() {
		out = append(out, e.Tag)
	}
	return out
}

type Pt struct {
	X int    `json:"x"`
	Y string `json:"y"`
}

var ErrBoom = errors.New("boom")

// T is the general-purpose handler.
type T struct{ L *Log }

func (t *T) Add(a, b int) (int, error)  { t.L.Add("T.Add", a, b); return a + b, nil }
func (t *T) Echo(s string) string       { t.L.Add("T.Echo", s); return s }
func (t *T) Void()                      { t.L.Add("T.Void") }
func (t *T) One(x int)                  { t.L.Add("T.One", x) }
func (t *T) Fail(x int) error           { t.L.Add("T.Fail", x); return ErrBoom }
func (t *T) Both(x int) (int, error)    { t.L.Add("T.Both", x); return x, ErrBoom }
func (t *T) Boom(x int) (int, error)    { t.L.Add("T.Boom", x); panic("kaboom") }
func (t *T) Struct(p Pt) (Pt, error)    { t.L.Add("T.Struct", p); return p, nil }
func (t *T) Ptr(p *int) (*int, error)   { t.L.Add("T.Ptr", p); return p, nil }
func (t *T) Flag(b bool) bool           { t.L.Add("T.Flag", b); return !b }
func (t *T) List(xs []int) (int, error) { t.L.Add("T.List", xs); return len(xs), nil }
func (t *T) Ctx(ctx context.Context, x int) int {
	t.L.Add("T.Ctx", x)
	return x + 1
}
func (t *T) Raw(p jsonrpc.RawParams) (string, error) {
	t.L.Add("T.Raw", string(p))
	return "raw:" + string(p), nil
}
func (t *T) Sub(ctx context.Context, n int) (<-chan int, error) {
	t.L.Add("T.Sub", n)
	ch := make(chan int)
	go func() {
		defer close(ch)
		for i := 0; i < n; i++ {
			select {
			case ch <- i:
			case <-ctx.Done():
				return
			}
		}
	}()
	return ch, nil
}

// A and B are two namespaces with overlapping method names (C12).
type A struct{ L *Log }

func (a *A) Foo(x int) int { a.L.Add("A.Foo", x); return 100 + x }
func (a *A) Bar(x int) int { a.L.Add("A.Bar", x); return 200 + x }
func (a *A) FooBar() int   { a.L.Add("A.FooBar"); return 300 }

// BFoo makes ("A","BFoo") and ("AB","Foo") concatenate to the same string without a separator.
func (a *A) BFoo() int { a.L.Add("A.BFoo"); return 500 }

// Three has several positional params of different types: a mismatch can sit at any position.
func (a *A) Three(s string, n int, b bool) int { a.L.Add("A.Three", s, n, b); return 400 + n }

type B struct{ L *Log }

func (b *B) Foo(x int) int { b.L.Add("B.Foo", x); return 400 + x }
func (b *B) Baz(x int) int { b.L.Add("B.Baz", x); return 500 + x }
func (b *B) Bar() int      { b.L.Add("B.Bar"); return 600 }

// MethodDesc is the model's view of one Go method (hand-written, checked against the real
// registration only through behaviour).
type MethodDesc struct {
	Name   string   `json:"name"`
	Tag    string   `json:"tag"`
	PTypes []string `json:"ptypes"`
	Ctx    bool     `json:"ctx,omitempty"`
	Raw    bool     `json:"raw,omitempty"`
	Out    string   `json:"out"`
	Chan   bool     `json:"chan,omitempty"`
	Behav  string   `json:"behav,omitempty"`
}

// Go's reflect lists methods sorted by name; registration order only matters for equal keys.
var TMethods = []MethodDesc{
	{Name: "Add", Tag: "T.Add", PTypes: []string{"int", "int"}, Out: "valerr"},
	{Name: "Boom", Tag: "T.Boom", PTypes: []string{"int"}, Out: "valerr", Behav: "panics"},
	{Name: "Both", Tag: "T.Both", PTypes: []string{"int"}, Out: "valerr", Behav: "fails"},
	{Name: "Ctx", Tag: "T.Ctx", PTypes: []string{"int"}, Ctx: true, Out: "val"},
	{Name: "Echo", Tag: "T.Echo", PTypes: []string{"string"}, Out: "val"},
	{Name: "Fail", Tag: "T.Fail", PTypes: []string{"int"}, Out: "err", Behav: "fails"},
	{Name: "Flag", Tag: "T.Flag", PTypes: []string{"bool"}, Out: "val"},
	{Name: "List", Tag: "T.List", PTypes: []string{"[]int"}, Out: "valerr"},
	{Name: "One", Tag: "T.One", PTypes: []string{"int"}, Out: "none"},
	{Name: "Ptr", Tag: "T.Ptr", PTypes: []string{"*int"}, Out: "valerr"},
	{Name: "Raw", Tag: "T.Raw", PTypes: []string{"raw"}, Raw: true, Out: "valerr"},
	{Name: "Struct", Tag: "T.Struct", PTypes: []string{"Pt"}, Out: "valerr"},
	{Name: "Sub", Tag: "T.Sub", PTypes: []string{"int"}, Ctx: true, Out: "valerr", Chan: true},
	{Name: "Void", Tag: "T.Void", PTypes: []string{}, Out: "none"},
}

var AMethods = []MethodDesc{
	{Name: "Bar", Tag: "A.Bar", PTypes: []string{"int"}, Out: "val"},
	{Name: "Foo", Tag: "A.Foo", PTypes: []string{"int"}, Out: "val"},
	{Name: "FooBar", Tag: "A.FooBar", PTypes: []string{}, Out: "val"},
	{Name: "Three", Tag: "A.Three", PTypes: []string{"string", "int", "bool"}, Out: "val"},
	{Name: "BFoo", Tag: "A.BFoo", PTypes: []string{}, Out: "val"},
}

var BMethods = []MethodDesc{
	{Name: "Bar", Tag: "B.Bar", PTypes: []string{}, Out: "val"},
	{Name: "Baz", Tag: "B.Baz", PTypes: []string{"int"}, Out: "val"},
	{Name: "Foo", Tag: "B.Foo", PTypes: []string{"int"}, Out: "val"},
}

// TypeUniverse maps declared-type names to Go types, for the encoding/json oracle.
var TypeUniverse = map[string]reflect.Type{
	"int":    reflect.TypeOf(int(0)),
	"string": reflect.TypeOf(""),
	"bool":   reflect.TypeOf(false),
	"[]int":  reflect.TypeOf([]int{}),
	"*int":   reflect.TypeOf((*int)(nil)),
	"Pt":     reflect.TypeOf(Pt{}),
}

// DecodesInto is the encoding/json oracle: the names of the declared types this JSON text decodes into.
func DecodesInto(text string) []string {
	out := []string{}
	for _, name := range []string{"*int", "Pt", "[]int", "bool", "int", "string"} {
		v := reflect.New(TypeUniverse[name])
		if err := json.Unmarshal([]byte(text), v.Interface()); err == nil {
			out = append(out, name)
		}
	}
	return out
}

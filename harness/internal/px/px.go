// Package px is a frame-aware TCP proxy for WebSocket connections: it forwards bytes in both
// directions, parses the WebSocket framing as it goes (so that it can log every frame and knows where
// in which frame the stream is), and injects a fault — FIN, RST or blackhole — at a chosen position
// of a chosen data frame in a chosen direction.
package px

import (
	"bytes"
	"fmt"
	"io"
	"net"
	"net/http"
	"sync"
	"time"
)

type Frame struct {
	Conn    int       `json:"conn"`
	Dir     string    `json:"dir"` // c2s | s2c
	Opcode  int       `json:"opcode"`
	Fin     bool      `json:"fin"`
	Payload []byte    `json:"-"`
	Text    string    `json:"text"`
	Index   int       `json:"index"` // index among data frames of this direction on this connection
	At      time.Time `json:"-"`     // when the proxy had read the whole frame
}

// Fault describes where to strike.  Positions: before | header | mid | lastbyte | after.
type Fault struct {
	Conn   int    `json:"conn"` // which accepted connection (1-based); 0 = the next one that matches
	Dir    string `json:"dir"`
	Frame  int    `json:"frame"` // index of the data frame in that direction on that connection
	Pos    string `json:"pos"`
	Kind   string `json:"kind"` // fin | rst | blackhole
	fired  bool
	Struck chan struct{} `json:"-"`
}

type Proxy struct {
	ln     net.Listener
	target string

	mu         sync.Mutex
	frames     []Frame
	faults     []*Fault
	accepted   int
	Refuse     bool // refuse new connections (server unreachable)
	RefuseHTTP int  // answer the upgrade request of new connections with this HTTP status (a front end while the service restarts)
	pairs      []*pair
	closed     bool
	Accepts    []time.Time
}

type pair struct {
	id        int
	c, s      net.Conn
	blackhole bool
	dead      bool
	upgraded  bool // the server's handshake response has been forwarded to the client
	stalled   bool // kind "stall": the pumps stop reading
	stallC2S  bool // kind "stall-c2s": only the client-to-server direction is silent and unread
	mu        sync.Mutex
}

// Upgraded reports whether the server's answer to the HTTP upgrade of connection id has been forwarded.
func (p *Proxy) Upgraded(conn int) bool {
	p.mu.Lock()
	defer p.mu.Unlock()
	for _, x := range p.pairs {
		if x.id == conn {
			x.mu.Lock()
			defer x.mu.Unlock()
			return x.upgraded
		}
	}
	return false
}

func New(target string) (*Proxy, error) {
	ln, err := net.Listen("tcp", "127.0.0.1:0")
	if err != nil {
		return nil, err
	}
	p := &Proxy{ln: ln, target: target}
	go p.acceptLoop()
	return p, nil
}

func (p *Proxy) Addr() string { return p.ln.Addr().String() }

func (p *Proxy) Close() {
	p.mu.Lock()
	p.closed = true
	pairs := p.pairs
	p.mu.Unlock()
	p.ln.Close()
	for _, pr := range pairs {
		pr.mu.Lock()
		pr.dead = true
		pr.mu.Unlock()
		pr.c.Close()
		pr.s.Close()
	}
}

// SetRefuseHTTP makes the proxy answer new connections itself with the given HTTP status (0 = off).
func (p *Proxy) SetRefuseHTTP(status int) {
	p.mu.Lock()
	p.RefuseHTTP = status
	p.mu.Unlock()
}

func (p *Proxy) SetRefuse(v bool) {
	p.mu.Lock()
	p.Refuse = v
	p.mu.Unlock()
}

// Arm schedules a fault; the returned Fault's Struck channel is closed when it has been applied.
func (p *Proxy) Arm(f Fault) *Fault {
	f.Struck = make(chan struct{})
	pf := &f
	p.mu.Lock()
	p.faults = append(p.faults, pf)
	p.mu.Unlock()
	return pf
}

// Cut applies a fault to connection id right now (at a frame boundary as far as the proxy has forwarded).
func (p *Proxy) Cut(conn int, kind string) {
	p.mu.Lock()
	var pr *pair
	for _, x := range p.pairs {
		if x.id == conn || (conn == 0 && !x.dead) {
			pr = x
		}
	}
	p.mu.Unlock()
	if pr != nil {
		pr.strike(kind)
	}
}

func (p *Proxy) Frames() []Frame {
	p.mu.Lock()
	defer p.mu.Unlock()
	out := make([]Frame, len(p.frames))
	copy(out, p.frames)
	return out
}

func (p *Proxy) Accepted() int {
	p.mu.Lock()
	defer p.mu.Unlock()
	return p.accepted
}

func (p *Proxy) AcceptTimes() []time.Time {
	p.mu.Lock()
	defer p.mu.Unlock()
	return append([]time.Time{}, p.Accepts...)
}

func (p *Proxy) acceptLoop() {
	for {
		c, err := p.ln.Accept()
		if err != nil {
			return
		}
		p.mu.Lock()
		refuse := p.Refuse
		status := p.RefuseHTTP
		p.Accepts = append(p.Accepts, time.Now())
		p.mu.Unlock()
		if status != 0 && !refuse {
			go func(c net.Conn) {
				defer c.Close()
				c.SetDeadline(time.Now().Add(2 * time.Second))
				buf := make([]byte, 0, 4096)
				tmp := make([]byte, 1024)
				for !bytes.Contains(buf, []byte("\r\n\r\n")) {
					k, err := c.Read(tmp)
					buf = append(buf, tmp[:k]...)
					if err != nil {
						return
					}
				}
				fmt.Fprintf(c, "HTTP/1.1 %d %s\r\nContent-Type: text/plain\r\nContent-Length: 12\r\nConnection: close\r\n\r\nunavailable\n", status, http.StatusText(status))
			}(c)
			continue
		}
		if refuse {
			if tc, ok := c.(*net.TCPConn); ok {
				tc.SetLinger(0)
			}
			c.Close()
			continue
		}
		s, err := net.Dial("tcp", p.target)
		if err != nil {
			c.Close()
			continue
		}
		p.mu.Lock()
		p.accepted++
		pr := &pair{id: p.accepted, c: c, s: s}
		p.pairs = append(p.pairs, pr)
		p.mu.Unlock()
		go p.pump(pr, c, s, "c2s")
		go p.pump(pr, s, c, "s2c")
	}
}

func (pr *pair) strike(kind string) {
	pr.mu.Lock()
	defer pr.mu.Unlock()
	if pr.dead {
		return
	}
	switch kind {
	case "blackhole":
		pr.blackhole = true
		return
	case "stall":
		// a silent peer that has also stopped reading: nothing is forwarded and nothing more is taken off
		// either socket, so the endpoints' writes run into full buffers
		pr.blackhole = true
		pr.stalled = true
		return
	case "stall-c2s":
		// one direction dies silently: what the client sends is neither forwarded nor read any more, while the
		// server's messages still reach the client
		pr.stallC2S = true
		return
	case "close1000", "close1001":
		// the server side ends the connection the polite way: a close frame (normal closure / going away)
		// towards the client, then the TCP close
		code := byte(0xE8)
		if kind == "close1001" {
			code = 0xE9
		}
		pr.c.Write([]byte{0x88, 0x02, 0x03, code})
	case "rst":
		for _, c := range []net.Conn{pr.c, pr.s} {
			if tc, ok := c.(*net.TCPConn); ok {
				tc.SetLinger(0)
			}
		}
	}
	pr.dead = true
	pr.c.Close()
	pr.s.Close()
}

// read is src.Read unless the pair is stalled, in which case it waits (without reading) until the pair dies.
func (pr *pair) read(src net.Conn, buf []byte) (int, error) {
	for {
		pr.mu.Lock()
		st, dead := pr.stalled || (pr.stallC2S && src == pr.c), pr.dead
		pr.mu.Unlock()
		if !st {
			break
		}
		if dead {
			return 0, io.EOF
		}
		time.Sleep(2 * time.Millisecond)
	}
	return src.Read(buf)
}

func (pr *pair) isBlackhole() bool {
	pr.mu.Lock()
	defer pr.mu.Unlock()
	return pr.blackhole
}

// faultFor returns the armed fault matching (conn, dir, data frame index), if any.
func (p *Proxy) faultFor(conn int, dir string, idx int) *Fault {
	p.mu.Lock()
	defer p.mu.Unlock()
	for _, f := range p.faults {
		if !f.fired && f.Dir == dir && f.Frame == idx && (f.Conn == 0 || f.Conn == conn) {
			return f
		}
	}
	return nil
}

func (p *Proxy) fire(pr *pair, f *Fault) {
	p.mu.Lock()
	if f.fired {
		p.mu.Unlock()
		return
	}
	f.fired = true
	p.mu.Unlock()
	pr.strike(f.Kind)
	close(f.Struck)
}

// pump forwards src→dst, parsing frames after the HTTP upgrade handshake.
func (p *Proxy) pump(pr *pair, src, dst net.Conn, dir string) {
	defer func() {
		// propagate an ordinary end of stream (the peer closed): close the other side too
		if !pr.isBlackhole() {
			pr.mu.Lock()
			if !pr.dead {
				pr.dead = true
				pr.c.Close()
				pr.s.Close()
			}
			pr.mu.Unlock()
		}
	}()
	write := func(b []byte) bool {
		if len(b) == 0 {
			return true
		}
		if pr.isBlackhole() {
			return true // swallowed
		}
		pr.mu.Lock()
		oneWay := pr.stallC2S && dir == "c2s"
		pr.mu.Unlock()
		if oneWay {
			return true // swallowed
		}
		_, err := dst.Write(b)
		return err == nil
	}
	buf := make([]byte, 0, 1<<16)
	tmp := make([]byte, 1<<15)
	fill := func(n int) bool { // make sure buf has at least n bytes
		for len(buf) < n {
			k, err := pr.read(src, tmp)
			if k > 0 {
				buf = append(buf, tmp[:k]...)
			}
			if err != nil {
				return len(buf) >= n
			}
		}
		return true
	}
	// ---- HTTP handshake: forward up to and including the blank line
	for {
		if i := bytes.Index(buf, []byte("\r\n\r\n")); i >= 0 {
			if !write(buf[:i+4]) {
				return
			}
			if dir == "s2c" {
				pr.mu.Lock()
				pr.upgraded = true
				pr.mu.Unlock()
			}
			buf = buf[i+4:]
			break
		}
		k, err := pr.read(src, tmp)
		if k > 0 {
			buf = append(buf, tmp[:k]...)
		}
		if err != nil {
			write(buf)
			return
		}
	}
	// ---- frames (a message may be fragmented: opcode 1/2 with FIN=0, then continuation frames)
	dataIdx := 0
	var afterF *Fault
	var msg []byte
	msgOpcode := 0
	for {
		if !fill(2) {
			write(buf)
			return
		}
		b0, b1 := buf[0], buf[1]
		opcode := int(b0 & 0x0f)
		masked := b1&0x80 != 0
		plen := int(b1 & 0x7f)
		hlen := 2
		switch plen {
		case 126:
			hlen += 2
		case 127:
			hlen += 8
		}
		if masked {
			hlen += 4
		}
		if !fill(hlen) {
			write(buf)
			return
		}
		switch b1 & 0x7f {
		case 126:
			plen = int(buf[2])<<8 | int(buf[3])
		case 127:
			plen = 0
			for i := 2; i < 10; i++ {
				plen = plen<<8 | int(buf[i])
			}
		}
		isData := opcode == 1 || opcode == 2 || opcode == 0
		startsMsg := opcode == 1 || opcode == 2
		var f *Fault
		if startsMsg {
			f = p.faultFor(pr.id, dir, dataIdx)
		}
		if f != nil && f.Pos == "before" {
			p.fire(pr, f)
			if f.Kind != "blackhole" {
				return
			}
		}
		if f != nil && f.Pos == "header" {
			write(buf[:1])
			p.fire(pr, f)
			if f.Kind != "blackhole" {
				return
			}
			buf = buf[1:]
			hlen--
		}
		if !fill(hlen + plen) {
			write(buf)
			return
		}
		frame := buf[:hlen+plen]
		payload := append([]byte{}, frame[hlen:]...)
		if masked {
			key := frame[hlen-4 : hlen]
			for i := range payload {
				payload[i] ^= key[i%4]
			}
		}
		cut := -1
		if f != nil && !f.fired {
			switch f.Pos {
			case "mid":
				cut = hlen + plen/2
			case "lastbyte":
				cut = hlen + plen - 1
			}
			if cut >= 0 && plen == 0 {
				cut = hlen
			}
		}
		if cut >= 0 {
			write(frame[:cut])
			p.fire(pr, f)
			if f.Kind != "blackhole" {
				return
			}
			frame = frame[cut:]
		}
		if !write(frame) {
			return
		}
		fin := b0&0x80 != 0
		complete := false
		if isData {
			if startsMsg {
				msg = msg[:0]
				msgOpcode = opcode
			}
			msg = append(msg, payload...)
			complete = fin
		}
		p.mu.Lock()
		if !isData {
			p.frames = append(p.frames, Frame{Conn: pr.id, Dir: dir, Opcode: opcode, Fin: fin, Payload: payload, Index: -1, At: time.Now()})
		} else if complete {
			p.frames = append(p.frames, Frame{Conn: pr.id, Dir: dir, Opcode: msgOpcode, Fin: true, Payload: append([]byte{}, msg...), Text: string(msg), Index: dataIdx, At: time.Now()})
		}
		p.mu.Unlock()
		buf = buf[hlen+plen:]
		if len(buf) == 0 {
			buf = make([]byte, 0, 1<<16)
		}
		if complete {
			dataIdx++
		}
		// "after" means after the whole message, which may span several frames
		if f != nil && !f.fired && f.Pos == "after" {
			afterF = f
		}
		if afterF != nil && (complete || !isData) && !afterF.fired {
			g := afterF
			afterF = nil
			p.fire(pr, g)
			if g.Kind != "blackhole" {
				return
			}
		}
	}
}

var _ = io.EOF

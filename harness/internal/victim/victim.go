// Package victim — endpoints under attack run in a child process (a crash kills the host), started
// from the same binary with the subcommands "victim-server" and "victim-client".
package victim

import (
	"bufio"
	"context"
	"encoding/json"
	"fmt"
	"io"
	"net/http"
	"net/http/httptest"
	"os"
	"os/exec"
	"reflect"
	"sort"
	"strings"
	"sync"
	"sync/atomic"
	"time"

	jsonrpc "github.com/filecoin-project/go-jsonrpc"

	"verif/harness/internal/api"
)

// V is the observation handler of the victim server.
type V struct {
	L  *api.Log
	mu sync.Mutex
	// token ↦ context captured inside Block
	ctxs map[int]context.Context
	// set by Close: a service object with a shutdown method, as applications have; nobody calls it here
	closed bool
}

// Close shuts the service down: afterwards Sum answers 0.  Only the application may decide to call it.
func (v *V) Close() error {
	v.mu.Lock()
	v.closed = true
	v.mu.Unlock()
	return nil
}

type Snap struct {
	Started   []int          `json:"started"`
	Cancelled []int          `json:"cancelled"`
	Invoked   map[string]int `json:"invoked"`
}

// Block registers its context under tok and returns when that context is cancelled.
func (v *V) Block(ctx context.Context, tok int) string {
	v.mu.Lock()
	v.ctxs[tok] = ctx
	v.mu.Unlock()
	<-ctx.Done()
	return "cancelled"
}

// Sum is the probe method of the "other connections are still served" observation: it is not logged, so
// it never shows up among the invocations attributed to the case under test.
func (v *V) Sum(a, b int) int {
	v.mu.Lock()
	defer v.mu.Unlock()
	if v.closed {
		return 0
	}
	return a + b
}

//go:noinline
func deepPanic(n int) int {
	if n == 0 {
		panic("deep in a recursion")
	}
	return deepPanic(n-1) + 1
}

// Panic panics with a payload chosen by kind (C13).
func (v *V) Panic(ctx context.Context, kind int) (int, error) {
	v.L.Add("V.Panic", kind)
	if kind >= 100 {
		// the handler panics while cleaning up after its context was cancelled
		<-ctx.Done()
		kind -= 100
	}
	switch kind {
	case 0:
		panic("string payload")
	case 1:
		panic(fmt.Errorf("error payload"))
	case 2:
		var m map[string]int
		m["x"] = 1
	case 3:
		var p *api.Pt
		return p.X, nil
	case 4:
		panic(struct{ A, B int }{1, 2})
	case 5:
		var xs []int
		_ = xs[3]
	case 6:
		panic(Problems{fmt.Errorf("first problem"), fmt.Errorf("second problem")}) // an error whose dynamic type is not hashable
	case 7:
		panic(map[string]int{"a": 1})
	case 8:
		panic(func() {})
	case 9:
		panic([]byte("bytes payload"))
	case 10:
		var e error
		panic(e) // panic(nil): a *runtime.PanicNilError since Go 1.21
	case 11:
		panic(&api.Pt{X: 1, Y: "two"})
	case 12:
		panic(http.ErrAbortHandler) // the sentinel net/http uses to abort a response: to the library just another payload
	case 13:
		panic(struct {
			C chan int
			F func()
		}{make(chan int), func() {}}) // a payload encoding/json cannot marshal
	case 14:
		deepPanic(200) // raised 200 frames below the handler: the stack of the panic is tens of kilobytes
	}
	return 0, nil
}

// Problems is an aggregate error: a slice type, hence unhashable as a dynamic interface value.
type Problems []error

func (p Problems) Error() string { return fmt.Sprintf("%d problems", len(p)) }

func (v *V) PanicNotify(ctx context.Context, kind int) {
	v.Panic(ctx, kind)
}

func (v *V) PanicSub(ctx context.Context, kind int) (<-chan int, error) {
	v.Panic(ctx, kind)
	return nil, nil
}

// Snapshot reports which Block calls have started, which of their contexts are cancelled right now,
// and how often each logged handler has run since the last snapshot.
func (v *V) Snapshot() Snap {
	v.mu.Lock()
	defer v.mu.Unlock()
	s := Snap{Invoked: map[string]int{}, Started: []int{}, Cancelled: []int{}}
	for tok, ctx := range v.ctxs {
		s.Started = append(s.Started, tok)
		if ctx.Err() != nil {
			s.Cancelled = append(s.Cancelled, tok)
		}
	}
	sort.Ints(s.Started)
	sort.Ints(s.Cancelled)
	for _, e := range v.L.Take() {
		s.Invoked[e.Tag]++
	}
	return s
}

// ServerMain is the body of the "victim-server" subcommand.
func ServerMain() {
	l := &api.Log{}
	var traced int64
	// a tracer is configured, as in a deployment that logs its calls: it sees every call, also panicking ones
	s := jsonrpc.NewServer(jsonrpc.WithMaxRequestSize(1<<20), jsonrpc.WithTracer(func(method string, params []reflect.Value, results []reflect.Value, err error) {
		atomic.AddInt64(&traced, 1)
	}))
	s.Register("T", &api.T{L: l})
	s.Register("V", &V{L: l, ctxs: map[int]context.Context{}})
	ts := httptest.NewServer(s)
	fmt.Println("URL " + ts.URL)
	io.Copy(io.Discard, os.Stdin) // live until the parent closes stdin
}

// ClientAPI is the proxy struct of the victim client.
type ClientAPI struct {
	Sub  func(context.Context, int) (<-chan int, error)
	Wait func(context.Context, int) (int, error)
}

// ClientMain is the body of the "victim-client" subcommand: a real client with one live subscription
// and one live unary call; everything it observes is printed as JSON lines.
func ClientMain(url string) {
	out := json.NewEncoder(os.Stdout)
	var mu sync.Mutex
	emit := func(v map[string]interface{}) {
		mu.Lock()
		out.Encode(v)
		mu.Unlock()
	}
	var c ClientAPI
	closer, err := jsonrpc.NewMergeClient(context.Background(), url, "T", []interface{}{&c}, nil,
		jsonrpc.WithNoReconnect(), jsonrpc.WithPingInterval(0), jsonrpc.WithTimeout(0))
	if err != nil {
		emit(map[string]interface{}{"ev": "dial-error", "err": err.Error()})
		os.Exit(4)
	}
	var wg sync.WaitGroup
	wg.Add(2)
	go func() {
		defer wg.Done()
		ch, err := c.Sub(context.Background(), 0)
		emit(map[string]interface{}{"ev": "sub-ret", "err": errStr(err)})
		if err != nil || ch == nil {
			return
		}
		for v := range ch {
			emit(map[string]interface{}{"ev": "val", "v": v})
		}
		emit(map[string]interface{}{"ev": "closed"})
	}()
	go func() {
		defer wg.Done()
		// start after the subscription request so that request order on the wire is fixed
		time.Sleep(20 * time.Millisecond)
		v, err := c.Wait(context.Background(), 1)
		emit(map[string]interface{}{"ev": "wait-ret", "v": v, "err": errStr(err)})
	}()
	wg.Wait()
	closer()
	emit(map[string]interface{}{"ev": "done"})
}

func errStr(err error) interface{} {
	if err == nil {
		return nil
	}
	return err.Error()
}

// Child is a running victim process.
type Child struct {
	cmd    *exec.Cmd
	stdin  io.WriteCloser
	Lines  chan string
	Exited chan struct{}
	Stderr *strings.Builder
	mu     sync.Mutex
}

func Start(args ...string) (*Child, error) {
	exe, err := os.Executable()
	if err != nil {
		return nil, err
	}
	cmd := exec.Command(exe, args...)
	// panicnil=1: a deployment may run with the pre-1.21 meaning of panic(nil), where recover() returns nil
	cmd.Env = append(os.Environ(), "GOLOG_LOG_LEVEL=fatal", "GOTRACEBACK=single", "GODEBUG=panicnil=1")
	stdin, _ := cmd.StdinPipe()
	stdout, _ := cmd.StdoutPipe()
	c := &Child{cmd: cmd, stdin: stdin, Lines: make(chan string, 1024), Exited: make(chan struct{}), Stderr: &strings.Builder{}}
	stderr, _ := cmd.StderrPipe()
	if err := cmd.Start(); err != nil {
		return nil, err
	}
	var wg sync.WaitGroup
	wg.Add(2)
	go func() {
		defer wg.Done()
		sc := bufio.NewScanner(stdout)
		sc.Buffer(make([]byte, 1<<20), 1<<24)
		for sc.Scan() {
			c.Lines <- sc.Text()
		}
	}()
	go func() {
		defer wg.Done()
		b, _ := io.ReadAll(io.LimitReader(stderr, 1<<16))
		c.mu.Lock()
		c.Stderr.Write(b)
		c.mu.Unlock()
		io.Copy(io.Discard, stderr)
	}()
	go func() {
		wg.Wait()
		cmd.Wait()
		close(c.Lines)
		close(c.Exited)
	}()
	return c, nil
}

func (c *Child) Alive() bool {
	select {
	case <-c.Exited:
		return false
	default:
		return true
	}
}

// Crashed reports whether the child exited by itself with a Go panic / fatal error.
func (c *Child) CrashInfo() string {
	c.mu.Lock()
	defer c.mu.Unlock()
	s := c.Stderr.String()
	for _, line := range strings.Split(s, "\n") {
		if strings.HasPrefix(line, "panic:") || strings.HasPrefix(line, "fatal error:") {
			return line
		}
	}
	if len(s) > 200 {
		s = s[:200]
	}
	return s
}

func (c *Child) Stop() {
	c.stdin.Close()
	select {
	case <-c.Exited:
	case <-time.After(2 * time.Second):
		c.cmd.Process.Kill()
		<-c.Exited
	}
}

// WaitLine waits for the next stdout line of the child.
func (c *Child) WaitLine(d time.Duration) (string, bool) {
	select {
	case l, ok := <-c.Lines:
		return l, ok
	case <-time.After(d):
		return "", false
	}
}

// NoCtxAPI: proxy fields without a context parameter (supported signatures), one of them returning a channel.
type NoCtxAPI struct {
	SubPlain func(int, int) (<-chan int, error) `rpc_method:"SH.Sub"`
	Add      func(int, int) (int, error)        `rpc_method:"SH.Add"`
}

// NoCtxMain is the body of the "victim-noctx" subcommand: a client whose channel-returning proxy field takes
// no context subscribes to n values and reports what it received as JSON lines.
func NoCtxMain(url string) {
	out := json.NewEncoder(os.Stdout)
	var c NoCtxAPI
	closer, err := jsonrpc.NewMergeClient(context.Background(), url, "SH", []interface{}{&c}, nil, jsonrpc.WithNoReconnect())
	if err != nil {
		out.Encode(map[string]interface{}{"ev": "dial-error", "err": err.Error()})
		os.Exit(4)
	}
	defer closer()
	if v, err := c.Add(20, 22); err != nil || v != 42 {
		out.Encode(map[string]interface{}{"ev": "add-failed", "err": errStr(err)})
		os.Exit(5)
	}
	out.Encode(map[string]interface{}{"ev": "add-ok"})
	ch, err := c.SubPlain(424242, 5)
	if err != nil || ch == nil {
		out.Encode(map[string]interface{}{"ev": "sub-failed", "err": errStr(err)})
		os.Exit(6)
	}
	n := 0
	for range ch {
		n++
	}
	out.Encode(map[string]interface{}{"ev": "closed", "n": n})
}

// Package c13 — a panicking handler fails only its own call: real clients (ws and http) against a
// server in a child process, with healthy calls and a stream running concurrently.
package c13

import (
	"context"
	"errors"
	"fmt"
	"strings"
	"sync"
	"time"

	jsonrpc "github.com/filecoin-project/go-jsonrpc"

	"verif/harness/internal/api"
	"verif/harness/internal/c09"
	"verif/harness/internal/fw"
	"verif/harness/internal/victim"
)

type vClient struct {
	Sum         func(int, int) (int, error)
	Panic       func(context.Context, int) (int, error)
	PanicNotify func(context.Context, int) `notify:"true"`
	PanicSub    func(context.Context, int) (<-chan int, error)
}

type tClient struct {
	Add func(int, int) (int, error)
	Sub func(context.Context, int) (<-chan int, error)
}

var vMethods = []api.MethodDesc{
	{Name: "Panic", Tag: "V.Panic", PTypes: []string{"int"}, Ctx: true, Out: "valerr", Behav: "panics"},
	{Name: "PanicNotify", Tag: "V.Panic", PTypes: []string{"int"}, Ctx: true, Out: "none", Behav: "panics"},
	{Name: "PanicSub", Tag: "V.Panic", PTypes: []string{"int"}, Ctx: true, Out: "valerr", Chan: true, Behav: "panics"},
}

var handlerDesc = c09.HandlerDesc{Fmt: c09.Fmt{Ns: true}, Regs: []c09.Reg{{Ns: "V", Methods: vMethods, Recv: "V"}}, Aliases: [][2]string{}}

func Run(d *fw.Driver, res *fw.Result, seed int64, thorough bool) error {
	child, err := victim.Start("victim-server")
	if err != nil {
		return err
	}
	defer child.Stop()
	line, ok := child.WaitLine(10 * time.Second)
	if !ok || !strings.HasPrefix(line, "URL ") {
		return fmt.Errorf("victim server did not start: %q", line)
	}
	httpURL := strings.TrimPrefix(line, "URL ")
	wsURL := "ws" + strings.TrimPrefix(httpURL, "http")
	if err := concurrentPanics(res, child, httpURL, wsURL); err != nil {
		return err
	}
	reps := 1
	if thorough {
		reps = 6
	}
	for rep := 0; rep < reps; rep++ {
		for _, transport := range []string{"ws", "http"} {
			kinds := []int{0, 1, 2, 3, 4, 5, 6, 7, 8, 9, 10, 11, 12, 13, 14}
			if transport == "ws" {
				kinds = append(kinds, 102, 100, 106) // the handler panics after its caller cancelled
			}
			for _, kind := range kinds {
				for _, callKind := range []string{"unary", "notify", "chan"} {
					if kind >= 100 && callKind == "notify" {
						continue
					}
					for _, concurrent := range []int{0, 3} {
						if (kind > 5) && concurrent == 3 && !thorough && callKind != "unary" {
							continue
						}
						if !child.Alive() {
							res.Add(fw.Finding{Kind: "monitor", Signature: "process died", Detail: "the server process died: " + child.CrashInfo()})
							return nil
						}
						url := httpURL
						if transport == "ws" {
							url = wsURL
						}
						if err := one(d, res, child, url, httpURL, transport, kind, callKind, concurrent); err != nil {
							return err
						}
					}
				}
			}
		}
	}
	return nil
}

func one(d *fw.Driver, res *fw.Result, child *victim.Child, url, httpURL, transport string, kind int, callKind string, concurrent int) error {
	var vc vClient
	var tc tClient
	ctx, cancel := context.WithCancel(context.Background())
	defer cancel()
	closer, err := jsonrpc.NewMergeClient(ctx, url, "V", []interface{}{&vc}, nil)
	if err != nil {
		return err
	}
	defer closer()
	closer2, err := jsonrpc.NewMergeClient(ctx, url, "T", []interface{}{&tc}, nil)
	if err != nil {
		return err
	}
	defer closer2()

	// concurrent healthy work on the same transport: unary calls and (ws) a stream
	var wg sync.WaitGroup
	siblingErr := make(chan string, 16)
	start := make(chan struct{})
	for i := 0; i < concurrent; i++ {
		wg.Add(1)
		go func(i int) {
			defer wg.Done()
			<-start
			for k := 0; k < 5; k++ {
				v, err := tc.Add(i*100, k)
				if err != nil || v != i*100+k {
					siblingErr <- fmt.Sprintf("sibling Add(%d,%d) = %d, %v", i*100, k, v, err)
					return
				}
			}
		}(i)
	}
	if concurrent > 0 && transport == "ws" {
		wg.Add(1)
		go func() {
			defer wg.Done()
			<-start
			ch, err := tc.Sub(ctx, 40)
			if err != nil {
				siblingErr <- "sibling Sub: " + err.Error()
				return
			}
			n := 0
			for v := range ch {
				if v != n {
					siblingErr <- fmt.Sprintf("sibling stream got %d want %d", v, n)
					return
				}
				n++
			}
			if n != 40 {
				siblingErr <- fmt.Sprintf("sibling stream ended after %d of 40 values", n)
			}
		}()
	}
	close(start)

	method := map[string]string{"unary": "V.Panic", "notify": "V.PanicNotify", "chan": "V.PanicSub"}[callKind]
	ask := map[string]interface{}{"op": "handle", "handler": handlerDesc, "chanOK": transport == "ws",
		"id":     map[string]interface{}{"t": map[string]string{"unary": "num", "notify": "null", "chan": "num"}[callKind], "v": map[string]string{"unary": "1", "notify": "", "chan": "1"}[callKind]},
		"method": method, "params": map[string]interface{}{"t": "arr", "elems": [][]string{api.DecodesInto("1")}}}
	model, err := d.Ask(ask)
	if err != nil {
		return err
	}
	mm := model.(map[string]interface{})

	var callErr error
	cctx, ccancel := context.WithCancel(ctx)
	defer ccancel()
	if kind >= 100 {
		// cancel once the request is on its way: the handler is then (or soon) waiting for exactly that
		go func() { time.Sleep(30 * time.Millisecond); ccancel() }()
	}
	returned := make(chan struct{})
	go func() {
		defer close(returned)
		switch callKind {
		case "unary":
			_, callErr = vc.Panic(cctx, kind)
		case "notify":
			vc.PanicNotify(cctx, kind)
		case "chan":
			var ch <-chan int
			ch, callErr = vc.PanicSub(cctx, kind)
			if callErr == nil && ch != nil {
				callErr = errors.New("no error")
			}
		}
	}()
	hung := false
	select {
	case <-returned:
	case <-time.After(8 * time.Second):
		hung = true
	}
	wg.Wait()
	mon := ""
	if hung {
		mon = "the caller of the panicking handler never got an answer (8 s)"
		callErr = errors.New("(no answer)")
	}
	select {
	case e := <-siblingErr:
		mon = "a concurrent healthy call was disturbed: " + e
	default:
	}
	time.Sleep(time.Millisecond)
	if !child.Alive() && mon == "" {
		mon = "the server process died: " + child.CrashInfo()
	}
	// subsequent call on the same client and on another connection
	if mon == "" {
		if v, err := tc.Add(20, 22); err != nil || v != 42 {
			mon = fmt.Sprintf("a subsequent call on the same client failed: %d, %v", v, err)
		}
	}
	// … and a call to another method of the very service object whose method panicked
	if mon == "" {
		if v, err := vc.Sum(20, 22); err != nil || v != 42 {
			mon = fmt.Sprintf("after the panic another method of the same service object no longer works: Sum(20,22) = %d, %v", v, err)
		}
	}
	// what the panicking caller saw
	impl := map[string]interface{}{}
	var code interface{}
	if callErr != nil {
		var je *jsonrpc.JSONRPCError
		if errors.As(callErr, &je) {
			code = int(je.Code)
		}
	}
	wantErr := callKind != "notify"
	switch {
	case mon != "":
	case wantErr && callErr == nil:
		mon = "the caller of the panicking handler got no error"
	case wantErr && callKind == "unary" && !strings.Contains(callErr.Error(), "panic"):
		mon = "the caller's error does not mention the panic: " + callErr.Error()
	case wantErr && callKind == "chan" && transport == "ws" && !strings.Contains(callErr.Error(), "panic"):
		mon = "the caller's error does not mention the panic: " + callErr.Error()
	}
	// model correspondence: error code and whether the handler ran
	var mcode interface{}
	if r, ok := mm["resp"].(map[string]interface{}); ok {
		if b, ok := r["body"].(map[string]interface{}); ok && b["k"] == "error" {
			mcode = b["code"]
		}
	}
	impl["code"] = code
	modelView := map[string]interface{}{"code": mcode}
	if callKind == "notify" {
		modelView["code"] = nil // nothing reaches a notification's caller
	}
	res.Count(transport + "." + callKind)
	res.Count(fmt.Sprintf("payload.%d", kind))
	res.Eval(true, []interface{}{transport, kind, callKind, concurrent})
	if kind == 2 && concurrent > 0 {
		res.Sample(map[string]interface{}{"transport": transport, "payload": kind, "call": callKind, "concurrent": concurrent, "caller_error": fmt.Sprint(callErr)})
	}
	res.Compare(fmt.Sprintf("panic transport=%s call=%s payload=%d concurrent=%d", transport, callKind, kind, concurrent), ask, modelView, impl, mon)
	return nil
}

// concurrentPanics: many handlers panic at the same moment, on several connections and both transports, before
// any of them has panicked before.  Each caller gets its own error, the process keeps running, and a healthy
// call afterwards works.
func concurrentPanics(res *fw.Result, child *victim.Child, httpURL, wsURL string) error {
	const perTransport = 12
	var clients []*vClient
	var closers []jsonrpc.ClientCloser
	for i := 0; i < 4; i++ {
		url := wsURL
		if i%2 == 1 {
			url = httpURL
		}
		vc := &vClient{}
		closer, err := jsonrpc.NewMergeClient(context.Background(), url, "V", []interface{}{vc}, nil, jsonrpc.WithNoReconnect())
		if err != nil {
			return err
		}
		clients, closers = append(clients, vc), append(closers, closer)
	}
	defer func() {
		for _, c := range closers {
			c()
		}
	}()
	for round := 0; round < 3; round++ {
		var wg sync.WaitGroup
		start := make(chan struct{})
		errs := make([]error, 2*perTransport)
		for g := 0; g < 2*perTransport; g++ {
			wg.Add(1)
			go func(g int) {
				defer wg.Done()
				<-start
				ctx, cancel := context.WithTimeout(context.Background(), 6*time.Second)
				defer cancel()
				_, errs[g] = clients[g%len(clients)].Panic(ctx, g%6)
				// … and keep panicking side by side for a while (no barrier: continuous overlap)
				for k := 0; k < 60 && errs[g] != nil && strings.Contains(errs[g].Error(), "panic"); k++ {
					_, errs[g] = clients[g%len(clients)].Panic(ctx, (g+k)%6)
				}
			}(g)
		}
		close(start)
		wg.Wait()
		time.Sleep(2 * time.Millisecond)
		res.Count("concurrent-panics")
		res.Eval(true, []interface{}{"concurrent-panics", round})
		if !child.Alive() {
			res.Add(fw.Finding{Kind: "monitor", Signature: "concurrent panics: process died", Detail: "handlers panicking at the same moment took the server process down: " + child.CrashInfo(),
				Case: map[string]interface{}{"scenario": "concurrent-panics", "callers": 2 * perTransport}})
			return nil
		}
		for g, err := range errs {
			if err == nil || !strings.Contains(err.Error(), "panic") {
				res.Add(fw.Finding{Kind: "monitor", Signature: "concurrent panics: caller without a panic error", Detail: fmt.Sprintf("caller %d got %v", g, err)})
				break
			}
		}
		if v, err := clients[1].Sum(20, 22); err != nil || v != 42 {
			res.Add(fw.Finding{Kind: "monitor", Signature: "concurrent panics: later call fails", Detail: fmt.Sprintf("Sum(20,22) = %d, %v", v, err)})
		}
	}
	return nil
}

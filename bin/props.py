"""Per-property configuration of bin/check: which Lean modules hold the property's theorems and the
fact obligations it depends on, and what the evidence should say about assumptions."""

COMMON_TB = []

PROPS = {
    "C09": {
        "lean_modules": ["JrpcProofs.Props.C09", "JrpcProofs.Facts.Codes", "JrpcProofs.Facts.Wire"],
        "assumptions": [
            "encoding/json is an oracle: the harness tells the model, per params element, which declared types it decodes into",
            "message texts of library errors are not compared (codes, ids, shape, status and handler invocations are)",
        ],
    },
}

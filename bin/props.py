"""Per-property configuration of bin/check: which Lean modules hold the property's theorems and the
fact obligations it depends on, and what the evidence should say about assumptions."""

COMMON_TB = []

PROPS = {
    "C09": {
        "lean_modules": ["JrpcProofs.Props.C09", "JrpcProofs.Facts.Codes", "JrpcProofs.Facts.Wire", "JrpcProofs.Facts.Dispatch", "JrpcProofs.Facts.Framing", "JrpcProofs.Facts.Call", "JrpcProofs.Facts.Cancel", "JrpcProofs.Facts.Interp", "JrpcProofs.Trans.Wire", "JrpcProofs.Trans.BatchWriter", "JrpcProofs.Trans.HandleFrame"],
        "assumptions": [
            "encoding/json is an oracle: the harness tells the model, per params element, which declared types it decodes into",
            "message texts of library errors are not compared (codes, ids, shape, status and handler invocations are)",
        ],
    },
    "C12": {
        "lean_modules": ["JrpcProofs.Props.C12", "JrpcProofs.Facts.Dispatch", "JrpcProofs.Facts.Codes", "JrpcProofs.Facts.Call", "JrpcProofs.Facts.Naming", "JrpcProofs.Trans.Naming", "JrpcProofs.Facts.Reverse"],
        "assumptions": [
            "method names start with an ASCII letter (Go identifiers in the harness do); the lower-first formatter slices one byte",
            "encoding/json is an oracle for per-parameter decodability",
        ],
    },
    "C19": {
        "lean_modules": ["JrpcProofs.Props.C19", "JrpcProofs.Facts.Auth", "JrpcProofs.Trans.Auth", "JrpcProofs.Trans.AuthHTTP", "JrpcProofs.Trans.WithPerm"],
        "assumptions": ["net/http delivers header and form values as documented; permissions are compared for equality only"],
    },
    "C10": {
        "lean_modules": ["JrpcProofs.Props.C10", "JrpcProofs.Facts.Call", "JrpcProofs.Facts.Naming", "JrpcProofs.Facts.Frames", "JrpcProofs.Facts.Codes", "JrpcProofs.Facts.Framing", "JrpcProofs.Facts.Interp", "JrpcProofs.Trans.NormalizeID", "JrpcProofs.Trans.CancelCtx", "JrpcProofs.Trans.ChanMessage", "JrpcProofs.Trans.ChanClose", "JrpcProofs.Trans.HandleFrame"],
        "assumptions": [
            "gorilla/websocket delivers whole messages and closes the connection itself on WebSocket-level protocol violations",
            "encoding/json classifies each params element (shape, uint64-decodability) — computed by the harness with the real decoder",
            "the endpoint under attack runs in a child process; crash = the child exits with a Go panic",
        ],
        "timeout": 1500,
    },
    "C05": {
        "lean_modules": ["JrpcProofs.Props.C05", "JrpcProofs.Facts.Backoff", "JrpcProofs.Facts.ErrTypes", "JrpcProofs.Facts.Options", "JrpcProofs.Facts.Corr", "JrpcProofs.Facts.Call", "JrpcProofs.Facts.Interp", "JrpcProofs.Trans.Backoff", "JrpcProofs.Trans.Options"],
        "assumptions": [
            "float64 arithmetic of backoff.next is modelled exactly over the rationals; the differential check allows a relative slack of 2^-40 + 1 ns",
            "rand.Float64() lies in [0,1)",
        ],
    },
    "C11": {
        "lean_modules": ["JrpcProofs.Props.C11", "JrpcProofs.Facts.Errors", "JrpcProofs.Facts.ErrTypes", "JrpcProofs.Facts.Call", "JrpcProofs.Trans.Wire"],
        "assumptions": [
            "the application's error types are parameters: Error/MarshalJSON/UnmarshalJSON/ToJSONRPCError/FromJSONRPCError are evaluated by the harness on the real types and handed to the model as tables",
            "encoding/json transports message strings (valid UTF-8) faithfully",
        ],
    },
    "C13": {
        "lean_modules": ["JrpcProofs.Props.C13", "JrpcProofs.Facts.Recover", "JrpcProofs.Facts.Framing", "JrpcProofs.Facts.Call"],
        "assumptions": ["net/http recovers per request on its own; the library-side guarantee is doCall's recover", "the server runs in a child process; crash = the child exits"],
    },
    "C01": {
        "lean_modules": ["JrpcProofs.Props.C01", "JrpcProofs.Facts.Options", "JrpcProofs.Facts.Call", "JrpcProofs.Facts.OneShot", "JrpcProofs.Facts.Params", "JrpcProofs.Facts.Naming", "JrpcProofs.Trans.Naming", "JrpcProofs.Trans.Outs"],
        "assumptions": [
            "encoding/json is a codec parameter (marshal/unmarshal per declared type); splitting a JSON array into raw elements is faithful",
            "the harness's oracle for 'JSON round trip' is json.Unmarshal(json.Marshal(v)) into the declared type, compared with reflect.DeepEqual (floats by value and sign, raw JSON as values)",
            "results are restricted to encoding/json-serialisable values (README)",
        ],
    },
    "C20": {
        "lean_modules": ["JrpcProofs.Props.C20", "JrpcProofs.Facts.Reader", "JrpcProofs.Facts.Params", "JrpcProofs.Facts.Call", "JrpcProofs.Facts.Options", "JrpcProofs.Trans.WRC"],
        "assumptions": [
            "net/http streams the upload body faithfully and a blocking body never returns (0, nil); which chunk sizes it returns is taken from the trace",
            "the rendezvous table has no observable trace without hooks: its theorem (C20_meet) is tied by the regenerated skeleton of ReaderParamDecoder and by forcing both arrival orders in the scenarios",
        ],
        "timeout": 1500,
    },
    "C14": {
        "lean_modules": ["JrpcProofs.Props.C14", "JrpcProofs.Facts.Locks", "JrpcProofs.Facts.Writers", "JrpcProofs.Facts.Cancel", "JrpcProofs.Facts.Stream", "JrpcProofs.Trans.NextWriter"],
        "race": True,
        "assumptions": [
            "gorilla/websocket writes a message as one or more frames of one message (reassembled by the proxy) and detects overlapping writers by panicking",
            "the race clause is supported by the Go race detector on the scenario runs (a dynamic tool) plus the regenerated table of connection uses; it is not a memory-model proof",
        ],
        "timeout": 1500,
    },
    "C07": {
        "lean_modules": ["JrpcProofs.Props.C07", "JrpcProofs.Lemmas.Stream", "JrpcProofs.Facts.Stream", "JrpcProofs.Facts.Frames", "JrpcProofs.Props.Forwarder", "JrpcProofs.Trans.ChanMessage", "JrpcProofs.Trans.ChanClose"],
        "assumptions": [
            "the transport is FIFO per direction (TCP, gorilla/websocket, the frame queue): the model's wire is 'announcement, then values, then close'",
            "hooks only delay goroutines; the two sides of the sink/buffer rendezvous are logged independently and reconciled by the replayer",
            "'eventually delivered' is proved as: nothing in transit implies everything delivered, plus no-stall enabledness; liveness itself needs scheduler fairness",
        ],
        "timeout": 1500,
    },
    "C08": {
        "lean_modules": ["JrpcProofs.Props.C08", "JrpcProofs.Lemmas.Stream", "JrpcProofs.Facts.Stream", "JrpcProofs.Facts.Frames", "JrpcProofs.Props.Sweep", "JrpcProofs.Facts.Sweep", "JrpcProofs.Props.Forwarder", "JrpcProofs.Facts.Corr", "JrpcProofs.Trans.ChanMessage", "JrpcProofs.Trans.ChanClose", "JrpcProofs.Trans.CloseChans"],
        "assumptions": [
            "as C07; 'eventually closed' is proved as enabledness of the close after each cause (PARTIAL: needs fairness and a consumer that keeps reading or cancels) and observed with a time-out in the scenarios",
        ],
        "timeout": 1500,
    },
    "C02": {
        "lean_modules": ["JrpcProofs.Props.C02", "JrpcProofs.Props.Epoch", "JrpcProofs.Lemmas.Corr", "JrpcProofs.Facts.Corr", "JrpcProofs.Facts.Frames", "JrpcProofs.Facts.OneShot", "JrpcProofs.Facts.Writers", "JrpcProofs.Facts.Call", "JrpcProofs.Facts.Interp", "JrpcProofs.Facts.ErrTypes", "JrpcProofs.Trans.NormalizeID", "JrpcProofs.Facts.Cancel", "JrpcProofs.Trans.NextWriter"],
        "assumptions": [
            "hooks only delay goroutines; two log entries written by different goroutines around one channel rendezvous may come in either order and are reconciled by the replayer (tau steps are counted in the evidence)",
            "ids of calls that are inside doRequest at the same time differ (id counter; int64 to float64 keys are injective below 2^53 calls)",
            "'returns' / 'completes' are proved in safety form (every outstanding attempt has an owner that can move; no step of the exit path waits on another party); the final step needs scheduler fairness",
            "the peer is honest: it answers only requests it executed (C10 covers hostile peers)",
        ],
        "timeout": 1500,
    },
    "C03": {
        "lean_modules": ["JrpcProofs.Props.C03", "JrpcProofs.Lemmas.Corr", "JrpcProofs.Facts.Corr", "JrpcProofs.Facts.Frames", "JrpcProofs.Facts.Writers", "JrpcProofs.Facts.Keepalive", "JrpcProofs.Facts.OneShot", "JrpcProofs.Trans.Sweep", "JrpcProofs.Trans.CtxErr"],
        "assumptions": [
            "hooks only delay goroutines; two log entries written by different goroutines around one channel rendezvous may come in either order and are reconciled by the replayer (tau steps are counted in the evidence)",
            "ids of calls that are inside doRequest at the same time differ (id counter; int64 to float64 keys are injective below 2^53 calls)",
            "'returns' / 'completes' are proved in safety form (every outstanding attempt has an owner that can move; no step of the exit path waits on another party); the final step needs scheduler fairness",
            "a silent stall is noticed through the read deadline (C17); TCP loses only a suffix of the stream",
        ],
        "timeout": 2400,
    },
    "C04": {
        "lean_modules": ["JrpcProofs.Props.C04", "JrpcProofs.Lemmas.Corr", "JrpcProofs.Facts.Corr", "JrpcProofs.Facts.Backoff", "JrpcProofs.Facts.Writers", "JrpcProofs.Facts.Call", "JrpcProofs.Facts.OneShot", "JrpcProofs.Facts.Interp", "JrpcProofs.Trans.Backoff"],
        "assumptions": [
            "hooks only delay goroutines; two log entries written by different goroutines around one channel rendezvous may come in either order and are reconciled by the replayer (tau steps are counted in the evidence)",
            "ids of calls that are inside doRequest at the same time differ (id counter; int64 to float64 keys are injective below 2^53 calls)",
            "'returns' / 'completes' are proved in safety form (every outstanding attempt has an owner that can move; no step of the exit path waits on another party); the final step needs scheduler fairness",
            "the server starts one handler per request frame it reads (Jrpc.Frames.execFrame)",
        ],
        "timeout": 2400,
    },
    "C18": {
        "lean_modules": ["JrpcProofs.Props.C18", "JrpcProofs.Lemmas.Corr", "JrpcProofs.Facts.Corr", "JrpcProofs.Props.Sweep", "JrpcProofs.Facts.Sweep", "JrpcProofs.Facts.OneShot", "JrpcProofs.Facts.Stream", "JrpcProofs.Trans.Sweep", "JrpcProofs.Trans.CloseChans"],
        "assumptions": [
            "hooks only delay goroutines; two log entries written by different goroutines around one channel rendezvous may come in either order and are reconciled by the replayer (tau steps are counted in the evidence)",
            "ids of calls that are inside doRequest at the same time differ (id counter; int64 to float64 keys are injective below 2^53 calls)",
            "'returns' / 'completes' are proved in safety form (every outstanding attempt has an owner that can move; no step of the exit path waits on another party); the final step needs scheduler fairness",
        ],
        "timeout": 2400,
    },
    "C06": {
        "lean_modules": ["JrpcProofs.Props.C06", "JrpcProofs.Props.Epoch", "JrpcProofs.Facts.Call", "JrpcProofs.Facts.Cancel", "JrpcProofs.Facts.Corr", "JrpcProofs.Facts.Frames", "JrpcProofs.Facts.Stream", "JrpcProofs.Facts.OneShot", "JrpcProofs.Trans.NormalizeID", "JrpcProofs.Trans.CancelCtx"],
        "assumptions": [
            "the peer is honest: it writes xrpc.cancel [id] only for a caller (or subscription) whose context was cancelled; the client side of that is tied by the regenerated skeletons of doRequest and handleCtxAsync",
            "over HTTP the guarantee is net/http's request-context cancellation; the library-side facts (hreq.WithContext(ctx), ctx := r.Context()) are observed by the HTTP scenario",
            "Go contexts: a derived context is cancelled when its parent is",
        ],
    },
    "C16": {
        "lean_modules": ["JrpcProofs.Props.C16", "JrpcProofs.Props.Epoch", "JrpcProofs.Facts.Reverse", "JrpcProofs.Facts.Corr", "JrpcProofs.Facts.Dispatch", "JrpcProofs.Facts.Naming", "JrpcProofs.Facts.Cancel", "JrpcProofs.Facts.Frames", "JrpcProofs.Trans.Naming", "JrpcProofs.Trans.NextWriter", "JrpcProofs.Trans.CtxErr"],
        "assumptions": [
            "context.WithValue / Value and handler-context derivation are Go's (modelled as: a handler serving connection c sees exactly the value stored for c)",
            "'gone' means the server noticed the loss (FIN, RST, client close): the server side configures no timeout, so a silent peer is never noticed there (that is C17's territory, client side only)",
            "dispatch on the client-side handler table (aliases, method tags) is C11/C12's model, tied here by the skeleton of websocketClient and by scenarios",
            "Jrpc.Epoch (the answering side across a reconnect) assumes an honest peer on each connection: the ids of its pending requests are pairwise distinct, and nothing is read between the sweep and the installation of the next connection; a frame read from the old connection but executed after the sweep is the event reqLate (repair F18b)",
        ],
        "timeout": 1500,
    },
    "C17": {
        "lean_modules": ["JrpcProofs.Props.C17", "JrpcProofs.Facts.Keepalive", "JrpcProofs.Facts.Corr", "JrpcProofs.Facts.Options", "JrpcProofs.Facts.Stream", "JrpcProofs.Trans.Deadline"],
        "assumptions": [
            "G (largest gap between peer activities seen by this endpoint) and E (local latency between an activity, or a passed deadline, and the library acting on it; includes the time the main loop spends reading one frame) are environment parameters of the model, explicit guards of `tick`; the scenarios run with small ones",
            "a peer that answers pings gives G <= P + round trip: that the library's own ping handler does answer is tied by the healthy-link scenarios against every server ping setting (F10), not by a theorem",
            "the failing of pending calls and the start of the redial after the read failure are C02/C03's theorems over Jrpc.Corr (readerErr -> reconnBegin -> sweep); here they are observed at the proxy and the callers",
            "time bounds are asserted as 4 x timeout + 100 ms at the callers; trace times (hook timestamps, microseconds) are compared with 3 ms slack",
        ],
        "timeout": 1500,
    },
    "C15": {
        "lean_modules": ["JrpcProofs.Props.C15", "JrpcProofs.Props.C06", "JrpcProofs.Facts.Cancel", "JrpcProofs.Facts.Corr", "JrpcProofs.Facts.Params", "JrpcProofs.Facts.Reverse", "JrpcProofs.Facts.Stream", "JrpcProofs.Trans.Sweep"],
        "assumptions": [
            "the goroutine model (main loop, reader, executor, forwarder, pinger, response writers) is tied by regenerated skeletons and by the goroutine profile (pprof labels) after each scenario, not by trace replay",
            "handleWS closes the socket after handleWsConn returns; a blocked NextReader then fails; the handlers return once cancelled (reaction time is a scenario parameter)",
        ],
    },
}

HOOK_COMMITS = ["27ad88b", "955c941", "4436111", "27d3bdc", "cfd1fa3", "16566ab", "69a0f58", "1bdaa91", "ff29c2d", "bd5f6db", "8b6ad29", "f064c7d", "70c5feb", "ba84928", "b43f282"]
NOTES = ("Machine-checked proof in Lean 4 over a hand-written executable model of go-jsonrpc, tied to /repo on every run by "
         "(a) facts regenerated from the Go source with obligations re-checked by Lean, (a') a Go-to-MiniGo translator that regenerates one "
         "program per library function, with translation theorems (regenerated program = model, for all inputs) re-proved on every run for "
         "fifteen functions (DESIGN 4.1a), and (b) a correspondence harness that "
         "runs the real library and the model's executable definitions on the same cases / replays implementation traces "
         "through the model. See DESIGN.md.")

TB = ("Trusted: Lean 4.33.0 kernel (axioms propext, Classical.choice, Quot.sound only; audited per theorem each run), the "
      "reading of the property as theorem statements and monitors, the fact extractor and its expectations, the Go-to-MiniGo translator, "
      "the MiniGo interpreter and the extern semantics of the translation theorems, the correspondence "
      "harness (sampled coverage bounds the assurance that the model is the code). Modelled, not verified: Go runtime and "
      "scheduler, encoding/json, net/http, gorilla/websocket, TCP.")

CORRTIE = ("Tie: regenerated skeletons of handleWsConn/tryReconnect/closeInFlight/handleResponse/doRequest/nextMessage/readFrame + the client "
           "endpoint's hook trace of every scenario replayed through the model (events logged inside their critical sections; tau-saturation for "
           "channel rendezvous) + the property's clock-free monitors on what the callers observed.")

CHECKS = [
 {"property_id": "C09",
  "text": "Theorems over the model of handleReader/handle/response encoding: for every body, handler table and size the reply is "
          "empty (only for all-notification bodies) or exactly one JSON value; batches answer the id-bearing elements in order; "
          "codes -32700/-32600/-32601/-32602 without running a handler; id echo; exactly one of result/error (over the regenerated "
          "MarshalJSON facts). Tie: regenerated facts (codes, struct tags, MarshalJSON branches, handleFrame table, normalizeID arms) "
          "+ differential run of the real ServeHTTP against the model on grammar-generated bodies, with the property's monitor "
          "evaluated on the real reply; WebSocket clause: Jrpc.wsCall models handleCall's writer selection (discard writer for id-less frames), "
          "theorems C09_ws_notification_silent / C09_ws_exactly_one / C09_ws_exec_wire, tied by the skeleton of handleCall and by request frames "
          "from the same grammar sent over a raw WebSocket connection. Fourth round: bodies with bytes after the first JSON value (F19), failing notifications over HTTP with a strict monitor and theorem C09_http_notification_silent (F21), the largest size limit (F22), an endpoint without handlers (C09_ws_no_handler, F35).",
  "design_ref": "DESIGN.md §6 C09",
  "note": TB + " encoding/json is an oracle parameter of the model (per-element decodability is computed by the harness with the real decoder).",
  "technique": "Lean 4 theorems + translation theorems over the regenerated MiniGo programs (Wire, BatchWriter, HandleFrame) (induction over the batch fold, case analysis of handle) + regenerated facts + differential correspondence"},
 {"property_id": "C12",
  "text": "Theorems over the model of NewMethodNameFormatter/register/handle: a key of the method table always wins over an alias, "
          "the most recent registration under a key wins, alias fallback is a single hop through the method table, anything else is "
          "-32601 with no invocation; namespace-including dot formatters never let a request for fmt(ns,m) reach a method of another "
          "namespace (injectivity on dot-free method names, all strings); a handler runs only if arity and every positional param "
          "decode fit. Tie: regenerated facts (lookup order, gates before doCall, formatter shape) + exhaustive differential over the "
          "property's small universe through the real ServeHTTP and a real client per configuration."
          " Also: a method with several positional params and a mismatch at every position; alias chains. Fourth round: method names starting with a letter outside ASCII under every formatter, over http and ws (F29).",
  "design_ref": "DESIGN.md §6 C12",
  "note": TB + " Method names are assumed to start with an ASCII byte (lower-first slices one byte).",
  "technique": "Lean 4 theorems + translation theorems over the regenerated MiniGo programs (Naming) (list/lookup induction, injectivity of the formatter) + regenerated facts + exhaustive differential correspondence"},
 {"property_id": "C19",
  "text": "Theorems over the model of HasPerm/PermissionedProxy/auth.Handler for all permission lists and all strings: the wrapped "
          "method is invoked iff the required permission is in the effective set (attached, even if empty, else defaults), otherwise "
          "permission error and no invocation; ServeHTTP passes exactly verify(token) for 'Bearer t' from header or token query, nothing "
          "for token-less requests, 401 for wrong prefix or rejected token, header wins. Tie: exhaustive differential over the "
          "3-permission universe and header/query forms against the real auth package."
          " Also: permissions outside validPerms and histories in which the verifier's answer for a token changes between requests to one handler value. Fourth round: token-less requests with form-encoded bodies (attached set, status, and the body the next handler reads; F24), permissioned methods without a leading context (F25).",
  "design_ref": "DESIGN.md §6 C19",
  "note": TB,
  "technique": "Lean 4 theorems + translation theorems over the regenerated MiniGo programs (Auth, AuthHTTP, WithPerm) (decision logic stated outright) + exhaustive differential correspondence"},
 {"property_id": "C10",
  "text": "Theorems over the frame executor modelled as a total function with explicit crash outcomes (every slice index and map-key "
          "hash is a possible crash): for every endpoint state and every frame a peer can send (control methods with any params, ids of "
          "any JSON type, unrequested responses, undecodable buffers) and every finite sequence of them, no crash; control frames never "
          "start a handler nor alter registered calls; other connections' state is untouched; bodies are refused iff size > limit, with "
          "an error and no handler run. Tie: regenerated statement skeletons of cancelCtx/handleChanMessage/handleChanClose/frameExecutor/"
          "handleResponse + the property's frame grid and random sequences sent to a real server and (from a fake server) a real client "
          "running in child processes, compared with the model's predicted effects; sizes L-1..L+2 for 11 limits."
          " Also: the size boundary delivered with a declared length, chunked and through HandleRequest; interpreted facts for the handleFrame switch and normalizeID.",
  "design_ref": "DESIGN.md §6 C10",
  "note": TB + " Byte-level mutations are sampled, not proved; 'wedge' is observed as the same and other connections still answering.",
  "technique": "Lean 4 theorems + translation theorems over the regenerated MiniGo programs (NormalizeID, CancelCtx, ChanMessage, ChanClose, HandleFrame) (total executor with crash outcomes, induction over frame sequences) + regenerated skeleton facts + subprocess differential correspondence"},
 {"property_id": "C05",
  "text": "Theorems over three models. Jrpc.Backoff: for all minDelay <= maxDelay, all attempts and all jitters in [0,1) the redial/retry delay lies in "
          "[minDelay, maxDelay] and is positive. Jrpc.Redial (timed LTS of the redial goroutine, one event per hook site): every dial is at least "
          "minDelay after the later of the start of its redial goroutine and the previous dial, a run of duration T contains at most T/minDelay "
          "dials (never a busy loop), a client without a dial factory never dials, a successful redial returns to the fresh state and a later loss "
          "starts a new cycle. Jrpc.Corr: while the redial runs nothing is registered and requests fail fast; after the swap the error flag is clear, "
          "inflight is empty and the next request is registered. Jrpc.Redial.retryLoop: a retry-tagged call never returns the temporary connection "
          "error, re-sends only after one and returns as soon as an attempt is answered; an untagged call returns its first outcome (typed by "
          "C11.connection_error_typed when errors are mapped). PARTIAL: 'eventually returns a genuine result' = the loop returns once one attempt "
          "is answered + the next attempt is enabled on a healed connection; that the outage ends and the scheduler is fair are assumptions. "
          "Tie: regenerated skeletons of backoff.next, tryReconnect, handleWsConn, handleRpcCall, options; differential run of the real backoff.next; "
          "reconnect scenarios through the proxy (outage with k refused redials x error mapping, flapping server, no-reconnect, keepalive after heal — a timed healthy-link verdict, reported when a second run of the scenario fails too) "
          "whose redial events with hook times are replayed through Jrpc.Redial and whose retry attempts are compared with retryLoop.",
  "design_ref": "DESIGN.md §6 C05",
  "note": TB + " Float arithmetic is modelled exactly; only interval membership with a stated slack is compared.",
  "technique": "Lean 4 theorems + translation theorems over the regenerated MiniGo programs (Backoff, Options) (arithmetic over exact rationals; timed invariant of the redial LTS by induction over events; induction over the retry loop) + regenerated skeleton facts + differential correspondence + trace inclusion of reconnect scenarios"},
 {"property_id": "C11",
  "text": "Theorems over the model of createError / Errors registry / JSONRPCError.val / processResponse, for every application behaviour "
          "(error types' methods are parameters) and every pair of registration tables: caller error nil iff handler error nil; non-nil "
          "error gives the zero value; codes without a client-side type arrive as the generic error carrying the server's wire error "
          "(code 1 and the handler's message for plain unregistered types); a type registered under the same code on both sides "
          "(codec types: their own code) arrives as exactly that registered type with equal content when decode inverts encode; a failed "
          "conversion degrades to the generic error, never nil, and val is total. Tie: regenerated skeletons of createError/val/"
          "processResponse/processError + differential run with a family of real error types, random tables per side, all transports."
          " Also: wrapping errors (Unwrap chains), one type under two codes, and the monitor clause 'registered under the same code on both sides gives that type'.",
  "design_ref": "DESIGN.md §6 C11",
  "note": TB,
  "technique": "Lean 4 theorems + translation theorems over the regenerated MiniGo programs (Wire) (case analysis over capabilities and tables, parametric in the application) + regenerated skeleton facts + differential correspondence"},
 {"property_id": "C13",
  "text": "Theorems: a handler that panics after the gates yields an error response for its own id (handle is total, doCall's recover "
          "is the model's `panics` outcome); executing any call frame changes nothing of the endpoint but the list of started calls and "
          "its own registration (responses awaited, channels, deliveries, cancellations of every other call untouched); the panicking "
          "call's response is an error. Tie: regenerated facts (doCall defers recover before the only reflective call; handlerFunc used "
          "only through doCall; no other reflect Call in the package) + scenarios against a server in a child process: 6 panic payloads "
          "x {unary, notification, channel-returning} x {ws, http} x {alone, with concurrent callers and a stream}, observing the caller's "
          "error, sibling results, process survival and subsequent calls."
          " Also: payloads that are unhashable, unmarshalable, nil or net/http's abort sentinel, and handlers that panic after their caller cancelled. Fourth round: the victim server runs with GODEBUG=panicnil=1, so panic(nil) recovers as nil (F33).",
  "design_ref": "DESIGN.md §6 C13",
  "note": TB + " Reverse-call panics (client-side handlers) are exercised by the C16 scenarios, not here.",
  "technique": "Lean 4 theorems (frame lemma on the executor state) + regenerated facts + subprocess scenario correspondence"},
 {"property_id": "C01",
  "text": "Theorems over the model of the reflection proxy on both sides (handleRpcCall param building incl. custom encoders and raw params; "
          "handle's callParams incl. custom decoders; result path with processFuncOut positions), for every codec, signature and argument list: "
          "the handler is invoked with the context first iff declared and then exactly the JSON round trip of each argument into its declared "
          "type, in order, nothing else, and is not reached iff some round trip fails; raw params arrive verbatim; the caller's value is the round "
          "trip of the handler's value with a nil error, or the zero value with a non-nil error when the handler failed. Tie: regenerated skeletons "
          "of handleRpcCall/handle/register/makeRpcFunc/processFuncOut/param + differential run over 25 real signatures, the property's value "
          "classes, three transports and five formatters, with the property's oracle (json round trip, DeepEqual) evaluated on what the real handler received."
          " Also: a concurrent phase (12/24 goroutines per transport calling through one client with arguments only they use) and result types that merely have an Error method.",
  "design_ref": "DESIGN.md §6 C01",
  "note": TB + " encoding/json and reflect are parameters/trusted; the model executes on argument indices, value fidelity is checked by the harness oracle.",
  "technique": "Lean 4 theorems + translation theorems over the regenerated MiniGo programs (Naming, Outs) (structural induction over argument lists, parametric codec) + regenerated skeleton facts + differential correspondence"},
 {"property_id": "C20",
  "text": "Theorems over the model of waitReadCloser and the rendezvous table: for every read/close sequence of the handler and every "
          "chunking of the body the bytes handed over followed by the unread rest are exactly the caller's bytes; end-of-file is reported "
          "only when everything was delivered, then sticks for every further read; no sequence closes the wait channel twice (no crash); "
          "the upload request is released only by an end-of-file report or Close; for every interleaving of upload and decoder arrivals a "
          "decoder only ever receives a body uploaded under its own uuid. Tie: regenerated skeletons of waitReadCloser.Read/Close, "
          "ReaderParamDecoder/Encoder + scenarios with the real encoder/decoder pair (lengths around buffer sizes up to MiBs, 7 read "
          "patterns, both arrival orders, ws/http, 1..8 concurrent calls) whose traced reads are replayed through the model."
          " Also: reader sources that are files or section readers positioned after a consumed header, and pipes.",
  "design_ref": "DESIGN.md §6 C20",
  "note": TB + " The table's arrival interleavings are proved, not observed (no hook in httpio); scenarios force both orders.",
  "technique": "Lean 4 theorems + translation theorems over the regenerated MiniGo programs (WRC) (induction over read/close sequences and arrival events) + regenerated skeleton facts + trace replay of real reads through the model"},
 {"property_id": "C14",
  "text": "Theorems over the write-lock model (every writer site is begin; chunk*; end, begin enabled only when nobody holds the lock): for "
          "every interleaving of any number of writers the wire is a concatenation of complete messages (no chunk of another message between "
          "two chunks of one, one site per message), a second writer can never enter, chunks are never written to a connection after it was "
          "replaced and the swap happens inside a section; the executable section monitor agrees with the model's acceptance. Tie: regenerated "
          "table of every use of c.conn with its lock state (all writers and the swap locked; the remaining reads listed with their ordering "
          "argument) + rounds of a mixed workload (sizes 1 B..300 kB, notifications, cancels, streams, reverse calls, pings on both ends, "
          "reconnect) under seed-driven delays: each connection's w.begin/w.end hook trace is replayed through the model and every frame the "
          "proxy reassembles must be one well-formed JSON-RPC frame; plus a race-detector run of the same scenarios and of the "
          "ping-pending-at-loss schedule (support for the 'no unsynchronised access' clause)."
          " Also: race-detector schedules PongCut and SubCut; skeletons of sendRequest, nextWriter, lazyWriter and setupPings. Fourth round: raw params that are not JSON must not put an empty message on the wire (F27).",
  "design_ref": "DESIGN.md §6 C14",
  "note": TB + " PARTIAL for the second clause: unsynchronised reads are covered by the regenerated use table and the race detector (dynamic), not by a memory-model proof.",
  "technique": "Lean 4 theorems + translation theorems over the regenerated MiniGo programs (NextWriter) (wire invariant by induction over lock events) + regenerated facts + hook-trace inclusion + wire monitor + race-detector support"},
 {"property_id": "C07",
  "text": "Theorems over the subscription pipeline model (forwarder, FIFO wire, frame executor, sink, 32-slot buffer, unbounded list, caller "
          "channel; one event per hook site): in every reachable state received ++ inTransit = sent (ordered, duplicate-free, nothing invented); "
          "nothing in transit implies everything delivered; a channel closed by the handler's close on an uncancelled subscription has "
          "delivered every value; the close notification is executed only after every value frame; no value is executed or forwarded before "
          "the announcement; events of one subscription leave every other untouched; whenever the executor holds a value it cannot place, the "
          "buffer goroutine has a move that does not depend on the consumer (or the value is discarded on cancel). Tie: regenerated skeletons "
          "of handleOutChans/makeOutChan/closeChans/handleChanMessage/handleChanClose + scenarios (1..4 subscriptions, lengths around every "
          "buffer size, slow and stalled consumers next to unary calls, delays at every hook) whose per-subscription hook traces are replayed "
          "through the model and compared with what the consumers received; wire order checked on proxy frames."
          " Also: Jrpc.Forwarder models the two parallel slices of handleOutChans (alignment invariant; every value and close carries the id announced for its handler channel) with the forwarder's hook events replayed; streams of non-scalar elements compared after the stream ended.",
  "design_ref": "DESIGN.md §6 C07",
  "note": TB + " PARTIAL: liveness ('arrive', 'blocks neither') is proved in safety form and observed with time-outs.",
  "technique": "Lean 4 theorems + translation theorems over the regenerated MiniGo programs (ChanMessage, ChanClose) (FIFO-with-a-cut invariant by induction over events, refinement to a queue) + regenerated skeleton facts + hook-trace inclusion"},
 {"property_id": "C08",
  "text": "Theorems over the same model with the four termination causes as events: in every reachable state what the caller received is a "
          "prefix of what the handler sent; the close of the caller channel is enabled at most once, closed stays closed and nothing is "
          "delivered afterwards (for every continuation); neither a double close of the internal buffer nor a send on it after its close is "
          "reachable, whichever causes race; after each cause the close is enabled once the consumer has drained (immediately on cancel) and "
          "while values are buffered the buffer goroutine has a move. Tie: as C07 + scenarios over cause x instant x reconnect x fault kind "
          "(including faults armed at 5 byte positions of the channel-id response, cancel racing loss, loss then close), every handed-out "
          "channel must close and stay a prefix."
          " Also: Jrpc.Forwarder (as C07) and Jrpc.Sweep (order of the sweeps on the exit and reconnect paths); a stale subscription context cancelled after a reconnect must not touch the subscription that reuses its channel id. Fourth round: a subscription through a proxy field without a context parameter, client in a child process (F23).",
  "design_ref": "DESIGN.md §6 C08",
  "note": TB + " PARTIAL: 'eventually closed' = enabledness + fairness; observed with time-outs. F12 (sink registered after the sweep) is decided by the C03 scenarios: the subscribing call then fails and no channel is handed out.",
  "technique": "Lean 4 theorems + translation theorems over the regenerated MiniGo programs (ChanMessage, ChanClose, CloseChans) (prefix invariant, close-once, crash-freedom by induction over events) + regenerated skeleton facts + hook-trace inclusion"},
 {"property_id": "C02",
  "text": "Theorems over the correlation model (callers, main loop, frame executor, sweep, reconnect, exit; one event per hook site; ~35 "
          "invariant clauses preserved by all 24 events): whatever a caller takes from its ready channel is the connection error, its own "
          "notification ack, or a response frame carrying exactly its own id; a caller receives at most once and the channel never holds more "
          "than one message; a response whose id is registered is handed to exactly the attempt registered under it, unknown ids are dropped "
          "without touching any attempt; one-shot transports accept a response only if its normalised id equals the request's. "
          + CORRTIE + " Scenarios: every completion permutation for N<=3 (4, 5 sampled), random orders up to 25 callers, HTTP server answering with foreign ids."
          " Also: concurrent calls alternate between two generated functions (ids are per client); interpreted facts for normalizeID and the id counter. Fourth round: calls whose request cannot be written (raw params that are not JSON, F27) and whose result cannot be encoded (F26) must still return.",
  "design_ref": "DESIGN.md §6 C02",
  "note": TB + " Stated bound: ids are distinct below 2^53 calls per client.",
  "technique": "Lean 4 theorems + translation theorems over the regenerated MiniGo programs (NormalizeID, NextWriter) (invariants by induction over events, grind-assisted) + regenerated skeleton facts + hook-trace inclusion"},
 {"property_id": "C03",
  "text": "Theorems: in every reachable state an id-bearing attempt that was taken and has no answer yet is being handled by the main loop, "
          "or registered in inflight under its own id, or held by the frame executor — there is no other place (ownership); during the "
          "reconnect window the connection is marked bad on both detection paths, the fail-fast check can only come out bad, and a request "
          "is registered only after a good check with no redial in progress; the sweep leaves every swept attempt with an answer and its "
          "sends can never block; entries belong to the current epoch; no foreign results under faults. " + CORRTIE +
          " Scenarios: fault kind x 5 byte positions x direction x frame x call timing (before noticed / in the window / after recovery), "
          "double faults, and two gated schedules (sweep versus executor; a late delete versus a retried call)."
          " Also: calls issued after the connection goroutine ended (closer, loss on a no-reconnect client) must fail, not block. Fourth round: a silent stall while a 48 MiB request is being written (proxy fault `stall`: silent and no longer reading; F34).",
  "design_ref": "DESIGN.md §6 C03",
  "note": TB + " PARTIAL: 'every call returns' = ownership + enabledness + scheduler fairness; observed with the clock-free oracle (a later probe round-tripped).",
  "technique": "Lean 4 theorems + translation theorems over the regenerated MiniGo programs (Sweep, CtxErr) (ownership invariant by induction over events) + regenerated skeleton facts + hook-trace inclusion + gated schedules"},
 {"property_id": "C04",
  "text": "Theorems: under every event list at most one request frame is written per attempt and its handler runs at most once; whenever "
          "the executor holds a genuine response for an attempt, that attempt was executed exactly once; a notification is never registered, "
          "never receives a response frame; no step other than the main loop's handling of a fresh request writes a request frame "
          "(reconnect and exit never re-send). " + CORRTIE + " Scenarios: the C03 grid with per-token execution counters and per-token frame counts at the proxy."
          " Also: an untagged subscription whose response is lost must not be re-sent; HTTP calls whose connection dies after execution are executed once; an untagged declaration next to a retry-tagged one of the same method is not retried; HTTP notifications execute exactly once.",
  "design_ref": "DESIGN.md §6 C04",
  "note": TB + " A retry-tagged call is a sequence of attempts (contrast case); the regenerated retry conjuncts pin when a new attempt starts.",
  "technique": "Lean 4 theorems + translation theorems over the regenerated MiniGo programs (Backoff) (counting invariants) + regenerated facts + hook-trace inclusion + wire counts"},
 {"property_id": "C18",
  "text": "Theorems: no step of the exit path can be disabled by a caller, the frame executor or the peer (the sweep's sends are non-blocking, "
          "clearing is enabled once every entry was visited); once exiting is closed nothing is registered or can be registered or taken, every "
          "taken attempt has an answer or is held by the executor whose send is enabled, every untaken attempt can return the exiting error; "
          "no swap without a running redial. " + CORRTIE + " Scenarios: the closer fired at sampled occurrences of 25 yield-point sites of a mixed workload, "
          "the sweep-versus-executor schedule with the closer as observer, closers of one-shot clients."
          " Also: the closer fired while the redial goroutine is about to sleep, contexts cancelled at the moment of the close, a subscriber twelve thousand values behind at the close. Fourth round: close after 0/1/2 reconnects with a goroutine dump for keepalive goroutines (F38).",
  "design_ref": "DESIGN.md §6 C18",
  "note": TB + " PARTIAL: completion = safety form + fairness; observed with time-outs.",
  "technique": "Lean 4 theorems + translation theorems over the regenerated MiniGo programs (Sweep, CloseChans) (exit-path enabledness, post-exit invariant) + regenerated skeleton facts + hook-trace inclusion + gated closes"},
 {"property_id": "C06",
  "text": "Theorems over the server-role model (handler contexts derived from the connection context, the handling map, cancel frames, "
          "done(keepCtx), the sweep, connection end): executing xrpc.cancel [id] cancels exactly the handler registered under id and changes "
          "no other handler, registration or connection state; in every reachable state a handler that sees its context cancelled while its "
          "connection is up was cancelled by a cancel frame carrying its own id, or returned without keeping its context, or was swept — "
          "nothing else; hence handlers whose id never appeared in a cancel frame stay live; a call that keeps its context (subscription) stays "
          "registered after its handler returned. Tie: regenerated skeletons of handleCall/cancelCtx/handleCtxAsync/doRequest + scenarios "
          "(subsets cancelled at four instants, a second connection, HTTP abort) whose server-connection hook traces are replayed through the "
          "model and compared with the contexts captured inside the real handlers."
          " Also: subscriptions cancelled while their handler is still setting up, ids of every JSON type from a foreign peer, subscriptions ended by the server next to open ones; a reverse call on a reconnected client cancelled after a handler of the previous connection with the same request id returned (Jrpc.Epoch: Epoch_cancel_reaches, Epoch_cancel_only; F18). Fourth round: the context given to NewClient cancelled with a call in flight (F32).",
  "design_ref": "DESIGN.md §6 C06",
  "note": TB + " HTTP cancellation is net/http's; honest-peer hypothesis for 'only if the caller cancelled'.",
  "technique": "Lean 4 theorems + translation theorems over the regenerated MiniGo programs (NormalizeID, CancelCtx) (frame lemma + cause invariant by induction over events) + regenerated skeleton facts + hook-trace inclusion"},
 {"property_id": "C15",
  "text": "Theorems: once the connection has ended every started handler sees its context cancelled (contexts derive from the connection's; "
          "the sweep additionally cancels every registered call), the end is permanent and no handler starts afterwards; over the goroutine "
          "model of one connection every step after the exit strictly decreases a rank and, while anything is left, some step is enabled "
          "(a reader holding a message notices exiting, a blocked NextReader fails once the socket is closed, a writer that cannot get a "
          "message writer releases its handler): every maximal run ends with no library goroutine left. Tie: regenerated skeletons "
          "(handleCall, lazyWriter.Write, nextWriter, nextMessage, readFrame, setupPings) + scenarios over end cause x reaction time with five "
          "kinds of handler in progress and the gated reader-hand-off schedule: captured contexts must be cancelled, the goroutine profile "
          "filtered by the connection's pprof labels must drain, and the server connection's trace is replayed through Jrpc.Cancel."
          " Also: raw-peer scenarios (a writer stalled on a peer that does not read, then FIN or server-side cancel; a partial frame when the server cancels; a reverse call whose write fails). Fourth round: one keepalive ping from the peer while the response writer is stalled, then close frame / server-side cancel (F37).",
  "design_ref": "DESIGN.md §6 C15",
  "note": TB + " The goroutine model is tied by skeleton facts and profile observation, not by trace replay.",
  "technique": "Lean 4 theorems + translation theorems over the regenerated MiniGo programs (Sweep) (context derivation, ranking function + progress over the goroutine model) + regenerated skeleton facts + goroutine-profile observation + hook-trace inclusion"},
 {"property_id": "C16",
  "text": "Theorems over a family of Jrpc.Corr endpoints (one per connection): the reverse client found in a handler's context names the "
          "endpoint of the connection being served and every event of a reverse call is an event of that endpoint (affinity); in any run of "
          "any population under any interleaving the projection onto one connection is a Jrpc.Corr run of its own events (population "
          "independence), so C02's ownership theorem and C18's after-exit theorem hold per connection: once a connection is gone nothing "
          "stays registered, taken reverse calls have their answer, waiting ones can return the exiting error, and a reverse call started "
          "later is never taken and fails at once; over HTTP / custom transports or without the server option nothing is found. Tie: "
          "regenerated skeletons (WithReverseClient, ExtractReverseClient, handleWS, ServeHTTP, websocketClient + the Corr set) + scenarios: "
          "1,2,3,5 clients with identity-returning reverse handlers, sequential / parallel / nested / aliased / failing / missing reverse calls; "
          "loss (FIN, RST, close) before, during, inside the reverse request frame and inside the reverse response frame with the handler's or a "
          "background context; absence over HTTP and without the option; both endpoints of every connection replayed through Jrpc.Corr."
          " Also: reverse notifications while the client goes away; reverse calls made by the handler of a notification."
          " The answering side on a reconnecting client is Jrpc.Epoch (connection epoch, guarded response writer, handling map): "
          "Epoch_answer_own — every response written on a connection under an id comes from the invocation started for the request with "
          "that id which arrived on that connection — with the invariant proved for every event; scenario StaleAnswer (a handler of the "
          "previous connection returns while the same id is pending on the new one), its serving-side trace replayed through op epoch (F18). Fourth round: a reverse subscription after a loss during which the old producer emitted (F20), a shared non-default formatter without aliases (F28), a client without handlers (F35), a large reverse request still queued when its connection ended (F18b).",
  "design_ref": "DESIGN.md §6 C16",
  "note": TB,
  "technique": "Lean 4 theorems + translation theorems over the regenerated MiniGo programs (Naming, NextWriter, CtxErr) (frame/projection lemma over a product of LTSs, corollaries of the Corr invariants) + regenerated skeleton facts + hook-trace inclusion per endpoint + scenario monitors"},
 {"property_id": "C17",
  "text": "Theorems over a timed model of the two detectors of one connection (read deadline, main-loop idle timer) for every timeout T, "
          "activity gap G and local latency E and every interleaving of activity / renewal / re-arm / local traffic / time: if G + E < T then on "
          "every run without silence both detectors stay ahead of the clock and neither failure is ever enabled (calls of any duration and "
          "idle periods of any length are just such runs); on EVERY run, once the peer fell silent at t0 the connection is given up no later "
          "than t0 + T + 2E (time cannot pass that point otherwise), because the read deadline is renewed only against peer activity — "
          "local traffic re-arms only the idle timer. Tie: regenerated skeletons (setupPings, resetReadDeadline, nextMessage, "
          "deadlineResetReader.Read, handleWsConn) and constants + timed scenarios over (ping, timeout) pairs x the server's ping setting "
          "{default 5 s, off, equal} with a call lasting 3 timeouts and idle gaps (exactly one connection may be accepted) and blackhole runs "
          "(idle / during a call / under local traffic) whose pending call must fail with the typed connection error and whose redial must "
          "start within 4 timeouts; the client connection's timestamped hook trace (activity, renewals, re-arms, read failures, timer firings) "
          "is replayed through the model's acceptor: no failure before its armed deadline, no renewal without an activity to consume."
          " Also: a peer silent from the first moment of a connection, keepalive after a reconnect, a peer slow to read for two seconds; healthy-link verdicts are conclusive only if a lag probe (scheduler and hook runtime) and the proxy's frame log show a responsive environment, and are reported when a second run of the same scenario fails too (fw.Confirmed; differences between trace and model are reported from the first run). Fourth round: a redial that completes shortly before the idle timer armed at the loss is due (F36; schedule gated by the lag probe).",
  "design_ref": "DESIGN.md §6 C17",
  "note": TB + " PARTIAL: G and E are environment assumptions; wall-clock behaviour is sampled by the scenarios, not proved.",
  "technique": "Lean 4 theorems + translation theorems over the regenerated MiniGo programs (Deadline) (two invariants by induction over timed events) + regenerated skeleton facts + timed hook-trace acceptance + scenario monitors"},
]

_PENDING = "check under construction in this round (see DESIGN.md §13 build order); not claimed until its theorem file, tie and unchanged-tree sweep exist"
NOT_APPLICABLE = [{"property_id": f"C{n:02d}", "reason": _PENDING} for n in range(1, 21) if f"C{n:02d}" not in {c["property_id"] for c in CHECKS}]

#!/usr/bin/env python3
"""Regenerates /verif/MANIFEST.json from bin/manifest_data.py (kept as data so it stays valid)."""
import json, os, sys
sys.path.insert(0, os.path.dirname(os.path.abspath(__file__)))
from manifest_data import CHECKS, NOT_APPLICABLE, HOOK_COMMITS, NOTES
V = os.path.dirname(os.path.dirname(os.path.abspath(__file__)))
m = {
 "version": 1,
 "setup_cmd": "cd /verif && bin/setup",
 "hooks": {
  "guard": "verif",
  "enable": "go build -tags verif (the harness module replaces github.com/filecoin-project/go-jsonrpc with /repo, so every check compiles the working tree with the hooks on)",
  "baseline_off_cmd": "cd /repo && GOFLAGS=-mod=mod GOPROXY=off GOSUMDB=off go test -vet=off -count=1 -timeout 25m ./...",
  "source_commits": HOOK_COMMITS,
  "add_only": True,
 },
 "engines": [
  {"name": "lean-model", "path": "/verif/lean", "serves_properties": [c["property_id"] for c in CHECKS],
   "kind_free_text": "Lean 4 model of go-jsonrpc (Jrpc/*), property theorems (JrpcProofs/Props/*), obligations over facts regenerated from the Go source (JrpcProofs/Facts/*), model driver (jrpc-driver)"},
  {"name": "go-harness", "path": "/verif/harness", "serves_properties": [c["property_id"] for c in CHECKS],
   "kind_free_text": "fact extractor (go/ast) and correspondence harness running the real library in-process against the Lean driver"},
 ],
 "checks": [],
 "notes": NOTES,
 "not_applicable": NOT_APPLICABLE,
}
for c in CHECKS:
    pid = c["property_id"]
    m["checks"].append({
        "property_id": pid,
        "quick_cmd": f"bin/check {pid} --tier quick",
        "thorough_cmd": f"bin/check {pid} --tier thorough",
        "evidence_file": f"/verif/evidence/{pid}.json",
        "replay_cmd_template": f"bin/check {pid} --replay {{path}}",
        "engine": "lean-model",
        "level_claimed": {"category": c.get("category", "proof"), "text": c["text"], "design_ref": c["design_ref"]},
        "level_note": c["note"],
        "technique": c["technique"],
    })
json.dump(m, open(os.path.join(V, "MANIFEST.json"), "w"), indent=1)
print("wrote MANIFEST.json with", len(m["checks"]), "checks,", len(NOT_APPLICABLE), "not applicable")

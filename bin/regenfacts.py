#!/usr/bin/env python3
"""Development-time helper: re-pin the skeleton obligations of an existing JrpcProofs/Facts/<Name>.lean
(same functions, same doc strings) against the current lean/Jrpc/Generated/Facts.lean.  Used after a
deliberate change to /repo (a fix: commit or new hooks), never by a check."""
import re, subprocess, sys
for name in sys.argv[1:]:
    src = open(f'/verif/lean/JrpcProofs/Facts/{name}.lean').read()
    imp = re.match(r'import (\S+)', src).group(1)
    specs = re.findall(r'/-- (.*?) -/\ntheorem skel_(\w+)_shape', src, re.S)
    others = [t for t in re.findall(r'^(?:theorem|def|example|lemma)\s+(\S+)', src, re.M) if not re.fullmatch(r'skel_\w+_shape', t)]
    if others or not specs:
        print(f'{name}: not a pure skeleton file (also holds {others[:3]}…): left alone; edit it by hand')
        continue
    subprocess.check_call(['python3', '/verif/bin/mkskelfacts.py', name, imp] + [f'{fn}:{doc}' for doc, fn in specs])

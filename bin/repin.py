#!/usr/bin/env python3
"""bin/repin.py <skel-name>...   (development tool, never run by a check)
Re-pins `theorem skel_<name>_shape : Generated.skel_<name> = [ ... ] := rfl` in every JrpcProofs/Facts/*.lean that
states it, to the list currently in lean/Jrpc/Generated/Facts.lean.  Used after a deliberate change to /repo (a fix:
commit or new hooks): the new skeleton is read by a person first (the diff is printed), then pinned."""
import glob, re, sys, difflib
gen = open('/verif/lean/Jrpc/Generated/Facts.lean').read()
for name in sys.argv[1:]:
    m = re.search(r'def skel_%s : List String := \[\n(.*?)\]\n' % re.escape(name), gen, re.S)
    if not m:
        print(f'{name}: no such generated skeleton'); continue
    new_items = m.group(1)
    hit = False
    for path in glob.glob('/verif/lean/JrpcProofs/Facts/*.lean'):
        src = open(path).read()
        pat = re.compile(r'(Generated\.skel_%s = \[\n)(.*?)(\] := rfl)' % re.escape(name), re.S)
        mm = pat.search(src)
        if not mm:
            continue
        hit = True
        old_items = mm.group(2)
        if old_items.strip() == new_items.strip():
            print(f'{name}: {path} already current'); continue
        for l in difflib.unified_diff(old_items.splitlines(), new_items.splitlines(), 'pinned', 'generated', lineterm='', n=1):
            print('   ', l)
        src = src[:mm.start(2)] + new_items + src[mm.end(2):]
        open(path, 'w').write(src)
        print(f'{name}: re-pinned in {path}')
    if not hit:
        print(f'{name}: no theorem pins it')

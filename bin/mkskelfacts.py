#!/usr/bin/env python3
"""Development-time helper: writes a JrpcProofs/Facts/<Name>.lean file whose theorems pin the current
statement skeletons of the listed functions (the hand-written model transcribes exactly these).
usage: mkskelfacts.py <Name> <import> <fn:doc> ...   (reads lean/Jrpc/Generated/Facts.lean)"""
import re, sys
name, imp = sys.argv[1], sys.argv[2]
src = open('/verif/lean/Jrpc/Generated/Facts.lean').read()
def skel(n):
    m = re.search(r'def %s : List String := \[\n(.*?)\]\n' % n, src, re.S)
    if not m:
        m = re.search(r'def %s : List String := \[(.*?)\]\n' % n, src, re.S)
    return m.group(1)
out = f'''import {imp}
import Jrpc.Generated.Facts
/-
  Obligations over the regenerated facts: the statement skeletons (normalised control flow; log lines,
  comments and formatting removed) of the functions that `{imp}` transcribes are the ones the model was
  written against.  A change to any of them breaks this file; the check then searches for a failing input.
-/
namespace Jrpc.Facts

'''
for spec in sys.argv[3:]:
    fn, doc = spec.split(':', 1)
    out += f'/-- {doc} -/\ntheorem skel_{fn}_shape :\n    Generated.skel_{fn} = [\n{skel("skel_"+fn)}] := rfl\n\n'
out += 'end Jrpc.Facts\n'
open(f'/verif/lean/JrpcProofs/Facts/{name}.lean', 'w').write(out)
print('wrote', name)

#!/usr/bin/env python3
"""bin/r5table.py (development tool): renders the fifth-round table of DESIGN.md §14 from /verif/seeded/*-r5-*/meta.json."""
import glob, json
rows = []
for d in sorted(glob.glob('/verif/seeded/*-r5-*')):
    m = json.load(open(d + '/meta.json'))
    needs = m['needs_to_manifest'].replace('|', '/').replace('\n', ' ')
    rows.append(f"| {m['id']} | {needs[:330]} | {m['detected_by'].replace('|', '/')[:330]} |")
print("| seeded change | what it needs to manifest | detection |\n|---|---|---|")
print("\n".join(rows))

import Jrpc.Base
import Jrpc.Dispatch
import Jrpc.Framing
import Jrpc.Codec
import Jrpc.Ops

import Jrpc.Dispatch
/-
  Jrpc.Call — the reflection proxy on both sides of one call:
    client.go  `makeRpcFunc`, `handleRpcCall`, `processResponse`, `processError`
    handler.go `register`, `handle` (building `callParams`), util.go `processFuncOut`, `param`.

  JSON is an opaque codec (rule 5 of DESIGN §3.2): values are tokens of type `V`, wire texts are
  tokens of type `J`; `marshal`/`unmarshal` and the optional custom encoder/decoder per declared
  type are parameters.  What the model carries is the index bookkeeping the Go code does with
  `hasCtx`, `valOut`, `errOut`, and the order of encode / decode steps.
-/
namespace Jrpc.Call

/-- The application's and encoding/json's behaviour, as parameters. -/
structure Codec (V J : Type) where
  marshal    : V → Option J                   -- json.Marshal of one value
  unmarshal  : String → J → Option V          -- json.Unmarshal into the declared type (by name)
  encoder    : String → Option (V → Option V) -- WithParamEncoder for this declared type
  decoder    : String → Option (J → Option V) -- WithParamDecoder for this declared type
  zero       : String → V                     -- zero value of a declared type

/-- A method signature as both `makeRpcFunc` and `register` analyse it. -/
structure Sig where
  hasCtx : Bool
  ptypes : List String          -- declared parameter types after the context
  raw    : Bool                 -- exactly one parameter, of type RawParams
  out    : OutShape
  vty    : String := ""         -- declared type of the value result (when there is one)
  deriving Repr, DecidableEq, Inhabited

def Sig.hasCtxN (s : Sig) : Nat := if s.hasCtx then 1 else 0

/-- `processFuncOut`: positions of the value and error results and their number. -/
def processFuncOut : OutShape → (Option Nat × Option Nat × Nat)
  | .none   => (none, none, 0)
  | .val    => (some 0, none, 1)
  | .err    => (none, some 0, 1)
  | .valErr => (some 0, some 1, 2)

/-- One argument slot of a Go call. -/
inductive Arg (V : Type) where
  | ctx
  | val (v : V)
  | rawParams (j : String)       -- a RawParams value: wire text verbatim
  deriving Repr, DecidableEq

/-- What goes into `request.Params`. -/
inductive WireParams (J : Type) where
  | arr (elems : List J)
  | raw (text : String)
  deriving Repr, DecidableEq

/-- Encoding of one positional argument: custom param encoder if one is registered for the declared
    type, then `json.Marshal`. -/
def encodeOne {V J} (c : Codec V J) (ty : String) (a : Arg V) : Option J :=
  match a with
  | .val v =>
    match c.encoder ty with
    | some enc => (enc v).bind c.marshal
    | none => c.marshal v
  | _ => none

/-- The loop over `args[fn.hasCtx:]` in `handleRpcCall` (Go's type system keeps both lists equally long). -/
def encodeAll {V J} (c : Codec V J) : List String → List (Arg V) → Option (List J)
  | [], [] => some []
  | t :: ts, a :: as =>
    match encodeOne c t a with
    | none => none
    | some j => (encodeAll c ts as).map (j :: ·)
  | _, _ => none

/-- Client side: `handleRpcCall` builds the params from `args[fn.hasCtx:]`.  `none` = the call fails
    locally (encoder or marshal error) before anything is sent. -/
def clientParams {V J} (c : Codec V J) (s : Sig) (args : List (Arg V)) : Option (WireParams J) :=
  let rest := args.drop s.hasCtxN                       -- args[fn.hasCtx:]
  if s.raw then
    match rest with
    | Arg.rawParams j :: _ => some (.raw j)               -- args[fn.hasCtx] as RawParams, verbatim
    | _ => none
  else (encodeAll c s.ptypes rest).map .arr

/-- Decoding of one positional param: custom decoder if registered, else `json.Unmarshal` into the
    declared type. -/
def decodeOne {V J} (c : Codec V J) (ty : String) (j : J) : Option (Arg V) :=
  match c.decoder ty with
  | some dec => (dec j).map .val
  | none => (c.unmarshal ty j).map .val

/-- The loop over `handler.nParams` in `handle`; a length mismatch is the arity gate. -/
def decodeAll {V J} (c : Codec V J) : List String → List J → Option (List (Arg V))
  | [], [] => some []
  | t :: ts, j :: js =>
    match decodeOne c t j with
    | none => none
    | some a => (decodeAll c ts js).map (a :: ·)
  | _, _ => none

/-- Server side: `handle` fills `callParams` (receiver at 0, context at 1 if declared, then the
    decoded params at `i + 1 + hasCtx`).  The receiver is left implicit; the result lists the slots
    after it.  `none` = rejected before the call (C12's gates). -/
def serverArgs {V J} (c : Codec V J) (s : Sig) (w : WireParams J) : Option (List (Arg V)) :=
  let ctxSlot : List (Arg V) := if s.hasCtx then [.ctx] else []
  if s.raw then
    match w with
    | .raw j => some (ctxSlot ++ [.rawParams j])
    | .arr _ => none
  else
    match w with
    | .raw _ => none
    | .arr elems => (decodeAll c s.ptypes elems).map (ctxSlot ++ ·)

/-- What the handler body returns. -/
inductive HRet (V : Type) where
  | vals (v : Option V) (failed : Bool)    -- value (if the signature has one) and whether err ≠ nil
  deriving Repr, DecidableEq

/-- What the caller gets back from the proxy function, slot by slot. -/
structure CallerOut (V : Type) where
  val : Option V          -- the value slot (none when the signature has none)
  err : Option Bool       -- the error slot: some true = non-nil, some false = nil, none = no slot
  deriving Repr, DecidableEq

/-- Result path: `handle` encodes the value (unless the handler failed), the client decodes it into
    the declared type (`resp.Result != nil`), `processResponse` places value and error by
    `valOut` / `errOut`. -/
def callerOut {V J} (c : Codec V J) (s : Sig) (r : HRet V) : Option (CallerOut V) :=
  let (valOut, errOut, _) := processFuncOut s.out
  match r with
  | .vals v failed =>
    if failed && errOut.isSome then
      -- error response: no result member; the value slot keeps the zero value
      some { val := valOut.map (fun _ => c.zero s.vty), err := errOut.map (fun _ => true) }
    else
      match valOut, v with
      | some _, some v =>
        match (c.marshal v).bind (c.unmarshal s.vty) with
        | some v' => some { val := some v', err := errOut.map (fun _ => false) }
        | none => none                              -- "unmarshaling result" ↦ processError
      | some _, none => none
      | none, _ => some { val := none, err := errOut.map (fun _ => false) }

/-- The JSON round trip of one argument into its declared type (the oracle the property names),
    through the custom encoder/decoder pair when one is registered. -/
def roundTrip {V J} (c : Codec V J) (ty : String) (v : V) : Option V :=
  let enc := match c.encoder ty with | some e => e v | none => some v
  enc.bind c.marshal |>.bind (fun j => match c.decoder ty with | some d => d j | none => c.unmarshal ty j)

end Jrpc.Call

/-
  Jrpc.Backoff — `backoff.next` (util.go).

  The float computation `minf * 1.5^attempt + jitter * minf` is modelled exactly over the rationals
  (numerator / denominator of naturals; `jitter = jn / jd ∈ [0,1)`); the comparison against
  `maxDelay` happens on that exact value *before* the conversion to an integer duration, which is
  what keeps the conversion in range.  Durations are nanoseconds.
-/
namespace Jrpc

structure Backoff where
  minDelay : Nat
  maxDelay : Nat
  deriving Repr, DecidableEq, Inhabited

/-- numerator and denominator of `minDelay * 1.5^a + (jn/jd) * minDelay`. -/
def Backoff.num (b : Backoff) (a jn jd : Nat) : Nat := b.minDelay * 3 ^ a * jd + b.minDelay * jn * 2 ^ a
def Backoff.den (a jd : Nat) : Nat := 2 ^ a * jd

/-- `next(attempt)`; a negative attempt returns `minDelay` (the model takes `none` for it). -/
def Backoff.next (b : Backoff) (attempt : Option Nat) (jn jd : Nat) : Nat :=
  match attempt with
  | none => b.minDelay
  | some a =>
    if b.num a jn jd > b.maxDelay * Backoff.den a jd then b.maxDelay   -- durf > maxDelay
    else b.num a jn jd / Backoff.den a jd                                -- time.Duration(durf)

/-- Interval of possible results for an attempt, over all jitters (used by the differential check). -/
def Backoff.lo (b : Backoff) (a : Nat) : Nat := min b.maxDelay (b.minDelay * 3 ^ a / 2 ^ a)
def Backoff.hi (b : Backoff) (a : Nat) : Nat := min b.maxDelay ((b.minDelay * 3 ^ a + b.minDelay * 2 ^ a) / 2 ^ a)

end Jrpc

import Jrpc.Dispatch
/-
  Jrpc.Frames — the frame executor of one wsConn endpoint as a total function with explicit
  crash outcomes (websocket.go: `frameExecutor`, `handleFrame`, `cancelCtx`, `handleChanMessage`,
  `handleChanClose`, `handleResponse`, `handleCall`).

  Every Go operation that can panic is an explicit `crash`: slice indexing is `l[i]?` with
  `none ↦ crash`, a map access with an unhashable dynamic key is `crash`.  C10 is the statement
  that `crash` is unreachable for every state and every frame a peer can send.
-/
namespace Jrpc

/-- One decoded JSON value of a params array: its shape and its canonical text. -/
structure JVal where
  shape : JShape
  text  : String
  deriving Repr, DecidableEq, Inhabited

/-- Params of a control frame, after `json.Unmarshal(req.Params, &params)` into `[]param`. -/
inductive CtlParams where
  | absent                 -- empty RawMessage: Unmarshal fails ("unexpected end of JSON input")
  | null                   -- JSON null: Unmarshal succeeds with a nil slice
  | nonArray               -- object / string / number / bool: Unmarshal fails
  | arr (elems : List JVal)
  deriving Repr, DecidableEq, Inhabited

/-- `some elems` when the Unmarshal into `[]param` succeeded. -/
def CtlParams.decoded : CtlParams → Option (List JVal)
  | .absent => none
  | .nonArray => none
  | .null => some []
  | .arr es => some es

/-- What `json.Unmarshal(data, &id)` into `interface{}` followed by `normalizeID` yields as a map key.
    bool / array / object are rejected by `normalizeID` (arrays and objects would not even hash). -/
def JVal.key? (v : JVal) : Option NId :=
  match v.shape with
  | .null => some .nil
  | .uint | .num => some (.num v.text)
  | .str => some (.str v.text)
  | .bool | .arr | .obj => none

/-- `json.Unmarshal(data, &chid)` into `uint64`. -/
def JVal.chanId? (v : JVal) : Option String :=
  match v.shape with
  | .uint => some v.text
  | _ => none   -- also null: Unmarshal of null into uint64 is a no-op leaving 0, see `chanIdOf`

/-- `null` decodes into a `uint64` without error and leaves it 0. -/
def JVal.chanIdOf (v : JVal) : Option String :=
  match v.shape with
  | .uint => some v.text
  | .null => some "0"
  | _ => none

/-- A frame as the executor sees it after `json.Unmarshal(buf, &frame)`. -/
structure FrameIn where
  decodable : Bool          -- the buffer decodes into the `frame` struct
  id        : WireId
  method    : String        -- "" = response
  params    : CtlParams     -- for control frames
  call      : ParamsIn := .absent      -- for remote calls: params relative to the encoding/json oracle
  hasResult : Bool := false -- response with a non-null `result`
  resultIsChanId : Bool := false   -- … that decodes into uint64
  deriving Repr, DecidableEq, Inhabited

/-- The endpoint state the executor touches. -/
structure ExecState where
  handling     : List NId := []            -- server role: ids with a registered cancel function
  cancelled    : List NId := []            -- handler contexts cancelled so far
  chanHandlers : List String := []         -- client role: registered channel ids
  delivered    : List (String × String) := []   -- (channel id, value text) handed to a sink, in order
  closedChans  : List String := []
  inflight     : List NId := []            -- client role: ids awaiting a response
  mailbox      : List NId := []            -- responses placed in ready channels, in order
  spawned      : List HandleOut := []      -- remote calls started (each runs `handler.handle`)
  wire         : List Resp := []           -- response frames those calls put on the wire through `nextWriter`
  hasHandler   : Bool := true
  deriving Repr, DecidableEq, Inhabited

inductive Outcome where
  | ok (s : ExecState)
  | crash (why : String)
  deriving Repr, DecidableEq, Inhabited

/-- `cancelCtx`. -/
def cancelCtx (s : ExecState) (p : CtlParams) : Outcome :=
  match p.decoded with
  | none => .ok s                                   -- Unmarshal error: log and return
  | some elems =>
    if elems.length < 1 then .ok s                  -- guard: nothing to cancel
    else match elems[0]? with
      | none => .crash "index out of range [0]"
      | some v =>
        match v.key? with
        | none => .ok s                             -- not a usable id: log and return
        | some key =>
          if s.handling.contains key then .ok { s with cancelled := s.cancelled ++ [key] }
          else .ok s

/-- `handleChanMessage`. -/
def handleChanMessage (s : ExecState) (p : CtlParams) : Outcome :=
  match p.decoded with
  | none => .ok s
  | some elems =>
    if elems.length < 2 then .ok s                  -- guard: id and value are both needed
    else match elems[0]? with
      | none => .crash "index out of range [0]"
      | some v =>
        match v.chanIdOf with
        | none => .ok s
        | some ch =>
          if !s.chanHandlers.contains ch then .ok s
          else match elems[1]? with
            | none => .crash "index out of range [1]"
            | some val => .ok { s with delivered := s.delivered ++ [(ch, val.text)] }

/-- `handleChanClose`. -/
def handleChanClose (s : ExecState) (p : CtlParams) : Outcome :=
  match p.decoded with
  | none => .ok s
  | some elems =>
    if elems.length < 1 then .ok s
    else match elems[0]? with
      | none => .crash "index out of range [0]"
      | some v =>
        match v.chanIdOf with
        | none => .ok s
        | some ch =>
          if !s.chanHandlers.contains ch then .ok s
          else .ok { s with chanHandlers := s.chanHandlers.erase ch, closedChans := s.closedChans ++ [ch] }

/-- `handleResponse` (bookkeeping only; channel registration is in `Jrpc.Stream`). -/
def handleResponse (s : ExecState) (id : NId) : Outcome :=
  if s.inflight.contains id then
    .ok { s with mailbox := s.mailbox ++ [id], inflight := s.inflight.erase id }
  else .ok s                                        -- "client got unknown ID in response"

/-- `handleCall`: the handler goroutine it starts writes through `c.nextWriter` only when the frame carries
    an id; an id-less frame (a notification) runs with the discard writer, so whatever `handle` emits
    for it — including the error object for an unknown method, bad params or a panic — never reaches
    the wire.  Channel results are answered by the forwarder (`chanReg`), not through this writer. -/
def wsWire (id : NId) (o : HandleOut) : Option Resp :=
  if id == .nil then none else o.resp

/-- What one inbound remote-call frame leads to: the outcome of `handle` plus the response frame on the wire. -/
def wsCall (h : Handler) (req : Req) : HandleOut × Option Resp :=
  let o := h.handle true req
  (o, wsWire req.id o)

/-- `frameExecutor` body for one buffer + `handleFrame`. -/
def execFrame (h : Handler) (s : ExecState) (f : FrameIn) : Outcome :=
  if !f.decodable then .ok s                        -- "failed to unmarshal frame": continue
  else match normalizeID f.id with
    | none => .ok s                                 -- "failed to normalize frame id": continue
    | some id =>
      if f.method = "" then handleResponse s id
      else if f.method = "xrpc.cancel" then cancelCtx s f.params
      else if f.method = "xrpc.ch.val" then handleChanMessage s f.params
      else if f.method = "xrpc.ch.close" then handleChanClose s f.params
      else if !s.hasHandler then
        -- "handleCall on client with no reverse handler": a request (with an id) is answered method-not-found,
        -- a notification is dropped
        if id == .nil then .ok s
        else .ok { s with wire := s.wire ++ [⟨id, .error codeMethodNotFound⟩] }
      else
        let (o, w) := wsCall h ⟨id, f.method.toList, f.call⟩
        .ok { s with spawned := s.spawned ++ [o],
                     wire := s.wire ++ w.toList,
                     handling := if id == .nil then s.handling else s.handling ++ [id] }

def Outcome.isCrash : Outcome → Bool
  | .crash _ => true
  | .ok _ => false

/-- Run a whole frame sequence; a crash is absorbing (the process is gone). -/
def execFrames (h : Handler) (s : ExecState) : List FrameIn → Outcome
  | [] => .ok s
  | f :: fs =>
    match execFrame h s f with
    | .ok s' => execFrames h s' fs
    | .crash w => .crash w

end Jrpc

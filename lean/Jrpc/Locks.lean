/-
  Jrpc.Locks — writers of one WebSocket connection and the write lock (websocket.go `writeLk`).

  Every site that touches the connection for writing — requests, cancel notifications, handler
  responses through the lazily acquired writer, channel registration replies, channel values and
  closes, pings, the close handshake, the timeout close, the connection swap on reconnect — is
  `begin site; chunk*; end site`.  `begin` is the lock acquisition, so it is enabled only when nobody
  holds the lock; a chunk can only be written by the holder.
-/
namespace Jrpc.Locks

inductive Ev where
  | begin (site : String)
  | chunk (site : String)          -- some bytes of the current message hit the wire
  | swap (site : String)           -- the connection is replaced (only the redial goroutine does this)
  | done (site : String)
  deriving Repr, DecidableEq, Inhabited

structure St where
  holder : Option String := none
  msgNo  : Nat := 0                         -- number of critical sections entered so far
  gen    : Nat := 0                         -- connection generation
  wire   : List (Nat × Nat × String) := []  -- (generation, message number, site) per chunk, in wire order
  deriving Repr, DecidableEq, Inhabited

def step? (s : St) : Ev → Option St
  | .begin site =>
    match s.holder with
    | none => some { s with holder := some site, msgNo := s.msgNo + 1 }
    | some _ => none                        -- a second writer inside the section: refused
  | .chunk site =>
    if s.holder = some site then some { s with wire := s.wire ++ [(s.gen, s.msgNo, site)] } else none
  | .swap site =>
    if s.holder = some site then some { s with gen := s.gen + 1 } else none
  | .done site =>
    if s.holder = some site then some { s with holder := none } else none

def run? (s : St) : List Ev → Option St
  | [] => some s
  | e :: es => (step? s e).bind (fun s' => run? s' es)

/-- Executable monitor over begin/end hook events alone: sections never overlap. -/
def sectionsOK : Option String → List Ev → Bool
  | _, [] => true
  | none, .begin s :: es => sectionsOK (some s) es
  | some h, .done s :: es => h == s && sectionsOK none es
  | some h, .chunk s :: es => h == s && sectionsOK (some h) es
  | some h, .swap s :: es => h == s && sectionsOK (some h) es
  | _, _ => false

end Jrpc.Locks

import Jrpc.Base
import Jrpc.Backoff
/-
  Jrpc.Redial — the reconnect side of one WebSocket client (websocket.go `tryReconnect`, client.go
  `websocketClient` / `handleRpcCall`):

    * the redial goroutine as a timed labelled transition system, one event per hook site
      (`reconn.begin`, `reconn.spawn`, `rc.sleep`, `rc.dial`, `rc.swap`, `rc.abort`, `main.exit.begin`);
      every event carries the time at which its hook ran, and `dial` is enabled only once the backoff
      delay that `rc.sleep` announced has elapsed (`Backoff.next ≥ minDelay`, theorem `C05_backoff`);
    * the method-level retry loop of `handleRpcCall` as a function of the outcomes of its attempts.

  A client created with `WithNoReconnect` has no dial factory (`reconnect = false`): a loss makes the
  connection goroutine exit.
-/
namespace Jrpc.Redial

structure Cfg where
  reconnect : Bool          -- `connFactory != nil`
  minDelay  : Nat           -- lower bound of `reconnectBackoff.next` over all attempts (time unit of the trace)
  lo        : Nat → Nat     -- lower bound of `reconnectBackoff.next n` for attempt n (`Backoff.lo`: it grows by 1.5 per attempt up to the maximum)

inductive Pc where
  | up                          -- connected; reader running
  | lost                        -- `tryReconnect` entered (sweeps running), redial goroutine not yet started
  | spawned                     -- redial goroutine started, before its first `rc.sleep`
  | sleeping (n : Nat) (since : Nat)   -- inside `time.Sleep(backoff.next(n))` which began at `since`
  | dialing (n : Nat)           -- inside `connFactory()` of attempt n
  | exited                      -- the connection goroutine returned (no dial factory, stop, context)
  | aborted                     -- the redial goroutine saw its context cancelled
  deriving Repr, DecidableEq, Inhabited

inductive Ev where
  | loss  (t : Nat)             -- reconn.begin
  | spawn (t : Nat)             -- reconn.spawn
  | sleep (n : Nat) (t : Nat)   -- rc.sleep attempt=n
  | dial  (n : Nat) (t : Nat)   -- rc.dial attempt=n
  | swap  (t : Nat)             -- rc.swap
  | abort (t : Nat)             -- rc.abort
  | exit  (t : Nat)             -- main.exit.begin
  deriving Repr, DecidableEq, Inhabited

/-- The configuration of a client with backoff `b` (in the trace's time unit). -/
def Cfg.ofBackoff (reconnect : Bool) (b : Backoff) : Cfg :=
  { reconnect := reconnect, minDelay := b.minDelay, lo := b.lo }

def Ev.time : Ev → Nat
  | .loss t | .spawn t | .sleep _ t | .dial _ t | .swap t | .abort t | .exit t => t

structure St where
  pc      : Pc := .up
  now     : Nat := 0
  dials   : List (Nat × Nat) := []   -- dial events so far, newest first: (time of the latest earlier spawn or dial, time of this dial)
  mark    : Nat := 0            -- time of the latest `spawn` or `dial` (what the next dial is spaced from)
  gone    : Bool := false       -- the connection goroutine has begun to exit
  deriving Repr, DecidableEq, Inhabited

/-- One step; `none` = the model refuses the event.  Times never go back. -/
def step? (c : Cfg) (s : St) (e : Ev) : Option St :=
  if e.time < s.now then none else
  let s := { s with now := e.time }
  match e with
  | .loss _ =>
    if s.pc = .up && c.reconnect && !s.gone then some { s with pc := .lost } else none
  | .spawn t =>
    if s.pc = .lost then some { s with pc := .spawned, mark := t } else none
  | .sleep n t =>
    match s.pc with
    | .spawned => if n = 0 then some { s with pc := .sleeping 0 t } else none
    | .dialing m => if n = m + 1 then some { s with pc := .sleeping n t } else none   -- the dial failed
    | _ => none
  | .dial n t =>
    match s.pc with
    | .sleeping m since =>
      -- the sleep lasted at least the backoff's lower bound for this attempt
      if n = m && since + c.lo n ≤ t then some { s with pc := .dialing n, dials := (s.mark, t) :: s.dials, mark := t }
      else none
    | _ => none
  | .swap _ =>
    match s.pc with
    | .dialing _ => some { s with pc := .up }
    | _ => none
  | .abort _ =>
    match s.pc with
    | .sleeping _ _ | .dialing _ => some { s with pc := .aborted }
    | _ => none
  | .exit _ =>
    -- the connection goroutine may leave at any time (stop, context, loss without a dial factory);
    -- the redial goroutine, if any, carries on until it notices
    if s.gone then none else
    match s.pc with
    | .up | .lost => some { s with pc := .exited, gone := true }
    | _ => some { s with gone := true }

def run? (c : Cfg) (s : St) : List Ev → Option St
  | [] => some s
  | e :: es => (step? c s e).bind (fun s' => run? c s' es)

/-- Newest first: every dial is at least `d` after its own mark, and its mark is not before the previous dial. -/
def Chained (d : Nat) : List (Nat × Nat) → Prop
  | [] => True
  | [p] => p.1 + d ≤ p.2
  | p :: q :: rest => p.1 + d ≤ p.2 ∧ q.2 ≤ p.1 ∧ Chained d (q :: rest)

/-! ### The method-level retry loop (`handleRpcCall`) -/

/-- Outcome of one attempt (`sendRequest` + response). -/
inductive Attempt where
  | connErr              -- a response carrying `eTempWSError` (the synthetic "connection closed")
  | answer (r : Nat)     -- any other response: the handler's result or error
  | sendErr              -- `sendRequest` itself failed (the client is closed)
  deriving Repr, DecidableEq, Inhabited

/-- What `handleRpcCall` returns and how many attempts it made, given the outcomes of the attempts it
    would make; `none` = still looping after all of them. -/
def retryLoop (retry : Bool) : List Attempt → Option (Attempt × Nat)
  | [] => none
  | .connErr :: rest =>
    if retry then (retryLoop retry rest).map (fun p => (p.1, p.2 + 1)) else some (.connErr, 1)
  | a :: _ => some (a, 1)

end Jrpc.Redial

import Lean.Data.Json
import Jrpc.Framing
/-
  Jrpc.Codec — JSON line protocol between the Go harness and the model driver.
  (Only plumbing: decoding case descriptors into model values and encoding model outputs.)
-/
namespace Jrpc.Codec
open Lean Jrpc

abbrev R := Except String

def fld (j : Json) (k : String) : R Json := j.getObjVal? k
def fldD (j : Json) (k : String) (d : Json) : Json := (j.getObjVal? k).toOption.getD d
def str (j : Json) (k : String) : R String := do (← fld j k).getStr?
def strD (j : Json) (k : String) (d : String) : String := ((fld j k).bind (·.getStr?)).toOption.getD d
def nat (j : Json) (k : String) : R Nat := do (← fld j k).getNat?
def natD (j : Json) (k : String) (d : Nat) : Nat := ((fld j k).bind (·.getNat?)).toOption.getD d
def int (j : Json) (k : String) : R Int := do (← fld j k).getInt?
def bool (j : Json) (k : String) : R Bool := do (← fld j k).getBool?
def boolD (j : Json) (k : String) (d : Bool) : Bool := ((fld j k).bind (·.getBool?)).toOption.getD d
def arr (j : Json) (k : String) : R (List Json) := do return (← (← fld j k).getArr?).toList
def arrD (j : Json) (k : String) : List Json :=
  ((fld j k).bind (·.getArr?)).toOption.map (·.toList) |>.getD []
def strList (j : Json) : R (List String) := do (← j.getArr?).toList.mapM (·.getStr?)

def wireId (j : Json) : R WireId := do
  match (← str j "t") with
  | "absent" => return .absent
  | "null" => return .null
  | "num" => return .num (← str j "v")
  | "int64" => return .int64 (← nat j "v")
  | "str" => return .str (← str j "v")
  | "invalid" => return .invalid (← str j "v")
  | t => throw s!"bad id type {t}"

def nidJ : NId → Json
  | .nil => Json.mkObj [("t", "null"), ("v", "")]
  | .num v => Json.mkObj [("t", "num"), ("v", v)]
  | .str v => Json.mkObj [("t", "str"), ("v", v)]
  | .bad v => Json.mkObj [("t", "invalid"), ("v", v)]

def nid (j : Json) : R NId := do
  match (← str j "t") with
  | "null" => return .nil
  | "num" => return .num (← str j "v")
  | "str" => return .str (← str j "v")
  | t => throw s!"bad nid type {t}"

def fmtOf (j : Json) : R Fmt := do
  return { incNs := ← bool j "ns", lower := ← bool j "lower", sep := (strD j "sep" ".").toList }

def outShape : String → R OutShape
  | "none" => pure .none | "val" => pure .val | "err" => pure .err | "valerr" => pure .valErr
  | s => throw s!"bad out shape {s}"

def behav : String → R Behav
  | "ok" => pure .ok | "fails" => pure .fails | "panics" => pure .panics
  | s => throw s!"bad behav {s}"

def method (j : Json) : R (Name × Method) := do
  let m : Method := {
    tag := ← str j "tag"
    ptypes := ← strList (← fld j "ptypes")
    hasCtx := boolD j "ctx" false
    raw := boolD j "raw" false
    out := ← outShape (← str j "out")
    isChan := boolD j "chan" false
    behav := ← behav (strD j "behav" "ok") }
  return ((← str j "name").toList, m)

/-- `{"fmt":…, "regs":[{"ns":…, "methods":[…]}…], "aliases":[[alias, orig]…]}` (in registration order). -/
def handler (j : Json) : R Handler := do
  let f ← fmtOf (← fld j "fmt")
  let mut t : Table := []
  for reg in (← arr j "regs") do
    let ms ← (← arr reg "methods").mapM method
    t := register f (← str reg "ns").toList ms t
  let mut al : List (Name × Name) := []
  for a in arrD j "aliases" do
    match (← a.getArr?).toList with
    | [x, y] => al := ((← x.getStr?).toList, (← y.getStr?).toList) :: al
    | _ => throw "bad alias"
  return { methods := t, aliases := al }

def paramsIn (j : Json) : R ParamsIn := do
  match (← str j "t") with
  | "absent" => return .absent
  | "null" => return .null
  | "nonarray" => return .nonArray
  | "arr" => return .arr (← (arrD j "elems").mapM strList)
  | t => throw s!"bad params {t}"

def rawReq (j : Json) : R RawReq := do
  return { id := ← wireId (← fld j "id"), method := (← str j "method").toList,
           params := ← paramsIn (← fld j "params") }

def bodyIn (j : Json) : R BodyIn := do
  match (← str j "kind") with
  | "blank" => return .blank
  | "single" => return .single (← rawReq (← fld j "req"))
  | "singleUndecodable" => return .singleUndecodable (← wireId (← fld j "pid"))
  | "batch" => return .batch (← (arrD j "reqs").mapM rawReq)
  | "batchUndecodable" => return .batchUndecodable
  | k => throw s!"bad body kind {k}"

def bodyJ : Body → Json
  | .result fc => Json.mkObj [("k", "result"), ("fromCall", fc)]
  | .error c => Json.mkObj [("k", "error"), ("code", Json.num (Lean.JsonNumber.fromInt c))]
  | .handlerError => Json.mkObj [("k", "herr")]

def respJ (r : Resp) : Json := Json.mkObj [("id", nidJ r.id), ("body", bodyJ r.body)]

def tokJ : Tok → Json
  | .lbrack => "[" | .comma => "," | .rbrack => "]"
  | .obj r => respJ r

def optJ {α} (f : α → Json) : Option α → Json
  | none => Json.null
  | some a => f a

end Jrpc.Codec

import Jrpc.Base
/-
  Jrpc.Forwarder — the select-set bookkeeping of `handleOutChans` (websocket.go): the server-side
  goroutine that forwards every handler channel of one connection.

  The code keeps two parallel slices: `cases` (the select cases; positions 0 and 1 are the registration
  and exit channels, `internal = 2`) and `caseToID` (the channel id announced to the client for the
  case at the same position, offset by `internal`).  A registration appends to both; when a handler
  channel is closed its entry is removed from both by moving the last entry into its place and
  truncating.  A value received from the case at position `k` is sent tagged `caseToID[k]`.

  The model keeps the two slices as two lists (positions are relative to `internal`), exactly as the
  code does, so that "the two stay aligned" is a theorem and not a modelling decision.  `owner` is a
  ghost: the id that was announced for a handler channel when it was registered.
-/
namespace Jrpc.Forwarder

/-- `l[k] = l[last]; l = l[:last]` -/
def removeSwap {α} (l : List α) (k : Nat) : List α :=
  match l.getLast? with
  | none => l
  | some x => (l.set k x).dropLast

structure St where
  cases : List Nat := []            -- identities of the handler channels in the select set, in slice order
  ids   : List Nat := []            -- `caseToID`
  owner : List (Nat × Nat) := []    -- ghost: handler channel ↦ id announced at its registration
  deriving Repr, DecidableEq, Inhabited

inductive Ev where
  | reg (hp id : Nat)               -- a registration arrives: handler channel `hp` is announced as `id`
  | val (hp id : Nat)               -- a value was received from `hp` and sent tagged `id`
  | close (hp id : Nat)             -- `hp` was closed; the close notification carries `id`
  deriving Repr, DecidableEq, Inhabited

/-- Position of a handler channel in the select set (what `reflect.Select` reports, minus `internal`). -/
def St.pos? (s : St) (hp : Nat) : Option Nat :=
  let k := s.cases.idxOf hp
  if k < s.cases.length then some k else none

/-- One step; `none` = the model refuses the event (the implementation tagged a value or a close with an
    id other than `caseToID[position]`, or used a channel that is not in the select set). -/
def step? (s : St) : Ev → Option St
  | .reg hp id =>
    -- channel identities in the select set are distinct (one registration per returned channel)
    if s.cases.contains hp then none
    else some { cases := s.cases ++ [hp], ids := s.ids ++ [id], owner := (hp, id) :: s.owner.filter (·.1 != hp) }
  | .val hp id =>
    match s.pos? hp with
    | some k => if s.ids[k]? = some id then some s else none
    | none => none
  | .close hp id =>
    match s.pos? hp with
    | some k =>
      if s.ids[k]? = some id then
        some { s with cases := removeSwap s.cases k, ids := removeSwap s.ids k }
      else none
    | none => none

def run? (s : St) : List Ev → Option St
  | [] => some s
  | e :: es => (step? s e).bind (fun s' => run? s' es)

end Jrpc.Forwarder

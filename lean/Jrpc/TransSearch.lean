import Jrpc.TransDefs
/-
  Jrpc.TransSearch — search for a concrete input on which a regenerated program (Jrpc.Generated.Progs) and the
  hand-written model differ, or on which the regenerated program panics.

  Used by bin/check when a translation theorem (JrpcProofs/Trans/*.lean) no longer checks: the theorem quantifies
  over all inputs, this search enumerates a finite grid of them and *runs* both sides.  It is a search (labelled as
  such in the evidence), never an obligation: finding nothing does not restore the theorem.
-/
namespace Jrpc.TransSearch
open Jrpc Jrpc.MiniGo Jrpc.Trans Jrpc.Generated.Progs

structure Bad where
  fn      : String
  input   : String
  program : String
  model   : String
  panics  : Bool := false
  /-- the difference is itself a failure of the property the function carries (not merely a broken tie): the compared
      outcome *is* the property's observable (who is told, what touches the connection, whether the method runs) -/
  violates : Bool := false
  deriving Repr

def showOut (o : Out) : String :=
  match o with
  | .ret v env => s!"returned {repr v}; effects {repr (fxOf env)}"
  | .panic w => s!"PANIC: {w}"
  | .stuck w => s!"stuck (construct or extern outside the translated subset): {w}"

def firstSome {α β} (xs : List α) (f : α → Option β) : Option β :=
  match xs with
  | [] => none
  | x :: rest => match f x with
    | some b => some b
    | none => firstSome rest f

/-- All sublists (in order) of a small list. -/
def sublists {α} : List α → List (List α)
  | [] => [[]]
  | x :: xs => let r := sublists xs; r ++ r.map (x :: ·)

/-! ### auth.HasPerm -/

def searchHasPerm : Option Bad :=
  let perms := ["read", "write", "admin"]
  let sets := sublists perms
  firstSome ((none :: sets.map some).flatMap fun att => sets.flatMap fun defs => (perms ++ ["", "other"]).map fun p => (att, defs, p))
    fun (att, defs, p) =>
      let o := run (authExt att) prog_auth_HasPerm (hasPermEnv defs p)
      let want := Val.bool (Auth.hasPerm att defs p)
      if o.val? = some want then none
      else some { fn := "auth.HasPerm", input := s!"attached={repr att} defaults={repr defs} perm={repr p}",
                  program := showOut o, model := s!"{repr want}", panics := o.isPanic, violates := true }

/-! ### frame handlers -/

def texts : List String := ["0", "1", "7"]
def shapes : List JShape := [.null, .bool, .uint, .num, .str, .arr, .obj]
def jvals : List JVal := shapes.flatMap fun sh => texts.map fun t => ⟨sh, t⟩

def paramGrid : List CtlParams :=
  [.absent, .null, .nonArray, .arr []] ++ jvals.map (fun v => .arr [v]) ++
  (jvals.flatMap fun a => [(⟨.uint, "1"⟩ : JVal), ⟨.str, "x"⟩, ⟨.arr, "[]"⟩].map fun b => .arr [a, b]) ++
  jvals.map (fun a => .arr [a, ⟨.num, "2"⟩, ⟨.obj, "{}"⟩])

def handlingGrid : List (List NId) := [[], [.nil], [.num "1"], [.str "1"], [.num "0", .str "7", .num "7", .nil]]
def chansGrid : List (List String) := [[], ["0"], ["1"], ["7", "0", "1"]]

def searchNormalizeID : Option Bad :=
  let ids : List (String × WireId) :=
    [("string", .absent), ("string", .null), ("string", .num "1"), ("string", .int64 5), ("string", .str "a"),
     ("bool", .invalid "true"), ("[]interface{}", .invalid "[1]"), ("map[string]interface{}", .invalid "{}")]
  firstSome ids fun (badTy, w) =>
    let o := run (frameExt .absent) prog_normalizeID [("id", encId badTy w)]
    let want : Val := match normalizeID w with
      | some k => .cons (encKey k) (.cons .nil .nil)
      | none => .cons .nil (.cons (errVal "xerrors") .nil)
    if o.val? = some want then none
    else some { fn := "normalizeID", input := s!"id={repr w} (dynamic type of an invalid id: {badTy})",
                program := showOut o, model := s!"{repr want}", panics := o.isPanic }

def searchCancelCtx : Option Bad :=
  firstSome (paramGrid.flatMap fun p => handlingGrid.flatMap fun h => [true, false].map fun b => (p, h, b)) fun (p, h, hasID) =>
    let s : ExecState := { handling := h }
    let o := run (frameExt p) prog_wsConn_cancelCtx (cancelEnv hasID s)
    match Jrpc.cancelCtx s p with
    | .ok s' =>
      let want := (s'.cancelled.drop s.cancelled.length).map encCancel
      if o.fx = some want then none
      else some { fn := "wsConn.cancelCtx", input := s!"params={repr p} handling={repr h} frame-has-id={hasID}",
                  program := showOut o, model := s!"cancel functions invoked: {repr want}", panics := o.isPanic }
    | .crash w => some { fn := "wsConn.cancelCtx", input := s!"params={repr p}", program := showOut o, model := "model crash: " ++ w, panics := true }

def searchChanMessage : Option Bad :=
  firstSome (paramGrid.flatMap fun p => chansGrid.map fun c => (p, c)) fun (p, c) =>
    let s : ExecState := { chanHandlers := c }
    let o := run (frameExt p) prog_wsConn_handleChanMessage (chanEnv s)
    match Jrpc.handleChanMessage s p, p with
    | .ok s', .arr (_ :: v2 :: _) =>
      let want := (s'.delivered.drop s.delivered.length).map fun d => encCb d.1 (rawOf v2) true
      if o.fx = some want then none
      else some { fn := "wsConn.handleChanMessage", input := s!"params={repr p} chanHandlers={repr c}",
                  program := showOut o, model := s!"sink calls: {repr want}", panics := o.isPanic }
    | .ok _, _ =>
      if o.fx = some [] then none
      else some { fn := "wsConn.handleChanMessage", input := s!"params={repr p} chanHandlers={repr c}",
                  program := showOut o, model := "no sink call", panics := o.isPanic }
    | .crash w, _ => some { fn := "wsConn.handleChanMessage", input := s!"params={repr p}", program := showOut o, model := "model crash: " ++ w, panics := true }

def searchChanClose : Option Bad :=
  firstSome (paramGrid.flatMap fun p => chansGrid.map fun c => (p, c)) fun (p, c) =>
    let s : ExecState := { chanHandlers := c }
    let o := run (frameExt p) prog_wsConn_handleChanClose (chanEnv s)
    match Jrpc.handleChanClose s p with
    | .ok s' =>
      let want := (s'.closedChans.drop s.closedChans.length).map fun ch => encCb ch .nil false
      if o.fx = some want ∧ Out.chans o = some (encChans s'.chanHandlers) then none
      else some { fn := "wsConn.handleChanClose", input := s!"params={repr p} chanHandlers={repr c}",
                  program := showOut o ++ s!"; table {repr (Out.chans o)}",
                  model := s!"sink calls: {repr want}; table {repr (encChans s'.chanHandlers)}", panics := o.isPanic }
    | .crash w => some { fn := "wsConn.handleChanClose", input := s!"params={repr p}", program := showOut o, model := "model crash: " ++ w, panics := true }

def modelTarget (m : String) : String :=
  if m = "" then "c.handleResponse"
  else if m = "xrpc.cancel" then "c.cancelCtx"
  else if m = "xrpc.ch.val" then "c.handleChanMessage"
  else if m = "xrpc.ch.close" then "c.handleChanClose"
  else "c.handleCall"

def searchHandleFrame : Option Bad :=
  firstSome ["", "xrpc.cancel", "xrpc.ch.val", "xrpc.ch.close", "Foo.Bar", "xrpc.", "xrpc.ch", "XRPC.CANCEL", " ", "default", "rpc.discover"] fun m =>
    let o := run dispatchExt prog_wsConn_handleFrame [("frame.Method", .str m), ("frame", .nil), ("ctx", .nil), ("epoch", .int 0)]
    if o.fx = some [.str (modelTarget m)] then none
    else some { fn := "wsConn.handleFrame", input := s!"method={repr m}", program := showOut o, model := modelTarget m, panics := o.isPanic }

/-! ### the name formatter -/

def searchFormatter : Option Bad :=
  firstSome ([true, false].flatMap fun inc => [true, false].flatMap fun lower =>
      ["", "A", "ns"].flatMap fun ns => ["", "M", "Method", "method", "Ab.c", "9x", "X"].map fun m => (inc, lower, ns, m))
    fun (inc, lower, ns, m) =>
      let o := run fmtExt prog_NewMethodNameFormatter_lit1 (fmtEnv inc lower ns m)
      let want := Val.str (String.ofList ((Fmt.mk inc lower ['.']).apply ns.toList m.toList))
      if o.val? = some want then none
      else some { fn := "NewMethodNameFormatter (closure)", input := s!"includeNamespace={inc} lowerFirst={lower} namespace={repr ns} method={repr m}",
                  program := showOut o, model := s!"{repr want}", panics := o.isPanic }

/-! ### processFuncOut -/

def searchOuts : Option Bad :=
  firstSome [OutShape.none, .val, .err, .valErr] fun sh =>
    let o := run (outsExt (OutShape.results sh)) prog_processFuncOut outsEnv
    let r := Call.processFuncOut sh
    let want := Val.ofList [optPos r.1, optPos r.2.1, .int r.2.2]
    if o.val? = some want then none
    else some { fn := "processFuncOut", input := s!"results={repr (OutShape.results sh)} (true = error)", program := showOut o, model := s!"{repr want}", panics := o.isPanic }

/-! ### batchWriter -/

def searchBatchWriter : Option Bad :=
  let states : List BatchWriter.BW := [true, false].flatMap fun a => [true, false].map fun b => { started := a, elemStarted := b }
  let w := firstSome (states.flatMap fun b => ["", "x", "{\"id\":1}"].map fun p => (b, p)) fun (b, p) =>
    let o := run bwExt prog_batchWriter_Write (("p", .str p) :: bwEnv b)
    let b' := b.write p
    let want := (b'.out.drop b.out.length).map pieceVal
    if o.fx = some want ∧ Out.bw o = some (b'.started, b'.elemStarted) then none
    else some { fn := "batchWriter.Write", input := s!"started={b.started} elemStarted={b.elemStarted} p={repr p}",
                program := showOut o ++ s!"; flags {repr (Out.bw o)}", model := s!"writes {repr want}; flags ({b'.started}, {b'.elemStarted})", panics := o.isPanic }
  match w with
  | some b => some b
  | none =>
    match firstSome states (fun b =>
      let o := run bwExt prog_batchWriter_finish (bwEnv b)
      let want := (b.finish.drop b.out.length).map pieceVal
      if o.fx = some want then none
      else some { fn := "batchWriter.finish", input := s!"started={b.started}", program := showOut o, model := s!"writes {repr want}", panics := o.isPanic }) with
    | some b => some b
    | none => firstSome states fun b =>
      let o := run bwExt prog_batchWriter_nextElem (bwEnv b)
      if Out.bw o = some (b.nextElem.started, b.nextElem.elemStarted) ∧ o.fx = some [] then none
      else some { fn := "batchWriter.nextElem", input := s!"started={b.started} elemStarted={b.elemStarted}", program := showOut o ++ s!"; flags {repr (Out.bw o)}", model := "elemStarted := false", panics := o.isPanic }

/-! ### httpio.waitReadCloser -/

def searchWRC : Option Bad :=
  let ws : List Reader.WRC := [true, false].flatMap fun st => [true, false].flatMap fun wc => [[], [1], [1, 2, 3]].map fun r =>
    { rest := r, stickyEOF := st, waitClosed := wc, closeCount := if wc then 1 else 0 }
  let r := firstSome (ws.flatMap fun w => [0, 1, 3, 4].flatMap fun got => [true, false].map fun e => (w, got, e)) fun (w, got, e) =>
    let want := 4
    let (w', out) := Reader.readStep w want got e
    if out = .refused then none
    else
      let eof := (w.rest.drop got).isEmpty && (got == 0 || e)
      let o := run (wrcExt got eof) prog_httpio_waitReadCloser_Read (("p", .tag "buf" (.int want)) :: wrcEnv w)
      if Out.wrc o = some (w'.stickyEOF, w'.waitClosed, (w'.closeCount : Int)) ∧ o.fx = some (if w.stickyEOF then [] else [.str "body.Read"]) then none
      else some { fn := "waitReadCloser.Read", input := s!"rest={repr w.rest} stickyEOF={w.stickyEOF} waitClosed={w.waitClosed} body delivers {got} bytes, eof={eof}",
                  program := showOut o ++ s!"; state {repr (Out.wrc o)}", model := s!"state ({w'.stickyEOF}, {w'.waitClosed}, {w'.closeCount})", panics := o.isPanic }
  match r with
  | some b => some b
  | none => firstSome ws fun w =>
    let o := run (wrcExt 0 false) prog_httpio_waitReadCloser_Close (wrcEnv w)
    let w' := w.closeWait
    if Out.wrc o = some (w'.stickyEOF, w'.waitClosed, (w'.closeCount : Int)) ∧ o.fx = some [.str "body.Close"] then none
    else some { fn := "waitReadCloser.Close", input := s!"stickyEOF={w.stickyEOF} waitClosed={w.waitClosed}",
                program := showOut o ++ s!"; state {repr (Out.wrc o)}", model := s!"state ({w'.stickyEOF}, {w'.waitClosed}, {w'.closeCount})", panics := o.isPanic }

/-! ### auth.Handler.ServeHTTP -/

def searchServeHTTP : Option Bad :=
  let verify : List Char → Option (List String) := fun t =>
    if t = "good".toList then some ["read"] else if t = "admin".toList then some ["read", "write", "admin"] else if t = "none".toList then some [] else none
  let hs := ["", "Bearer good", "Bearer admin", "Bearer none", "Bearer bad", "Bearer ", "bearer good", "Basic good", "good", "Bearer  good", "BearerX good"]
  let qs := ["", "good", "admin", "bad", "Bearer good"]
  firstSome (hs.flatMap fun h => qs.map fun q => (h, q)) fun (h, q) =>
    let o := run (httpExt h q verify) prog_auth_Handler_ServeHTTP httpEnv
    let want := encHttpOut (Auth.serveHTTP h.toList q.toList verify)
    if o.fx = some [want] then none
    else some { fn := "auth.Handler.ServeHTTP", input := s!"Authorization={repr h} token-query={repr q} (verifier accepts good/admin/none)",
                program := showOut o, model := s!"{repr want}", panics := o.isPanic }

/-! ### response.MarshalJSON -/

def searchMarshal : Option Bad :=
  let j := Val.str "2.0"; let i := Val.tag "float64" (.str "1")
  firstSome [(Val.nil, Val.str "r"), (Val.tag "err" (.str "e"), Val.str "r"), (Val.nil, Val.nil), (Val.tag "err" (.str "e"), Val.nil)] fun (e, res) =>
    let o := run wireExt prog_response_MarshalJSON (respEnv j i res e)
    let want := if e = .nil then Val.ofList [.cons (.str "result") res, .cons (.str "jsonrpc") j, .cons (.str "id") i]
                else Val.ofList [.cons (.str "error") e, .cons (.str "jsonrpc") j, .cons (.str "id") i]
    if o.fx = some [want] then none
    else some { fn := "response.MarshalJSON", input := s!"error={repr e} result={repr res}", program := showOut o, model := s!"object {repr want}", panics := o.isPanic }

/-! ### backoff.next -/

def searchBackoff : Option Bad :=
  let bs : List Backoff := [⟨100000000, 5000000000⟩, ⟨100000000, 600000000000⟩, ⟨1, 1⟩, ⟨5, 3⟩, ⟨1000, 1000000⟩]
  firstSome (bs.flatMap fun b => ([-3, -1, 0, 1, 2, 5, 10, 62, 63, 64, 200] : List Int).flatMap fun a => [(0, 1), (1, 2), (999, 1000)].map fun j => (b, a, j)) fun (b, a, (jn, jd)) =>
    let o := run (backoffExt jn jd) prog_backoff_next (backoffEnv b a)
    let want := Val.int (b.next (if a < 0 then none else some a.toNat) jn jd)
    if o.val? = some want then none
    else some { fn := "backoff.next", input := s!"minDelay={b.minDelay} maxDelay={b.maxDelay} attempt={a} jitter={jn}/{jd}", program := showOut o, model := s!"{repr want}", panics := o.isPanic }

/-! ### nextWriter, closeInFlight, closeChans -/

def searchNextWriter : Option Bad :=
  firstSome ([0, 1, 2].flatMap fun cur => [0, 1, 2].flatMap fun ep => [true, false].flatMap fun o => [true, false].map fun c => (cur, ep, o, c))
    fun (cur, ep, o, c) =>
      let out := run (writerExt cur o c) prog_wsConn_nextWriter (writerEnv ep)
      let want : List Val :=
        if cur ≠ ep then [.cons (.str "cb") (.tag "discard" .nil)]
        else if o then [.str "conn.NextWriter"]
        else [.str "conn.NextWriter", .cons (.str "cb") (.tag "wcl" .nil), .str "wcl.Close"]
      if out.fx = some want then none
      else some { fn := "wsConn.nextWriter", input := s!"current epoch={cur} epoch of the request={ep} NextWriter fails={o} Close fails={c}",
                  program := showOut out, model := s!"uses of the connection and of the callback: {repr want}", panics := out.isPanic, violates := true }

def searchSweep : Option Bad :=
  let ess : List (List (NId × Bool)) := [[], [(.num "1", true)], [(.num "1", false)], [(.num "1", true), (.str "a", false), (.num "2", true)]]
  firstSome (ess.flatMap fun es => handlingGrid.map fun hs => (es, hs)) fun (es, hs) =>
    let out := run sweepExt prog_wsConn_closeInFlight (sweepEnv es hs)
    let want := ((es.filter (·.2)).map fun e => deliverFx e.1) ++ hs.map encCancel
    if out.fx = some want ∧ (out.env?.bind (·.get "c.inflight")) = some .nil ∧ (out.env?.bind (·.get "c.handling")) = some .nil then none
    else some { fn := "wsConn.closeInFlight", input := s!"inflight (id, mailbox has room)={repr es} handling={repr hs}",
                program := showOut out, model := s!"effects {repr want}; both tables empty afterwards", panics := out.isPanic, violates := true }

def searchCloseChans : Option Bad :=
  firstSome chansGrid fun cs =>
    let out := run chansExt prog_wsConn_closeChans [("c.chanHandlers", encChans cs)]
    let want := cs.map fun c => encCb c .nil false
    if out.fx = some want ∧ (out.env?.bind (·.get "c.chanHandlers")) = some (encChans []) then none
    else some { fn := "wsConn.closeChans", input := s!"chanHandlers={repr cs}", program := showOut out,
                model := s!"sink calls {repr want}; table empty afterwards", panics := out.isPanic, violates := true }

/-- Search by the name of the Lean module whose theorems no longer check (the last component of `JrpcProofs.Trans.X`). -/
def byModule (m : String) : Option (List (Option Bad)) :=
  match m with
  | "Auth" => some [searchHasPerm]
  | "AuthHTTP" => some [searchServeHTTP]
  | "NormalizeID" => some [searchNormalizeID]
  | "CancelCtx" => some [searchNormalizeID, searchCancelCtx]
  | "ChanMessage" => some [searchChanMessage]
  | "ChanClose" => some [searchChanClose]
  | "HandleFrame" => some [searchHandleFrame]
  | "Naming" => some [searchFormatter]
  | "Outs" => some [searchOuts]
  | "BatchWriter" => some [searchBatchWriter]
  | "WRC" => some [searchWRC]
  | "Wire" => some [searchMarshal]
  | "Backoff" => some [searchBackoff]
  | "NextWriter" => some [searchNextWriter]
  | "Sweep" => some [searchSweep]
  | "CloseChans" => some [searchCloseChans]
  | _ => none

def allModules : List String :=
  ["Auth", "AuthHTTP", "NormalizeID", "CancelCtx", "ChanMessage", "ChanClose", "HandleFrame", "Naming", "Outs", "BatchWriter", "WRC", "Wire", "Backoff", "NextWriter", "Sweep", "CloseChans"]

end Jrpc.TransSearch

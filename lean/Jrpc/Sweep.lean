/-
  Jrpc.Sweep — one subscription's response against the sweep of its connection.

  websocket.go: `handleResponse` (the frame executor: request looked up in `inflight`; for a channel
  result the handler is registered in `chanHandlers`; then the response is sent into the caller's
  `ready` channel; then the entry is deleted), `closeInFlight` (non-blocking send of the connection
  error to every entry, fresh map), `closeChans` (every registered handler is told the channel is
  closed), and the two places that sweep: `tryReconnect` and the exit path (deferred calls) of
  `handleWsConn`.  `inflightFirst` is the order of the two sweeps: closeInFlight before closeChans.
-/
namespace Jrpc.Sweep

structure St where
  inInflight    : Bool := true        -- the subscription's request is registered
  looked        : Bool := false       -- the executor found it
  registered    : Bool := false       -- its channel handler is in `chanHandlers`
  delivered     : Bool := false       -- the executor's send into `ready` completed
  mail          : Option Bool := none -- `ready` (capacity 1): some true = the response, some false = the connection error
  recvd         : Option Bool := none -- what the caller took (some true: it now holds the channel)
  swept         : Bool := false       -- closeInFlight ran
  chansSwept    : Bool := false       -- closeChans ran
  handlerClosed : Bool := false       -- closeChans reached this handler: the caller's channel ends
  deriving Repr, DecidableEq, Inhabited

inductive Ev where
  | lookup | register | deliver | delete | recv | closeInFlight | closeChans
  deriving Repr, DecidableEq, Inhabited

def step? (inflightFirst : Bool) (s : St) : Ev → Option St
  | .lookup => if s.inInflight && !s.looked then some { s with looked := true } else none
  | .register => if s.looked && !s.registered then some { s with registered := true } else none
  | .deliver =>
    -- the send blocks while the mailbox is full
    if s.registered && !s.delivered && s.mail.isNone then some { s with delivered := true, mail := some true } else none
  | .delete => if s.delivered && s.inInflight && !s.swept then some { s with inInflight := false } else none
  | .recv =>
    match s.mail, s.recvd with
    | some m, none => some { s with mail := none, recvd := some m }
    | _, _ => none
  | .closeInFlight =>
    if s.swept || (!inflightFirst && !s.chansSwept) then none
    else some { s with swept := true, inInflight := false,
                       mail := if s.inInflight && s.mail.isNone then some false else s.mail }
  | .closeChans =>
    if s.chansSwept || (inflightFirst && !s.swept) then none
    else some { s with chansSwept := true, handlerClosed := s.registered }

def run? (inflightFirst : Bool) (s : St) : List Ev → Option St
  | [] => some s
  | e :: es => (step? inflightFirst s e).bind (fun s' => run? inflightFirst s' es)

end Jrpc.Sweep

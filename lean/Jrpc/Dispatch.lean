import Jrpc.Base
/-
  Jrpc.Dispatch — method table, name formatting, alias fallback, arity/type gates and the
  body of `handler.handle` (handler.go) for one request.

  Source anchors: method_formatter.go `NewMethodNameFormatter`; handler.go `register`,
  `handle`, `doCall`; server.go `AliasMethod`, `rpcError`.
-/
namespace Jrpc

abbrev Name := List Char

/-- A method-name formatter.  The four built-in variants are `incNs × lower` with `sep = "."`;
    a custom formatter of the form `ns ++ sep ++ m` is `incNs = true` with another `sep`. -/
structure Fmt where
  incNs : Bool
  lower : Bool
  sep   : Name := ['.']
  deriving Repr, DecidableEq, Inhabited

/-- `strings.ToLower(method[:1]) + method[1:]` for a name whose first byte is ASCII. -/
def lowerFirst : Name → Name
  | [] => []
  | c :: cs => c.toLower :: cs

def Fmt.apply (f : Fmt) (ns m : Name) : Name :=
  let m' := if f.lower then lowerFirst m else m
  if f.incNs then ns ++ f.sep ++ m' else m'

inductive OutShape where
  | none | val | err | valErr
  deriving Repr, DecidableEq, Inhabited

def OutShape.hasVal : OutShape → Bool
  | .val | .valErr => true
  | _ => false
def OutShape.hasErr : OutShape → Bool
  | .err | .valErr => true
  | _ => false

/-- What a handler body does when it is run (the application is a parameter of the model). -/
inductive Behav where
  | ok        -- returns (value, nil) / nil / value / nothing, according to its out shape
  | fails     -- returns a non-nil error (only meaningful when the out shape has an error slot)
  | panics
  deriving Repr, DecidableEq, Inhabited

/-- One registered Go method, as `register` records it. -/
structure Method where
  tag     : String            -- identity of the Go method (receiver type + name)
  ptypes  : List String       -- declared parameter types after receiver and context
  hasCtx  : Bool
  raw     : Bool              -- single RawParams parameter
  out     : OutShape
  isChan  : Bool              -- value out is a channel
  behav   : Behav
  deriving Repr, DecidableEq, Inhabited

def Method.nParams (m : Method) : Nat := m.ptypes.length

/-- Go map with overwrite-on-equal-key: newest binding first, `lookup` takes the first hit. -/
abbrev Table := List (Name × Method)

def Table.insert (t : Table) (k : Name) (m : Method) : Table := (k, m) :: t

/-- `handler.register`: every method of the receiver under its formatted name. -/
def register (f : Fmt) (ns : Name) (ms : List (Name × Method)) (t : Table) : Table :=
  ms.foldl (fun t p => t.insert (f.apply ns p.1) p.2) t

structure Handler where
  methods : Table
  aliases : List (Name × Name)       -- alias ↦ original, newest first
  deriving Repr, Inhabited

/-- The lookup at the top of `handle`: direct name, else one alias hop, else nothing. -/
def Handler.resolve (h : Handler) (name : Name) : Option Method :=
  match h.methods.lookup name with
  | some m => some m
  | none =>
    match h.aliases.lookup name with
    | some target => h.methods.lookup target
    | none => none

/-- `params` of a request relative to the oracle for `encoding/json`: for each array element,
    the list of declared-type names it decodes into. -/
inductive ParamsIn where
  | absent
  | null
  | nonArray
  | arr (elems : List (List String))
  deriving Repr, DecidableEq, Inhabited

/-- Length of `ps` after `json.Unmarshal(req.Params, &ps)`; `none` = that Unmarshal failed. -/
def ParamsIn.count? : ParamsIn → Option Nat
  | .absent => some 0
  | .null => some 0
  | .nonArray => none
  | .arr es => some es.length

def ParamsIn.elems : ParamsIn → List (List String)
  | .arr es => es
  | _ => []

/-- All positional params decode into the declared types (the loop over `paramReceivers`). -/
def paramsDecode : List String → List (List String) → Bool
  | [], _ => true
  | _ :: _, [] => false
  | t :: ts, e :: es => e.contains t && paramsDecode ts es

structure Req where
  id     : NId
  method : Name
  params : ParamsIn
  deriving Repr, DecidableEq, Inhabited

/-- Classes of error objects the library itself produces (message text is not compared). -/
inductive Body where
  | result (fromCall : Bool)      -- `result`: the handler's value (true) or JSON null (false)
  | error (code : Int)            -- library-generated error with this code
  | handlerError                  -- `createError` of the handler's error (code 1 or registered)
  deriving Repr, DecidableEq, Inhabited

structure Resp where
  id   : NId
  body : Body
  deriving Repr, DecidableEq, Inhabited

/-- What `handle` did for one request. -/
structure HandleOut where
  resp     : Option Resp       -- what went through the writer `w` (at most one object)
  invoked  : Option String     -- tag of the handler method that was run, if any
  chanReg  : Bool := false     -- result handed to the channel forwarder (WebSocket only)
  deriving Repr, DecidableEq, Inhabited

/-- `handler.handle`.  `chanOK` says whether channel results are supported (WebSocket). -/
def Handler.handle (h : Handler) (chanOK : Bool) (req : Req) : HandleOut :=
  match h.resolve req.method with
  | none => { resp := some ⟨req.id, .error codeMethodNotFound⟩, invoked := none }
  | some m =>
    if m.isChan && !chanOK then
      { resp := some ⟨req.id, .error codeMethodNotFound⟩, invoked := none }
    else
      -- gates: everything below that returns before `doCall` has `invoked := none`
      let gate : Option Int :=
        if m.raw then none
        else match req.params.count? with
          | none => some codeParseError
          | some n =>
            if n != m.nParams then some codeInvalidParams
            else if paramsDecode m.ptypes req.params.elems then none
            else some codeParseError
      match gate with
      | some code => { resp := some ⟨req.id, .error code⟩, invoked := none }
      | none =>
        match m.behav with
        | .panics => { resp := some ⟨req.id, .error 0⟩, invoked := some m.tag }
        | b =>
          if req.id == .nil then { resp := none, invoked := some m.tag }
          else if b == .fails && m.out.hasErr then
            { resp := some ⟨req.id, .handlerError⟩, invoked := some m.tag }
          else if m.isChan then
            { resp := none, invoked := some m.tag, chanReg := true }
          else
            { resp := some ⟨req.id, .result m.out.hasVal⟩, invoked := some m.tag }

end Jrpc

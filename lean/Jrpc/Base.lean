/-
  Jrpc.Base — shared vocabulary of the go-jsonrpc model.

  JSON values cross the model as opaque tokens (strings chosen by the harness); the model
  only ever compares them for equality.  What the model does need to know about a JSON
  value is its *shape*, because Go code branches on it (type switches, Unmarshal failures,
  slice indexing, map-key hashability).
-/
namespace Jrpc

/-- An id as it appears on the wire, after `encoding/json` decoded it into `interface{}`
    (or, for client-originated ids, the `int64` counter). -/
inductive WireId where
  | absent                 -- field missing          → Go nil
  | null                   -- JSON null               → Go nil
  | num (v : String)       -- JSON number             → float64
  | int64 (v : Nat)        -- Go int64 (client side only, never decoded from JSON)
  | str (v : String)       -- JSON string             → string
  | invalid (v : String)   -- bool / array / object   → bool, []interface{}, map[string]interface{}
  deriving Repr, DecidableEq, Inhabited

/-- A normalised id: what `normalizeID` returns on success and what keys the tables. -/
inductive NId where
  | nil
  | num (v : String)
  | str (v : String)
  | bad (v : String)       -- a non-normalisable id; only ever echoed by an error reply, never a key
  deriving Repr, DecidableEq, Inhabited, Hashable

/-- `normalizeID` of websocket.go: string, float64, nil pass; int64 becomes float64; anything
    else is an error.  The decimal text of an int64 below 2^53 is the text `encoding/json`
    prints for the float64 with the same value, which is how the model identifies them. -/
def normalizeID : WireId → Option NId
  | .absent    => some .nil
  | .null      => some .nil
  | .num v     => some (.num v)
  | .int64 n   => some (.num (toString n))
  | .str v     => some (.str v)
  | .invalid _ => none

/-- The id an error reply echoes when the request was decoded only in part (`rpcError(wf, &req, …)`
    with whatever the decoder left in `req.ID`). -/
def echoOf : WireId → NId
  | .absent    => .nil
  | .null      => .nil
  | .num v     => .num v
  | .int64 n   => .num (toString n)
  | .str v     => .str v
  | .invalid v => .bad v

/-- Shape of one JSON value as far as the library's control flow can tell. -/
inductive JShape where
  | null
  | bool
  | uint      -- a number that `json.Unmarshal` accepts into a `uint64`
  | num       -- any other number (negative, fraction, exponent form, ≥ 2^64)
  | str
  | arr
  | obj
  deriving Repr, DecidableEq, Inhabited

/-- Can a decoded `interface{}` of this shape be used as a Go map key without a run-time panic? -/
def JShape.hashable : JShape → Bool
  | .arr | .obj => false
  | _ => true

/-- Shape of the `params` member of a frame or request. -/
inductive PShape where
  | absent                       -- member missing: empty RawMessage
  | null
  | nonArray                     -- object, string, number, bool
  | arr (elems : List JShape)
  deriving Repr, DecidableEq, Inhabited

/-- Error codes of the library (tied to the source by `Generated.Facts`). -/
def codeParseError : Int := -32700
def codeInvalidRequest : Int := -32600
def codeMethodNotFound : Int := -32601
def codeInvalidParams : Int := -32602
def codeTempWS : Int := -1111111

/-- `l₁` is a prefix of `l₂`, as a Bool (used by executable monitors). -/
def isPrefixOf {α} [BEq α] : List α → List α → Bool
  | [], _ => true
  | _ :: _, [] => false
  | a :: as, b :: bs => a == b && isPrefixOf as bs

end Jrpc

/-
  Jrpc.BatchWriter — `batchWriter` (handler.go) at the granularity of its `Write` calls.

  `handleReader` wraps the HTTP response writer for a batch: `nextElem()` before each element of the
  request array, any number of `Write(p)` calls while the element's response is rendered (none for a
  notification; `json.Encoder` and `rpcError` may write in several chunks; empty writes are ignored),
  `finish()` after the last element.  `Jrpc.Framing.BatchW.emit` is the element-level abstraction used by the
  C09 theorems; the refinement theorem `C09_batchWriter_refines` (Props/C09.lean) says the two agree.
-/
namespace Jrpc.BatchWriter

inductive Piece where
  | lbrack | comma | rbrack
  | data (chunk : String)
  deriving Repr, DecidableEq, Inhabited

structure BW where
  started     : Bool := false        -- "[" was written
  elemStarted : Bool := false        -- the current element has produced output
  out         : List Piece := []     -- everything written to the underlying writer, in order
  deriving Repr, DecidableEq, Inhabited

def BW.nextElem (b : BW) : BW := { b with elemStarted := false }

def BW.write (b : BW) (p : String) : BW :=
  if p.isEmpty then b
  else if !b.elemStarted then
    { started := true, elemStarted := true,
      out := b.out ++ [if b.started then Piece.comma else Piece.lbrack, .data p] }
  else { b with out := b.out ++ [.data p] }

def BW.finish (b : BW) : List Piece :=
  if b.started then b.out ++ [.rbrack] else b.out

/-- One element: `nextElem`, then its writes. -/
def BW.elem (b : BW) (chunks : List String) : BW := chunks.foldl BW.write b.nextElem

/-- The whole batch loop. -/
def run (elems : List (List String)) : List Piece := (elems.foldl BW.elem {}).finish

/-- The non-empty chunks of an element, as data pieces. -/
def body (chunks : List String) : List Piece := (chunks.filter (fun c => !c.isEmpty)).map Piece.data

/-- Specification: the elements that produced output, separated by commas, in brackets; nothing at all
    when no element produced output. -/
def specFrom (started : Bool) : List (List String) → List Piece
  | [] => []
  | e :: es =>
    if body e = [] then specFrom started es
    else (if started then Piece.comma else Piece.lbrack) :: body e ++ specFrom true es

def spec (elems : List (List String)) : List Piece :=
  let s := specFrom false elems
  if s = [] then [] else s ++ [.rbrack]

end Jrpc.BatchWriter

import Jrpc.Base
/-
  Jrpc.Cancel — the server role of one wsConn: handler contexts, the `handling` map, cancellation
  frames, and what happens to all of it when the connection ends.

  websocket.go: `handleCall` (context derived from the connection's; `handling[id] = cancel`;
  `done(keepCtx)`), `cancelCtx`, `closeInFlight` (cancels every entry of `handling`), the deferred
  `cancel()` of `handleWsConn`; handler.go: `handle` (`defer done(outCh)`), `withLazyWriter`.

  The second half models the library goroutines that serve one connection (main loop, reader, frame
  executor, channel forwarder, pinger, and the writer goroutine a handler's response waits for) with
  the conditions under which each can finish once the connection has ended.
-/
namespace Jrpc.Cancel

/-- Why a handler's context got cancelled (ghost). -/
inductive Why where
  | cancelFrame          -- an xrpc.cancel frame carrying its id was executed
  | doneNoKeep           -- the handler returned and its call does not keep the context (no channel result)
  | sweep                -- closeInFlight cancelled every handled call (connection lost / exiting)
  | connCtx              -- the connection's own context was cancelled (handleWsConn returned)
  deriving Repr, DecidableEq, Inhabited

structure Hd where
  id         : NId := .nil
  started    : Bool := false
  cancelled  : Bool := false      -- its own cancel function was called
  why        : List Why := []
  returned   : Bool := false
  deriving Repr, DecidableEq, Inhabited

inductive Ev where
  | call (h : Nat) (id : NId)            -- handleCall: handler h started for a frame with this id
  | cancelFrame (id : NId) (found : Bool) -- cancelCtx executed
  | done (h : Nat) (keep : Bool)          -- the handler returned; done(keepCtx)
  | sweep                                 -- closeInFlight: cancel all of `handling`, fresh map
  | connEnd                               -- handleWsConn returns: deferred cancel() of the connection context
  deriving Repr, DecidableEq, Inhabited

structure St where
  hd       : Nat → Hd := fun _ => {}
  handling : NId → Option Nat := fun _ => none
  connDone : Bool := false
  /-- ghost: ids of the cancel frames executed so far (an honest peer sends `xrpc.cancel [id]` only for
      a caller that cancelled) -/
  seen     : List NId := []

def St.setHd (s : St) (h : Nat) (f : Hd → Hd) : St :=
  { s with hd := fun k => if k = h then f (s.hd h) else s.hd k }

def St.setHandling (s : St) (id : NId) (v : Option Nat) : St :=
  { s with handling := fun i => if i = id then v else s.handling i }

/-- A handler sees its context cancelled iff its own cancel function ran or the connection context is done. -/
def St.ctxCancelled (s : St) (h : Nat) : Bool := (s.hd h).cancelled || ((s.hd h).started && s.connDone)

def step? (s : St) : Ev → Option St
  | .call h id =>
    if (s.hd h).started || s.connDone then none
    else if id = .nil then some (s.setHd h (fun t => { t with id := id, started := true }))
    else
      -- `handling[id] = cancel` (an entry already under that id is overwritten)
      some ((s.setHd h (fun t => { t with id := id, started := true })).setHandling id (some h))
  | .cancelFrame id found =>
    match s.handling id, found with
    | some h, true => some { s.setHd h (fun t => { t with cancelled := true, why := .cancelFrame :: t.why }) with seen := id :: s.seen }
    | none, false => some { s with seen := id :: s.seen }
    | _, _ => none
  | .done h keep =>
    let t := s.hd h
    if !t.started || t.returned then none
    else if keep then some (s.setHd h (fun t => { t with returned := true }))
    else if t.id = .nil then
      some (s.setHd h (fun t => { t with returned := true, cancelled := true, why := .doneNoKeep :: t.why }))
    else
      -- cancel(); delete(c.handling, frame.ID) — whatever entry is under that id
      some ((s.setHd h (fun t => { t with returned := true, cancelled := true, why := .doneNoKeep :: t.why })).setHandling t.id none)
  | .sweep =>
    some { s with
      hd := fun k => if s.handling (s.hd k).id = some k then
                       { s.hd k with cancelled := true, why := .sweep :: (s.hd k).why }
                     else s.hd k,
      handling := fun _ => none }
  | .connEnd => some { s with connDone := true }

def run? (s : St) : List Ev → Option St
  | [] => some s
  | e :: es => (step? s e).bind (fun s' => run? s' es)

/-! ### the goroutines of one connection, after it ended -/

inductive ReaderPc where
  | inNextReader     -- blocked in conn.NextReader (returns with an error once the socket is closed)
  | handingOff       -- has a message, sending it to the main loop (or noticing `exiting`)
  | reading          -- readFrame: reading the payload / queueing it (or noticing that nobody executes)
  | done
  deriving Repr, DecidableEq, Inhabited

structure Procs where
  mainExited   : Bool := false      -- handleWsConn returned: `exiting` closed, connection context cancelled
  socketClosed : Bool := false      -- handleWS closed the socket after handleWsConn returned
  reader       : ReaderPc := .inNextReader
  feDone       : Bool := false      -- frameExecutor returned (its context is done)
  fwdDone      : Bool := false      -- handleOutChans returned (`exiting` closed)
  pingerDone   : Bool := false      -- stopPings
  wWaiting     : Nat := 0           -- response writers waiting for writeLk (each has a handler waiting for it)
  wHolder      : Option Bool := none -- the writer holding writeLk: some false = calling NextWriter, some true = serving its handler
  released     : Nat := 0           -- handlers released from lazyWriter.Write (with a writer, or with the failure)
  deriving Repr, DecidableEq, Inhabited

inductive PEv where
  | mainExit | socketClose
  | readerFail            -- NextReader returns an error (socket closed / peer gone)
  | readerHandoffExit     -- the hand-off notices `exiting`
  | readerReadDone        -- readFrame finishes (payload read or failed; queued, or nobody executes any more)
  | feExit | fwdExit | pingerExit
  | writerLock            -- a waiting writer gets writeLk
  | writerFail            -- NextWriter fails (close frame sent / socket closed): the waiting handler is released
  | writerServe           -- NextWriter succeeds: the writer is handed over, the handler proceeds
  | writerDone            -- the handler finished its response: flush, unlock
  deriving Repr, DecidableEq, Inhabited

def pstep? (p : Procs) : PEv → Option Procs
  | .mainExit => if p.mainExited then none else some { p with mainExited := true }
  | .socketClose => if p.mainExited && !p.socketClosed then some { p with socketClosed := true } else none
  | .readerFail => if p.reader = .inNextReader && p.socketClosed then some { p with reader := .done } else none
  | .readerHandoffExit => if p.reader = .handingOff && p.mainExited then some { p with reader := .done } else none
  | .readerReadDone =>
    if p.reader = .reading then some { p with reader := if p.mainExited then .done else .inNextReader } else none
  | .feExit => if p.mainExited && !p.feDone then some { p with feDone := true } else none
  | .fwdExit => if p.mainExited && !p.fwdDone then some { p with fwdDone := true } else none
  | .pingerExit => if p.mainExited && !p.pingerDone then some { p with pingerDone := true } else none
  | .writerLock =>
    if p.wWaiting > 0 && p.wHolder.isNone then some { p with wWaiting := p.wWaiting - 1, wHolder := some false } else none
  | .writerFail =>
    if p.wHolder = some false then some { p with wHolder := none, released := p.released + 1 } else none
  | .writerServe =>
    if p.wHolder = some false && !p.socketClosed then some { p with wHolder := some true, released := p.released + 1 } else none
  | .writerDone => if p.wHolder = some true then some { p with wHolder := none } else none

/-- every library goroutine of the connection has finished -/
def Procs.allDone (p : Procs) : Bool :=
  p.mainExited && p.socketClosed && p.reader == .done && p.feDone && p.fwdDone && p.pingerDone &&
  p.wWaiting == 0 && p.wHolder.isNone

/-- how much work is left: strictly decreases with every step after the exit -/
def Procs.rank (p : Procs) : Nat :=
  (if p.socketClosed then 0 else 1) +
  (match p.reader with | .done => 0 | .inNextReader => 1 | .handingOff => 1 | .reading => 2) +
  (if p.feDone then 0 else 1) + (if p.fwdDone then 0 else 1) + (if p.pingerDone then 0 else 1) +
  3 * p.wWaiting + (match p.wHolder with | none => 0 | some false => 2 | some true => 1)

end Jrpc.Cancel

import Jrpc.Base
/-
  Jrpc.Corr — request/response correlation of one wsConn endpoint and the callers using it:

    client.go     `setupRequestChan` (doRequest: enqueue or fail on `exiting`; wait on `ready`)
    websocket.go  `handleWsConn` request case (take, fail fast when `incomingErr`, register in
                  `inflight`, write), `handleResponse` (lookup, deliver, delete), `closeInFlight`,
                  `tryReconnect`, the exit path.

  One event per hook site; every interleaving of callers, main loop, frame executor, reader and redial
  goroutine is an event list accepted by `step?`.  An *attempt* is one trip through doRequest (one
  `ready` channel); a retry-tagged call makes several attempts with the same id.
-/
namespace Jrpc.Corr

/-- What can sit in an attempt's `ready` channel. -/
inductive Msg where
  | connErr                 -- the synthetic "websocket connection closed" response (eTempWSError)
  | genuine (id : NId)      -- a response frame read from the wire, carrying this id
  | ack                     -- the empty response handed back for a notification
  deriving Repr, DecidableEq, Inhabited

structure Att where
  id         : NId := .nil
  enq        : Bool := false       -- doRequest reached its enqueue select
  taken      : Bool := false       -- the main loop received it from `requests`
  registered : Bool := false       -- placed into `inflight`
  epoch      : Nat := 0            -- `inflight` generation it was registered in
  wrote      : Nat := 0            -- request frames written for it
  mail       : List Msg := []      -- contents of `ready` (capacity 1; a second sender would block)
  recvd      : Option Msg := none  -- what doRequest took from `ready`
  exitErr    : Bool := false       -- doRequest returned "websocket routine exiting"
  deriving Repr, DecidableEq, Inhabited

inductive MainPc where
  | idle
  | handling (a : Nat)      -- between taking request `a` and finishing it
  | sweeping (exit : Bool)  -- inside closeInFlight (from tryReconnect, or from the exit path)
  | swept (exit : Bool)     -- inflight cleared; about to spawn the redial goroutine / to close `exiting`
  | exited
  deriving Repr, DecidableEq, Inhabited

inductive Ev where
  | enq (a : Nat) (id : NId)
  | exitErr (a : Nat)
  | recv (a : Nat) (isErr : Bool)
  | take (a : Nat)
  | errCheck (a : Nat) (bad : Bool)   -- main read `incomingErr` (under errLk) for the request it handles
  | failfast (a : Nat)
  | register (a : Nat)
  | wrote (a : Nat)
  | notifReply (a : Nat) (bad : Bool)   -- the write of the notification failed: the reply carries the connection error
  | lookup (id : NId) (found : Bool)
  | deliver (id : NId) (a : Nat)   -- about to send the response into the attempt's `ready` (may wait for room)
  | deliverDone                   -- τ: that send completed (not logged; the replayer applies it when needed)
  | delete (id : NId)
  | cifSend (id : NId) (a : Nat) (ok : Bool)   -- non-blocking send of the connection error; ok = there was room
  | cifClear
  | readerErr                -- the reader saw the connection fail: it sets `incomingErr`
  | readError                -- main received a mid-frame read error: it marks the connection bad
  | reconnBegin
  | reconnSpawn
  | swap
  | abort
  | exitBegin
  | exited
  | peerExec (a : Nat)       -- the peer's executor started the handler for the request frame of attempt a
  deriving Repr, DecidableEq, Inhabited

structure St where
  att          : Nat → Att := fun _ => {}
  inflight     : List (NId × Nat) := []         -- the map `inflight`: id ↦ attempt (unique keys)
  live         : List (NId × Nat) := []         -- id-bearing attempts inside doRequest (ids of concurrent calls differ)
  epoch        : Nat := 0
  incomingErr  : Bool := false
  redialing    : Bool := false      -- the redial goroutine is running
  mainPc       : MainPc := .idle
  decided      : Option Bool := none            -- outcome of the fail-fast check for the request being handled
  exitingClosed: Bool := false
  fePending    : Option (NId × Nat) := none     -- frame executor between lookup and deliver
  feSending    : Option (NId × Nat) := none     -- … blocked in / about to complete the send into `ready`
  feDelivered  : Option (NId × Nat) := none     -- … between the completed send and delete
  execs        : Nat → Nat := fun _ => 0        -- handler executions at the peer, per attempt

def St.setAtt (s : St) (a : Nat) (f : Att → Att) : St :=
  { s with att := fun b => if b = a then f (s.att a) else s.att b }

def St.getInflight (s : St) (id : NId) : Option Nat := s.inflight.lookup id

def St.eraseInflight (s : St) (id : NId) : St :=
  { s with inflight := s.inflight.filter (fun p => p.1 != id) }

def St.putInflight (s : St) (id : NId) (a : Nat) : St :=
  { s with inflight := (id, a) :: s.inflight.filter (fun p => p.1 != id) }

def liveIds (l : List (NId × Nat)) : List NId := l.map (·.1)

def Msg.isErr : Msg → Bool
  | .connErr => true
  | _ => false

def step? (s : St) : Ev → Option St
  | .enq a id =>
    -- ids of attempts that are inside doRequest at the same time differ (one id per call, attempts of
    -- a retried call are sequential)
    if (s.att a).enq || (id != .nil && (liveIds s.live).contains id) then none
    else some { s.setAtt a (fun t => { t with enq := true, id := id }) with
                live := if id != .nil then (id, a) :: s.live else s.live }
  | .exitErr a =>
    let t := s.att a
    if t.enq && !t.taken && !t.exitErr && s.exitingClosed then
      some { s.setAtt a (fun t => { t with exitErr := true }) with live := s.live.filter (fun p => p.2 != a) }
    else none
  | .recv a isErr =>
    let t := s.att a
    match t.mail, t.recvd with
    | m :: rest, none =>
      if t.taken && m.isErr == isErr then
        some { s.setAtt a (fun t => { t with mail := rest, recvd := some m }) with live := s.live.filter (fun p => p.2 != a) }
      else none
    | _, _ => none
  | .take a =>
    let t := s.att a
    if s.mainPc = .idle && t.enq && !t.taken && !t.exitErr then
      some { s.setAtt a (fun t => { t with taken := true }) with mainPc := .handling a, decided := none }
    else none
  | .errCheck a bad =>
    if s.mainPc = .handling a && (s.att a).id != .nil && s.decided.isNone && bad == s.incomingErr then
      some { s with decided := some bad }
    else none
  | .failfast a =>
    let t := s.att a
    if s.mainPc = .handling a && t.id != .nil && s.decided = some true && !t.registered && t.mail.isEmpty then
      some { s.setAtt a (fun t => { t with mail := [.connErr] }) with mainPc := .idle }
    else none
  | .register a =>
    let t := s.att a
    if s.mainPc = .handling a && t.id != .nil && s.decided = some false && !t.registered then
      some ((s.setAtt a (fun t => { t with registered := true, epoch := s.epoch })).putInflight t.id a)
    else none
  | .wrote a =>
    let t := s.att a
    if s.mainPc = .handling a && (t.id == .nil || t.registered) && t.wrote = 0 then
      some { s.setAtt a (fun t => { t with wrote := 1 }) with
             mainPc := if t.id == .nil then .handling a else .idle }
    else none
  | .notifReply a bad =>
    let t := s.att a
    if s.mainPc = .handling a && t.id == .nil && t.wrote = 1 && t.mail.isEmpty then
      some { s.setAtt a (fun t => { t with mail := [if bad then .connErr else .ack] }) with mainPc := .idle }
    else none
  | .lookup id found =>
    if s.fePending.isSome || s.feSending.isSome || s.feDelivered.isSome then none
    else match s.getInflight id, found with
      | some a, true => if s.execs a > 0 then some { s with fePending := some (id, a) } else none
      | none, false => some s
      | _, _ => none
  | .deliver id a =>
    if s.fePending = some (id, a) then some { s with fePending := none, feSending := some (id, a) } else none
  | .deliverDone =>
    match s.feSending with
    | some (id, a) =>
      if (s.att a).mail.isEmpty then
        some { s.setAtt a (fun t => { t with mail := [.genuine id] }) with feSending := none, feDelivered := some (id, a) }
      else none                       -- `ready` (capacity 1) is full: the executor waits
    | none => none
  | .delete id =>
    match s.feDelivered with
    | some (i, a) =>
      if i = id then
        -- only this response's own entry is removed
        some { (if s.getInflight id = some a then s.eraseInflight id else s) with feDelivered := none }
      else none
    | none => none
  | .cifSend id a ok =>
    match s.mainPc with
    | .sweeping _ =>
      if s.getInflight id = some a then
        -- non-blocking: a full mailbox already holds that attempt's answer
        if (s.att a).mail.isEmpty then
          (if ok then some (s.setAtt a (fun t => { t with mail := [.connErr] })) else none)
        else (if ok then none else some s)
      else none
    | _ => none
  | .cifClear =>
    match s.mainPc with
    | .sweeping x =>
      -- the loop visited every entry: each attempt in `inflight` has something in its mailbox by now
      if s.inflight.all (fun p => !(s.att p.2).mail.isEmpty || (s.att p.2).recvd.isSome) then
        some { s with inflight := [], epoch := s.epoch + 1, mainPc := .swept x }
      else none
    | _ => none
  | .readerErr => some { s with incomingErr := true }
  | .readError => if s.mainPc = .idle then some { s with incomingErr := true } else none
  | .reconnBegin =>
    if s.mainPc = .idle && s.incomingErr && !s.redialing then some { s with mainPc := .sweeping false } else none
  | .reconnSpawn =>
    if s.mainPc = .swept false then some { s with mainPc := .idle, redialing := true } else none
  | .swap => if s.redialing then some { s with redialing := false, incomingErr := false } else none
  | .abort => if s.redialing then some { s with redialing := false } else none
  | .exitBegin => if s.mainPc = .idle then some { s with mainPc := .sweeping true } else none
  | .exited => if s.mainPc = .swept true then some { s with mainPc := .exited, exitingClosed := true } else none
  | .peerExec a =>
    if s.execs a < (s.att a).wrote then some { s with execs := fun b => if b = a then s.execs b + 1 else s.execs b } else none

def run? (s : St) : List Ev → Option St
  | [] => some s
  | e :: es => (step? s e).bind (fun s' => run? s' es)

end Jrpc.Corr

/-
  Jrpc.Stream — one channel subscription, end to end:

    handler's channel ─fwd (handleOutChans)→ wire ─reader/fe (handleChanMessage)→ sink callback
      → `incoming` (cap 32) ─buffer goroutine (makeOutChan)→ unbounded list → caller's channel C

  websocket.go: `handleOutChans`, `handleChanMessage`, `handleChanClose`, `closeChans`,
  `handleResponse` (sink registration); client.go: `makeOutChan`.

  One event per hook site.  The wire is the projection of everything in flight between the server's
  forwarder and the client's frame executor (socket buffers, the proxy, the frame queue) onto this
  channel.  The transport is FIFO and the forwarder writes the registration reply first, then values,
  then the close notification, so the wire is: `wireReg` (the reply in flight), then `wireVals`, then
  `wireClose`.  What a connection fault destroys simply stays there for ever.  Go run-time
  panics are explicit: closing `incoming` twice and sending on it after the close are `crash`.
-/
namespace Jrpc.Stream

inductive Cause where
  | ctx | drained
  deriving Repr, DecidableEq, Inhabited

inductive Ev where
  | reg                      -- fwd: registration reply written, channel joins the select set
  | fwdVal (v : Nat)         -- fwd: took v from the handler's channel and wrote an xrpc.ch.val frame
  | fwdClose                 -- fwd: handler closed its channel; xrpc.ch.close written
  | sinkReg                  -- client fe: response announcing the channel executed, sink registered
  | chval (found : Bool)     -- client fe: next xrpc.ch.val frame of this channel executed
  | pushed                   -- sink: value placed into `incoming`
  | dropped                  -- sink: context already cancelled, value discarded
  | chclose (found : Bool)   -- client fe: xrpc.ch.close executed
  | ccClose                  -- closeChans (connection lost / client closed): sink removed and closed
  | bufIn                    -- buffer goroutine: incoming → list
  | bufOut                   -- buffer goroutine: head of list delivered to the caller
  | bufInClosed              -- buffer goroutine: noticed that `incoming` was closed
  | bufClose (c : Cause)     -- buffer goroutine: closes the caller's channel and exits
  | ctxCancel                -- the subscription context is cancelled
  deriving Repr, DecidableEq, Inhabited

structure St where
  sent        : List Nat := []       -- H: everything the forwarder took from the handler, in order
  registered  : Bool := false
  fwdClosed   : Bool := false
  wireReg     : Bool := false        -- the response announcing the channel is in flight
  wireVals    : List Nat := []       -- values in flight, oldest first
  wireClose   : Bool := false        -- the close notification is in flight (behind every value)
  sinkOpen    : Bool := false        -- entry present in chanHandlers
  pending     : Option Nat := none   -- value inside the sink callback (handler lock held)
  incoming    : List Nat := []
  inClosed    : Bool := false        -- `incoming` closed
  inSeenClosed: Bool := false        -- the buffer goroutine set its `incoming` to nil
  list        : List Nat := []
  recv        : List Nat := []       -- what the caller received
  dropped     : List Nat := []       -- ghost: values discarded by the sink
  orphaned    : List Nat := []       -- ghost: values whose frame found no sink any more
  hCloseSeen  : Bool := false        -- ghost: the handler's close notification was executed with the sink present
  closed      : Bool := false        -- the caller's channel is closed
  ctxCancelled: Bool := false
  crashed     : Bool := false
  deriving Repr, DecidableEq, Inhabited

def incomingCap : Nat := 32

def step? (s : St) : Ev → Option St
  | .reg => if s.registered then none else some { s with registered := true, wireReg := true }
  | .fwdVal v =>
    if s.registered && !s.fwdClosed then some { s with sent := s.sent ++ [v], wireVals := s.wireVals ++ [v] } else none
  | .fwdClose =>
    if s.registered && !s.fwdClosed then some { s with fwdClosed := true, wireClose := true } else none
  | .sinkReg =>
    if s.wireReg then some { s with wireReg := false, sinkOpen := true } else none
  | .chval found =>
    if s.wireReg then none
    else match s.wireVals with
    | v :: rest =>
      if s.pending.isSome then none
      else if found then
        if !s.sinkOpen then none
        else if s.inClosed then some { s with crashed := true }          -- send on closed channel
        else some { s with wireVals := rest, pending := some v }
      else
        if s.sinkOpen then none else some { s with wireVals := rest, orphaned := s.orphaned ++ [v] }
    | [] => none
  | .pushed =>
    match s.pending with
    | some v =>
      -- room in `incoming`; and no earlier value was discarded (a cancelled context stays cancelled,
      -- so after one discard every later value is discarded too)
      if s.incoming.length < incomingCap && s.dropped.isEmpty then
        some { s with pending := none, incoming := s.incoming ++ [v] } else none
    | none => none
  | .dropped =>
    match s.pending with
    | some v => if s.ctxCancelled then some { s with pending := none, dropped := s.dropped ++ [v] } else none
    | none => none
  | .chclose found =>
    if s.wireReg || !s.wireVals.isEmpty || !s.wireClose || s.pending.isSome then none
    else if found then
      if !s.sinkOpen then none
      else if s.inClosed then some { s with crashed := true }          -- close of closed channel
      else some { s with wireClose := false, sinkOpen := false, inClosed := true, hCloseSeen := true }
    else if s.sinkOpen then none else some { s with wireClose := false }
  | .ccClose =>
    if s.pending.isSome || !s.sinkOpen then none
    else if s.inClosed then some { s with crashed := true }
    else some { s with sinkOpen := false, inClosed := true }
  | .bufIn =>
    if s.closed || s.inSeenClosed then none
    else match s.incoming with
      | v :: rest => some { s with incoming := rest, list := s.list ++ [v] }
      | [] => none
  | .bufOut =>
    if s.closed then none
    else match s.list with
      | v :: rest => some { s with list := rest, recv := s.recv ++ [v] }
      | [] => none
  | .bufInClosed =>
    if s.closed || s.inSeenClosed then none
    else if s.inClosed && s.incoming.isEmpty then some { s with inSeenClosed := true } else none
  | .bufClose c =>
    if s.closed then none
    else match c with
      | .ctx => if s.ctxCancelled then some { s with closed := true } else none
      | .drained => if s.inSeenClosed && s.list.isEmpty then some { s with closed := true } else none
  | .ctxCancel => some { s with ctxCancelled := true }

def run? (s : St) : List Ev → Option St
  | [] => some s
  | e :: es => (step? s e).bind (fun s' => run? s' es)

/-- Everything that left the forwarder and has not reached the caller. -/
def St.inTransit (s : St) : List Nat :=
  s.list ++ s.incoming ++ s.dropped ++ s.orphaned ++ s.pending.toList ++ s.wireVals

/-! ### product of subscriptions (isolation) -/

abbrev Subs := Nat → St

def Subs.step? (ss : Subs) (ch : Nat) (e : Ev) : Option Subs :=
  (Stream.step? (ss ch) e).map (fun s' => fun c => if c = ch then s' else ss c)

end Jrpc.Stream

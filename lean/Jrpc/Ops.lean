import Jrpc.Codec
import Jrpc.Auth
import Jrpc.Backoff
import Jrpc.Frames
import Jrpc.Errors
import Jrpc.Call
import Jrpc.Reader
import Jrpc.Locks
import Jrpc.Stream
import Jrpc.Corr
import Jrpc.Cancel
import Jrpc.Keepalive
import Jrpc.Redial
import Jrpc.Forwarder
import Jrpc.Epoch
import Jrpc.TransSearch
/-
  Jrpc.Ops — dispatch of driver operations onto the model's executable definitions.
-/
namespace Jrpc.Ops
open Lean Jrpc Jrpc.Codec

/-- op "http": one HTTP exchange through `handleReader`. -/
def opHttp (j : Json) : R Json := do
  let h ← handler (← fld j "handler")
  let r := h.handleReader (← nat j "max") (← nat j "size") (← bodyIn (← fld j "body"))
  return Json.mkObj [("status", r.status), ("toks", Json.arr (r.toks.map tokJ).toArray),
                     ("invoked", Json.arr (r.invoked.map Json.str).toArray)]

/-- op "handle": one request through `handler.handle` (WebSocket: chanOK). -/
def opHandle (j : Json) : R Json := do
  let h ← handler (← fld j "handler")
  let o := h.handle (← bool j "chanOK")
    { id := ← nid (← fld j "id"), method := (← str j "method").toList,
      params := ← paramsIn (← fld j "params") }
  return Json.mkObj [("resp", optJ respJ o.resp), ("invoked", optJ Json.str o.invoked),
                     ("chanReg", o.chanReg)]

/-- op "wscall": one inbound remote-call frame through `handleCall` (writer selection included). -/
def opWsCall (j : Json) : R Json := do
  let h ← handler (← fld j "handler")
  let (o, w) := wsCall h
    { id := ← nid (← fld j "id"), method := (← str j "method").toList,
      params := ← paramsIn (← fld j "params") }
  return Json.mkObj [("wire", optJ respJ w), ("invoked", optJ Json.str o.invoked),
                     ("chanReg", o.chanReg)]

/-- op "agree": the client names `fmt ns field` (or its `rpc_method` tag) and the server dispatches it. -/
def opAgree (j : Json) : R Json := do
  let hj ← fld j "handler"
  let h ← handler hj
  let f ← fmtOf (← fld hj "fmt")
  let name : Name :=
    match (fld j "tag").bind (·.getStr?) with
    | .ok t => t.toList
    | .error _ => f.apply (strD j "ns" "").toList (strD j "field" "").toList
  let o := h.handle false { id := .num "1", method := name, params := .arr (← (arrD j "elems").mapM strList) }
  return Json.mkObj [("name", String.ofList name), ("ran", optJ Json.str o.invoked)]

def optStrList (j : Json) (k : String) : R (Option (List String)) := do
  match fld j k with
  | .error _ => return none
  | .ok Json.null => return none
  | .ok v => return some (← strList v)

/-- op "perm": one call through a PermissionedProxy field. -/
def opPerm (j : Json) : R Json := do
  let out := Auth.proxyCall (← optStrList j "attached") (← strList (← fld j "defaults")) (← str j "required")
    (fun _ => ())
  return Json.mkObj [("ran", out == .ran ())]

/-- op "authhttp": one request through auth.Handler.ServeHTTP; `verify` is a finite table. -/
def opAuthHttp (j : Json) : R Json := do
  let tbl ← (arrD j "verify").mapM (fun e => do
    return ((← str e "token").toList, ← optStrList e "perms"))
  let verify (t : List Char) : Option (List String) := (tbl.lookup t).join
  match Auth.serveHTTP (← str j "header").toList (← str j "query").toList verify with
  | .unauthorized => return Json.mkObj [("status", 401), ("next", false), ("attached", Json.null)]
  | .next a => return Json.mkObj [("status", 200), ("next", true),
      ("attached", optJ (fun ps => Json.arr (ps.map Json.str).toArray) a)]

/-- op "backoff": interval of `next(attempt)` over all jitters (attempt < 0 ↦ minDelay). -/
def opBackoff (j : Json) : R Json := do
  let b : Backoff := { minDelay := ← nat j "min", maxDelay := ← nat j "max" }
  let a ← int j "attempt"
  if a < 0 then
    return Json.mkObj [("lo", b.minDelay), ("hi", b.minDelay)]
  else
    return Json.mkObj [("lo", b.lo a.toNat), ("hi", b.hi a.toNat)]

def jshape : String → R JShape
  | "null" => pure .null | "bool" => pure .bool | "uint" => pure .uint | "num" => pure .num
  | "str" => pure .str | "arr" => pure .arr | "obj" => pure .obj
  | s => throw s!"bad shape {s}"

def jval (j : Json) : R JVal := do
  return { shape := ← jshape (← str j "shape"), text := ← str j "text" }

def ctlParams (j : Json) : R CtlParams := do
  match (← str j "t") with
  | "absent" => return .absent
  | "null" => return .null
  | "nonarray" => return .nonArray
  | "arr" => return .arr (← (arrD j "elems").mapM jval)
  | t => throw s!"bad ctl params {t}"

def frameIn (j : Json) : R FrameIn := do
  return { decodable := boolD j "decodable" true
           id := ← wireId (← fld j "id")
           method := strD j "method" ""
           params := ← ctlParams (fldD j "params" (Json.mkObj [("t", "absent")]))
           call := ← paramsIn (fldD j "call" (Json.mkObj [("t", "absent")]))
           hasResult := boolD j "hasResult" false }

/-- op "frames": a frame sequence through the executor of one endpoint. -/
def opFrames (j : Json) : R Json := do
  let h ← handler (← fld j "handler")
  let st := fldD j "state" (Json.mkObj [])
  let s0 : ExecState := {
    handling := ← (arrD st "handling").mapM nid
    chanHandlers := ← (arrD st "chanHandlers").mapM (·.getStr?)
    inflight := ← (arrD st "inflight").mapM nid
    hasHandler := boolD st "hasHandler" true }
  let fs ← (arrD j "frames").mapM frameIn
  match execFrames h s0 fs with
  | .crash w => return Json.mkObj [("crash", true), ("why", w)]
  | .ok s =>
    return Json.mkObj [("crash", false),
      ("cancelled", Json.arr (s.cancelled.map nidJ).toArray),
      ("invoked", Json.arr ((s.spawned.filterMap (·.invoked)).map Json.str).toArray),
      ("responses", Json.arr ((s.spawned.filterMap (·.resp)).map respJ).toArray),
      ("wire", Json.arr (s.wire.map respJ).toArray),
      ("chanRegs", (s.spawned.filter (·.chanReg)).length),
      ("delivered", Json.arr (s.delivered.map (fun p => Json.arr #[Json.str p.1, Json.str p.2])).toArray),
      ("closed", Json.arr (s.closedChans.map Json.str).toArray),
      ("mailbox", Json.arr (s.mailbox.map nidJ).toArray)]

def optStr (j : Json) (k : String) : Option String :=
  match fld j k with
  | .ok (Json.str s) => some s
  | _ => none

def errTy (j : Json) : R Errors.Ty := do
  return { name := ← str j "name", ptr := ← bool j "ptr" }

def registry (j : Json) (k : String) : R (Option Errors.Registry) := do
  match fld j k with
  | .error _ => return none
  | .ok Json.null => return none
  | .ok v =>
    -- a list of [code, ty] in registration order, on top of NewErrors()
    let mut r := Errors.newErrors
    for e in (← v.getArr?).toList do
      r := r.register (← int e "code") (← errTy (← fld e "ty"))
    return some r

def wireErrJ (w : Errors.WireErr) : Json :=
  Json.mkObj [("code", Json.num (JsonNumber.fromInt w.code)), ("msg", w.msg),
              ("meta", optJ Json.str w.metaJ), ("data", optJ Json.str w.data)]

def capOf : String → R Errors.Cap
  | "plain" => pure .plain | "marshalable" => pure .marshalable | "codec" => pure .codec
  | s => throw s!"bad cap {s}"

/-- op "errors": handler outcome ↦ what the caller sees.  The application's methods are tables
    computed by the harness from the real error types (the model never looks inside them). -/
def opErrors (j : Json) : R Json := do
  let aj ← fld j "app"
  let caps ← (arrD aj "cap").mapM (fun e => do
    return ((← errTy (← fld e "ty")), ← capOf (← str e "cap")))
  let unm ← (arrD aj "unmarshal").mapM (fun e => do return ((← str e "name"), optStr e "result"))
  let frw ← (arrD aj "fromWire").mapM (fun e => do return ((← str e "name"), optStr e "result"))
  let toWire : Option Errors.WireErr ←
    match fld aj "toWire" with
    | .ok Json.null => pure none
    | .error _ => pure none
    | .ok w => pure (some { code := ← int w "code", msg := ← str w "msg", data := optStr w "data" })
  let app : Errors.App := {
    cap := fun t => (caps.lookup t).getD .plain
    marshal := fun _ => optStr aj "marshal"
    unmarshal := fun t _ => (unm.lookup t.name).join
    toWire := fun _ => toWire
    fromWire := fun t _ => (frw.lookup t.name).join }
  let herr : Option Errors.ErrVal ←
    match fld j "err" with
    | .ok Json.null => pure none
    | .error _ => pure none
    | .ok e => pure (some { ty := ← errTy (← fld e "ty"), msg := ← str e "msg", content := ← str e "content" })
  let (v, ce) := Errors.endToEnd app (← registry j "sreg") (← registry j "creg") herr (← str j "hval")
  let cej := match ce with
    | .none => Json.null
    | .generic w => Json.mkObj [("k", "generic"), ("code", Json.num (JsonNumber.fromInt w.code)), ("msg", w.msg)]
    | .typed t c => Json.mkObj [("k", "typed"), ("name", t.name), ("ptr", t.ptr), ("content", c)]
  return Json.mkObj [("val", optJ Json.str v), ("err", cej)]

/-- op "call": one proxy call through client params → wire → server args → result path, executed on
    argument *indices* (token k = argument k; a custom encoder adds 1000, its decoder removes it; an
    argument the oracle says does not round-trip is `none`). -/
def opCall (j : Json) : R Json := do
  let sj ← fld j "sig"
  let s : Call.Sig := {
    hasCtx := boolD sj "ctx" false, ptypes := ← strList (← fld sj "ptypes"), raw := boolD sj "raw" false,
    out := ← outShape (← str sj "out"), vty := strD sj "vty" "" }
  let custom ← strList (fldD j "customTypes" (Json.arr #[]))
  let bad ← (arrD j "badArgs").mapM (·.getNat?)           -- argument indices that do not round-trip
  let c : Call.Codec Nat Nat := {
    marshal := fun v => if bad.contains (v % 1000) then none else some v
    unmarshal := fun _ jv => some jv
    encoder := fun t => if custom.contains t then some (fun v => some (v + 1000)) else none
    decoder := fun t => if custom.contains t then some (fun jv => if jv ≥ 1000 then some (jv - 1000) else none) else none
    zero := fun _ => 999 }
  let n := s.ptypes.length
  let args : List (Call.Arg Nat) :=
    (if s.hasCtx then [Call.Arg.ctx] else []) ++
      (if s.raw then [Call.Arg.rawParams "RAW"] else (List.range n).map Call.Arg.val)
  let argJ : Call.Arg Nat → Json
    | .ctx => "ctx"
    | .val v => Json.mkObj [("arg", v)]
    | .rawParams t => Json.mkObj [("raw", t)]
  let wire := Call.clientParams c s args
  let reached := wire.bind (Call.serverArgs c s)
  let wireJ : Json := match wire with
    | none => Json.null
    | some (.raw t) => Json.mkObj [("raw", t)]
    | some (.arr es) => Json.arr (es.map (fun (e : Nat) => (e : Json))).toArray
  let failed := boolD j "handlerFails" false
  let resultBad := boolD j "resultBad" false
  let c2 : Call.Codec Nat Nat := { c with marshal := fun v => if resultBad then none else some v }
  let ret : Call.HRet Nat := .vals (if s.out.hasVal then some 500 else none) failed
  let outJ : Json := match reached with
    | none => Json.null
    | some _ =>
      match Call.callerOut c2 s ret with
      | none => "client-error"
      | some o => Json.mkObj [
          ("val", match o.val with | none => Json.null | some 500 => "rt" | some 999 => "zero" | some _ => "other"),
          ("err", optJ (fun (b : Bool) => (b : Json)) o.err)]
  return Json.mkObj [("wire", wireJ), ("slots", optJ (fun l => Json.arr (l.map argJ).toArray) reached), ("caller", outJ)]

/-- op "reader": replay of the read/close trace a handler performed on its reader parameter against
    `waitReadCloser` over a body of `len` bytes (byte k = k mod 251); the trace gives, per read, how
    many bytes the body delivered.  Output per step: bytes handed over (count + sum), eof, refusal. -/
def opReader (j : Json) : R Json := do
  let len ← nat j "len"
  let salt := natD j "salt" 0
  let w0 : Reader.WRC := { rest := (List.range len).map (fun k => (k + salt) % 251) }
  let ops ← (arrD j "ops").mapM (fun o => do
    match (← str o "op") with
    | "read" => return Reader.Op.read (← nat o "want") (← nat o "got") (boolD o "eofWithData" false)
    | "close" => return Reader.Op.close
    | x => throw s!"bad reader op {x}")
  let (w, outs) := Reader.run w0 ops
  let outJ : Reader.Out → Json
    | .data bs eof => Json.mkObj [("n", bs.length), ("sum", (bs.foldl (· + ·) 0 : Nat)), ("eof", eof)]
    | .closed => "closed"
    | .crash => "crash"
    | .refused => "refused"
  return Json.mkObj [("outs", Json.arr (outs.map outJ).toArray), ("waitClosed", w.waitClosed),
                     ("closeCount", w.closeCount), ("unread", w.rest.length)]

/-- op "rendezvous": arrival events at the reader table ↦ completed hand-offs. -/
def opRendezvous (j : Json) : R Json := do
  let es ← (arrD j "events").mapM (fun e => do
    match (← str e "ev") with
    | "upload" => return Reader.TEvent.upload (← nat e "uuid") (← nat e "reader")
    | "decode" => return Reader.TEvent.decode (← nat e "uuid")
    | x => throw s!"bad table event {x}")
  let (_, hs) := Reader.trun [] es
  return Json.mkObj [("handoffs", Json.arr (hs.map (fun h => Json.arr #[(h.uuid : Json), (h.reader : Json)])).toArray)]

/-- Replays an event list through a `step?`; answers how far it got. -/
def replay {σ ε} (step? : σ → ε → Option σ) (s : σ) (es : List ε) : σ × Option Nat :=
  let rec go (s : σ) (i : Nat) : List ε → σ × Option Nat
    | [] => (s, none)
    | e :: es => match step? s e with
      | some s' => go s' (i + 1) es
      | none => (s, some i)
  go s 0 es

/-- op "locks": the w.begin / w.end events of one connection, in trace order. -/
def opLocks (j : Json) : R Json := do
  let es ← (arrD j "events").mapM (fun e => do
    let site ← str e "site"
    match (← str e "e") with
    | "begin" => return Locks.Ev.begin site
    | "end" => return Locks.Ev.done site
    | "swap" => return Locks.Ev.swap site
    | "chunk" => return Locks.Ev.chunk site
    | x => throw s!"bad lock event {x}")
  let (s, refused) := replay Locks.step? {} es
  return Json.mkObj [("accepted", refused.isNone), ("refusedAt", optJ (fun (n : Nat) => (n : Json)) refused),
                     ("monitor", Locks.sectionsOK none es), ("sections", s.msgNo), ("generation", s.gen)]

/-- op "redial": the redial-goroutine events of one client connection, with their hook times. -/
def opRedial (j : Json) : R Json := do
  let cj ← fld j "cfg"
  let cfg : Redial.Cfg := Redial.Cfg.ofBackoff (← bool cj "reconnect") { minDelay := ← nat cj "minDelay", maxDelay := ← nat cj "maxDelay" }
  let es ← (arrD j "events").mapM (fun e => do
    let t ← nat e "t"
    match (← str e "e") with
    | "loss" => return Redial.Ev.loss t
    | "spawn" => return Redial.Ev.spawn t
    | "sleep" => return Redial.Ev.sleep (← nat e "n") t
    | "dial" => return Redial.Ev.dial (← nat e "n") t
    | "swap" => return Redial.Ev.swap t
    | "abort" => return Redial.Ev.abort t
    | "exit" => return Redial.Ev.exit t
    | x => throw s!"bad redial event {x}")
  let (s, refused) := replay (Redial.step? cfg) {} es
  return Json.mkObj [("accepted", refused.isNone), ("refusedAt", optJ (fun (n : Nat) => (n : Json)) refused),
                     ("dials", Json.arr (s.dials.reverse.map (fun p => Json.arr #[(p.1 : Json), (p.2 : Json)])).toArray),
                     ("up", decide (s.pc = .up)), ("gone", s.gone)]

/-- op "forwarder": the forwarder events (registration, value, close) of one server-role connection. -/
def opForwarder (j : Json) : R Json := do
  let es ← (arrD j "events").mapM (fun e => do
    let hp ← nat e "hp"
    let id ← nat e "id"
    match (← str e "e") with
    | "reg" => return Forwarder.Ev.reg hp id
    | "val" => return Forwarder.Ev.val hp id
    | "close" => return Forwarder.Ev.close hp id
    | x => throw s!"bad forwarder event {x}")
  let (s, refused) := replay Forwarder.step? {} es
  return Json.mkObj [("accepted", refused.isNone), ("refusedAt", optJ (fun (n : Nat) => (n : Json)) refused),
                     ("open", s.cases.length)]

/-- op "epoch": the requests served by one reconnecting endpoint (client role with reverse handlers):
    `req id epoch` (fe.call), `loss` (reconn.begin), `swap` (rc.swap), `write epoch` (the response writer
    wrote), `stale epoch` (it discarded), `done id epoch` (h.done, keep = false), `cancel id` (fe.cancel).
    The epoch the code read must be the model's connection count; a response is written iff its
    request's epoch is the current one.  A request executed after its connection ended (read from the old
    connection, still queued at the sweep) is the model's `reqLate`. -/
def opEpoch (j : Json) : R Json := do
  let mut s : Epoch.St := {}
  let mut late : List (Nat × Nat) := []
  let mut i : Nat := 0
  let mut stale : Nat := 0
  let refuse (i : Nat) (why : String) : Json := Json.mkObj [("accepted", false), ("refusedAt", (i : Json)), ("why", why)]
  for e in arrD j "events" do
    match (← str e "e") with
    | "req" =>
      let id ← nat e "id"
      let k ← nat e "epoch"
      if k > s.epoch then
        return refuse i s!"handleCall read connection epoch {k} while only {s.epoch} connections had been replaced"
      -- a frame of a connection that has ended (or is being replaced), executed late: the model's `reqLate`
      if s.down || k < s.epoch then
        match Epoch.step? true s (.reqLate id k) with
        | some s' => s := s'
        | none => return refuse i s!"late request {id} of epoch {k} refused"
      else match Epoch.step? true s (.req id) with
        | some s' => s := s'
        | none => return refuse i s!"request id {id} is already being handled on this connection"
    | "loss" => match Epoch.step? true s .loss with
        | some s' => s := s'
        | none => pure ()
    | "swap" => match Epoch.step? true s .swap with
        | some s' => s := s'
        | none => return refuse i "a connection was installed although none had been lost"
    | "write" =>
      let k ← nat e "epoch"
      if k != s.epoch then
        return refuse i s!"a response to a request of connection epoch {k} was written while the epoch is {s.epoch}"
    | "stale" =>
      let k ← nat e "epoch"
      if k == s.epoch then
        return refuse i s!"a response to a request of the current connection (epoch {k}) was discarded"
      stale := stale + 1
    | "done" =>
      let id ← nat e "id"
      let k ← nat e "epoch"
      if late.contains (id, k) then late := late.erase (id, k)
      else match s.running.find? (fun H => H.id == id && H.epoch == k) with
        | none => return refuse i s!"a handler for request {id} of epoch {k} returned but none is running"
        | some H => match Epoch.step? true s (.done H.hid) with
          | some s' => s := s'
          | none => return refuse i "done refused"
    | "cancel" =>
      let id ← nat e "id"
      let found ← bool e "found"
      if !s.down then
        let want := (Epoch.lookup s.handling id).isSome
        -- (a request executed late may own an entry the model does not know: only `found = false` is checked)
        if want && !found then
          return refuse i s!"xrpc.cancel for request {id} found no handler although one of this connection is running"
        match Epoch.step? true s (.cancel id) with
        | some s' => s := s'
        | none => pure ()
    | x => throw s!"bad epoch event {x}"
    i := i + 1
  return Json.mkObj [("accepted", true), ("epoch", (s.epoch : Json)), ("invocations", (s.all.length : Json)),
                     ("stale", (stale : Json)), ("running", (s.running.length : Json))]

/-- op "retryloop": the method-level retry loop over the outcomes of its attempts. -/
def opRetryLoop (j : Json) : R Json := do
  let outs ← (arrD j "outs").mapM (fun o => do
    match o.getStr? with
    | .ok "connErr" => return Redial.Attempt.connErr
    | .ok "sendErr" => return Redial.Attempt.sendErr
    | .ok "answer" => return Redial.Attempt.answer 0
    | _ => throw "bad attempt outcome")
  match Redial.retryLoop (← bool j "retry") outs with
  | none => return Json.mkObj [("returns", false)]
  | some (a, n) =>
    let k := match a with | .connErr => "connErr" | .sendErr => "sendErr" | .answer _ => "answer"
    return Json.mkObj [("returns", true), ("result", k), ("attempts", n)]

def streamEv (e : Json) : R Stream.Ev := do
  match (← str e "e") with
  | "reg" => return .reg
  | "fwdVal" => return .fwdVal (← nat e "v")
  | "fwdClose" => return .fwdClose
  | "sinkReg" => return .sinkReg
  | "chval" => return .chval (← bool e "found")
  | "pushed" => return .pushed
  | "dropped" => return .dropped
  | "chclose" => return .chclose (← bool e "found")
  | "ccClose" => return .ccClose
  | "bufIn" => return .bufIn
  | "bufOut" => return .bufOut
  | "bufInClosed" => return .bufInClosed
  | "bufClose" => return .bufClose (if (← str e "cause") == "ctx" then .ctx else .drained)
  | "ctxCancel" => return .ctxCancel
  | x => throw s!"bad stream event {x}"

/-- Replay of one subscription's events with τ-saturation for the one rendezvous whose two sides are
    logged by different goroutines after it completed: the sink's send into `incoming`
    (`sink.pushed`) and the buffer goroutine's receive from it (`buf.in`).  Either log entry may come
    first.  When `bufIn` is refused while a value sits inside the sink, the not-yet-logged `pushed`
    is applied first; when `pushed` is refused because `incoming` is full, the not-yet-logged `bufIn`
    is applied first; the late log entry is then skipped. -/
def replayStream (es : List Stream.Ev) : Stream.St × Option Nat :=
  let rec go (s : Stream.St) (earlyPushed earlyBufIn : Nat) (i : Nat) : List Stream.Ev → Stream.St × Option Nat
    | [] => (s, none)
    | e :: rest =>
      match e, earlyPushed, earlyBufIn with
      | .pushed, p + 1, b => go s p b (i + 1) rest            -- already applied as τ
      | .bufIn, p, b + 1 => go s p b (i + 1) rest             -- already applied as τ
      | _, _, _ =>
        match Stream.step? s e with
        | some s' => go s' earlyPushed earlyBufIn (i + 1) rest
        | none =>
          match e with
          | .bufIn =>
            match (Stream.step? s .pushed).bind (fun s1 => Stream.step? s1 .bufIn) with
            | some s2 => go s2 (earlyPushed + 1) earlyBufIn (i + 1) rest
            | none => (s, some i)
          | .pushed =>
            match (Stream.step? s .bufIn).bind (fun s1 => Stream.step? s1 .pushed) with
            | some s2 => go s2 earlyPushed (earlyBufIn + 1) (i + 1) rest
            | none => (s, some i)
          | _ => (s, some i)
  go {} 0 0 0 es

/-- op "stream": one subscription's events in trace order. -/
def opStream (j : Json) : R Json := do
  let es ← (arrD j "events").mapM streamEv
  let (s, refused) := replayStream es
  let natsJ (l : List Nat) : Json := Json.arr (l.map (fun (n : Nat) => (n : Json))).toArray
  return Json.mkObj [("accepted", refused.isNone), ("refusedAt", optJ (fun (n : Nat) => (n : Json)) refused),
    ("recv", natsJ s.recv), ("sent", natsJ s.sent), ("closed", s.closed), ("crashed", s.crashed),
    ("inTransit", natsJ s.inTransit), ("hCloseSeen", s.hCloseSeen), ("ctxCancelled", s.ctxCancelled),
    ("prefixOK", isPrefixOf s.recv s.sent)]

def corrEv (e : Json) : R Corr.Ev := do
  let a := natD e "a" 0
  let idOf : R NId := do nid (← fld e "id")
  match (← str e "e") with
  | "enq" => return .enq a (← idOf)
  | "exitErr" => return .exitErr a
  | "recv" => return .recv a (← bool e "err")
  | "take" => return .take a
  | "failfast" => return .failfast a
  | "errCheck" => return .errCheck a (← bool e "err")
  | "register" => return .register a
  | "wrote" => return .wrote a
  | "notifReply" => return .notifReply a (boolD e "bad" false)
  | "lookup" => return .lookup (← idOf) (← bool e "found")
  | "deliver" => return .deliver (← idOf) a
  | "delete" => return .delete (← idOf)
  | "cifSend" => return .cifSend (← idOf) a (← bool e "ok")
  | "cifClear" => return .cifClear
  | "readerErr" => return .readerErr
  | "readError" => return .readError
  | "reconnBegin" => return .reconnBegin
  | "reconnSpawn" => return .reconnSpawn
  | "swap" => return .swap
  | "abort" => return .abort
  | "exitBegin" => return .exitBegin
  | "exited" => return .exited
  | "peerExec" => return .peerExec a
  | x => throw s!"bad corr event {x}"

/-- The `isErr` flag of the first logged receive of attempt `a` in the rest of the trace. -/
def firstRecv : List Corr.Ev → Nat → Option Bool
  | [], _ => none
  | .recv b isErr :: rest, a => if b = a then some isErr else firstRecv rest a
  | _ :: rest, a => firstRecv rest a

/-- Replay of one endpoint's correlation events.  Sends into a channel are logged when they begin and
    receives after they complete, but two log entries written by different goroutines around one
    rendezvous can come in either order.  When an event is refused the replayer therefore tries the
    not-yet-logged step that would explain it — the executor's completed send (`deliverDone`, never
    logged), the sweep's send to that attempt, or `close(exiting)` — applies it, remembers it if it
    has a log entry of its own (which is then skipped), and retries once. -/
def replayCorr (es : List Corr.Ev) : Corr.St × Option Nat × Nat :=
  let rec go (s : Corr.St) (early : List Corr.Ev) (taus : Nat) (i : Nat) : List Corr.Ev → Corr.St × Option Nat × Nat
    | [] => (s, none, taus)
    | e :: rest =>
      if early.contains e then go s (early.erase e) taus (i + 1) rest
      else
        -- the sweep's send meets an attempt whose response the executor is just delivering: if the caller's
        -- next logged receive is the genuine response, the executor's send and that receive came first
        -- (the receive is logged late) and the sweep's send then found the mailbox empty again
        let lateRecv : Option Corr.St :=
          match e with
          | .cifSend id a true =>
            if s.feSending == some (id, a) && firstRecv rest a == some false then
              ((Corr.step? s .deliverDone).bind (fun s1 => Corr.step? s1 (.recv a false))).bind (fun s2 => Corr.step? s2 e)
            else none
          | _ => none
        match lateRecv with
        | some s3 =>
          (match e with
           | .cifSend _ a _ => go s3 (Corr.Ev.recv a false :: early) (taus + 1) (i + 1) rest
           | _ => go s3 early taus (i + 1) rest)
        | none =>
        match Corr.step? s e with
        | some s' => go s' early taus (i + 1) rest
        | none =>
          -- candidates, in order
          let viaDone := (Corr.step? s .deliverDone).bind (fun s1 => Corr.step? s1 e)
          match viaDone with
          | some s2 => go s2 early (taus + 1) (i + 1) rest
          | none =>
            match e with
            | .recv a true =>
              let id := (s.att a).id
              (match (Corr.step? s (.cifSend id a true)).bind (fun s1 => Corr.step? s1 e) with
               | some s2 => go s2 (Corr.Ev.cifSend id a true :: early) (taus + 1) (i + 1) rest
               | none => (s, some i, taus))
            | .exitErr _ =>
              (match (Corr.step? s .exited).bind (fun s1 => Corr.step? s1 e) with
               | some s2 => go s2 (Corr.Ev.exited :: early) (taus + 1) (i + 1) rest
               | none => (s, some i, taus))
            | _ =>
              -- the caller's `recv` is logged after the receive itself: the executor's blocked send may
              -- have completed (and its next steps been logged) before that log entry was written
              match s.feSending with
              | some (_, a) =>
                (match (s.att a).mail with
                 | m :: _ =>
                   let rv := Corr.Ev.recv a m.isErr
                   if rest.contains rv then
                     match ((Corr.step? s rv).bind (fun s1 => Corr.step? s1 .deliverDone)).bind (fun s2 => Corr.step? s2 e) with
                     | some s3 => go s3 (rv :: early) (taus + 1) (i + 1) rest
                     | none => (s, some i, taus)
                   else (s, some i, taus)
                 | [] => (s, some i, taus))
              | none => (s, some i, taus)
  go {} [] 0 0 es

/-- op "corr": one endpoint's correlation events in trace order; answers acceptance and, per attempt
    asked about, what the model says it received and how often it was executed. -/
def opCorr (j : Json) : R Json := do
  let es ← (arrD j "events").mapM corrEv
  let (s, refused, taus) := replayCorr es
  let asks ← (arrD j "attempts").mapM (·.getNat?)
  let msgJ : Corr.Msg → Json
    | .connErr => "connErr"
    | .ack => "ack"
    | .genuine id => Json.mkObj [("genuine", nidJ id)]
  let attJ (a : Nat) : Json :=
    let t := s.att a
    Json.mkObj [("a", a), ("recvd", optJ msgJ t.recvd), ("exitErr", t.exitErr), ("execs", s.execs a),
                ("wrote", t.wrote), ("mail", t.mail.length), ("taken", t.taken)]
  return Json.mkObj [("accepted", refused.isNone), ("refusedAt", optJ (fun (n : Nat) => (n : Json)) refused),
    ("taus", taus), ("inflight", s.inflight.length), ("exitingClosed", s.exitingClosed),
    ("incomingErr", s.incomingErr), ("attempts", Json.arr (asks.map attJ).toArray)]

/-- op "oneshot": the id check of the HTTP / custom transports. -/
def opOneShot (j : Json) : R Json := do
  let req ← nid (← fld j "req")
  let resp ← wireId (← fld j "resp")
  let acc := match normalizeID resp with
    | some i => i == req
    | none => false
  return Json.mkObj [("accepted", acc)]

/-- op "cancel": the server-role events of one connection; answers which handlers' contexts are cancelled. -/
def opCancel (j : Json) : R Json := do
  let es ← (arrD j "events").mapM (fun e => do
    match (← str e "e") with
    | "call" => return Cancel.Ev.call (← nat e "h") (← nid (← fld e "id"))
    | "cancelFrame" => return Cancel.Ev.cancelFrame (← nid (← fld e "id")) (← bool e "found")
    | "done" => return Cancel.Ev.done (← nat e "h") (← bool e "keep")
    | "sweep" => return Cancel.Ev.sweep
    | "connEnd" => return Cancel.Ev.connEnd
    | x => throw s!"bad cancel event {x}")
  let (s, refused) := replay Cancel.step? {} es
  let hs ← (arrD j "handlers").mapM (·.getNat?)
  return Json.mkObj [("accepted", refused.isNone), ("refusedAt", optJ (fun (n : Nat) => (n : Json)) refused),
    ("cancelled", Json.arr ((hs.filter (fun h => s.ctxCancelled h)).map (fun (n : Nat) => (n : Json))).toArray),
    ("connDone", s.connDone)]

/-- op "keepalive": a timed trace of one connection object (microseconds).  A read may only fail, and
    the idle timer may only fire, at or after the deadline armed by the latest renewal / re-arm
    (`Keepalive.rstep?`); every renewal of the read deadline consumes one earlier peer activity (the
    establishment of a connection counts as one).  `disarm` marks a moment after which read failures
    are expected for another reason (local close, the idle timer closed the socket); that stays so
    until the next connection, whatever the reader goroutine logs in between. -/
def opKeepalive (j : Json) : R Json := do
  let T ← nat j "timeout_us"
  let slack := natD j "slack_us" 0
  let mut s : Keepalive.RSt := { deadline := 0 }
  let mut armed := false
  let mut idleArmed := false
  let mut closedLocally := false   -- the socket of the current connection was closed by this endpoint itself
  let mut credits : Nat := 1
  let mut i : Nat := 0
  let refuse (i : Nat) (why : String) : Json := Json.mkObj [("accepted", false), ("refusedAt", (i : Json)), ("why", why)]
  for e in arrD j "events" do
    let t ← nat e "t"
    match (← str e "e") with
    | "activity" =>
      match Keepalive.rstep? T slack s (.activity t) with
      | some s' => s := s'; credits := credits + 1
      | none => return refuse i "activity refused"
    | "renew" =>
      if credits = 0 then
        return refuse i s!"the read deadline was renewed at {t}us although no peer activity had arrived since the previous renewal"
      match Keepalive.rstep? T slack s (.renew t) with
      -- a renewal logged after the local close (the reader raced the main loop) re-arms nothing
      | some s' => s := s'; credits := credits - 1; armed := !closedLocally
      | none => return refuse i "renew refused"
    | "arm" =>
      match Keepalive.rstep? T slack s (.arm t) with
      | some s' => s := s'; idleArmed := true
      | none => return refuse i "arm refused"
    | "idleFire" =>
      if idleArmed then
        match Keepalive.rstep? T slack s (.idleFire t) with
        | some s' => s := s'
        | none => return refuse i s!"the idle timer fired at {t}us, {s.idleDl - t}us before it was due ({s.idleDl}us)"
      armed := false; closedLocally := true
    -- the installation of a connection counts as activity twice over: the new reader arms its deadline, and
    -- the redial goroutine signals the loop (as if a pong had arrived), which renews it once more
    | "newconn" => armed := false; credits := 2; closedLocally := false
    | "disarm" => armed := false; closedLocally := true
    | "readFail" =>
      if armed then
        match Keepalive.rstep? T slack s (.readFail t) with
        | some s' => s := s'
        | none =>
          return refuse i s!"read failed at {t}us, {s.deadline - t}us before the armed deadline {s.deadline}us"
      armed := false
    | x => throw s!"bad keepalive event {x}"
    i := i + 1
  return Json.mkObj [("accepted", true), ("renewals", (s.renewals : Json)), ("credits", (credits : Json))]

/-- op "transsearch": run the regenerated programs of one translation module (or all) against the model on a finite
    grid; answers the differing / panicking inputs found. -/
def opTransSearch (j : Json) : R Json := do
  let m := strD j "module" "all"
  let mods := if m = "all" then TransSearch.allModules else [m]
  let mut found : Array Json := #[]
  let mut searched : Array Json := #[]
  for md in mods do
    match TransSearch.byModule md with
    | none => throw s!"no search for translation module {md}"
    | some rs =>
      searched := searched.push md
      for r in rs do
        match r with
        | some b => found := found.push (Json.mkObj [("module", md), ("fn", b.fn), ("input", b.input), ("program", b.program),
                                                      ("model", b.model), ("panics", b.panics),
                                                      -- a run that got stuck on a construct outside the subset says nothing about the property
                                                      ("violates", b.violates && !(b.program.startsWith "stuck"))])
        | none => pure ()
  return Json.mkObj [("searched", Json.arr searched), ("found", Json.arr found)]

def run (j : Json) : R Json := do
  match (← str j "op") with
  | "transsearch" => opTransSearch j
  | "http" => opHttp j
  | "handle" => opHandle j
  | "wscall" => opWsCall j
  | "redial" => opRedial j
  | "forwarder" => opForwarder j
  | "epoch" => opEpoch j
  | "retryloop" => opRetryLoop j
  | "agree" => opAgree j
  | "perm" => opPerm j
  | "backoff" => opBackoff j
  | "frames" => opFrames j
  | "errors" => opErrors j
  | "call" => opCall j
  | "reader" => opReader j
  | "rendezvous" => opRendezvous j
  | "locks" => opLocks j
  | "stream" => opStream j
  | "corr" => opCorr j
  | "oneshot" => opOneShot j
  | "cancel" => opCancel j
  | "keepalive" => opKeepalive j
  | "authhttp" => opAuthHttp j
  | op => throw s!"unknown op {op}"

end Jrpc.Ops

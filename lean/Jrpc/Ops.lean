import Jrpc.Codec
/-
  Jrpc.Ops — dispatch of driver operations onto the model's executable definitions.
-/
namespace Jrpc.Ops
open Lean Jrpc Jrpc.Codec

/-- op "http": one HTTP exchange through `handleReader`. -/
def opHttp (j : Json) : R Json := do
  let h ← handler (← fld j "handler")
  let r := h.handleReader (← nat j "max") (← nat j "size") (← bodyIn (← fld j "body"))
  return Json.mkObj [("status", r.status), ("toks", Json.arr (r.toks.map tokJ).toArray),
                     ("invoked", Json.arr (r.invoked.map Json.str).toArray)]

/-- op "handle": one request through `handler.handle` (WebSocket: chanOK). -/
def opHandle (j : Json) : R Json := do
  let h ← handler (← fld j "handler")
  let o := h.handle (← bool j "chanOK")
    { id := ← nid (← fld j "id"), method := (← str j "method").toList,
      params := ← paramsIn (← fld j "params") }
  return Json.mkObj [("resp", optJ respJ o.resp), ("invoked", optJ Json.str o.invoked),
                     ("chanReg", o.chanReg)]

def run (j : Json) : R Json := do
  match (← str j "op") with
  | "http" => opHttp j
  | "handle" => opHandle j
  | op => throw s!"unknown op {op}"

end Jrpc.Ops

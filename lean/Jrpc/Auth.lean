import Jrpc.Base
/-
  Jrpc.Auth — auth/auth.go (`HasPerm`, `PermissionedProxy`) and auth/handler.go (`Handler.ServeHTTP`).
-/
namespace Jrpc.Auth

abbrev Perm := String

/-- `HasPerm`: the caller's set is what `WithPerm` attached to the context (even an empty list),
    otherwise the configured defaults; membership is by equality. -/
def effective (attached : Option (List Perm)) (defaults : List Perm) : List Perm :=
  match attached with
  | some ps => ps
  | none => defaults

def hasPerm (attached : Option (List Perm)) (defaults : List Perm) (p : Perm) : Bool :=
  (effective attached defaults).contains p

/-- Outcome of one call through a `PermissionedProxy` field. -/
inductive ProxyOut (α : Type) where
  | ran (result : α)          -- the wrapped implementation was invoked, this is what it returned
  | denied                    -- (zero value,) permission error; implementation not invoked
  deriving Repr, DecidableEq

def proxyCall {α} (attached : Option (List Perm)) (defaults : List Perm) (required : Perm)
    (impl : Unit → α) : ProxyOut α :=
  if hasPerm attached defaults required then .ran (impl ()) else .denied

/-- Outcome of `Handler.ServeHTTP`. -/
inductive HttpOut where
  | next (attached : Option (List Perm))   -- next handler runs with this attached (none = nothing)
  | unauthorized                           -- 401, next handler not run
  deriving Repr, DecidableEq

def bearer : List Char := "Bearer ".toList

/-- `header` is the Authorization header ("" when absent), `query` the `token` form value. -/
def serveHTTP (header query : List Char) (verify : List Char → Option (List Perm)) : HttpOut :=
  let token := if header ≠ [] then header else if query ≠ [] then bearer ++ query else []
  if token = [] then .next none
  else if !(bearer.isPrefixOf token) then .unauthorized
  else match verify (token.drop bearer.length) with
    | none => .unauthorized
    | some ps => .next (some ps)

end Jrpc.Auth

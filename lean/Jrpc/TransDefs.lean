import Jrpc.MiniGo
import Jrpc.Generated.Progs
import Jrpc.Auth
import Jrpc.Frames
import Jrpc.Dispatch
/-
  Jrpc.TransDefs — everything the translation theorems (JrpcProofs/Trans/*.lean) are stated with: how model values are
  encoded as MiniGo values, and the extern semantics (`…Ext`) each group of translated functions is run with.  It lives in
  the model library (core Lean only) so that the driver can *run* the regenerated programs too: when a translation
  theorem no longer checks, `Jrpc.TransSearch` looks for an input on which the regenerated program and the model differ.
-/
namespace Jrpc.Trans
open Jrpc Jrpc.MiniGo Jrpc.Generated.Progs

/-- Externs of `HasPerm`: `ctx.Value(permCtxKey)` yields what `WithPerm` attached (an interface value holding a
    `[]Permission`), or nil when nothing was attached. -/
def authExt (attached : Option (List String)) : Ext
  | "ctx.Value", [_], env =>
    match attached with
    | some ps => .ok (.tag "[]Permission" (Val.strs ps)) env
    | none => .ok .nil env
  | fn, _, _ => .stuck fn

def hasPermEnv (defaults : List String) (p : String) : Env :=
  [("permCtxKey", .tag "permKey" (.int 0)), ("defaultPerms", Val.strs defaults), ("perm", .str p)]

def encKey : NId → Val
  | .nil => .nil
  | .num v => .tag "float64" (.str v)
  | .str v => .tag "string" (.str v)
  | .bad v => .tag "bad" (.str v)

/-- An id as the executor holds it after decoding (or the client's int64 counter); `badTy` is the dynamic type of
    an id that is neither a string, a number nor null (bool, []interface{}, map[string]interface{}). -/
def encId (badTy : String) : WireId → Val
  | .absent | .null => .nil
  | .num v => .tag "float64" (.str v)
  | .int64 n => .tag "int64" (.int n)
  | .str v => .tag "string" (.str v)
  | .invalid v => .tag badTy (.str v)

def shapeName : JShape → String
  | .null => "null" | .bool => "bool" | .uint => "uint" | .num => "num" | .str => "str" | .arr => "arr" | .obj => "obj"

/-- One element of a decoded `[]param`: a `param` holding the raw bytes (their shape and canonical text). -/
def encParam (v : JVal) : Val := .tag "param" (.cons (.str (shapeName v.shape)) (.str v.text))

/-- `json.Unmarshal(data, &x)` into `interface{}`. -/
def unmarshalIface : Val → Val
  | .cons (.str sh) t =>
    if sh = "null" then .nil
    else if sh = "bool" then .tag "bool" t
    else if sh = "uint" ∨ sh = "num" then .tag "float64" t
    else if sh = "str" then .tag "string" t
    else if sh = "arr" then .tag "[]interface{}" t
    else .tag "map[string]interface{}" t
  | _ => .nil

/-- A channel id as the Go code holds it: the zero value of `var chid uint64` is the integer 0. -/
def encCh (t : String) : Val := if t = "0" then .int 0 else .tag "uint64" (.str t)

/-- `json.Unmarshal(data, &chid)` into `uint64`: `some new` = success (with the new value), `none` = error. -/
def unmarshalU64 (old : Val) : Val → Option Val
  | .cons (.str sh) (.str t) =>
    if sh = "uint" then some (encCh t)
    else if sh = "null" then some old
    else none
  | _ => none

def errVal (msg : String) : Val := .tag "error" (.str msg)

/-- Extern semantics shared by the frame handlers; `p` is the params member of the frame being executed. -/
def frameExt (p : CtlParams) : Ext
  | "len", [v], env => .ok (.int v.len) env
  | "float64", [.int n], env => .ok (.tag "float64" (.str (toString n.toNat))) env
  | "xerrors.Errorf", _, env => .ok (errVal "xerrors") env
  | ".data", [.tag "param" d], env => .ok d env
  | "json.Unmarshal", [.tag "rawparams" _, .tag "&" (.cons (.str x) (.str "[]param"))], env =>
    match p.decoded with
    | some es => .ok .nil (env.set x (Val.ofList (es.map encParam)))
    | none => .ok (errVal "json") env
  | "json.Unmarshal", [d, .tag "&" (.cons (.str x) (.str "interface{}"))], env =>
    .ok .nil (env.set x (unmarshalIface d))
  | "json.Unmarshal", [d, .tag "&" (.cons (.str x) (.str "uint64"))], env =>
    match unmarshalU64 ((env.get x).getD .nil) d with
    | some v => .ok .nil (env.set x v)
    | none => .ok (errVal "json") env
  | "normalizeID", [v], env =>
    match run (fun fn args e => match fn, args with
        | "float64", [.int n] => .ok (.tag "float64" (.str (toString n.toNat))) e
        | "xerrors.Errorf", _ => .ok (errVal "xerrors") e
        | fn, _ => .stuck fn) prog_normalizeID [("id", v)] with
    | .ret r _ => .ok r env
    | .panic w => .panic w
    | .stuck w => .stuck w
  | "cf", [], env => .ok .nil (logFx env (.cons (.str "cancel") ((env.get "cf").getD .nil)))
  | "hnd.cb", [d, ok], env => .ok .nil (logFx env (.cons (.str "cb") (.cons ((env.get "hnd").getD .nil) (.cons d (.cons ok .nil)))))
  | "delete", [.tag "&" (.cons (.str x) _), k], env => .ok .nil (env.set x (((env.get x).getD .nil).mapDel k))
  | fn, _, _ => .stuck fn

def cancelFn (k : NId) : Val := .tag "cancelfn" (encKey k)

/-- The `handling` map: normalised id ↦ that handler's cancel function. -/
def encHandling (hs : List NId) : Val := Val.ofList (hs.map fun k => .cons (encKey k) (cancelFn k))

/-- `hasID`: whether the control frame carries an id member (the code only logs a warning then). -/
def cancelEnv (hasID : Bool) (s : ExecState) : Env :=
  [("req.ID", if hasID then .tag "float64" (.str "1") else .nil), ("req.Params", .tag "rawparams" .nil),
   ("c.handling", encHandling s.handling)]

def encCancel (k : NId) : Val := .cons (.str "cancel") (cancelFn k)

def hndOf (t : String) : Val := .tag "chanHandler" (encCh t)

/-- The `chanHandlers` map: channel id ↦ its handler. -/
def encChans (cs : List String) : Val := Val.ofList (cs.map fun t => .cons (encCh t) (hndOf t))

def chanEnv (s : ExecState) : Env :=
  [("frame.Params", .tag "rawparams" .nil), ("c.chanHandlers", encChans s.chanHandlers)]

def rawOf (v : JVal) : Val := .cons (.str (shapeName v.shape)) (.str v.text)

/-- The effect of `hnd.cb(data, ok)` on the handler of channel `ch`. -/
def encCb (ch : String) (data : Val) (ok : Bool) : Val :=
  .cons (.str "cb") (.cons (hndOf ch) (.cons data (.cons (.bool ok) .nil)))

/-- The `chanHandlers` table a run left behind. -/
def _root_.Jrpc.MiniGo.Out.chans (o : Out) : Option Val :=
  match o with
  | .ret _ env => env.get "c.chanHandlers"
  | _ => none

/-- Every call the switch makes is recorded by name. -/
def dispatchExt : Ext
  | fn, _, env => .ok .nil (logFx env (.str fn))

def rune (c : Char) : Val := .tag "rune" (.int c.toNat)

def fmtExt : Ext
  | "len", [.str s], env => .ok (.int s.toList.length) env
  | "utf8.DecodeRuneInString", [.str s], env =>
    match s.toList with
    | c :: _ => .ok (.cons (rune c) (.cons (.int 1) .nil)) env
    | [] => .ok (.cons (.tag "rune" (.int 65533)) (.cons (.int 0) .nil)) env
  | "unicode.ToLower", [.tag "rune" (.int n)], env => .ok (rune (Char.ofNat n.toNat).toLower) env
  | "string", [.tag "rune" (.int n)], env => .ok (.str (String.ofList [Char.ofNat n.toNat])) env
  | "slice[:]", [.str s, .int n, .nil], env => .ok (.str (String.ofList (s.toList.drop n.toNat))) env
  | fn, _, _ => .stuck fn

def fmtEnv (inc lower : Bool) (ns m : String) : Env :=
  [("includeNamespace", .bool inc), ("nameCase", .int (if lower then 1 else 0)), ("namespace", .str ns), ("method", .str m)]

end Jrpc.Trans

import Jrpc.MiniGo
import Jrpc.Generated.Progs
import Jrpc.Auth
import Jrpc.Frames
import Jrpc.Dispatch
import Jrpc.Call
import Jrpc.BatchWriter
import Jrpc.Reader
import Jrpc.Backoff
/-
  Jrpc.TransDefs — everything the translation theorems (JrpcProofs/Trans/*.lean) are stated with: how model values are
  encoded as MiniGo values, and the extern semantics (`…Ext`) each group of translated functions is run with.  It lives in
  the model library (core Lean only) so that the driver can *run* the regenerated programs too: when a translation
  theorem no longer checks, `Jrpc.TransSearch` looks for an input on which the regenerated program and the model differ.
-/
namespace Jrpc.Trans
open Jrpc Jrpc.MiniGo Jrpc.Generated.Progs

/-- Externs of `HasPerm`: `ctx.Value(permCtxKey)` yields what `WithPerm` attached (an interface value holding a
    `[]Permission`), or nil when nothing was attached. -/
def authExt (attached : Option (List String)) : Ext
  | "ctx.Value", [_], env =>
    match attached with
    | some ps => .ok (.tag "[]Permission" (Val.strs ps)) env
    | none => .ok .nil env
  | fn, _, _ => .stuck fn

def hasPermEnv (defaults : List String) (p : String) : Env :=
  [("permCtxKey", .tag "permKey" (.int 0)), ("defaultPerms", Val.strs defaults), ("perm", .str p)]

def encKey : NId → Val
  | .nil => .nil
  | .num v => .tag "float64" (.str v)
  | .str v => .tag "string" (.str v)
  | .bad v => .tag "bad" (.str v)

/-- An id as the executor holds it after decoding (or the client's int64 counter); `badTy` is the dynamic type of
    an id that is neither a string, a number nor null (bool, []interface{}, map[string]interface{}). -/
def encId (badTy : String) : WireId → Val
  | .absent | .null => .nil
  | .num v => .tag "float64" (.str v)
  | .int64 n => .tag "int64" (.int n)
  | .str v => .tag "string" (.str v)
  | .invalid v => .tag badTy (.str v)

def shapeName : JShape → String
  | .null => "null" | .bool => "bool" | .uint => "uint" | .num => "num" | .str => "str" | .arr => "arr" | .obj => "obj"

/-- One element of a decoded `[]param`: a `param` holding the raw bytes (their shape and canonical text). -/
def encParam (v : JVal) : Val := .tag "param" (.cons (.str (shapeName v.shape)) (.str v.text))

/-- `json.Unmarshal(data, &x)` into `interface{}`. -/
def unmarshalIface : Val → Val
  | .cons (.str sh) t =>
    if sh = "null" then .nil
    else if sh = "bool" then .tag "bool" t
    else if sh = "uint" ∨ sh = "num" then .tag "float64" t
    else if sh = "str" then .tag "string" t
    else if sh = "arr" then .tag "[]interface{}" t
    else .tag "map[string]interface{}" t
  | _ => .nil

/-- A channel id as the Go code holds it: the zero value of `var chid uint64` is the integer 0. -/
def encCh (t : String) : Val := if t = "0" then .int 0 else .tag "uint64" (.str t)

/-- `json.Unmarshal(data, &chid)` into `uint64`: `some new` = success (with the new value), `none` = error. -/
def unmarshalU64 (old : Val) : Val → Option Val
  | .cons (.str sh) (.str t) =>
    if sh = "uint" then some (encCh t)
    else if sh = "null" then some old
    else none
  | _ => none

def errVal (msg : String) : Val := .tag "error" (.str msg)

/-- Extern semantics shared by the frame handlers; `p` is the params member of the frame being executed. -/
def frameExt (p : CtlParams) : Ext
  | "len", [v], env => .ok (.int v.len) env
  | "float64", [.int n], env => .ok (.tag "float64" (.str (toString n.toNat))) env
  | "xerrors.Errorf", _, env => .ok (errVal "xerrors") env
  | ".data", [.tag "param" d], env => .ok d env
  | "json.Unmarshal", [.tag "rawparams" _, .tag "&" (.cons (.str x) (.str "[]param"))], env =>
    match p.decoded with
    | some es => .ok .nil (env.set x (Val.ofList (es.map encParam)))
    | none => .ok (errVal "json") env
  | "json.Unmarshal", [d, .tag "&" (.cons (.str x) (.str "interface{}"))], env =>
    .ok .nil (env.set x (unmarshalIface d))
  | "json.Unmarshal", [d, .tag "&" (.cons (.str x) (.str "uint64"))], env =>
    match unmarshalU64 ((env.get x).getD .nil) d with
    | some v => .ok .nil (env.set x v)
    | none => .ok (errVal "json") env
  | "normalizeID", [v], env =>
    match run (fun fn args e => match fn, args with
        | "float64", [.int n] => .ok (.tag "float64" (.str (toString n.toNat))) e
        | "xerrors.Errorf", _ => .ok (errVal "xerrors") e
        | fn, _ => .stuck fn) prog_normalizeID [("id", v)] with
    | .ret r _ => .ok r env
    | .panic w => .panic w
    | .stuck w => .stuck w
  | "cf", [], env => .ok .nil (logFx env (.cons (.str "cancel") ((env.get "cf").getD .nil)))
  | "hnd.cb", [d, ok], env => .ok .nil (logFx env (.cons (.str "cb") (.cons ((env.get "hnd").getD .nil) (.cons d (.cons ok .nil)))))
  | "delete", [.tag "&" (.cons (.str x) _), k], env => .ok .nil (env.set x (((env.get x).getD .nil).mapDel k))
  | fn, _, _ => .stuck fn

def cancelFn (k : NId) : Val := .tag "cancelfn" (encKey k)

/-- The `handling` map: normalised id ↦ that handler's cancel function. -/
def encHandling (hs : List NId) : Val := Val.ofList (hs.map fun k => .cons (encKey k) (cancelFn k))

/-- `hasID`: whether the control frame carries an id member (the code only logs a warning then). -/
def cancelEnv (hasID : Bool) (s : ExecState) : Env :=
  [("req.ID", if hasID then .tag "float64" (.str "1") else .nil), ("req.Params", .tag "rawparams" .nil),
   ("c.handling", encHandling s.handling)]

def encCancel (k : NId) : Val := .cons (.str "cancel") (cancelFn k)

def hndOf (t : String) : Val := .tag "chanHandler" (encCh t)

/-- The `chanHandlers` map: channel id ↦ its handler. -/
def encChans (cs : List String) : Val := Val.ofList (cs.map fun t => .cons (encCh t) (hndOf t))

def chanEnv (s : ExecState) : Env :=
  [("frame.Params", .tag "rawparams" .nil), ("c.chanHandlers", encChans s.chanHandlers)]

def rawOf (v : JVal) : Val := .cons (.str (shapeName v.shape)) (.str v.text)

/-- The effect of `hnd.cb(data, ok)` on the handler of channel `ch`. -/
def encCb (ch : String) (data : Val) (ok : Bool) : Val :=
  .cons (.str "cb") (.cons (hndOf ch) (.cons data (.cons (.bool ok) .nil)))

/-- The `chanHandlers` table a run left behind. -/
def _root_.Jrpc.MiniGo.Out.chans (o : Out) : Option Val :=
  match o with
  | .ret _ env => env.get "c.chanHandlers"
  | _ => none

/-- Every call the switch makes is recorded by name. -/
def dispatchExt : Ext
  | fn, _, env => .ok .nil (logFx env (.str fn))

def rune (c : Char) : Val := .tag "rune" (.int c.toNat)

def fmtExt : Ext
  | "len", [.str s], env => .ok (.int s.toList.length) env
  | "utf8.DecodeRuneInString", [.str s], env =>
    match s.toList with
    | c :: _ => .ok (.cons (rune c) (.cons (.int 1) .nil)) env
    | [] => .ok (.cons (.tag "rune" (.int 65533)) (.cons (.int 0) .nil)) env
  | "unicode.ToLower", [.tag "rune" (.int n)], env => .ok (rune (Char.ofNat n.toNat).toLower) env
  | "string", [.tag "rune" (.int n)], env => .ok (.str (String.ofList [Char.ofNat n.toNat])) env
  | "slice[:]", [.str s, .int n, .nil], env => .ok (.str (String.ofList (s.toList.drop n.toNat))) env
  | fn, _, _ => .stuck fn

def fmtEnv (inc lower : Bool) (ns m : String) : Env :=
  [("includeNamespace", .bool inc), ("nameCase", .int (if lower then 1 else 0)), ("namespace", .str ns), ("method", .str m)]

/-! ### processFuncOut -/

def tyVal (name : String) : Val := .tag "type" (.str name)

/-- `funcType` of a method with the given result types (`true` = the `error` interface). -/
def outsExt (outs : List Bool) : Ext
  | "funcType.NumOut", [], env => .ok (.int outs.length) env
  | "funcType.Out", [.int i], env =>
    match outs[i.toNat]? with
    | some true => .ok (tyVal "error") env
    | some false => .ok (tyVal "T") env
    | none => .panic "reflect: Out index out of range"
  | "fmt.Sprintf", _, env => .ok (.str "too many return values") env
  | fn, _, _ => .stuck fn

def outsEnv : Env := [("funcType", .tag "funcType" .nil), ("errorType", tyVal "error")]

def OutShape.results : OutShape → List Bool
  | .none => [] | .val => [false] | .err => [true] | .valErr => [false, true]

def optPos : Option Nat → Val
  | some n => .int n
  | none => .int (-1)

/-! ### batchWriter -/

def pieceVal : BatchWriter.Piece → Val
  | .lbrack => .str "[" | .comma => .str "," | .rbrack => .str "]" | .data c => .str c

/-- The underlying writer never fails and records what it is given; `[]byte(s)` is `s`. -/
def bwExt : Ext
  | "len", [.str s], env => .ok (.int s.length) env
  | "[]byte", [.str s], env => .ok (.str s) env
  | "b.w.Write", [.str s], env => .ok (.cons (.int s.length) (.cons .nil .nil)) (logFx env (.str s))
  | fn, _, _ => .stuck fn

def bwEnv (b : BatchWriter.BW) : Env :=
  [("b.started", .bool b.started), ("b.elemStarted", .bool b.elemStarted)]

def Out.bw (o : Out) : Option (Bool × Bool) :=
  match o with
  | .ret _ env =>
    match env.get "b.started", env.get "b.elemStarted" with
    | some (.bool a), some (.bool b) => some (a, b)
    | _, _ => none
  | _ => none

/-! ### httpio.waitReadCloser -/

def eofErr : Val := .tag "error" (.str "EOF")

/-- The state of a `waitReadCloser` as MiniGo variables: the sticky error, whether `wait` is closed and how often
    `close(w.wait)` ran; "$once" is the `sync.Once`. -/
def wrcEnv (w : Reader.WRC) : Env :=
  [("w.err", if w.stickyEOF then eofErr else .nil), ("w.wait", .tag "chan" .nil),
   ("$once", .bool w.waitClosed), ("$closed", .bool w.waitClosed), ("$closes", .int w.closeCount)]

/-- `body`: what the wrapped request body answers to the next `Read` (bytes delivered, error). -/
def wrcExt (bodyN : Nat) (bodyErr : Bool) : Ext
  | "w.ReadCloser.Read", [_], env => .ok (.cons (.int bodyN) (.cons (if bodyErr then eofErr else .nil) .nil)) (logFx env (.str "body.Read"))
  | "w.ReadCloser.Close", [], env => .ok .nil (logFx env (.str "body.Close"))
  | "w.closeWait.Do", [.tag "funclit" (.str f)], env =>
    if env.get "$once" = some (.bool true) then .ok .nil env
    else
      -- the closure is the translated literal: it must be `close(w.wait)`
      match run (fun fn _ e => match fn with
          | "close" =>
            if e.get "$closed" = some (.bool true) then .panic "close of closed channel"
            else .ok .nil ((e.set "$closed" (.bool true)).set "$closes" (match e.get "$closes" with | some (.int n) => .int (n + 1) | _ => .int 1))
          | fn => .stuck fn)
        (if f = "httpio_waitReadCloser_Read_lit1" then prog_httpio_waitReadCloser_Read_lit1
         else if f = "httpio_waitReadCloser_Close_lit1" then prog_httpio_waitReadCloser_Close_lit1
         else .exprS (.call ("unknown closure " ++ f) .nilE))
        env with
      | .ret _ env' => .ok .nil (env'.set "$once" (.bool true))
      | .panic w => .panic w
      | .stuck w => .stuck w
  | fn, _, _ => .stuck fn

/-- Read back the `waitReadCloser` state. -/
def Out.wrc (o : Out) : Option (Bool × Bool × Int) :=
  match o with
  | .ret _ env =>
    match env.get "w.err", env.get "$closed", env.get "$closes" with
    | some e, some (.bool c), some (.int n) => some (e != .nil, c, n)
    | _, _, _ => none
  | _ => none

/-! ### auth.Handler.ServeHTTP -/

def ctx0 : Val := .tag "ctx" .nil

/-- Request with the given Authorization header ("" = absent) and `token` query parameter ("" = absent); `verify`
    is the application's verifier. -/
def httpExt (header query : String) (verify : List Char → Option (List String)) : Ext
  | "r.Context", [], env => .ok ctx0 env
  | "r.Header.Get", [.str "Authorization"], env => .ok (.str header) env
  | "r.URL.Query", [], env => .ok (.tag "query" .nil) env
  | ".Get", [.tag "query" _, .str "token"], env => .ok (.str query) env
  | "strings.HasPrefix", [.str s, .str p], env => .ok (.bool (p.toList.isPrefixOf s.toList)) env
  | "strings.TrimPrefix", [.str s, .str p], env =>
    .ok (.str (if p.toList.isPrefixOf s.toList then String.ofList (s.toList.drop p.toList.length) else s)) env
  | "h.Verify", [_, .str tok], env =>
    match verify tok.toList with
    | some ps => .ok (.cons (Val.strs ps) (.cons .nil .nil)) env
    | none => .ok (.cons .nil (.cons (errVal "verify") .nil)) env
  | "w.WriteHeader", [.int c], env => .ok .nil (logFx env (.cons (.str "status") (.int c)))
  | "WithPerm", [_, allow], env => .ok (.tag "ctx+perm" allow) env
  | "r.WithContext", [c], env => .ok (.tag "req" c) env
  | "h.Next", [_, r], env => .ok .nil (logFx env (.cons (.str "next") r))
  | fn, _, _ => .stuck fn

def encHttpOut : Auth.HttpOut → Val
  | .next none => .cons (.str "next") (.tag "req" ctx0)
  | .next (some ps) => .cons (.str "next") (.tag "req" (.tag "ctx+perm" (Val.strs ps)))
  | .unauthorized => .cons (.str "status") (.int 401)

def httpEnv : Env := [("w", .tag "w" .nil), ("r", .tag "r" .nil), ("h", .tag "h" .nil)]

/-! ### response.MarshalJSON -/

/-- A `key: value` element of a composite literal as a map entry. -/
def kvOf : Val → Val
  | .cons k (.cons v .nil) => .cons k v
  | v => v

/-- A map literal builds an association chain; `json.Marshal` is recorded with its argument. -/
def wireExt : Ext
  | "lit:map[string]interface{}", kvs, env => .ok (Val.ofList (kvs.map kvOf)) env
  | "json.Marshal", [m], env => .ok (.cons (.tag "json" m) (.cons .nil .nil)) (logFx env m)
  | fn, _, _ => .stuck fn

def respEnv (jsonrpc id result err : Val) : Env :=
  [("r.Jsonrpc", jsonrpc), ("r.ID", id), ("r.Result", result), ("r.Error", err)]

/-! ### backoff.next -/

def rat (n d : Nat) : Val := .tag "rat" (.cons (.int n) (.int d))

/-- float64 arithmetic is exact rational arithmetic (as in `Jrpc.Backoff`); `rand.Float64()` is `jn / jd`. -/
def backoffExt (jn jd : Nat) : Ext
  | "float64", [.int n], env => .ok (rat n.toNat 1) env
  | "math.Pow", [.tag "float" (.str "1.5"), .tag "rat" (.cons (.int a) (.int 1))], env => .ok (rat (3 ^ a.toNat) (2 ^ a.toNat)) env
  | "rand.Float64", [], env => .ok (rat jn jd) env
  | "time.Duration", [.tag "rat" (.cons (.int n) (.int d))], env => .ok (.int ((n.toNat / d.toNat : Nat) : Int)) env
  | fn, _, _ => .stuck fn

def backoffEnv (b : Backoff) (attempt : Int) : Env :=
  [("b.minDelay", .int b.minDelay), ("b.maxDelay", .int b.maxDelay), ("attempt", .int attempt)]

/-! ### closeInFlight -/

/-- One `inflight` entry: the request's id and whether its mailbox (`ready`, capacity 1) still has room. -/
def reqVal (e : NId × Bool) : Val := .tag "req" (.cons (encKey e.1) (.bool e.2))

def encInflight (es : List (NId × Bool)) : Val := Val.ofList (es.map fun e => .cons (encKey e.1) (reqVal e))

/-- The connection-error response `closeInFlight` builds for the request keyed `id`. -/
def connErrRespV (id : Val) : Val :=
  .tag "resp" (Val.ofList [.cons (.str "Jsonrpc") (.str "2.0"), .cons (.str "ID") id,
    .cons (.str "Error") (.tag "rpcerr" (Val.ofList [.cons (.str "Message") (.str "handler: websocket connection closed"),
      .cons (.str "Code") (.int (-1111111))]))])

def deliverFxV (id : Val) : Val := .cons (.str "deliver") (.cons id (connErrRespV id))
def connErrResp (k : NId) : Val := connErrRespV (encKey k)
def deliverFx (k : NId) : Val := deliverFxV (encKey k)

/-- What one iteration of each of the two loops of `closeInFlight` adds to the effect log. -/
def sweepFx1 : Val → List Val
  | .cons _ (.tag "req" (.cons id (.bool true))) => [deliverFxV id]
  | _ => []

def sweepFx2 : Val → List Val
  | .cons _ vv => [.cons (.str "cancel") vv]
  | _ => []

/-- `select { case ch <- v: … default: … }` tries the send: it succeeds iff the mailbox has room, and never blocks. -/
def sweepExt : Ext
  | ".ready", [.tag "req" x], env => .ok (.tag "mailbox" x) env
  | "trysend", [.tag "mailbox" (.cons id (.bool room)), resp], env =>
    if room then .ok (.bool true) (logFx env (.cons (.str "deliver") (.cons id resp))) else .ok (.bool false) env
  | "lit:clientResponse", kvs, env => .ok (.tag "resp" (Val.ofList (kvs.map kvOf))) env
  | "lit:JSONRPCError", kvs, env => .ok (.tag "rpcerr" (Val.ofList (kvs.map kvOf))) env
  | "&", [v], env => .ok v env
  | "lit:map[interface{}]clientRequest", [], env => .ok .nil env
  | "lit:map[interface{}]context.CancelFunc", [], env => .ok .nil env
  | "cancel", [], env => .ok .nil (logFx env (.cons (.str "cancel") ((env.get "cancel").getD .nil)))
  | fn, _, _ => .stuck fn

def sweepEnv (es : List (NId × Bool)) (hs : List NId) : Env :=
  [("c.inflight", encInflight es), ("c.handling", encHandling hs)]

/-- `closeChans`: the channel table and the sink callbacks. -/
def chansExt : Ext
  | "delete", [.tag "&" (.cons (.str x) _), k], env => .ok .nil (env.set x (((env.get x).getD .nil).mapDel k))
  | "hnd.cb", [d, ok], env => .ok .nil (logFx env (.cons (.str "cb") (.cons ((env.get "hnd").getD .nil) (.cons d (.cons ok .nil)))))
  | fn, _, _ => .stuck fn

/-! ### nextWriter -/

/-- `cur`: the connection's current epoch; `openFails` / `closeFails`: what gorilla answers. Every touch of the
    connection and every use of the callback is recorded. -/
def writerExt (cur : Nat) (openFails closeFails : Bool) : Ext
  | "atomic.LoadUint64", [_], env => .ok (.int cur) env
  | "cb", [w], env => .ok .nil (logFx env (.cons (.str "cb") w))
  | "c.conn.NextWriter", [_], env =>
    if openFails then .ok (.cons .nil (.cons (errVal "closed") .nil)) (logFx env (.str "conn.NextWriter"))
    else .ok (.cons (.tag "wcl" .nil) (.cons .nil .nil)) (logFx env (.str "conn.NextWriter"))
  | "wcl.Close", [], env => .ok (if closeFails then errVal "close" else .nil) (logFx env (.str "wcl.Close"))
  | fn, _, _ => .stuck fn

def writerEnv (epoch : Nat) : Env :=
  [("epoch", .int epoch), ("io.Discard", .tag "discard" .nil), ("websocket.TextMessage", .int 1)]

/-! ### client options -/

/-- The client options that touch reconnection and keepalive. -/
inductive Opt where
  | noReconnect
  | backoff (minDelay maxDelay : Int)
  | ping (d : Int)
  | timeout (d : Int)
  deriving Repr, DecidableEq

def optExt : Ext
  | "lit:backoff", kvs, env => .ok (.tag "backoff" (Val.ofList (kvs.map kvOf))) env
  | fn, _, _ => .stuck fn

def _root_.Jrpc.MiniGo.Out.env? : Out → Option Env
  | .ret _ env => some env
  | _ => none

/-- The bounds `WithReconnectBackoff(a, b)` ends up configuring (nanoseconds): a bound that is not positive falls back to
    its default, a maximum below the minimum is raised to it. -/
def effMin (a : Int) : Int := if a ≤ 0 then 100 * 1000000 else a
def effMax (a b : Int) : Int :=
  let m := if b ≤ 0 then 5 * 1000000000 else b
  if m < effMin a then effMin a else m

def backoffVal (a b : Int) : Val :=
  .tag "backoff" (Val.ofList [.cons (.str "minDelay") (.int a), .cons (.str "maxDelay") (.int b)])

/-- Apply one option: run the translated closure the option constructor returns on the configuration `c`. -/
def applyOpt (o : Opt) (env : Env) : Option Env :=
  match o with
  | .noReconnect => (run optExt prog_WithNoReconnect_lit1 env).env?
  | .backoff a b => (run optExt prog_WithReconnectBackoff_lit1
      ((((env.set "time.Millisecond" (.int 1000000)).set "time.Second" (.int 1000000000)).set "minDelay" (.int a)).set "maxDelay" (.int b))).env?
  | .ping d => (run optExt prog_WithPingInterval_lit1 (env.set "d" (.int d))).env?
  | .timeout d => (run optExt prog_WithTimeout_lit1 (env.set "d" (.int d))).env?

/-- `for _, o := range opts { o(&config) }`. -/
def applyOpts : List Opt → Env → Option Env
  | [], env => some env
  | o :: os, env => (applyOpt o env).bind (applyOpts os)

end Jrpc.Trans

/-
  Jrpc.Keepalive — timed model of the keepalive of one wsConn (websocket.go: `setupPings`,
  `resetReadDeadline`, the `pongs` case and the idle timer of `handleWsConn`, `nextMessage`).

  Time is discrete (any unit).  `T` is the configured timeout.  Two environment parameters are named,
  not hidden: `G` bounds the gap between two consecutive moments of peer activity as seen by this
  endpoint (a ping or pong or data frame arriving; with a peer that pings every P' and answers pings
  within ρ, and our own ping interval P, G ≤ min(P', P + ρ)), and `E` bounds the local latency between
  an activity (or a passed deadline) and the library acting on it.

  The read deadline is renewed only in response to peer activity: at the start of the next read after
  a complete frame, and when the main loop consumes a token pushed by the ping/pong handlers.
-/
namespace Jrpc.Keepalive

structure Cfg where
  T : Nat    -- timeout
  G : Nat    -- maximal gap between peer activities (environment)
  E : Nat    -- maximal local processing latency (environment)
  deriving Repr, DecidableEq, Inhabited

structure St where
  now       : Nat := 0
  deadline  : Nat              -- read deadline currently armed
  idleDl    : Nat              -- when the main loop's idle timer fires
  lastAct   : Nat := 0         -- time of the latest peer activity
  pending   : Option Nat := none   -- an activity (at this time) whose deadline renewal has not happened yet
  pendingI  : Option Nat := none   -- an activity the main loop has not yet woken up for (idle timer not re-armed)
  silent    : Option Nat := none   -- the peer fell silent at this time (no activity afterwards)
  failed    : Option Nat := none   -- the connection was given up (read failed / idle timer fired) at this time
  deriving Repr, DecidableEq, Inhabited

inductive Ev where
  | tick                -- one unit of time passes
  | activity            -- a ping, a pong or (the start of) a frame arrives from the peer
  | renew               -- the library renews the read deadline (now + T)
  | rearm               -- the main loop wakes up for that activity: the idle timer restarts (now + T)
  | localIter           -- the main loop wakes up for a local reason (a caller's request, a registration): idle timer restarts
  | silence             -- from now on the peer sends nothing
  | readFail            -- the pending read returns a timeout error
  | idleFire            -- the idle timer fires: the main loop closes the connection
  deriving Repr, DecidableEq, Inhabited

def init (c : Cfg) : St := { deadline := c.T, idleDl := c.T }

def step? (c : Cfg) (s : St) : Ev → Option St
  | .tick =>
    if s.failed.isSome then some { s with now := s.now + 1 }
    else
      -- environment assumptions: while the peer is alive its next activity comes within G; the
      -- library acts on an activity, and on a passed deadline, within E
      let peerOk := s.silent.isSome || s.now + 1 ≤ s.lastAct + c.G
      let procOk := match s.pending with | some t => s.now + 1 ≤ t + c.E | none => true
      let procIOk := match s.pendingI with | some t => s.now + 1 ≤ t + c.E | none => true
      let failOk := s.now < s.deadline || s.now + 1 ≤ s.deadline + c.E
      if peerOk && procOk && procIOk && failOk then some { s with now := s.now + 1 } else none
  | .activity =>
    if s.silent.isSome || s.failed.isSome then none
    else some { s with lastAct := s.now,
                       pending := match s.pending with | some t => some t | none => some s.now,
                       pendingI := match s.pendingI with | some t => some t | none => some s.now }
  | .renew =>
    match s.pending with
    | some _ => if s.failed.isSome then none else some { s with deadline := s.now + c.T, pending := none }
    | none => none                       -- the deadline is renewed only in response to peer activity
  | .rearm =>
    match s.pendingI with
    | some _ => if s.failed.isSome then none else some { s with idleDl := s.now + c.T, pendingI := none }
    | none => none
  | .localIter => if s.failed.isSome then none else some { s with idleDl := s.now + c.T }
  | .silence => if s.silent.isSome || s.failed.isSome then none else some { s with silent := some s.now }
  | .readFail =>
    if s.failed.isNone && s.deadline ≤ s.now then some { s with failed := some s.now } else none
  | .idleFire =>
    if s.failed.isNone && s.idleDl ≤ s.now then some { s with failed := some s.now } else none

def run? (c : Cfg) (s : St) : List Ev → Option St
  | [] => some s
  | e :: es => (step? c s e).bind (fun s' => run? c s' es)

/-! ### replay of a timestamped implementation trace (no environment assumptions) -/

inductive TEv where
  | activity (t : Nat)
  | renew (t : Nat)
  | readFail (t : Nat)
  | arm (t : Nat)         -- the main loop re-armed its idle timer
  | idleFire (t : Nat)
  deriving Repr, DecidableEq, Inhabited

structure RSt where
  deadline : Nat
  prevDeadline : Nat := 0      -- the deadline that the latest renewal replaced
  renewedAt : Nat := 0         -- hook time of the latest renewal
  renewals : Nat := 0
  lastAct  : Option Nat := none
  idleDl   : Nat := 0
  deriving Repr, DecidableEq, Inhabited

/-- The implementation's trace is accepted iff every renewal follows some peer activity that was not
    yet used for a renewal … and a read only fails at or after the armed deadline (`slack` absorbs
    clock granularity).  The renewal's hook runs just before `SetReadDeadline`: for `slack` after it the
    deadline it replaces may still be the one in force (the system call has not executed yet), so a read
    that fails within that window is judged against the replaced deadline. -/
def rstep? (T slack : Nat) (s : RSt) : TEv → Option RSt
  | .activity t => some { s with lastAct := some t }
  | .renew t => some { s with deadline := t + T, prevDeadline := s.deadline, renewedAt := t, renewals := s.renewals + 1 }
  | .readFail t =>
    if s.deadline ≤ t + slack || (0 < s.renewals && t ≤ s.renewedAt + slack && s.prevDeadline ≤ t + slack) then some s
    else none
  | .arm t => some { s with idleDl := t + T }
  | .idleFire t => if s.idleDl ≤ t + slack then some s else none

end Jrpc.Keepalive

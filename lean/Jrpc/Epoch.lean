import Jrpc.Base
/-
  Jrpc.Epoch — requests served by an endpoint whose connection can be replaced (websocket.go: `handleCall`,
  `nextWriter`, `closeInFlight`, the swap in `tryReconnect`).

  A reconnecting client that has reverse handlers keeps one `wsConn` for all its connections.  The peer's
  request ids mean something only on the connection they arrived on: the server-side reverse client of the
  next connection numbers its requests from the start again.  A handler may outlive the connection its
  request arrived on (it need not look at its context).  The code keeps a counter `connEpoch`, changed under
  the write lock when the connection is replaced; `handleCall` remembers the epoch of the request, the
  response writer discards the response when the epoch has changed, and a returning handler removes the
  `handling` entry of its id only when the epoch has not changed.  The epoch of a request is the one it
  was *read* in: it travels with the frame through the executor's queue (`reqLate`, repair F18b).

  `guard = true` is that code; `guard = false` is the code before the repair (F18), kept so that the
  failure is a theorem about the model too (`JrpcProofs.Props.Epoch`).
-/
namespace Jrpc.Epoch

structure Handler where
  hid   : Nat          -- identity of this invocation (ghost; the n-th `handleCall` of the endpoint)
  id    : Nat          -- request id
  epoch : Nat          -- `connEpoch` when the request was handed to `handleCall`
  deriving Repr, DecidableEq, Inhabited

structure St where
  epoch     : Nat := 0
  down      : Bool := false                    -- between `closeInFlight` and the swap: nothing is read
  next      : Nat := 0                         -- identity of the next invocation
  all       : List Handler := []               -- ghost: every invocation so far
  running   : List Handler := []               -- invocations that have not returned
  handling  : List (Nat × Nat) := []           -- the `handling` map: request id ↦ invocation whose context it cancels
  cancelled : List Nat := []                   -- invocations whose context has been cancelled
  wire      : List (Nat × Nat × Nat) := []     -- responses written: (connection written to, request id, invocation)
  deriving Repr, DecidableEq, Inhabited

inductive Ev where
  | req (id : Nat)       -- `fe.call`: a request with this id arrives on the current connection
  | loss                 -- `closeInFlight`: every registered context is cancelled, the map is emptied
  | swap                 -- `rc.swap`: the next connection is installed, `connEpoch` changes
  | answer (h : Nat)     -- invocation h calls its response writer
  | done (h : Nat)       -- invocation h returns (`done(false)`)
  | cancel (id : Nat)    -- `xrpc.cancel` for this id arrives on the current connection
  | reqLate (id k : Nat) -- a request read in epoch `k`, still queued when its connection ended, is executed now
  deriving Repr, DecidableEq, Inhabited

def find? (l : List Handler) (h : Nat) : Option Handler := l.find? (·.hid == h)

def lookup (m : List (Nat × Nat)) (id : Nat) : Option Nat := (m.find? (·.1 == id)).map (·.2)

/-- One step; `none` = the model refuses the event (a request while nothing is read, an id that is already
    being handled on this connection, an answer or return of an invocation that is not running). -/
def step? (guard : Bool) (s : St) : Ev → Option St
  | .req id =>
    if s.down then none
    else if (lookup s.handling id).isSome then none
    else
      let h : Handler := { hid := s.next, id := id, epoch := s.epoch }
      some { s with next := s.next + 1, all := h :: s.all, running := h :: s.running,
                    handling := (id, s.next) :: s.handling }
  | .loss =>
    if s.down then none
    else some { s with down := true, cancelled := s.handling.map (·.2) ++ s.cancelled, handling := [] }
  | .swap =>
    if s.down then some { s with down := false, epoch := s.epoch + 1 } else none
  | .answer h =>
    match find? s.running h with
    | none => none
    | some H =>
      if guard && H.epoch != s.epoch then some s            -- discarded: the request's connection is gone
      else some { s with wire := (s.epoch, H.id, H.hid) :: s.wire }
  | .done h =>
    match find? s.running h with
    | none => none
    | some H =>
      let running := s.running.filter (·.hid != h)
      if guard && H.epoch != s.epoch then some { s with running := running, cancelled := h :: s.cancelled }
      else some { s with running := running, cancelled := h :: s.cancelled,
                         handling := s.handling.filter (·.1 != H.id) }
  | .cancel id =>
    if s.down then none
    else match lookup s.handling id with
      | some h => some { s with cancelled := h :: s.cancelled }
      | none => some s
  | .reqLate id k =>
    -- frames wait in a queue between being read and being executed; the epoch travels with the frame
    -- (repair F18b).  A request that is stale when it is executed — its connection is being, or has been,
    -- replaced — runs with a cancelled context and is not registered for cancellation.
    if k < s.epoch || (k = s.epoch && s.down) then
      let h : Handler := { hid := s.next, id := id, epoch := k }
      if guard then
        some { s with next := s.next + 1, all := h :: s.all, running := h :: s.running,
                      cancelled := s.next :: s.cancelled }
      else
        -- before the repair the request took the epoch current at execution and was registered like any other
        let h' : Handler := { hid := s.next, id := id, epoch := s.epoch }
        some { s with next := s.next + 1, all := h' :: s.all, running := h' :: s.running,
                      handling := (id, s.next) :: s.handling.filter (·.1 != id) }
    else none

def run? (guard : Bool) (s : St) : List Ev → Option St
  | [] => some s
  | e :: es => (step? guard s e).bind (fun s' => run? guard s' es)

end Jrpc.Epoch

/-
  Jrpc.MiniGo — a small deep embedding of the Go subset the library's pure and near-pure functions are
  written in, with a total interpreter.

  The translator (`/verif/harness/cmd/extract`, file `minigo.go`) turns the *current* source of a function into a
  term of type `Stmt` (file `Jrpc/Generated/Progs.lean`, regenerated on every run).  The theorems in
  `JrpcProofs/Trans/*.lean` say, for all inputs, that running that term gives what the hand-written model of the
  same function gives: so for these functions the model is tied to the source by a translation that is
  re-done and re-proved on every run, not by comparing text.

  Design notes
  * Neither `Val`, `Expr` nor `Stmt` is a nested inductive: lists are cons chains.  `deriving DecidableEq` works
    and the interpreter is structurally recursive (loops go through `rangeLoop` / `forLoop`, which take the loop
    body's meaning as a function).
  * Everything that is not Go syntax — library calls, conversions, methods of external types — is an *extern*:
    a parameter `Ext` of the interpreter.  Each theorem names the extern semantics it assumes; an extern the
    semantics does not know makes the run `stuck`, never a default.
  * Operations that panic in Go are `Res.panic`: index out of range, nil map write, unhashable map key,
    failed type assertion, explicit `panic`.
-/
namespace Jrpc.MiniGo

inductive Val where
  | nil
  | bool (b : Bool)
  | int (n : Int)
  | str (s : String)
  | cons (hd tl : Val)              -- slices, tuples, maps (chains of `cons key value` pairs)
  | tag (t : String) (v : Val)      -- interface value with its dynamic type; errors; opaque handles
  deriving DecidableEq, Repr, Inhabited

namespace Val

def ofList : List Val → Val
  | [] => .nil
  | v :: vs => .cons v (ofList vs)

def toList : Val → List Val
  | .cons hd tl => hd :: toList tl
  | _ => []

def len : Val → Nat
  | .cons _ tl => len tl + 1
  | _ => 0

def nth : Val → Nat → Option Val
  | .cons hd _, 0 => some hd
  | .cons _ tl, n + 1 => nth tl n
  | _, _ => none

def strs (l : List String) : Val := ofList (l.map Val.str)

/-- Go truthiness of a condition value (conditions are always `bool`s in well-typed Go). -/
def asBool : Val → Option Bool
  | .bool b => some b
  | _ => none

/-- Dynamic type name of an interface value, as a type switch sees it. -/
def dynType : Val → String
  | .tag t _ => t
  | .nil => "nil"
  | .bool _ => "bool"
  | .int _ => "int"
  | .str _ => "string"
  | .cons _ _ => "slice"

/-- The concrete value inside an interface value. -/
def payload : Val → Val
  | .tag _ v => v
  | v => v

/-- Can the value be used as a map key without a run-time panic?  Slices and maps held in an interface cannot. -/
def hashable : Val → Bool
  | .tag t _ => !(t == "[]interface{}" || t == "map[string]interface{}" || t == "slice" || t == "map")
  | .cons _ _ => false
  | _ => true

/-- Map lookup on an association chain. -/
def mapGet : Val → Val → Option Val
  | .cons (.cons k v) rest, key => if k = key then some v else mapGet rest key
  | _, _ => none

def mapDel : Val → Val → Val
  | .cons (.cons k v) rest, key => if k = key then mapDel rest key else .cons (.cons k v) (mapDel rest key)
  | v, _ => v

def mapSet (m key v : Val) : Val := .cons (.cons key v) (mapDel m key)

end Val

abbrev Env := List (String × Val)

def Env.get (env : Env) (x : String) : Option Val :=
  match env with
  | [] => none
  | (k, v) :: rest => if k = x then some v else Env.get rest x

def Env.set (env : Env) (x : String) (v : Val) : Env :=
  match env with
  | [] => [(x, v)]
  | (k, w) :: rest => if k = x then (k, v) :: rest else (k, w) :: Env.set rest x v

inductive Expr where
  | lit (v : Val)
  | var (x : String)                       -- identifiers and selector paths (`b.started`)
  | addr (x : String) (ty : String)        -- `&x` passed to an extern that fills it; `ty` = declared type of x ("" if unknown)
  | un (op : String) (a : Expr)
  | bin (op : String) (a b : Expr)
  | call (fn : String) (args : Expr)       -- args: chain of `consE`
  | nilE
  | consE (hd tl : Expr)
  | tuple (es : Expr)                      -- chain of `consE`: several values (`return a, b`; `x, y = a, b`)
  | index (a i : Expr)                     -- a[i] on slices (panics out of range)
  | mapIdx (m k : Expr)                    -- m[k] on maps, one-value form (zero value `nil` when absent)
  | mapIdx2 (m k : Expr)                   -- v, ok := m[k]
  | sliceE (a lo hi : Expr)                -- a[lo:hi], `nilE` for an omitted bound
  | assert2 (e : Expr) (ty : String)       -- v, ok := e.(T)
  | assert1 (e : Expr) (ty : String)       -- e.(T), panics when it fails
  | field (e : Expr) (f : String)          -- selector on a computed value (`params[0].data`)
  deriving DecidableEq, Repr, Inhabited

inductive Stmt where
  | skip
  | seq (a b : Stmt)
  | assign (lhs : List String) (rhs : Expr)          -- `=` and `:=`; "_" discards
  | setIdx (m : String) (k : Expr) (v : Expr)        -- m[k] = v
  | ifs (init : Stmt) (cond : Expr) (thn els : Stmt)
  | ret (e : Expr)                                   -- `tuple …` or `nilE` for a bare return
  | range (k v : String) (e : Expr) (body : Stmt)
  | rangeM (k v : String) (e : Expr) (body : Stmt)   -- `for k, v := range m` over a map (an association chain), in the chain's order
  | forc (fuel : Nat) (init : Stmt) (cond : Expr) (post body : Stmt)
  | switch (init : Stmt) (tag : Expr) (cases : Stmt) -- cases: chain of `case` ending in `skip`
  | case (vals : Expr) (body rest : Stmt)            -- vals = `nilE` marks `default`
  | typeSwitch (bind : String) (e : Expr) (cases : Stmt)
  | tcase (types : List String) (body rest : Stmt)   -- types = [] marks `default`
  | exprS (e : Expr)
  | panicS (e : Expr)
  | brk
  | cont
  deriving DecidableEq, Repr, Inhabited

/-- Result of evaluating an expression: externs may update the environment (`&x`, effects). -/
inductive ERes where
  | ok (v : Val) (env : Env)
  | panic (why : String)
  | stuck (why : String)
  deriving DecidableEq, Repr, Inhabited

/-- Result of running a statement. -/
inductive Res where
  | normal (env : Env)
  | returned (v : Val) (env : Env)
  | brk (env : Env)
  | cont (env : Env)
  | panic (why : String)
  | stuck (why : String)
  deriving DecidableEq, Repr, Inhabited

/-- Semantics of everything that is not syntax: `ext fn args env`. -/
abbrev Ext := String → List Val → Env → ERes

def binop (op : String) (a b : Val) : Option Val :=
  match op, a, b with
  | "==", x, y => some (.bool (x = y))
  | "!=", x, y => some (.bool (x ≠ y))
  | "&&", .bool x, .bool y => some (.bool (x && y))
  | "||", .bool x, .bool y => some (.bool (x || y))
  | "<", .int x, .int y => some (.bool (x < y))
  | "<=", .int x, .int y => some (.bool (x ≤ y))
  | ">", .int x, .int y => some (.bool (x > y))
  | ">=", .int x, .int y => some (.bool (x ≥ y))
  | "+", .int x, .int y => some (.int (x + y))
  | "-", .int x, .int y => some (.int (x - y))
  | "*", .int x, .int y => some (.int (x * y))
  | "+", .str x, .str y => some (.str (x ++ y))
  -- float64 values are modelled as exact rationals with a positive denominator (`tag "rat" (num . den)`)
  | "*", .tag "rat" (.cons (.int a) (.int b)), .tag "rat" (.cons (.int c) (.int d)) =>
    some (.tag "rat" (.cons (.int (a * c)) (.int (b * d))))
  | "+", .tag "rat" (.cons (.int a) (.int b)), .tag "rat" (.cons (.int c) (.int d)) =>
    some (.tag "rat" (.cons (.int (a * d + c * b)) (.int (b * d))))
  | ">", .tag "rat" (.cons (.int a) (.int b)), .tag "rat" (.cons (.int c) (.int d)) =>
    some (.bool (a * d > c * b))
  | _, _, _ => none

def unop (op : String) (a : Val) : Option Val :=
  match op, a with
  | "!", .bool x => some (.bool (!x))
  | "-", .int x => some (.int (-x))
  | _, _ => none

/-- Short-circuit operators are handled by `eval`; everything else is strict. -/
def eval (ext : Ext) : Expr → Env → ERes
  | .lit v, env => .ok v env
  | .var x, env =>
    match env.get x with
    | some v => .ok v env
    | none => .stuck ("unbound " ++ x)
  | .addr x ty, env => .ok (.tag "&" (.cons (.str x) (.str ty))) env
  | .un op a, env =>
    match eval ext a env with
    | .ok v env' => match unop op v with
      | some r => .ok r env'
      | none => .stuck ("unop " ++ op)
    | r => r
  | .bin op a b, env =>
    match eval ext a env with
    | .ok va env' =>
      if op = "&&" ∧ va = .bool false then .ok (.bool false) env'
      else if op = "||" ∧ va = .bool true then .ok (.bool true) env'
      else match eval ext b env' with
        | .ok vb env'' => match binop op va vb with
          | some r => .ok r env''
          | none => .stuck ("binop " ++ op)
        | r => r
    | r => r
  | .nilE, env => .ok .nil env
  | .consE hd tl, env =>
    match eval ext hd env with
    | .ok vh env' => match eval ext tl env' with
      | .ok vt env'' => .ok (.cons vh vt) env''
      | r => r
    | r => r
  | .tuple es, env => eval ext es env
  | .call fn args, env =>
    match eval ext args env with
    | .ok vs env' => ext fn vs.toList env'
    | r => r
  | .index a i, env =>
    match eval ext a env with
    | .ok va env' => match eval ext i env' with
      | .ok (.int n) env'' =>
        if n < 0 then .panic "index out of range"
        else match va.nth n.toNat with
          | some v => .ok v env''
          | none => .panic "index out of range"
      | .ok _ _ => .stuck "index: not an int"
      | r => r
    | r => r
  | .mapIdx m k, env =>
    match eval ext m env with
    | .ok vm env' => match eval ext k env' with
      | .ok vk env'' =>
        if !vk.hashable then .panic "hash of unhashable type"
        else .ok ((vm.mapGet vk).getD .nil) env''
      | r => r
    | r => r
  | .mapIdx2 m k, env =>
    match eval ext m env with
    | .ok vm env' => match eval ext k env' with
      | .ok vk env'' =>
        if !vk.hashable then .panic "hash of unhashable type"
        else match vm.mapGet vk with
          | some v => .ok (.cons v (.cons (.bool true) .nil)) env''
          | none => .ok (.cons .nil (.cons (.bool false) .nil)) env''
      | r => r
    | r => r
  | .sliceE a lo hi, env =>
    match eval ext a env with
    | .ok va env1 => match eval ext lo env1 with
      | .ok vlo env2 => match eval ext hi env2 with
        | .ok vhi env3 => ext "slice[:]" [va, vlo, vhi] env3
        | r => r
      | r => r
    | r => r
  | .assert2 e ty, env =>
    match eval ext e env with
    | .ok v env' =>
      if v.dynType = ty then .ok (.cons v.payload (.cons (.bool true) .nil)) env'
      else .ok (.cons .nil (.cons (.bool false) .nil)) env'
    | r => r
  | .assert1 e ty, env =>
    match eval ext e env with
    | .ok v env' => if v.dynType = ty then .ok v.payload env' else .panic "interface conversion"
    | r => r
  | .field e f, env =>
    match eval ext e env with
    | .ok v env' => ext ("." ++ f) [v] env'
    | r => r

def Env.bind1 (env : Env) (x : String) (v : Val) : Env := if x = "_" then env else env.set x v

def bindMany : List String → Val → Env → Option Env
  | [], .nil, env => some env
  | x :: xs, .cons hd tl, env => bindMany xs tl (env.bind1 x hd)
  | _, _, _ => none

/-- Bind the value of a right-hand side: one name takes the whole value, several names destructure a tuple. -/
def bind (lhs : List String) (v : Val) (env : Env) : Option Env :=
  match lhs with
  | [x] => some (env.bind1 x v)
  | _ => bindMany lhs v env

/-- `for … range` over a cons chain: `step env index element`. -/
def rangeLoop (step : Env → Nat → Val → Res) : Nat → Val → Env → Res
  | i, .cons hd tl, env =>
    match step env i hd with
    | .normal env' => rangeLoop step (i + 1) tl env'
    | .cont env' => rangeLoop step (i + 1) tl env'
    | .brk env' => .normal env'
    | r => r
  | _, _, env => .normal env

/-- `for init; cond; post { body }` with a fuel bound supplied by the translator's caller. -/
def forLoop (cond : Env → ERes) (post body : Env → Res) : Nat → Env → Res
  | 0, _ => .stuck "out of fuel"
  | fuel + 1, env =>
    match cond env with
    | .ok (.bool true) env1 =>
      (match body env1 with
       | .normal env2 | .cont env2 =>
         (match post env2 with
          | .normal env3 => forLoop cond post body fuel env3
          | r => r)
       | .brk env2 => .normal env2
       | r => r)
    | .ok (.bool false) env1 => .normal env1
    | .ok _ _ => .stuck "for: condition is not a bool"
    | .panic w => .panic w
    | .stuck w => .stuck w

def exec (ext : Ext) : Stmt → Env → Res
  | .skip, env => .normal env
  | .seq a b, env =>
    match exec ext a env with
    | .normal env' => exec ext b env'
    | r => r
  | .assign lhs rhs, env =>
    match eval ext rhs env with
    | .ok v env' => match bind lhs v env' with
      | some env'' => .normal env''
      | none => .stuck "assignment arity"
    | .panic w => .panic w
    | .stuck w => .stuck w
  | .setIdx m k v, env =>
    match eval ext k env with
    | .ok vk env1 => match eval ext v env1 with
      | .ok vv env2 =>
        if !vk.hashable then .panic "hash of unhashable type"
        else match env2.get m with
          | some (.tag "nilmap" _) => .panic "assignment to entry in nil map"
          | some vm => .normal (env2.set m (vm.mapSet vk vv))
          | none => .stuck ("unbound " ++ m)
      | .panic w => .panic w
      | .stuck w => .stuck w
    | .panic w => .panic w
    | .stuck w => .stuck w
  | .ifs init cond thn els, env =>
    match exec ext init env with
    | .normal env1 =>
      (match eval ext cond env1 with
       | .ok (.bool true) env2 => exec ext thn env2
       | .ok (.bool false) env2 => exec ext els env2
       | .ok _ _ => .stuck "if: condition is not a bool"
       | .panic w => .panic w
       | .stuck w => .stuck w)
    | r => r
  | .ret e, env =>
    match eval ext e env with
    | .ok v env' => .returned v env'
    | .panic w => .panic w
    | .stuck w => .stuck w
  | .range k v e body, env =>
    match eval ext e env with
    | .ok ve env' =>
      rangeLoop (fun en i x =>
        exec ext body ((if k = "_" then en else en.set k (.int i)) |> fun en' => if v = "_" then en' else en'.set v x)) 0 ve env'
    | .panic w => .panic w
    | .stuck w => .stuck w
  | .rangeM k v e body, env =>
    -- Go iterates a map in an unspecified order: a theorem about `rangeM` that holds for every chain holds for every order
    match eval ext e env with
    | .ok ve env' =>
      rangeLoop (fun en _ x =>
        match x with
        | .cons kk vv => exec ext body ((en.bind1 k kk).bind1 v vv)
        | _ => .stuck "range over a map: not an entry") 0 ve env'
    | .panic w => .panic w
    | .stuck w => .stuck w
  | .forc fuel init cond post body, env =>
    match exec ext init env with
    | .normal env1 => forLoop (eval ext cond) (exec ext post) (exec ext body) fuel env1
    | r => r
  | .switch init tag cases, env =>
    match exec ext init env with
    | .normal env1 =>
      (match eval ext tag env1 with
       | .ok vt env2 =>
         (match exec ext cases (env2.set "$switch" vt) with
          | .brk env3 => .normal env3
          | r => r)
       | .panic w => .panic w
       | .stuck w => .stuck w)
    | r => r
  | .case vals body rest, env =>
    -- `default` (vals = nilE) is placed last by the translator
    match vals with
    | .nilE => exec ext body env
    | _ =>
      match eval ext vals env with
      | .ok vs env' =>
        if (env.get "$switch").any (fun t => vs.toList.contains t) then exec ext body env'
        else exec ext rest env'
      | .panic w => .panic w
      | .stuck w => .stuck w
  | .typeSwitch b e cases, env =>
    match eval ext e env with
    | .ok v env' =>
      (match exec ext cases (((env'.set "$type" (.str v.dynType)).set "$bind" (.str b)).set b v) with
       | .brk env3 => .normal env3
       | r => r)
    | .panic w => .panic w
    | .stuck w => .stuck w
  | .tcase types body rest, env =>
    match types with
    | [] => exec ext body env
    | _ =>
      if (env.get "$type").any (fun t => types.any (fun ty => Val.str ty = t)) then
        -- a clause with a single type binds the concrete value, any other clause keeps the interface value
        match types, env.get "$bind" with
        | [_], some (.str b) => exec ext body (if b = "_" then env else env.set b ((env.get b).getD .nil).payload)
        | _, _ => exec ext body env
      else exec ext rest env
  | .exprS e, env =>
    match eval ext e env with
    | .ok _ env' => .normal env'
    | .panic w => .panic w
    | .stuck w => .stuck w
  | .panicS e, env =>
    match eval ext e env with
    | .ok _ _ => .panic "explicit panic"
    | .panic w => .panic w
    | .stuck w => .stuck w
  | .brk, env => .brk env
  | .cont, env => .cont env

/-- Outcome of a whole function body. -/
inductive Out where
  | ret (v : Val) (env : Env)      -- returned `v` (`.nil` for a bare return or falling off the end)
  | panic (why : String)
  | stuck (why : String)
  deriving DecidableEq, Repr, Inhabited

def run (ext : Ext) (body : Stmt) (env : Env) : Out :=
  match exec ext body env with
  | .normal env' => .ret .nil env'
  | .returned v env' => .ret v env'
  | .brk _ => .stuck "break outside a loop"
  | .cont _ => .stuck "continue outside a loop"
  | .panic w => .panic w
  | .stuck w => .stuck w

def Out.val? : Out → Option Val
  | .ret v _ => some v
  | _ => none

def Out.isPanic : Out → Bool
  | .panic _ => true
  | _ => false

/-- Append to the effect log kept in the environment under "$fx". -/
def logFx (env : Env) (v : Val) : Env :=
  env.set "$fx" (Val.ofList (((env.get "$fx").getD .nil).toList ++ [v]))

def fxOf (env : Env) : List Val := ((env.get "$fx").getD .nil).toList

/-- The effects of a run that returned (none when it panicked or got stuck). -/
def Out.fx : Out → Option (List Val)
  | .ret _ env => some (fxOf env)
  | _ => none

end Jrpc.MiniGo

import Jrpc.Dispatch
/-
  Jrpc.Framing — `handler.handleReader` (handler.go): size limit, trimming, batch detection,
  per-element handling, separators; and `rpcError`'s HTTP status (server.go).

  The body is given structurally (the generator knows what it renders); the byte-level facts
  used here — `LimitReader(max+1)`, `TrimSpace`, first/last byte test — are tied by the
  differential run, which feeds the rendered bytes to the real code.
-/
namespace Jrpc

/-- A request object as decoded into the Go `request` struct, before `normalizeID`. -/
structure RawReq where
  id     : WireId
  method : Name
  params : ParamsIn
  deriving Repr, DecidableEq, Inhabited

/-- The body after the size check and `bytes.TrimSpace`, classified the way `handleReader` does. -/
inductive BodyIn where
  | blank
  | single (r : RawReq)
  | singleUndecodable (partialId : WireId)   -- leading value does not decode into `request`
  | batch (rs : List RawReq)                 -- starts with '[' and ends with ']' and decodes
  | batchUndecodable
  deriving Repr, DecidableEq, Inhabited

/-- Reply tokens.  `obj r` stands for the bytes of `json.Encoder.Encode(response r)`. -/
inductive Tok where
  | lbrack | comma | rbrack
  | obj (r : Resp)
  deriving Repr, DecidableEq, Inhabited

structure Reply where
  status  : Nat                 -- HTTP status when served through `ServeHTTP`
  toks    : List Tok
  invoked : List String         -- handler methods run, in order
  deriving Repr, DecidableEq, Inhabited

def statusOf (code : Int) : Nat := if code == codeInvalidRequest then 400 else 500

/-- HTTP status of a single (non-batch) exchange: the first write decides (nothing written: 200). -/
def singleStatus (r : Option Resp) : Nat :=
  match r with
  | some ⟨_, .error code⟩ => statusOf code
  | _ => 200

/-- The batch writer: `[` before the first element output, `,` before each later one. -/
structure BatchW where
  started : Bool := false
  toks    : List Tok := []       -- in emission order
  invoked : List String := []
  deriving Repr, DecidableEq, Inhabited

def BatchW.emit (b : BatchW) (r : Option Resp) (inv : Option String) : BatchW :=
  let invoked := match inv with | some t => b.invoked ++ [t] | none => b.invoked
  match r with
  | none => { b with invoked := invoked }
  | some r =>
    { started := true
      toks := b.toks ++ [if b.started then Tok.comma else Tok.lbrack, .obj r]
      invoked := invoked }

def BatchW.finish (b : BatchW) : List Tok :=
  if b.started then b.toks ++ [.rbrack] else b.toks

/-- `notifWriter` (handler.go): a request without an id runs with a writer that discards, so whatever
    `handle` emits for a notification — including the error object for an unknown method, bad params
    or a panic — never reaches the reply (JSON-RPC 2.0 §4.1; the WebSocket path does the same). -/
def httpWire (id : NId) (o : HandleOut) : Option Resp :=
  if id == .nil then none else o.resp

/-- One element of a batch: invalid id ↦ its own parse error (id null) and carry on. -/
def batchElem (h : Handler) (b : BatchW) (r : RawReq) : BatchW :=
  match normalizeID r.id with
  | none => b.emit (some ⟨.nil, .error codeParseError⟩) none
  | some id =>
    let o := h.handle false ⟨id, r.method, r.params⟩
    b.emit (httpWire id o) o.invoked

def Handler.handleReader (h : Handler) (maxSize : Nat) (size : Nat) (body : BodyIn) : Reply :=
  if size > maxSize then
    { status := 500, toks := [.obj ⟨.nil, .error codeParseError⟩], invoked := [] }
  else match body with
  | .blank =>
    { status := 400, toks := [.obj ⟨.nil, .error codeInvalidRequest⟩], invoked := [] }
  | .batchUndecodable =>
    { status := 500, toks := [.obj ⟨.nil, .error codeParseError⟩], invoked := [] }
  | .batch [] =>
    { status := 400, toks := [.obj ⟨.nil, .error codeInvalidRequest⟩], invoked := [] }
  | .batch rs =>
    let b := rs.foldl (batchElem h) {}
    { status := 200, toks := b.finish, invoked := b.invoked }
  | .singleUndecodable pid =>
    { status := 500, toks := [.obj ⟨echoOf pid, .error codeParseError⟩], invoked := [] }
  | .single r =>
    match normalizeID r.id with
    | none =>
      { status := 500, toks := [.obj ⟨.nil, .error codeParseError⟩], invoked := [] }
    | some id =>
      let o := h.handle false ⟨id, r.method, r.params⟩
      { status := singleStatus (httpWire id o)
        toks := match httpWire id o with | some r => [.obj r] | none => []
        invoked := match o.invoked with | some t => [t] | none => [] }

/-- Token grammar of one JSON value whose leaves are response objects. -/
def elemsOK : List Tok → Bool
  | [.obj _, .rbrack] => true
  | .obj _ :: .comma :: rest => elemsOK rest
  | _ => false

def oneValue : List Tok → Bool
  | [.obj _] => true
  | .lbrack :: rest => rest == [.rbrack] || elemsOK rest
  | _ => false

/-- The response objects of a reply, in order. -/
def objsOf : List Tok → List Resp
  | [] => []
  | .obj r :: ts => r :: objsOf ts
  | _ :: ts => objsOf ts

end Jrpc

import Jrpc.Base
/-
  Jrpc.Errors — how a handler's error travels: `handler.createError` (handler.go), the `Errors`
  registry (errors.go), `JSONRPCError.val` (response.go) and `processResponse` (client.go).

  The application's error types are parameters: what their `Error()`, `MarshalJSON`, `UnmarshalJSON`,
  `ToJSONRPCError`, `FromJSONRPCError` do is given by functions the theorems quantify over.
-/
namespace Jrpc.Errors

/-- What an error type can do beyond `Error()`. -/
inductive Cap where
  | plain          -- nothing
  | marshalable    -- json.Marshaler + json.Unmarshaler (on the pointer method set)
  | codec          -- RPCErrorCodec
  deriving Repr, DecidableEq, Inhabited

/-- A Go type as the registry keys it: a named struct type in value or pointer form. -/
structure Ty where
  name : String
  ptr  : Bool
  deriving Repr, DecidableEq, Inhabited

/-- An error value returned by a handler: dynamic type, message, opaque content. -/
structure ErrVal where
  ty      : Ty
  msg     : String
  content : String
  deriving Repr, DecidableEq, Inhabited

/-- The `error` member of a response. -/
structure WireErr where
  code : Int
  msg  : String
  metaJ : Option String := none
  data : Option String := none
  deriving Repr, DecidableEq, Inhabited

/-- Application-provided behaviour of the error types. -/
structure App where
  cap       : Ty → Cap                              -- of a dynamic type (value and pointer forms differ)
  marshal   : ErrVal → Option String                -- MarshalJSON (none = it failed)
  unmarshal : Ty → String → Option String           -- UnmarshalJSON into a fresh value: resulting content
  toWire    : ErrVal → Option WireErr               -- ToJSONRPCError
  fromWire  : Ty → WireErr → Option String          -- FromJSONRPCError into a fresh value: resulting content

/-- `Errors`: both maps, newest binding first. -/
structure Registry where
  byType : List (Ty × Int) := []
  byCode : List (Int × Ty) := []
  deriving Repr, Inhabited

/-- `NewErrors()` pre-registers the connection error under `eTempWSError`. -/
def connErrTy : Ty := { name := "RPCConnectionError", ptr := true }
def newErrors : Registry := { byType := [], byCode := [(codeTempWS, connErrTy)] }

def Registry.register (r : Registry) (code : Int) (t : Ty) : Registry :=
  { byType := (t, code) :: r.byType, byCode := (code, t) :: r.byCode }

/-- `handler.createError`. `reg = none` models a server without `WithServerErrors`. -/
def createError (app : App) (reg : Option Registry) (e : ErrVal) : WireErr :=
  let code : Int := match reg with
    | some r => (r.byType.lookup e.ty).getD 1
    | none => 1
  let out : WireErr := { code := code, msg := e.msg }
  match app.cap e.ty with
  | .codec => match app.toWire e with
      | some o => o
      | none => out                          -- "Failed to convert error to JSONRPCError": keep the plain one
  | .marshalable => match app.marshal e with
      | some m => { out with metaJ := some m }
      | none => out
  | .plain => out

/-- What the caller's error slot holds. -/
inductive CallerErr where
  | none                                        -- nil error
  | generic (e : WireErr)                        -- *JSONRPCError carrying code and message
  | typed (ty : Ty) (content : String)           -- a value of the registered type (in its registered form)
  deriving Repr, DecidableEq, Inhabited

/-- `JSONRPCError.val`. `reg = none` models a client without `WithErrors`. -/
def val (app : App) (reg : Option Registry) (e : WireErr) : CallerErr :=
  match reg with
  | none => .generic e
  | some r =>
    match r.byCode.lookup e.code with
    | none => .generic e
    | some t =>
      -- `v` is always a pointer to the registered struct: the pointer method set decides
      match app.cap { t with ptr := true } with
      | .codec => match app.fromWire t e with
          | some c => .typed t c
          | none => .generic e                   -- conversion failed: degrade to the generic error
      | .marshalable =>
          match e.metaJ with
          | some m => if m = "" then .typed t "" else
              (match app.unmarshal t m with
               | some c => .typed t c
               | none => .generic e)
          | none => .typed t ""                   -- no meta: zero value of the registered type
      | .plain => .typed t ""

/-- Handler outcome ↦ what the caller sees (`handle` + `processResponse`), value slot included:
    `some v` = the handler's value, `none` = the zero value. -/
def endToEnd (app : App) (sreg creg : Option Registry) (herr : Option ErrVal) (hval : String) :
    Option String × CallerErr :=
  match herr with
  | none => (some hval, .none)
  | some e => (none, val app creg (createError app sreg e))

end Jrpc.Errors

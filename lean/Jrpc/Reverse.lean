import Jrpc.Corr
/-
  Jrpc.Reverse — reverse clients.

  options_server.go `WithReverseClient`: when a WebSocket connection is accepted (`handleWS`) the builder
  makes a fresh `client` whose request queue becomes that connection's `requests` and whose `exiting` is
  that connection's `exiting`, and stores the proxy struct built on it in the connection's context;
  handler contexts derive from the connection's context (`handleCall`), `ExtractReverseClient` is a
  context lookup.  `ServeHTTP` without an upgrade never runs the builder.

  For its reverse calls the server-side endpoint of a connection plays the client role of `Jrpc.Corr`;
  a server is a family of such endpoints, one per connection, that share no state.
-/
namespace Jrpc.Reverse

inductive Transport where
  | ws | http | custom
  deriving Repr, DecidableEq, Inhabited

structure SrvCfg where
  reverse : Bool       -- WithReverseClient[RP] was given for the proxy type asked for
  deriving Repr, DecidableEq, Inhabited

/-- what is stored under the reverse-client key in the context of a request arriving over transport
    `t` on connection `conn`: the endpoint whose request queue the reverse client feeds -/
def ctxValue (cfg : SrvCfg) (t : Transport) (conn : Nat) : Option Nat :=
  match t with
  | .ws => if cfg.reverse then some conn else none
  | .http => none
  | .custom => none

/-- ExtractReverseClient: a lookup in the handler's context, which inherits the connection's values -/
def extract (cfg : SrvCfg) (t : Transport) (conn : Nat) : Option Nat := ctxValue cfg t conn

/-- the server: one correlation endpoint per connection -/
abbrev World := Nat → Corr.St

def World.set (w : World) (c : Nat) (s : Corr.St) : World := fun d => if d = c then s else w d

/-- an event of endpoint `c` -/
abbrev WEv := Nat × Corr.Ev

def wstep? (w : World) (e : WEv) : Option World :=
  (Corr.step? (w e.1) e.2).map (fun s => w.set e.1 s)

def wrun? (w : World) : List WEv → Option World
  | [] => some w
  | e :: es => (wstep? w e).bind (fun w' => wrun? w' es)

/-- the events of endpoint `c` in a world trace -/
def proj (c : Nat) (es : List WEv) : List Corr.Ev := (es.filter (fun e => e.1 == c)).map (·.2)

/-- a reverse call made by a handler serving connection `c` over transport `t`: the events it causes
    belong to the endpoint named by the context value, if any -/
def reverseCallEvents (cfg : SrvCfg) (t : Transport) (c : Nat) (evs : List Corr.Ev) : Option (List WEv) :=
  (extract cfg t c).map (fun target => evs.map (fun e => (target, e)))

end Jrpc.Reverse

/-
  Jrpc.Reader — httpio/reader.go: the rendezvous table of `ReaderParamDecoder` and `waitReadCloser`.

  `waitReadCloser` wraps the upload request's body.  Go's `close` of an already closed channel is a
  run-time panic, so it is an explicit `crash` outcome here (rule 2); the model guards it the way the
  code does (close once), and remembers the first read error (sticky), which is what makes
  end-of-file "reported consistently on every further read".
-/
namespace Jrpc.Reader

/-- The wrapped body as `net/http` presents it: the bytes not yet read, and whether the server has
    already closed the body (after the upload handler returned). -/
structure WRC where
  rest       : List Nat          -- bytes still to come
  stickyEOF  : Bool := false     -- a read error was returned before (it is returned again)
  waitClosed : Bool := false     -- `wait` was closed: the upload handler may return
  closeCount : Nat := 0          -- how often `close(w.wait)` executed (> 1 would be the panic)
  deriving Repr, DecidableEq, Inhabited

inductive Op where
  | read (want : Nat) (got : Nat) (eofWithData : Bool)
      -- Read(p) with len p = want; the body delivered `got ≤ want` bytes; `eofWithData`: it
      -- reported EOF together with the last bytes (allowed by io.Reader)
  | close
  deriving Repr, DecidableEq, Inhabited

inductive Out where
  | data (bytes : List Nat) (eof : Bool)
  | closed
  | crash
  | refused        -- the trace step is not one the body can take (got > want, got > rest, …)
  deriving Repr, DecidableEq, Inhabited

/-- closing `wait`: once. -/
def WRC.closeWait (w : WRC) : WRC :=
  if w.waitClosed then w else { w with waitClosed := true, closeCount := w.closeCount + 1 }

/-- `Read`. -/
def readStep (w : WRC) (want got : Nat) (eofWithData : Bool) : WRC × Out :=
  if w.stickyEOF then (w, .data [] true)                       -- remembered error, body not touched
  else if got > want || got > w.rest.length || (got == 0 && !w.rest.isEmpty && want > 0) then
    (w, .refused)               -- not a step a blocking body can take (it never returns (0, nil))
  else
    -- the body reports EOF when nothing is left and either nothing was delivered now or it chose to
    -- report it together with the data
    if (w.rest.drop got).isEmpty && (got == 0 || eofWithData) then
      ({ w with rest := w.rest.drop got, stickyEOF := true }.closeWait, .data (w.rest.take got) true)
    else ({ w with rest := w.rest.drop got }, .data (w.rest.take got) false)

def step (w : WRC) : Op → WRC × Out
  | .read want got eofWithData => readStep w want got eofWithData
  | .close => (w.closeWait, .closed)

def run (w : WRC) : List Op → WRC × List Out
  | [] => (w, [])
  | op :: ops =>
    let (w', o) := step w op
    let (w'', os) := run w' ops
    (w'', o :: os)

/-- All bytes handed to the handler so far, in order. -/
def bytesOf : List Out → List Nat
  | [] => []
  | .data bs _ :: os => bs ++ bytesOf os
  | _ :: os => bytesOf os

/-! ### the rendezvous table -/

/-- One entry of `readers`: the unbuffered hand-off channel of a uuid, with the parties blocked on it. -/
structure Slot where
  offers  : List Nat := []     -- upload handlers blocked sending (their reader ids), oldest first
  waiters : Nat := 0           -- decoders blocked receiving
  deriving Repr, DecidableEq, Inhabited

abbrev Table := List (Nat × Slot)     -- uuid ↦ slot

def Table.get (t : Table) (u : Nat) : Slot := (t.lookup u).getD {}
def Table.set (t : Table) (u : Nat) (s : Slot) : Table := (u, s) :: t.filter (·.1 != u)

inductive TEvent where
  | upload (uuid reader : Nat)     -- the push handler arrives with the request body `reader`
  | decode (uuid : Nat)            -- the param decoder arrives
  deriving Repr, DecidableEq, Inhabited

/-- A completed hand-off: decoder asking for `uuid` received `reader`. -/
structure Handoff where
  uuid   : Nat
  reader : Nat
  deriving Repr, DecidableEq, Inhabited

def tstep (t : Table) : TEvent → Table × Option Handoff
  | .upload u r =>
    let s := t.get u
    if s.waiters > 0 then (t.set u { s with waiters := s.waiters - 1 }, some ⟨u, r⟩)
    else (t.set u { s with offers := s.offers ++ [r] }, none)
  | .decode u =>
    let s := t.get u
    match s.offers with
    | r :: rest => (t.set u { s with offers := rest }, some ⟨u, r⟩)
    | [] => (t.set u { s with waiters := s.waiters + 1 }, none)

def trun (t : Table) : List TEvent → Table × List Handoff
  | [] => (t, [])
  | e :: es =>
    let (t', h) := tstep t e
    let (t'', hs) := trun t' es
    (t'', h.toList ++ hs)

end Jrpc.Reader

import Jrpc.Ops
/-
  jrpc-driver — the model behind a one-line-in, one-line-out protocol.
  Every input line is a JSON object with an "op" member; the answer is one JSON line.
  A line the driver cannot decode is answered with {"driver_error": …} (never a default).
-/
open Lean Jrpc

partial def loop (hIn : IO.FS.Stream) (hOut : IO.FS.Stream) : IO Unit := do
  let line ← hIn.getLine
  if line.isEmpty then return ()
  let out : Json :=
    match Json.parse line with
    | .error e => Json.mkObj [("driver_error", s!"parse: {e}")]
    | .ok j =>
      match Ops.run j with
      | .ok r => r
      | .error e => Json.mkObj [("driver_error", e)]
  hOut.putStrLn out.compress
  hOut.flush
  loop hIn hOut

def main : IO Unit := do
  loop (← IO.getStdin) (← IO.getStdout)

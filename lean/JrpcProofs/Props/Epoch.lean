import Jrpc.Epoch
/-
  Theorems about `Jrpc.Epoch` (requests served across a replaced connection; repair F18).
  Used by C16 (a reverse call gets its own answer), C02 (no call observes another call's result) and
  C06 (a cancellation reaches exactly the cancelled call's handler).
-/
namespace JrpcProofs.Epoch
open Jrpc.Epoch

structure Inv (s : St) : Prop where
  fresh    : ∀ H ∈ s.all, H.hid < s.next
  sub      : ∀ H ∈ s.running, H ∈ s.all
  distinct : ∀ H ∈ s.all, ∀ H' ∈ s.all, H.hid = H'.hid → H = H'
  past     : ∀ H ∈ s.all, H.epoch ≤ s.epoch
  downOld  : s.down = true → s.handling = []
  wire     : ∀ w ∈ s.wire, ∃ H ∈ s.all, H.hid = w.2.2 ∧ H.id = w.2.1 ∧ H.epoch = w.1
  sound    : ∀ p ∈ s.handling, ∃ H ∈ s.running, H.hid = p.2 ∧ H.id = p.1 ∧ H.epoch = s.epoch
  complete : ∀ H ∈ s.running, H.epoch = s.epoch → s.down = false → (H.id, H.hid) ∈ s.handling
  keys     : ∀ p ∈ s.handling, ∀ q ∈ s.handling, p.1 = q.1 → p = q

theorem inv_init : Inv ({} : St) := by
  constructor <;> simp

theorem find?_mem {l : List Handler} {h : Nat} {H : Handler} (hf : find? l h = some H) : H ∈ l ∧ H.hid = h := by
  unfold find? at hf
  have h1 := List.mem_of_find?_eq_some hf
  have h2 := List.find?_some hf
  exact ⟨h1, by simpa using h2⟩

theorem lookup_none {m : List (Nat × Nat)} {id : Nat} (h : (lookup m id).isSome = false) : ∀ p ∈ m, p.1 ≠ id := by
  intro p hp hid
  unfold lookup at h
  cases hf : m.find? (·.1 == id) with
  | some q => simp [hf] at h
  | none =>
    have := List.find?_eq_none.mp hf p hp
    simp [hid] at this

theorem lookup_some {m : List (Nat × Nat)} {id h : Nat} (hl : lookup m id = some h) : (id, h) ∈ m := by
  unfold lookup at hl
  cases hf : m.find? (·.1 == id) with
  | none => simp [hf] at hl
  | some q =>
    simp [hf] at hl
    have h1 := List.mem_of_find?_eq_some hf
    have h2 := List.find?_some hf
    have : q = (id, h) := by
      cases q with
      | mk a b => simp at h2 hl; simp [h2, hl]
    exact this ▸ h1

theorem lookup_of_mem {m : List (Nat × Nat)} {id h : Nat} (hm : (id, h) ∈ m)
    (hk : ∀ p ∈ m, ∀ q ∈ m, p.1 = q.1 → p = q) : lookup m id = some h := by
  unfold lookup
  cases hf : m.find? (·.1 == id) with
  | none =>
    have := List.find?_eq_none.mp hf (id, h) hm
    simp at this
  | some q =>
    have h1 := List.mem_of_find?_eq_some hf
    have h2 := List.find?_some hf
    have h3 : q.1 = id := by simpa using h2
    have := hk q h1 (id, h) hm (by simpa using h3)
    simp [this]

/-- The invariant is preserved by every step of the repaired code. -/
theorem step_inv (s s' : St) (e : Ev) (hi : Inv s) (hs : step? true s e = some s') : Inv s' := by
  cases e with
  | req id =>
    simp only [step?] at hs
    split at hs
    · cases hs
    · rename_i hdown
      split at hs
      · cases hs
      · rename_i hnone
        have hnone' : (lookup s.handling id).isSome = false := by simpa using hnone
        have hfresh := lookup_none hnone'
        cases hs
        constructor
        · intro H hH
          simp only [List.mem_cons] at hH
          rcases hH with rfl | hH
          · simp
          · have := hi.fresh H hH; show H.hid < s.next + 1; omega
        · intro H hH
          simp only [List.mem_cons] at hH ⊢
          rcases hH with rfl | hH
          · exact Or.inl rfl
          · exact Or.inr (hi.sub H hH)
        · intro H hH H' hH' heq
          simp only [List.mem_cons] at hH hH'
          rcases hH with rfl | hH <;> rcases hH' with rfl | hH'
          · rfl
          · have := hi.fresh H' hH'; simp at heq; omega
          · have := hi.fresh H hH; simp at heq; omega
          · exact hi.distinct H hH H' hH' heq
        · intro H hH
          simp only [List.mem_cons] at hH
          rcases hH with rfl | hH
          · simp
          · exact hi.past H hH
        · intro hd
          have hd' : s.down = true := hd
          rw [hd'] at hdown; exact absurd hdown (by simp)
        · intro w hw
          obtain ⟨H, hH, h1⟩ := hi.wire w hw
          exact ⟨H, List.mem_cons_of_mem _ hH, h1⟩
        · intro p hp
          simp only [List.mem_cons] at hp
          rcases hp with rfl | hp
          · exact ⟨_, List.mem_cons_self, rfl, rfl, rfl⟩
          · obtain ⟨H, hH, h1⟩ := hi.sound p hp
            exact ⟨H, List.mem_cons_of_mem _ hH, h1⟩
        · intro H hH hep hd
          simp only [List.mem_cons] at hH ⊢
          rcases hH with rfl | hH
          · exact Or.inl rfl
          · exact Or.inr (hi.complete H hH hep (by simpa using hdown))
        · intro p hp q hq hpq
          simp only [List.mem_cons] at hp hq
          rcases hp with rfl | hp <;> rcases hq with rfl | hq
          · rfl
          · exact absurd hpq.symm (hfresh q hq)
          · exact absurd hpq (hfresh p hp)
          · exact hi.keys p hp q hq hpq
  | loss =>
    simp only [step?] at hs
    split at hs
    · cases hs
    · cases hs
      constructor
      · exact hi.fresh
      · exact hi.sub
      · exact hi.distinct
      · exact hi.past
      · intro _; rfl
      · exact hi.wire
      · intro p hp; simp at hp
      · intro H hH hep hd; simp at hd
      · intro p hp; simp at hp
  | swap =>
    simp only [step?] at hs
    split at hs
    · rename_i hdown
      cases hs
      have hempty := hi.downOld hdown
      constructor
      · exact hi.fresh
      · exact hi.sub
      · exact hi.distinct
      · intro H hH; have := hi.past H hH; simp; omega
      · intro hd; simp at hd
      · exact hi.wire
      · intro p hp; simp [hempty] at hp
      · intro H hH hep _
        have := hi.past H (hi.sub H hH)
        simp at hep; omega
      · intro p hp; simp [hempty] at hp
    · cases hs
  | answer h =>
    simp only [step?] at hs
    split at hs
    · cases hs
    · rename_i H hf
      obtain ⟨hmem, hhid⟩ := find?_mem hf
      split at hs
      · cases hs; exact hi
      · rename_i hg
        cases hs
        have hep : H.epoch = s.epoch := by simpa using hg
        constructor
        · exact hi.fresh
        · exact hi.sub
        · exact hi.distinct
        · exact hi.past
        · exact hi.downOld
        · intro w hw
          simp only [List.mem_cons] at hw
          rcases hw with rfl | hw
          · exact ⟨H, hi.sub H hmem, rfl, rfl, hep⟩
          · exact hi.wire w hw
        · exact hi.sound
        · exact hi.complete
        · exact hi.keys
  | done h =>
    simp only [step?] at hs
    split at hs
    · cases hs
    · rename_i H hf
      obtain ⟨hmem, hhid⟩ := find?_mem hf
      split at hs
      · -- a handler of a previous connection returns: the map is left alone
        rename_i hg
        have hne : H.epoch ≠ s.epoch := by simpa using hg
        cases hs
        constructor
        · exact hi.fresh
        · intro K hK; exact hi.sub K (List.mem_filter.mp hK).1
        · exact hi.distinct
        · exact hi.past
        · exact hi.downOld
        · exact hi.wire
        · intro p hp
          obtain ⟨K, hK, h1, h2, h3⟩ := hi.sound p hp
          refine ⟨K, List.mem_filter.mpr ⟨hK, ?_⟩, h1, h2, h3⟩
          have : K ≠ H := fun hKH => hne (hKH ▸ h3)
          have hd : K.hid ≠ H.hid := fun hh => this (hi.distinct K (hi.sub K hK) H (hi.sub H hmem) hh)
          simpa [hhid] using hd
        · intro K hK hep hd
          exact hi.complete K (List.mem_filter.mp hK).1 hep hd
        · exact hi.keys
      · rename_i hg
        have hep : H.epoch = s.epoch := by simpa using hg
        cases hs
        constructor
        · exact hi.fresh
        · intro K hK; exact hi.sub K (List.mem_filter.mp hK).1
        · exact hi.distinct
        · exact hi.past
        · intro hd; simp [hi.downOld hd]
        · exact hi.wire
        · intro p hp
          obtain ⟨hp1, hp2⟩ := List.mem_filter.mp hp
          obtain ⟨K, hK, h1, h2, h3⟩ := hi.sound p hp1
          refine ⟨K, List.mem_filter.mpr ⟨hK, ?_⟩, h1, h2, h3⟩
          have hid : K.id ≠ H.id := by simpa [h2] using hp2
          have hd : K.hid ≠ H.hid := fun hh => hid (by rw [hi.distinct K (hi.sub K hK) H (hi.sub H hmem) hh])
          simpa [hhid] using hd
        · intro K hK hKe hd
          obtain ⟨hK1, hK2⟩ := List.mem_filter.mp hK
          have hin := hi.complete K hK1 hKe hd
          refine List.mem_filter.mpr ⟨hin, ?_⟩
          -- K is another invocation of this connection: its id differs from H's
          have hHin := hi.complete H hmem hep hd
          have hne : K.hid ≠ H.hid := by simpa [hhid] using hK2
          have : K.id ≠ H.id := by
            intro hid
            have := hi.keys _ hin _ hHin (by simpa using hid)
            simp at this
            exact hne this.2
          simpa using this
        · intro p hp q hq hpq
          exact hi.keys p (List.mem_filter.mp hp).1 q (List.mem_filter.mp hq).1 hpq
  | cancel id =>
    simp only [step?] at hs
    split at hs
    · cases hs
    · split at hs <;> cases hs
      · exact ⟨hi.fresh, hi.sub, hi.distinct, hi.past, hi.downOld, hi.wire, hi.sound, hi.complete, hi.keys⟩
      · exact hi
  | reqLate id k =>
    simp only [step?] at hs
    split at hs
    · rename_i hstale
      simp only [if_true] at hs
      cases hs
      constructor
      · intro H hH
        simp only [List.mem_cons] at hH
        rcases hH with rfl | hH
        · simp
        · have := hi.fresh H hH; show H.hid < s.next + 1; omega
      · intro H hH
        simp only [List.mem_cons] at hH ⊢
        rcases hH with rfl | hH
        · exact Or.inl rfl
        · exact Or.inr (hi.sub H hH)
      · intro H hH H' hH' heq
        simp only [List.mem_cons] at hH hH'
        rcases hH with rfl | hH <;> rcases hH' with rfl | hH'
        · rfl
        · have := hi.fresh H' hH'; simp at heq; omega
        · have := hi.fresh H hH; simp at heq; omega
        · exact hi.distinct H hH H' hH' heq
      · intro H hH
        simp only [List.mem_cons] at hH
        rcases hH with rfl | hH
        · simp only [Bool.or_eq_true, decide_eq_true_eq, Bool.and_eq_true] at hstale
          show k ≤ s.epoch
          rcases hstale with h | h
          · omega
          · omega
        · exact hi.past H hH
      · exact hi.downOld
      · intro w hw
        obtain ⟨H, hH, h1⟩ := hi.wire w hw
        exact ⟨H, List.mem_cons_of_mem _ hH, h1⟩
      · intro p hp
        obtain ⟨H, hH, h1⟩ := hi.sound p hp
        exact ⟨H, List.mem_cons_of_mem _ hH, h1⟩
      · intro H hH hep hd
        simp only [List.mem_cons] at hH
        rcases hH with rfl | hH
        · simp only [Bool.or_eq_true, decide_eq_true_eq, Bool.and_eq_true] at hstale
          have hep' : k = s.epoch := hep
          have hd' : s.down = false := hd
          rcases hstale with h | h
          · omega
          · rw [hd'] at h; simp at h
        · exact hi.complete H hH hep hd
      · exact hi.keys
    · cases hs

theorem run_inv (es : List Ev) : ∀ (s s' : St), Inv s → run? true s es = some s' → Inv s' := by
  induction es with
  | nil => intro s s' hi hr; simp [run?] at hr; exact hr ▸ hi
  | cons e es ih =>
    intro s s' hi hr
    simp only [run?] at hr
    cases hst : step? true s e with
    | none => simp [hst] at hr
    | some s1 =>
      simp [hst] at hr
      exact ih s1 s' (step_inv s s1 e hi hst) hr

/-- **Own answer** (C16, C02 for the serving side): whatever history of requests, losses, reconnects,
    late answers and late returns — every response the endpoint writes on a connection, under a request
    id, comes from the invocation that was started for the request with that id *which arrived on that
    connection*. -/
theorem Epoch_answer_own (es : List Ev) (s : St) (hr : run? true {} es = some s)
    (c i h : Nat) (hw : (c, i, h) ∈ s.wire) :
    ∃ H ∈ s.all, H.hid = h ∧ H.id = i ∧ H.epoch = c := by
  have hi := run_inv es {} s inv_init hr
  exact hi.wire (c, i, h) hw

/-- An invocation whose connection has been replaced writes nothing at all. -/
theorem Epoch_stale_silent (s : St) (h : Nat) (H : Handler) (hf : find? s.running h = some H)
    (hne : H.epoch ≠ s.epoch) : step? true s (.answer h) = some s := by
  simp [step?, hf, hne]

/-- **A cancellation reaches the call it names** (C06): on a live connection, the handler serving the
    request with id `i` of this connection is the one whose context `xrpc.cancel i` cancels — also after
    any number of reconnects and late returns of handlers that were started under the same id on earlier
    connections. -/
theorem Epoch_cancel_reaches (es : List Ev) (s : St) (hr : run? true {} es = some s)
    (H : Handler) (hrun : H ∈ s.running) (hcur : H.epoch = s.epoch) (hup : s.down = false) :
    ∃ s', step? true s (.cancel H.id) = some s' ∧ H.hid ∈ s'.cancelled := by
  have hi := run_inv es {} s inv_init hr
  have hin := hi.complete H hrun hcur hup
  have hl := lookup_of_mem hin hi.keys
  refine ⟨{ s with cancelled := H.hid :: s.cancelled }, ?_, by simp⟩
  simp [step?, hup, hl]

/-- … and only that one: a cancel adds at most one invocation to the cancelled ones, and it is a running
    invocation of the current connection with exactly that id. -/
theorem Epoch_cancel_only (es : List Ev) (s s' : St) (hr : run? true {} es = some s) (id : Nat)
    (hs : step? true s (.cancel id) = some s') (k : Nat) (hk : k ∈ s'.cancelled) (hnew : k ∉ s.cancelled) :
    ∃ H ∈ s.running, H.hid = k ∧ H.id = id ∧ H.epoch = s.epoch := by
  have hi := run_inv es {} s inv_init hr
  simp only [step?] at hs
  split at hs
  · cases hs
  · split at hs
    · rename_i h hl
      cases hs
      simp only [List.mem_cons] at hk
      rcases hk with rfl | hk
      · obtain ⟨H, hH, h1, h2, h3⟩ := hi.sound (id, k) (lookup_some hl)
        exact ⟨H, hH, h1, h2, h3⟩
      · exact absurd hk hnew
    · cases hs; exact absurd hk hnew

/-- A returning handler of an earlier connection leaves the bookkeeping of the current one alone. -/
theorem Epoch_stale_done_keeps (s s' : St) (h : Nat) (H : Handler) (hf : find? s.running h = some H)
    (hne : H.epoch ≠ s.epoch) (hs : step? true s (.done h) = some s') : s'.handling = s.handling := by
  simp [step?, hf, hne] at hs
  cases hs; rfl

/-- A request that is stale when it is executed (F18b) changes nothing for the current connection: the map and
    the wire stay as they are, and its context is cancelled from the start. -/
theorem Epoch_late_request_inert (s s' : St) (id k : Nat) (hs : step? true s (.reqLate id k) = some s') :
    s'.handling = s.handling ∧ s'.wire = s.wire ∧ s.next ∈ s'.cancelled := by
  simp only [step?] at hs
  split at hs
  · simp only [if_true] at hs; cases hs; simp
  · cases hs

/-- … so its answer is never written: when it is executed its epoch already differs from the current one, or the
    connection is being replaced and will have changed before anything can be written to it. -/
theorem Epoch_late_answer_silent (s s1 s2 : St) (id k : Nat) (hlt : k < s.epoch)
    (h1 : step? true s (.reqLate id k) = some s1) (h2 : step? true s1 (.answer s.next) = some s2) :
    s2.wire = s.wire := by
  have hstale : (decide (k < s.epoch) || (decide (k = s.epoch) && s.down)) = true := by simp [hlt]
  simp only [step?, hstale, if_true] at h1
  cases h1
  simp only [step?, find?, List.find?_cons, beq_self_eq_true] at h2
  have hne : (k != s.epoch) = true := by simp; omega
  simp [hne] at h2
  cases h2; rfl

/-! ### The code before the repair (F18) fails both, on a five-event history -/

/-- request 1 on the first connection; loss; reconnect; request 1 on the second connection; the first
    handler answers. -/
def staleAnswer : List Ev := [.req 1, .loss, .swap, .req 1, .answer 0]

/-- Before the repair the answer of invocation 0 (connection 0) is written on connection 1 under id 1 … -/
example : (run? false {} staleAnswer).map (·.wire) = some [(1, 1, 0)] := by decide
/-- … the repaired code writes nothing. -/
example : (run? true {} staleAnswer).map (·.wire) = some [] := by decide

/-- … the first handler returns, then the peer cancels request 1 of the second connection. -/
def staleCancel : List Ev := [.req 1, .loss, .swap, .req 1, .done 0, .cancel 1]

/-- Before the repair invocation 1 is never cancelled (0 was cancelled by the loss and by its own return) … -/
example : (run? false {} staleCancel).map (fun s => decide (1 ∈ s.cancelled)) = some false := by decide
/-- … with the repair it is. -/
example : (run? true {} staleCancel).map (fun s => decide (1 ∈ s.cancelled)) = some true := by decide

/-- the first request is still queued when its connection ends; it is executed after the redial, and answers. -/
def staleQueued : List Ev := [.loss, .swap, .reqLate 1 0, .req 1, .answer 0]

/-- Before repair F18b its answer is written on connection 1 under id 1 (its request arrived on connection 0); with the
    repair nothing is written and the genuine request of connection 1 is the one registered under the id. -/
example : (run? false {} [.loss, .swap, .reqLate 1 0, .answer 0]).map (·.wire) = some [(1, 1, 0)] := by decide
example : (run? true {} staleQueued).map (fun s => (s.wire, s.handling)) = some ([], [(1, 1)]) := by decide

/-- Non-vacuity: a history with two reconnects, overlapping ids and late handlers is accepted, the invariant's
    premises hold of it, and its wire carries one answer per connection. -/
def busy : List Ev :=
  [.req 1, .req 2, .answer 1, .done 1, .loss, .swap, .req 1, .req 2, .answer 0, .done 0, .answer 2, .cancel 2,
   .loss, .swap, .req 1, .answer 3, .answer 4, .done 4, .done 2, .done 3]
example : (run? true {} busy).map (·.wire) = some [(2, 1, 4), (1, 1, 2), (0, 2, 1)] := by decide

end JrpcProofs.Epoch

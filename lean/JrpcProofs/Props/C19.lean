import Jrpc.Auth
/-
  C19 — Permission checks: a method runs iff the caller holds its permission.
  Property theorems only.  Model: `Jrpc.Auth`.
-/
namespace Jrpc.C19
open Jrpc.Auth

/-- C19_effective: the caller's set is exactly what was attached (even if empty), else the defaults. -/
theorem C19_effective (attached : Option (List Perm)) (defaults : List Perm) :
    (∀ ps, attached = some ps → effective attached defaults = ps) ∧
    (attached = none → effective attached defaults = defaults) := by
  constructor
  · intro ps h; subst h; rfl
  · intro h; subst h; rfl

/-- C19_iff: the implementation is invoked iff the required permission is in the effective set;
    otherwise the outcome is the permission error and nothing was invoked. -/
theorem C19_iff {α} (attached : Option (List Perm)) (defaults : List Perm) (required : Perm)
    (impl : Unit → α) :
    (required ∈ effective attached defaults →
        proxyCall attached defaults required impl = .ran (impl ())) ∧
    (required ∉ effective attached defaults →
        proxyCall attached defaults required impl = .denied) := by
  constructor
  · intro h
    have : hasPerm attached defaults required = true := by simpa [hasPerm] using h
    simp [proxyCall, this]
  · intro h
    have : hasPerm attached defaults required = false := by simpa [hasPerm] using h
    simp [proxyCall, this]

/-- An attached empty list denies everything, whatever the defaults. -/
theorem C19_empty_attached_denies {α} (defaults : List Perm) (required : Perm) (impl : Unit → α) :
    proxyCall (some []) defaults required impl = .denied := by
  simp [proxyCall, hasPerm, effective]

theorem bearer_prefix (t : List Char) : bearer.isPrefixOf (bearer ++ t) = true := by
  simp [bearer, List.isPrefixOf]

theorem bearer_drop (t : List Char) : (bearer ++ t).drop bearer.length = t := by
  simp

/-- C19_http (header): `Authorization: Bearer t` runs the next handler with exactly `verify t`,
    or answers 401 when the verifier rejects `t`; the query parameter is ignored. -/
theorem C19_http_header (t query : List Char) (verify : List Char → Option (List Perm)) :
    serveHTTP (bearer ++ t) query verify =
      (match verify t with | some ps => .next (some ps) | none => .unauthorized) := by
  have hne : bearer ++ t ≠ [] := by simp [bearer]
  unfold serveHTTP
  simp only [hne, ne_eq, not_false_eq_true, if_true, if_false, bearer_prefix, bearer_drop,
    Bool.not_true, Bool.false_eq_true]
  cases verify t <;> rfl

/-- C19_http (query): without a header, `?token=t` (non-empty) behaves like `Bearer t`. -/
theorem C19_http_query (t : List Char) (ht : t ≠ []) (verify : List Char → Option (List Perm)) :
    serveHTTP [] t verify =
      (match verify t with | some ps => .next (some ps) | none => .unauthorized) := by
  have hne : bearer ++ t ≠ [] := by simp [bearer]
  unfold serveHTTP
  simp only [ne_eq, not_true_eq_false, if_false, ht, not_false_eq_true, if_true, hne,
    bearer_prefix, bearer_drop, Bool.not_true, Bool.false_eq_true]
  cases verify t <;> rfl

/-- C19_http (no token): the next handler runs with nothing attached. -/
theorem C19_http_none (verify : List Char → Option (List Perm)) :
    serveHTTP [] [] verify = .next none := by
  simp [serveHTTP]

/-- C19_http (wrong prefix): a non-empty header that does not start with "Bearer " is answered 401
    and the verifier's verdict is irrelevant. -/
theorem C19_http_malformed (header query : List Char) (verify : List Char → Option (List Perm))
    (hne : header ≠ []) (hp : bearer.isPrefixOf header = false) :
    serveHTTP header query verify = .unauthorized := by
  simp [serveHTTP, hne, hp]

/-- Non-vacuity. -/
example : proxyCall (some ["read"]) ["admin"] "read" (fun _ => 7) = .ran 7 := by decide
example : proxyCall (some ["read"]) ["admin"] "admin" (fun _ => 7) = .denied := by decide
example : proxyCall none ["admin"] "admin" (fun _ => 7) = .ran 7 := by decide
example : serveHTTP "Bearer tok".toList "other".toList
    (fun t => if t = "tok".toList then some ["read"] else none) = .next (some ["read"]) := by decide
example : serveHTTP "Basic tok".toList [] (fun _ => some ["read"]) = .unauthorized := by decide

end Jrpc.C19

import Jrpc.Cancel
/-
  C06 — Cancellation reaches exactly the cancelled call's handler, and nothing else.
  Property theorems only.  Model: `Jrpc.Cancel` (server role).  The client side of the exchange — a
  cancelled caller context makes `doRequest` enqueue one `xrpc.cancel [id]` carrying the call's own id,
  a cancelled subscription context makes `handleCtxAsync` write the same — is tied by the regenerated
  skeletons of `setupRequestChan` and `handleCtxAsync`; the peer is honest: it sends `xrpc.cancel [id]`
  only for a caller that cancelled.
-/
namespace Jrpc.C06
open Jrpc Jrpc.Cancel
set_option linter.unusedSimpArgs false

@[simp] theorem setHd_handling (s : St) (h : Nat) (f : Hd → Hd) : (s.setHd h f).handling = s.handling := rfl
@[simp] theorem setHd_connDone (s : St) (h : Nat) (f : Hd → Hd) : (s.setHd h f).connDone = s.connDone := rfl
@[simp] theorem setHd_seen (s : St) (h : Nat) (f : Hd → Hd) : (s.setHd h f).seen = s.seen := rfl
@[simp] theorem setHandling_hd (s : St) (id : NId) (v : Option Nat) : (s.setHandling id v).hd = s.hd := rfl
@[simp] theorem setHandling_connDone (s : St) (id : NId) (v : Option Nat) : (s.setHandling id v).connDone = s.connDone := rfl
@[simp] theorem setHandling_seen (s : St) (id : NId) (v : Option Nat) : (s.setHandling id v).seen = s.seen := rfl
theorem setHandling_same (s : St) (id : NId) (v : Option Nat) : (s.setHandling id v).handling id = v := by
  simp [St.setHandling]
theorem setHandling_ne (s : St) (id i : NId) (v : Option Nat) (h : i ≠ id) : (s.setHandling id v).handling i = s.handling i := by
  simp [St.setHandling, h]
theorem setHd_same (s : St) (h : Nat) (f : Hd → Hd) : (s.setHd h f).hd h = f (s.hd h) := by simp [St.setHd]
theorem setHd_ne (s : St) (h k : Nat) (f : Hd → Hd) (hne : k ≠ h) : (s.setHd h f).hd k = s.hd k := by
  simp [St.setHd, hne]

/-- C06_only: executing `xrpc.cancel [id]` touches the handler registered under `id` and no other —
    not its context, not its registration, nothing. -/
theorem C06_only (s s' : St) (id : NId) (found : Bool) (hs : step? s (.cancelFrame id found) = some s')
    (k : Nat) (hk : s.handling id ≠ some k) :
    s'.hd k = s.hd k ∧ s'.handling = s.handling ∧ s'.connDone = s.connDone := by
  simp only [step?] at hs
  cases hl : s.handling id with
  | none =>
    cases found <;> simp [hl] at hs
    subst hs; exact ⟨rfl, rfl, rfl⟩
  | some h =>
    cases found <;> simp [hl] at hs
    subst hs
    have : k ≠ h := by intro e; subst e; exact hk hl
    simp [St.setHd, this]

/-- C06_reach: executing the cancel frame of a call that is registered cancels exactly that call's
    handler context. -/
theorem C06_reach (s s' : St) (id : NId) (h : Nat) (hl : s.handling id = some h)
    (hs : step? s (.cancelFrame id true) = some s') : s'.ctxCancelled h = true := by
  simp only [step?, hl] at hs
  cases hs
  simp [St.ctxCancelled, St.setHd]

/-- Every cancellation has a recorded cause; the only causes ever recorded are a cancel frame with the
    handler's own id, its own return without keeping the context, and the sweep. -/
structure Inv (s : St) : Prop where
  caused : ∀ h, (s.hd h).cancelled = true → (s.hd h).why ≠ []
  frameId : ∀ h, Why.cancelFrame ∈ (s.hd h).why → (s.hd h).id ∈ s.seen
  noConnCtx : ∀ h, Why.connCtx ∉ (s.hd h).why
  entry : ∀ id h, s.handling id = some h → (s.hd h).id = id ∧ (s.hd h).started = true ∧ id ≠ .nil
  fresh : ∀ h, (s.hd h).started = false → (s.hd h).why = [] ∧ (s.hd h).cancelled = false

theorem inv_init : Inv {} := by constructor <;> simp

set_option maxHeartbeats 4000000 in
theorem inv_step (s s' : St) (e : Ev) (h : Inv s) (hs : step? s e = some s') : Inv s' := by
  obtain ⟨h1, h2, h3, h4, h5⟩ := h
  cases e <;> simp only [step?] at hs <;> repeat' split at hs
  all_goals first | (cases hs; done) | skip
  all_goals cases hs
  all_goals constructor
  all_goals (try simp only [Bool.or_eq_true, Bool.and_eq_true, Bool.not_eq_true', bne_iff_ne, beq_iff_eq, ne_eq,
    not_or, not_and, Bool.not_eq_true, decide_eq_true_eq, Option.isSome_iff_ne_none, not_not] at *)
  all_goals (try simp only [setHd_handling, setHd_connDone, setHd_seen, setHandling_hd, setHandling_connDone,
    setHandling_seen] at *)
  all_goals (try grind [setHd_same, setHd_ne, setHandling_same, setHandling_ne])
  · -- call, id-bearing: the table entry
    rename_i hh idd hguard hnil
    have hst : (s.hd hh).started = false := by
      cases hs0 : (s.hd hh).started with
      | false => rfl
      | true => exact absurd (by simp [hs0]) hguard
    intro i k hk
    by_cases hi : i = idd
    · subst hi
      rw [setHandling_same] at hk; cases hk
      rw [setHd_same]; exact ⟨rfl, rfl, hnil⟩
    · rw [setHandling_ne _ _ _ _ hi] at hk
      have := h4 i k hk
      by_cases hkh : k = hh
      · subst hkh; rw [hst] at this; simp at this
      · rw [setHd_ne _ _ _ _ hkh]; exact this
  · -- done without keeping the context: the entry under its id is removed
    rename_i hh kp hnil hguard hkeep
    intro i k hk
    by_cases hi : i = (s.hd hh).id
    · subst hi; rw [setHandling_same] at hk; cases hk
    · rw [setHandling_ne _ _ _ _ hi] at hk
      have := h4 i k hk
      by_cases hkh : k = hh
      · subst hkh; exact absurd this.1.symm hi
      · rw [setHd_ne _ _ _ _ hkh]; exact this

theorem inv_run (es : List Ev) (s s' : St) (h : Inv s) (hr : run? s es = some s') : Inv s' := by
  induction es generalizing s with
  | nil => simp [run?] at hr; subst hr; exact h
  | cons e es ih =>
    simp only [run?] at hr
    cases hs : step? s e with
    | none => simp [hs] at hr
    | some s1 => simp only [hs, Option.bind_some] at hr; exact ih s1 (inv_step s s1 e h hs) hr

/-- C06_nospurious: in every reachable state, a handler that sees its context cancelled while its
    connection is still up was cancelled by a cancel frame carrying its own id (which an honest peer
    sends only because the caller cancelled), or has itself returned without keeping its context, or was
    swept because the connection was lost.  Nothing else cancels a handler. -/
theorem C06_nospurious (es : List Ev) (s : St) (hr : run? {} es = some s) (h : Nat)
    (hc : s.ctxCancelled h = true) (hup : s.connDone = false) :
    (Why.cancelFrame ∈ (s.hd h).why ∧ (s.hd h).id ∈ s.seen) ∨
    Why.doneNoKeep ∈ (s.hd h).why ∨ Why.sweep ∈ (s.hd h).why := by
  have inv := inv_run es {} s inv_init hr
  have hcan : (s.hd h).cancelled = true := by
    simp [St.ctxCancelled, hup] at hc; exact hc
  have hne := inv.caused h hcan
  cases hw : (s.hd h).why with
  | nil => exact absurd hw hne
  | cons w ws =>
    have hmem : w ∈ (s.hd h).why := by rw [hw]; exact List.mem_cons_self
    cases w with
    | cancelFrame => left; rw [← hw]; exact ⟨hmem, inv.frameId h hmem⟩
    | doneNoKeep => right; left; rw [← hw]; exact hmem
    | sweep => right; right; rw [← hw]; exact hmem
    | connCtx => exact absurd hmem (inv.noConnCtx h)

/-- … in particular a handler whose id never appeared in a cancel frame, that has not returned and was
    not swept, is not cancelled (other calls and subscriptions stay live). -/
theorem C06_others_live (es : List Ev) (s : St) (hr : run? {} es = some s) (h : Nat)
    (hup : s.connDone = false) (hnot : (s.hd h).id ∉ s.seen)
    (hnd : Why.doneNoKeep ∉ (s.hd h).why) (hns : Why.sweep ∉ (s.hd h).why) : s.ctxCancelled h = false := by
  cases hc : s.ctxCancelled h with
  | false => rfl
  | true =>
    rcases C06_nospurious es s hr h hc hup with ⟨_, h2⟩ | h2 | h2
    · exact absurd h2 hnot
    · exact absurd h2 hnd
    · exact absurd h2 hns

/-- C06_sub: a call that keeps its context (channel result) stays registered after its handler
    returned, so a later cancel frame with its id still finds and cancels it. -/
theorem C06_sub (s s1 : St) (h : Nat) (hd1 : step? s (.done h true) = some s1) :
    s1.handling = s.handling ∧ (s1.hd h).cancelled = (s.hd h).cancelled := by
  simp only [step?] at hd1
  split at hd1
  · cases hd1
  · simp at hd1; subst hd1; simp [St.setHd]

/-- Non-vacuity: two calls and a subscription; only the cancelled call's handler is cancelled. -/
def demo : List Ev := [.call 1 (.num "1"), .call 2 (.num "2"), .call 3 (.num "3"), .done 3 true,
  .cancelFrame (.num "2") true, .cancelFrame (.num "9") false]
example : (run? {} demo).map (fun s => (s.ctxCancelled 1, s.ctxCancelled 2, s.ctxCancelled 3)) = some (false, true, false) := by
  decide
example : ((run? {} demo).bind (fun s => step? s (.cancelFrame (.num "3") true))).map (fun s => s.ctxCancelled 3) = some true := by
  decide

end Jrpc.C06

import JrpcProofs.Lemmas.Corr
/-
  C02 — Each concurrent call completes exactly once and with its own response.
  Property theorems only.  Model: `Jrpc.Corr`; every number of callers, every completion order at the
  peer and every interleaving of registration, writing, reading, delivery and sweeping is an event list
  accepted by `run?`.  Ids of attempts that are inside `doRequest` at the same time differ (the id
  counter; below 2^53 calls the `int64 → float64` key conversion is injective — DESIGN §8).
-/
namespace Jrpc.C02
open Jrpc Jrpc.Corr

/-- C02_own: whatever a caller ever takes out of its `ready` channel is either the synthetic connection
    error, the acknowledgement of its own notification, or a response frame carrying exactly its own
    id — never another call's response. -/
theorem C02_own (es : List Ev) (s : St) (hr : run? {} es = some s) (a : Nat) (m : Msg)
    (hm : (s.att a).recvd = some m) : m = .connErr ∨ m = .ack ∨ m = .genuine (s.att a).id :=
  (reach_inv es s hr).1.own a m (Or.inr hm)

/-- C02_once: a caller receives at most once — a second `recv` of the same attempt is never enabled —
    and its `ready` channel never holds more than one message. -/
theorem C02_once (s : St) (a : Nat) (e : Bool) (m : Msg) (h : (s.att a).recvd = some m) :
    step? s (.recv a e) = none := by
  simp only [step?]
  split
  · rename_i heq; rw [h] at heq; cases heq
  · rfl

theorem C02_mailbox_bound (es : List Ev) (s : St) (hr : run? {} es = some s) (a : Nat) :
    (s.att a).mail.length ≤ 1 := (reach_inv es s hr).1.cap a

/-- C02_nodrop: a response frame whose id is in `inflight` when it is executed is handed to exactly
    the attempt registered under that id: after `lookup id true` the only executor moves are `deliver`
    to that attempt, the completion of that send, and the removal of that entry. -/
theorem C02_nodrop (es : List Ev) (s s' : St) (hr : run? {} es = some s) (id : NId)
    (hs : step? s (.lookup id true) = some s') :
    ∃ a, s.getInflight id = some a ∧ s'.fePending = some (id, a) ∧ (s.att a).id = id := by
  simp only [step?] at hs
  split at hs
  · cases hs
  · cases hl : s.getInflight id with
    | none => simp [hl] at hs
    | some a =>
      simp only [hl] at hs
      split at hs
      · cases hs
        exact ⟨a, rfl, rfl, ((reach_inv es s hr).1.infl id a hl).1⟩
      · cases hs

theorem C02_deliver_to_owner (s s' : St) (id : NId) (a : Nat) (hs : step? s (.deliver id a) = some s') :
    s.fePending = some (id, a) := by
  simp only [step?] at hs
  split at hs
  · rename_i h; simpa using h
  · cases hs

/-- A response for an id nobody waits for is dropped without touching any attempt. -/
theorem C02_unknown_dropped (s s' : St) (id : NId) (hs : step? s (.lookup id false) = some s') : s' = s := by
  simp only [step?] at hs
  split at hs
  · cases hs
  · cases hl : s.getInflight id with
    | none => simp [hl] at hs; exact hs.symm
    | some a => simp [hl] at hs

/-- C02_http (one-shot transports): a response is handed to the caller only if its normalised id
    equals the request's id. -/
def oneShotAccept (reqId : NId) (respId : WireId) : Bool :=
  match normalizeID respId with
  | some i => i == reqId
  | none => false

theorem C02_http (reqId : NId) (respId : WireId) (h : oneShotAccept reqId respId = true) :
    normalizeID respId = some reqId := by
  unfold oneShotAccept at h
  cases hn : normalizeID respId with
  | none => simp [hn] at h
  | some i => simp [hn] at h; rw [h]

/-- Non-vacuity: two concurrent calls answered in the opposite order. -/
def demo : List Ev := [.enq 1 (.num "1"), .enq 2 (.num "2"), .take 1, .errCheck 1 false, .register 1, .wrote 1, .take 2, .errCheck 2 false, .register 2, .wrote 2,
  .peerExec 2, .peerExec 1, .lookup (.num "2") true, .deliver (.num "2") 2, .deliverDone, .delete (.num "2"),
  .lookup (.num "1") true, .deliver (.num "1") 1, .deliverDone, .recv 1 false, .delete (.num "1"), .recv 2 false]
example : (run? {} demo).map (fun s => ((s.att 1).recvd, (s.att 2).recvd, s.inflight)) =
    some (some (.genuine (.num "1")), some (.genuine (.num "2")), []) := by decide

end Jrpc.C02

import JrpcProofs.Props.C06
/-
  C15 — When a connection ends the server cancels its handlers and lets go of it.
  Property theorems only.  Model: `Jrpc.Cancel` — the handler contexts (first half) and the library
  goroutines that serve one connection (second half: main loop, reader, frame executor, channel
  forwarder, pinger, response writers).
-/
namespace Jrpc.C15
open Jrpc Jrpc.Cancel

/-- C15_cancel: once the connection has ended (`handleWsConn` returned, whatever the cause: close
    frame, FIN, RST, or a server-side context cancel), every handler that was started for it —
    id-bearing, notification, streaming, reverse-calling — sees its context cancelled, for every
    continuation: handler contexts derive from the connection's context. -/
theorem C15_cancel (s : St) (hd : s.connDone = true) (h : Nat) (hs : (s.hd h).started = true) :
    s.ctxCancelled h = true := by
  simp [St.ctxCancelled, hd, hs]

theorem C15_connEnd_sticks (s s' : St) (e : Ev) (hd : s.connDone = true) (hs : step? s e = some s') :
    s'.connDone = true := by
  cases e <;> simp only [step?] at hs <;> repeat' split at hs
  all_goals first | (cases hs; done) | (cases hs; simp_all [St.setHd, St.setHandling])

/-- … and no new handler is started on an ended connection. -/
theorem C15_no_call_after_end (s : St) (hd : s.connDone = true) (h : Nat) (id : NId) :
    step? s (.call h id) = none := by
  simp [step?, hd]

/-- The sweep (closeInFlight, which runs on the way out) cancels every registered call by itself. -/
theorem C15_sweep_cancels (s s' : St) (id : NId) (h : Nat) (hl : s.handling id = some h)
    (hinv : C06.Inv s) (hs : step? s .sweep = some s') : (s'.hd h).cancelled = true := by
  simp only [step?] at hs
  cases hs
  have := (hinv.entry id h hl).1
  simp [this, hl]

/-! ### C15_release: the goroutines of the dead connection -/

/-- After the main loop has exited, every step strictly reduces the remaining work … -/
theorem C15_rank_decreases (p p' : Procs) (e : PEv) (hx : p.mainExited = true) (hs : pstep? p e = some p') :
    p'.rank < p.rank := by
  cases e <;> simp only [pstep?] at hs <;> repeat' split at hs
  all_goals first | (cases hs; done) | skip
  all_goals cases hs
  all_goals simp_all [Procs.rank]
  all_goals (try omega)
  all_goals (repeat' split) <;> simp_all <;> omega

/-- … and as long as something is left, some step is enabled — provided the handlers have returned
    (no writer is still serving a handler that never finishes) and the reader is not stuck: a reader
    holding a message notices `exiting`; a reader inside a frame finishes it; a blocked NextReader
    fails once the socket is closed; a writer that cannot get a message writer releases its handler. -/
theorem C15_progress (p : Procs) (hx : p.mainExited = true) (hnd : p.allDone = false) :
    ∃ e, (pstep? p e).isSome := by
  by_cases h1 : p.socketClosed = true
  · by_cases h2 : p.reader = .done
    · by_cases h3 : p.feDone = true
      · by_cases h4 : p.fwdDone = true
        · by_cases h5 : p.pingerDone = true
          · cases hw : p.wHolder with
            | some b =>
              cases b
              · exact ⟨.writerFail, by simp [pstep?, hw]⟩
              · exact ⟨.writerDone, by simp [pstep?, hw]⟩
            | none =>
              have : p.wWaiting ≠ 0 := by
                intro h0
                simp [Procs.allDone, hx, h1, h2, h3, h4, h5, hw, h0] at hnd
              exact ⟨.writerLock, by simp [pstep?, hw]; omega⟩
          · exact ⟨.pingerExit, by simp [pstep?, hx, h5]⟩
        · exact ⟨.fwdExit, by simp [pstep?, hx, h4]⟩
      · exact ⟨.feExit, by simp [pstep?, hx, h3]⟩
    · cases hr : p.reader with
      | done => exact absurd hr h2
      | inNextReader => exact ⟨.readerFail, by simp [pstep?, hr, h1]⟩
      | handingOff => exact ⟨.readerHandoffExit, by simp [pstep?, hr, hx]⟩
      | reading => exact ⟨.readerReadDone, by simp [pstep?, hr]⟩
  · exact ⟨.socketClose, by simp [pstep?, hx, h1]⟩

/-- C15_release: hence from every state after the exit, every maximal run ends — within `rank` steps —
    in the state where no library goroutine of the connection is left. -/
theorem C15_release (p : Procs) (hx : p.mainExited = true) :
    p.rank = 0 → p.socketClosed = true ∧ p.reader = .done ∧ p.feDone = true ∧ p.fwdDone = true ∧
      p.pingerDone = true ∧ p.wWaiting = 0 ∧ p.wHolder = none := by
  intro h0
  unfold Procs.rank at h0
  refine ⟨?_, ?_, ?_, ?_, ?_, ?_, ?_⟩
  · cases h : p.socketClosed <;> simp [h] at h0 ⊢
  · cases h : p.reader <;> simp [h] at h0 ⊢ <;> omega
  · cases h : p.feDone <;> simp [h] at h0 ⊢
  · cases h : p.fwdDone <;> simp [h] at h0 ⊢
  · cases h : p.pingerDone <;> simp [h] at h0 ⊢
  · omega
  · cases h : p.wHolder with
    | none => rfl
    | some b => cases b <;> simp [h] at h0 <;> omega

/-- a handler waiting for its response writer is always released: with a writer, or with the failure -/
theorem C15_waiter_released (p : Procs) (h : p.wHolder = some false) :
    (pstep? p .writerFail).isSome ∧ ((pstep? p .writerFail).map (·.released)) = some (p.released + 1) := by
  simp [pstep?, h]

/-- Non-vacuity: a graceful close with a handler still answering: the writer fails, the handler is
    released, everything ends. -/
def demoP : Procs := { mainExited := true, reader := .handingOff, wWaiting := 1 }
def runP (p : Procs) : List PEv → Option Procs
  | [] => some p
  | e :: es => (pstep? p e).bind (fun q => runP q es)
example : (runP demoP [.socketClose, .readerHandoffExit, .feExit, .fwdExit, .pingerExit, .writerLock, .writerFail]).map
    (fun p => (p.allDone, p.released, p.rank)) = some (true, 1, 0) := by decide

end Jrpc.C15

import JrpcProofs.Lemmas.Dispatch
/-
  C12 — Dispatch by formatted name, then alias; bad arity or types never run a handler.

  Property theorems only.  Model: `Jrpc.Dispatch` (`Fmt.apply`, `register`, `Handler.resolve`,
  `Handler.handle`).
-/
namespace Jrpc.C12
open Jrpc

/-- Tables are built by a sequence of `register` calls on the empty table. -/
def build (f : Fmt) : List (Name × List (Name × Method)) → Table
  | [] => []
  | (ns, ms) :: rest => register f ns ms (build f rest)   -- head = most recent registration

/-- C12_direct: a name that is a key of the method table runs that entry, whatever the alias table says. -/
theorem C12_direct (h : Handler) (name : Name) (m : Method) (hm : h.methods.lookup name = some m) :
    h.resolve name = some m := by
  simp [Handler.resolve, hm]

/-- … and the entry under a key is the most recently registered one. -/
theorem C12_direct_latest (f : Fmt) (ns n : Name) (m : Method) (ms : List (Name × Method)) (t : Table) :
    (register f ns (ms ++ [(n, m)]) t).lookup (f.apply ns n) = some m := by
  rw [register_append]
  simp [register, lookup_insert_self]

/-- C12_alias: otherwise the target of the alias runs — one hop, through the method table only. -/
theorem C12_alias (h : Handler) (name target : Name)
    (hd : h.methods.lookup name = none) (ha : h.aliases.lookup name = some target) :
    h.resolve name = h.methods.lookup target := by
  simp [Handler.resolve, hd, ha]

/-- C12_notfound: neither a direct name nor an alias of an existing method: −32601 and no invocation. -/
theorem C12_notfound (h : Handler) (chanOK : Bool) (req : Req)
    (hd : h.methods.lookup req.method = none)
    (ha : h.aliases.lookup req.method = none ∨
          ∃ t, h.aliases.lookup req.method = some t ∧ h.methods.lookup t = none) :
    h.handle chanOK req = { resp := some ⟨req.id, .error (-32601)⟩, invoked := none } := by
  have hr : h.resolve req.method = none := by
    rcases ha with ha | ⟨t, ha, ht⟩
    · simp [Handler.resolve, hd, ha]
    · simp [Handler.resolve, hd, ha, ht]
  simp [Handler.handle, hr, codeMethodNotFound]

/-- C12_noleak: with a namespace-including dot formatter and dot-free Go method names, a request for
    `fmt ns m` that is served directly is served by a method registered under namespace `ns`. -/
theorem C12_noleak (f : Fmt) (hns : f.incNs = true) (hsep : f.sep = ['.'])
    (regs : List (Name × List (Name × Method)))
    (hdot : ∀ p ∈ regs, ∀ q ∈ p.2, '.' ∉ q.1)
    (ns m : Name) (hm : '.' ∉ m) (meth : Method)
    (hl : (build f regs).lookup (f.apply ns m) = some meth) :
    ∃ ms n, (ns, ms) ∈ regs ∧ (n, meth) ∈ ms ∧ f.meth n = f.meth m := by
  induction regs with
  | nil => simp [build] at hl
  | cons p rest ih =>
    obtain ⟨ns', ms⟩ := p
    simp only [build] at hl
    rcases lookup_register f ns' ms (build f rest) _ _ hl with ⟨n, hn, hk⟩ | hrest
    · have hn' : '.' ∉ n := hdot (ns', ms) List.mem_cons_self (n, meth) hn
      obtain ⟨e1, e2⟩ := fmt_injective f hns hsep ns' ns n m hn' hm hk
      exact ⟨ms, n, by rw [← e1]; exact List.mem_cons_self, hn, e2⟩
    · obtain ⟨ms', n, h1, h2, h3⟩ := ih (fun p hp => hdot p (List.mem_cons_of_mem _ hp)) hrest
      exact ⟨ms', n, List.mem_cons_of_mem _ h1, h2, h3⟩

/-- C12_agree: a client that formats `(ns, m)` with the server's formatter names a key of the table
    as soon as `(ns, m)` was registered (so the request is served directly, and by C12_noleak by a
    method of namespace `ns`). -/
theorem C12_agree (f : Fmt) (ns n : Name) (m : Method) (ms : List (Name × Method)) (t : Table)
    (hreg : (n, m) ∈ ms) :
    ((register f ns ms t).lookup (f.apply ns n)).isSome := lookup_register_isSome f ns ms t n m hreg

/-- C12_gate: whenever `handle` runs a handler, the method is raw, or the positional params had the
    declared arity and every one of them decoded into its declared type. -/
theorem C12_gate (h : Handler) (chanOK : Bool) (req : Req) (tag : String)
    (hi : (h.handle chanOK req).invoked = some tag) :
    ∃ m, h.resolve req.method = some m ∧ m.tag = tag ∧
      (m.raw = true ∨ (req.params.count? = some m.nParams ∧
                        paramsDecode m.ptypes req.params.elems = true)) := by
  unfold Handler.handle at hi
  split at hi
  · simp at hi
  · rename_i m hm
    refine ⟨m, hm, ?_⟩
    split at hi
    · simp at hi
    · by_cases hraw : m.raw = true
      · simp only [hraw, if_true] at hi
        refine ⟨?_, Or.inl hraw⟩
        repeat' split at hi
        all_goals simp_all
      · simp only [hraw] at hi
        cases hc : req.params.count? with
        | none => simp [hc] at hi
        | some n =>
          simp only [hc] at hi
          by_cases hn : (n != m.nParams) = true
          · simp [hn] at hi
          · by_cases hd : paramsDecode m.ptypes req.params.elems = true
            · have hn' : n = m.nParams := by simpa using hn
              refine ⟨?_, Or.inr ⟨by rw [hn'], hd⟩⟩
              simp only [hn, hd, if_true] at hi
              repeat' split at hi
              all_goals simp_all
            · simp [hn, hd] at hi

/-- C12_gate, error side: wrong arity or an undecodable param is answered with an error, no handler. -/
theorem C12_gate_rejects (h : Handler) (chanOK : Bool) (req : Req) (m : Method)
    (hm : h.resolve req.method = some m) (hraw : m.raw = false)
    (hbad : req.params.count? ≠ some m.nParams ∨ paramsDecode m.ptypes req.params.elems = false) :
    (h.handle chanOK req).invoked = none ∧
    ∃ code, (h.handle chanOK req).resp = some ⟨req.id, .error code⟩ := by
  constructor
  · cases hi : (h.handle chanOK req).invoked with
    | none => rfl
    | some tag =>
      obtain ⟨m', hm', _, hok⟩ := C12_gate h chanOK req tag hi
      rw [hm] at hm'; cases hm'
      rcases hok with hr | ⟨h1, h2⟩
      · simp [hraw] at hr
      · rcases hbad with hb | hb
        · exact absurd h1 hb
        · simp [h2] at hb
  · unfold Handler.handle
    simp only [hm, hraw]
    split
    · exact ⟨_, rfl⟩
    · cases hc : req.params.count? with
      | none => exact ⟨_, rfl⟩
      | some n =>
        by_cases hn : (n != m.nParams) = true
        · simp only [hn, if_true]; exact ⟨_, rfl⟩
        · have hn' : n = m.nParams := by simpa using hn
          rcases hbad with hb | hb
          · exact absurd (by rw [hc, hn']) hb
          · simp only [hn, hb]; exact ⟨_, rfl⟩

/-- Non-vacuity: two namespaces with a shared method name, an alias shadowed by a direct name. -/
def mA : Method := { tag := "A.Foo", ptypes := ["int"], hasCtx := false, raw := false, out := .val, isChan := false, behav := .ok }
def mB : Method := { mA with tag := "B.Foo" }
def dflt : Fmt := { incNs := true, lower := false }
def tbl : Table := build dflt [("B".toList, [("Foo".toList, mB)]), ("A".toList, [("Foo".toList, mA)])]
def hnd : Handler := { methods := tbl, aliases := [("A.Foo".toList, "B.Foo".toList), ("x".toList, "B.Foo".toList)] }

example : hnd.resolve "A.Foo".toList = some mA ∧ hnd.resolve "x".toList = some mB ∧
          hnd.resolve "Foo".toList = none := by decide
example : (hnd.handle false ⟨.num "1", "A.Foo".toList, .arr [["int"], ["int"]]⟩).invoked = none := by decide
example : (hnd.handle false ⟨.num "1", "A.Foo".toList, .arr [["int"]]⟩).invoked = some "A.Foo" := by decide

end Jrpc.C12
